(* Defaults of attributes and the privacy of feature state:
   EAttribute.__init__/get_default_value (ecore.py:737-757), EDataType.default_value
   with type_as_factory (552-557), EStructuralFeature.__get__/__set__/__delete__
   materialisation (676-725) for single-valued attributes.  Mutable defaults
   (dict/list built by a factory type) have identity: a location in a small
   heap, so that aliasing between instances is expressible.  No proofs here. *)
From Coq Require Import ZArith List Bool Arith.
From PyecoreV Require Import Lib.PyBase Lib.PyList Model.Coll.
Import ListNotations.
Open Scope nat_scope.

Inductive dval : Type := DV (z : Z) | DNone | DLoc (l : nat).

(* the data type's default: a plain value / None, or built afresh by the type used as a factory *)
Inductive tdefault : Type := TDVal (v : option Z) | TDFactory.

Record adecl : Type := {
  a_literal : option Z;       (* defaultValueLiteral, already through from_string *)
  a_explicit : option Z;      (* default_value given to the EAttribute *)
  a_tdefault : tdefault
}.

Record dstate : Type := {
  slot : nat -> nat -> option dval;      (* None: not materialised in the instance __dict__ *)
  dset : nat -> nat -> bool;             (* eIsSet *)
  heap : nat -> list Z;
  nextloc : nat
}.

Definition dinit : dstate :=
  {| slot := fun _ _ => None; dset := fun _ _ => false; heap := fun _ => []; nextloc := 0 |}.

Definition upd2 {A} (g : nat -> nat -> A) (o a : nat) (v : A) : nat -> nat -> A :=
  fun o' a' => if (o =? o') && (a =? a') then v else g o' a'.
Definition upd1 {A} (g : nat -> A) (k : nat) (v : A) : nat -> A :=
  fun k' => if k =? k' then v else g k'.

(* EAttribute.get_default_value: literal, else the attribute's own default
   (explicit, or the type's when it is not a factory), else the type's *)
Definition fresh_default (d : adecl) (s : dstate) : dval * dstate :=
  match a_literal d with
  | Some z => (DV z, s)
  | None =>
    match a_explicit d with
    | Some z => (DV z, s)
    | None =>
      match a_tdefault d with
      | TDVal (Some z) => (DV z, s)
      | TDVal None => (DNone, s)
      | TDFactory =>
        (DLoc (nextloc s),
         {| slot := slot s; dset := dset s; heap := upd1 (heap s) (nextloc s) []; nextloc := S (nextloc s) |})
      end
    end
  end.

(* __get__ *)
Definition dread (decl : nat -> adecl) (s : dstate) (o a : nat) : dval * dstate :=
  match slot s o a with
  | Some v => (v, s)
  | None =>
    let '(v, s1) := fresh_default (decl a) s in
    (v, {| slot := upd2 (slot s1) o a (Some v); dset := dset s1; heap := heap s1; nextloc := nextloc s1 |})
  end.

(* __set__ with an immutable value (or None) *)
Definition dwrite (decl : nat -> adecl) (s : dstate) (o a : nat) (v : option Z) : dstate :=
  let s1 := snd (dread decl s o a) in     (* EValue.__init__ evaluates the default when the slot is created *)
  {| slot := upd2 (slot s1) o a (Some (match v with Some z => DV z | None => DNone end));
     dset := upd2 (dset s1) o a true; heap := heap s1; nextloc := nextloc s1 |}.

(* __delete__: getattr, then setattr(get_default_value()) *)
Definition ddel (decl : nat -> adecl) (s : dstate) (o a : nat) : dstate :=
  let s1 := snd (dread decl s o a) in
  let '(v, s2) := fresh_default (decl a) s1 in
  {| slot := upd2 (slot s2) o a (Some v); dset := upd2 (dset s2) o a true; heap := heap s2; nextloc := nextloc s2 |}.

(* o.a.append(x) / o.a[k] = x on the container obtained by reading *)
Definition dmutate (decl : nat -> adecl) (s : dstate) (o a : nat) (x : Z) : dstate :=
  let '(v, s1) := dread decl s o a in
  match v with
  | DLoc l => {| slot := slot s1; dset := dset s1; heap := upd1 (heap s1) l (heap s1 l ++ [x]); nextloc := nextloc s1 |}
  | _ => s1
  end.

(* what a read of (o, a) returns, without performing it *)
Inductive dview : Type := WZ (z : Z) | WNone | WList (l : list Z).

Definition view_of (s : dstate) (v : dval) : dview :=
  match v with DV z => WZ z | DNone => WNone | DLoc l => WList (heap s l) end.

Definition dview_at (decl : nat -> adecl) (s : dstate) (o a : nat) : dview :=
  match slot s o a with
  | Some v => view_of s v
  | None => let '(v, s1) := fresh_default (decl a) s in view_of s1 v
  end.

Inductive dop : Type :=
| DRead (o a : nat) | DWrite (o a : nat) (v : option Z) | DDel (o a : nat) | DMutate (o a : nat) (x : Z).

Definition dstep (decl : nat -> adecl) (s : dstate) (op : dop) : dstate :=
  match op with
  | DRead o a => snd (dread decl s o a)
  | DWrite o a v => dwrite decl s o a v
  | DDel o a => ddel decl s o a
  | DMutate o a x => dmutate decl s o a x
  end.

(* ---- codec ----  decls: n, then per attr: lit? lit expl? expl tkind tval ; ops: code o a x *)
Definition NONEZ : Z := (-99999)%Z.
Definition zn (z : Z) := Z.to_nat z.

Fixpoint dec_decls (n : nat) (t : list Z) : list adecl * list Z :=
  match n with
  | O => ([], t)
  | S n' =>
    match t with
    | hl :: l :: he :: e :: tk :: tv :: rest =>
      let d := {| a_literal := if (hl =? 0)%Z then None else Some l;
                  a_explicit := if (he =? 0)%Z then None else Some e;
                  a_tdefault := if (tk =? 2)%Z then TDFactory
                                else TDVal (if (tk =? 0)%Z then None else Some tv) |} in
      let '(ds, r) := dec_decls n' rest in (d :: ds, r)
    | _ => ([], [])
    end
  end.

Definition dummy_decl : adecl := {| a_literal := None; a_explicit := None; a_tdefault := TDVal None |}.

Fixpoint dec_dops (fuel : nat) (t : list Z) : list dop :=
  match fuel with
  | O => []
  | S fu =>
    match t with
    | c :: o :: a :: x :: rest =>
      (match c with
       | 1%Z => DRead (zn o) (zn a)
       | 2%Z => DWrite (zn o) (zn a) (if (x =? NONEZ)%Z then None else Some x)
       | 3%Z => DDel (zn o) (zn a)
       | _ => DMutate (zn o) (zn a) x
       end) :: dec_dops fu rest
    | _ => []
    end
  end.

Definition enc_view (w : dview) : list Z :=
  match w with
  | WZ z => [0%Z; z]
  | WNone => [1%Z; 0%Z]
  | WList l => [2%Z; Z.of_nat (length l)] ++ l
  end.

Fixpoint pairs (no na : nat) : list (nat * nat) :=
  flat_map (fun o => map (fun a => (o, a)) (seq 0 na)) (seq 0 no).

(* after every op: for every (object, attribute): eIsSet and the value a read would give *)
Fixpoint run_dops (decl : nat -> adecl) (no na : nat) (s : dstate) (ops : list dop) : list Z :=
  match ops with
  | [] => []
  | op :: rest =>
    let s' := dstep decl s op in
    flat_map (fun oa => (if dset s' (fst oa) (snd oa) then 1%Z else 0%Z) :: enc_view (dview_at decl s' (fst oa) (snd oa)))
             (pairs no na)
    ++ run_dops decl no na s' rest
  end.

Definition run_defaults (t : list Z) : list Z :=
  match t with
  | no :: na :: rest =>
    let '(ds, r) := dec_decls (zn na) rest in
    run_dops (fun a => nth a ds dummy_decl) (zn no) (zn na) dinit (dec_dops (length r) r)
  | _ => []
  end.
