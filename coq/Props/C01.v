(* C01 — opposite references stay symmetric.  Statements only; proofs in
   Proofs/C01Proofs.v.  Model: Model/Kernel.v (EValue._set, ECollection.remove
   and their opposite handling, statement by statement).
   Proved here, for every state and object:
   * the releasing direction, for every multiplicity pairing (1-1, 1-n, n-1,
     n-n, self-opposites included): unsetting a single-valued end and removing
     from a multi-valued end keep `y in x.r  <->  x in y.r'`;
   * the LINKING direction for all four pairings (two distinct features):
     x.r = y on a 1-1 and on a 1-n pair (whatever x and y were linked to
     before: the previous partner of x is released, y is detached from its
     previous partner), x.r.append(y) / insert on an n-1 pair (y leaves the
     collection that held it) and on an n-n pair — the statement's headline
     "re-pointing one end also releases the previous partner".
   PARTIAL: linking through a self-opposite feature, pop/clear/extend/item
   assignment/delete as compositions, and the interplay with containment are
   not yet theorems; they are carried by the correspondence and the
   symmetric-pair oracle (harness/props/c01.py). *)
From Coq Require Import List Bool Arith.
From PyecoreV Require Import Lib.PyBase Lib.PyList Model.Kernel Proofs.KernelFacts Proofs.C01Proofs.
Import ListNotations.

Theorem C01_unset_keeps_symmetry_partial :
  forall m, no_containment m -> wf_opp m ->
  forall s x f g,
    sym m s -> shape m s ->
    f_opp (fd m f) = Some g -> f_many (fd m f) = false ->
    sym m (snd (set_full m s (x, f) VNone)).
Proof. exact unset_preserves_sym. Qed.
Print Assumptions C01_unset_keeps_symmetry_partial.

Theorem C01_remove_keeps_symmetry_partial :
  forall m, no_containment m -> wf_opp m ->
  forall s x f g y,
    sym m s -> shape m s ->
    f_opp (fd m f) = Some g -> f_many (fd m f) = true -> R s f x y ->
    sym m (coll_remove_full m s (x, f) (VObj y)).
Proof. exact remove_preserves_sym. Qed.
Print Assumptions C01_remove_keeps_symmetry_partial.

Theorem C01_repointing_one_to_one_keeps_symmetry_partial :
  forall m, no_containment m -> wf_opp m ->
  forall s x f g y,
    sym m s -> shape m s ->
    f_opp (fd m f) = Some g -> f <> g ->
    f_many (fd m f) = false -> f_many (fd m g) = false ->
    check_single m f (VObj y) = true ->
    sym m (snd (set_full m s (x, f) (VObj y))).
Proof. exact set11_preserves_sym. Qed.
Print Assumptions C01_repointing_one_to_one_keeps_symmetry_partial.

Theorem C01_repointing_one_to_many_keeps_symmetry_partial :
  forall m, no_containment m -> wf_opp m ->
  forall s x f g y,
    sym m s -> shape m s ->
    f_opp (fd m f) = Some g -> f <> g ->
    f_many (fd m f) = false -> f_many (fd m g) = true ->
    check_single m f (VObj y) = true ->
    sym m (snd (set_full m s (x, f) (VObj y))).
Proof. exact set_1n_preserves_sym. Qed.
Print Assumptions C01_repointing_one_to_many_keeps_symmetry_partial.

Theorem C01_append_many_to_one_keeps_symmetry_partial :
  forall m, no_containment m -> wf_opp m ->
  forall s x f g pos y,
    sym m s -> shape m s ->
    f_opp (fd m f) = Some g -> f <> g ->
    f_many (fd m f) = true -> f_many (fd m g) = false ->
    check_elem m f (VObj y) = true ->
    sym m (snd (coll_add_full m s (x, f) pos (VObj y))).
Proof. exact add_n1_preserves_sym. Qed.
Print Assumptions C01_append_many_to_one_keeps_symmetry_partial.

Theorem C01_append_many_to_many_keeps_symmetry_partial :
  forall m, no_containment m -> wf_opp m ->
  forall s x f g pos y,
    sym m s ->
    f_opp (fd m f) = Some g -> f <> g ->
    f_many (fd m f) = true -> f_many (fd m g) = true ->
    check_elem m f (VObj y) = true ->
    sym m (snd (coll_add_full m s (x, f) pos (VObj y))).
Proof. exact add_nn_preserves_sym. Qed.
Print Assumptions C01_append_many_to_many_keeps_symmetry_partial.

(* non-vacuity: a 1-n pair, a reachable symmetric state, and the theorem's conclusion computed *)
Definition ex_mm : mm :=
  {| feats := [ {| f_owner := 0; f_isref := true; f_many := false; f_unique := true; f_cont := false;
                   f_opp := Some 1; f_type := TClass 1; f_default := VNone |};
                {| f_owner := 1; f_isref := true; f_many := true; f_unique := true; f_cont := false;
                   f_opp := Some 0; f_type := TClass 0; f_default := VNone |} ];
     conf := [(0, 0); (1, 1)]; ocls := [0; 0; 1; 1]; enames := []; nres := 0 |}.

Example C01_witness :
  let s1 := next ex_mm (init_state ex_mm) (OSet 0 0 (VObj 2)) in
  let s2 := next ex_mm s1 (OSet 1 0 (VObj 2)) in
  let s3 := next ex_mm s2 (OSet 0 0 (VObj 3)) in
  let s4 := next ex_mm s3 (ORemove 2 1 (VObj 1)) in
  (vals s3 (2, 1), vals s3 (3, 1), vals s3 (0, 0), vals s3 (1, 0)) = ([VObj 1], [VObj 0], [VObj 3], [VObj 2])
  /\ (vals s4 (2, 1), vals s4 (1, 0)) = ([], [VNone]).
Proof. vm_compute. split; reflexivity. Qed.

(* non-vacuity of the re-pointing theorem: a 1-1 pair, both ends already linked elsewhere *)
Definition ex_mm11 : mm :=
  {| feats := [ {| f_owner := 0; f_isref := true; f_many := false; f_unique := true; f_cont := false;
                   f_opp := Some 1; f_type := TClass 1; f_default := VNone |};
                {| f_owner := 1; f_isref := true; f_many := false; f_unique := true; f_cont := false;
                   f_opp := Some 0; f_type := TClass 0; f_default := VNone |} ];
     conf := [(0, 0); (1, 1)]; ocls := [0; 0; 1; 1]; enames := []; nres := 0 |}.

Example C01_repointing_witness :
  let s2 := fold_left (next ex_mm11) [OSet 0 0 (VObj 2); OSet 1 0 (VObj 3)] (init_state ex_mm11) in
  let s3 := next ex_mm11 s2 (OSet 0 0 (VObj 3)) in
  (vals s3 (0, 0), vals s3 (1, 0), vals s3 (2, 1), vals s3 (3, 1)) = ([VObj 3], [VNone], [VNone], [VObj 0]).
Proof. vm_compute. reflexivity. Qed.
