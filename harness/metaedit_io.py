"""Shared by C12 and C20: the history language of Model/MetaEdit.v, its token
encoding for the extracted model, and the driver that runs the same history on
real pyecore through the public API (EClass, eSuperTypes, eStructuralFeatures,
eOperations, @behavior, getattr/setattr, inspect.signature, isinstance).

A history is a JSON list of ops:
  ['newclass', [supers]]                       EClass('Ck', superclass=tuple)      -> class id k (1-based; 0 = EObject)
  ['addsuper', c, s] ['rmsuper', c, s]
  ['addfeat', c, name, ftype, many, default, via]   ftype 0 = EAttribute(EInt), t>0 = EReference(class t); via 'append'|'extend'
  ['rmfeat', c, name] ['clearfeats', c]
  ['addop', c, name, [[pname, required, tkind], ...], via]
  ['rmop', c, name] ['clearops', c]
  ['attach', c, fname, b]                      @C.behavior def fname(self, *args): return b
  ['newinst', c]
  ['get', i, name] ['set', i, name, v] ['append', i, name, v] ['call', i, name, k] ['sig', i, name]
Values: -1 None, 0..999 ints, 1000+j instance j.

Composite ops: ONE call of the public API whose meaning is a SEQUENCE of the primitive ops above (the model only has
the primitive ones); `Tracker.expand` gives the sequence, `model_ask` runs it on the model and folds the records of
the sequence into one, so that the comparison points are the same as on the implementation (after the call):
  ['clearsupers', c, via]        via 'clear' c.eSuperTypes.clear() | 'delslice' del c.eSuperTypes[:] |
                                 'delattr' del c.eSuperTypes | 'assign' c.eSuperTypes = []      = rmsuper for each
  ['popsuper', c, idx, via]      via 'pop' c.eSuperTypes.pop(idx) (pop() when idx == -1) | 'delitem' del c.eSuperTypes[idx]
  ['setsupers', c, [s...]]       c.eSuperTypes = [s...]                                         = rmsuper each, addsuper each
  ['replsuper', c, s]            c.eSuperTypes[-1] = s                                          = rmsuper last, addsuper s
  ['clearfeats', c, via] ['clearops', c, via]   via as for clearsupers (default 'clear')
  ['popfeat', c, idx, via] ['popop', c, idx, via]                                               = rmfeat / rmop of that one
  ['editop', c, name, edits]     edits the eParameters of the EOperation object last known as `name` of class c (declared
                                 there, or removed from there) IN PLACE: ['append', p] ['insert', i, p] ['remove', i]
                                 ['flip', i] (required flag) ['move', i, j] and the bulk forms ['clear'] ['delslice'] ['delattr']
                                 ['extend', [p..]] ['iadd', [p..]] ['assign', [p..]] ['pop', i]; no model op (the model's operations are values):
                                 when the operation is declared at that moment pyecore regenerates its method (fix e6fe3b2)
                                 and the history is for the oracle only (`has_live_edit`)
  ['redecl', dst, src, name, via]  dst.eOperations.append/extend/insert(len, ..)/+= of THAT SAME object (a move when it is still
                                 declared in src)                                               = [rmop src] addop dst <current params>

Oracle-only ops (the Coq model has no counterpart: histories containing them are run on the implementation and
judged by the property restated in harness/props/c12.py, never sent to the model):
  ['addgen', c, s, mode]         a generic super type of c with classifier s (-1: none); mode 'before' (classifier given
                                 to EGenericType(), then appended) | 'after' (appended empty, then g.eClassifier = s) | 'extend'
  ['retgen', c, idx, s]          c.eGenericSuperTypes[idx].eClassifier = s (None when s == -1)
  ['rmgen', c, idx, via]         via 'remove' | 'pop' | 'delitem';   ['cleargens', c, via]  via as for clearsupers
  ['movegen', c, idx, d]         d.eGenericSuperTypes.append(<that generic type>)   (containment: it leaves c)
  ['annot', c, what]             what 'add' | 'rm' | 'pop' | 'clear' on c.eAnnotations          (no effect on instances)
  ['typar', c, what, name]       what 'add' (ETypeParameter(name)) | 'rm' (the last one) on c.eTypeParameters   (no effect)
  ['addattr', c, name, tkind, dk, how]   EAttribute over ATTR_TYPES[tkind]; declared default dk 'none' | 'falsy' | 'truthy';
                                 how 'ctor' (default_value=..) | 'before' (attr.default_value = .. before it is added) |
                                 'later' (.. after it was added) | 'literal' (defaultValueLiteral=..) | 'literal-later'
  ['setdefault', c, name, dk, how]  how 'value': attr.default_value = .. (None for 'none') | 'literal': attr.defaultValueLiteral = ..
Values read from such attributes travel as value_token(v, intern).
  ['look', i]                    the VIEWS of instance i and of its class, for every name of the run: name in dir(i),
                                 in eAllStructuralFeatures(), findEStructuralFeature(name) found, in eAllAttributes(),
                                 in eAllReferences(), hasattr(type(i), name), name among eAllOperations()   (7 bits per name)
  ['movefeat', c, name, d, via]  the feature `name` of class c goes to class d (0: nowhere); via 'container'
                                 (feature.eContainingClass = D / None, the single-valued end) | 'append' (D.eStructuralFeatures.append)
  ['moveop', c, name, d, via]    the same for an operation (operation.eContainingClass = D / None | D.eOperations.append)
  ['delclass', k]                class k .delete(): it stops being anybody's super type (either channel) and loses its own content
  ['rebound', c, name, ub]       <feature name of c>.upperBound = ub   (many-valued iff ub < 0 or ub > 1)
  ['pkg', c, what]               what 'set' (c.ePackage = a package) | 'add' (package.eClassifiers.append(c)) | 'unset'   (no effect)

Run as a script (`python -P harness/metaedit_io.py`) it is the isolated worker:
reads one JSON request from stdin, prints one JSON answer."""
import inspect
import json
import os
import sys

if __name__ == '__main__':      # started as the worker script with -P: make the package importable
    sys.path.insert(0, os.path.dirname(os.path.dirname(os.path.abspath(__file__))))
from harness import common  # noqa: E402

OPC = {'newclass': 1, 'addsuper': 2, 'rmsuper': 3, 'addfeat': 4, 'rmfeat': 5, 'clearfeats': 6, 'addop': 7,
       'rmop': 8, 'clearops': 9, 'attach': 10, 'newinst': 11, 'get': 12, 'set': 13, 'append': 14, 'call': 15,
       'sig': 16}

# parameter type kinds -> (how the model sees the default of the type)
TKINDS = ('int', 'str', 'bool', 'ref', 'sdt', 'enum')


class Interner:
    """repr-texts of default values <-> small ints; 0 is reserved for 'None'."""

    def __init__(self):
        self.t = {'None': 0}

    def tok(self, text):
        return self.t.setdefault(text, len(self.t))


def enc_name(s):
    return [len(s)] + [ord(ch) for ch in s]


def default_text(tkind):
    return {'int': '0', 'str': 'None', 'bool': 'False', 'ref': 'None', 'sdt': "'hello'", 'enum': 'lit_a=0', 'none': 'None'}[tkind]     # 'enum': repr of the literal OBJECT, as inspect.signature shows it


def enc_param(p, intern):
    pname, required, tkind = p
    # second token: 1 = 'the default is pasted as text that is not an expression' (Operations.DEnum).  pyecore no longer pastes
    # defaults into the source (fix 3896d2a: placeholders + __defaults__): every default, enumeration literals included, is a value
    return enc_name(pname) + [1 if required else 0, 0, intern.tok(default_text(tkind))]


def enc_op(op, intern):
    k = op[0]
    c = OPC[k]
    if k == 'newclass':
        return [c, len(op[1])] + list(op[1])
    if k in ('addsuper', 'rmsuper'):
        return [c, op[1], op[2]]
    if k == 'addfeat':
        return [c, op[1]] + enc_name(op[2]) + [op[3], 1 if op[4] else 0, op[5]]
    if k in ('rmfeat', 'rmop'):
        return [c, op[1]] + enc_name(op[2])
    if k in ('clearfeats', 'clearops', 'newinst'):
        return [c, op[1]]
    if k == 'addop':
        out = [c, op[1]] + enc_name(op[2]) + [len(op[3])]
        for p in op[3]:
            out += enc_param(p, intern)
        return out
    if k == 'attach':
        return [c, op[1], op[3]] + enc_name(op[2])
    if k in ('get', 'sig'):
        return [c, op[1]] + enc_name(op[2])
    if k in ('set', 'append', 'call'):
        return [c, op[1], op[3]] + enc_name(op[2])
    raise AssertionError(op)


ORACLE_ONLY = ('addgen', 'retgen', 'rmgen', 'cleargens', 'movegen', 'annot', 'typar', 'addattr', 'setdefault',
               'look', 'movefeat', 'moveop', 'pkg', 'delclass', 'rebound')

# tkind (name of the pyecore data type) -> (default of the type, a falsy declared default, a truthy one, their literals)
ATTR_TYPES = {
    'EString': (None, '', 'abc', '', 'abc'),
    'EInt': (0, 0, 7, '0', '7'),
    'EBoolean': (False, False, True, 'false', 'true'),
    'EDouble': (0.0, 0.0, 2.5, '0.0', '2.5'),
    'EIntegerObject': (None, 0, 7, '0', '7'),
    'EBooleanObject': (None, False, True, 'false', 'true'),
    'EDoubleObject': (None, 0.0, 2.5, '0.0', '2.5'),
}


def declared_default(tkind, dk):
    return {'none': None, 'falsy': ATTR_TYPES[tkind][1], 'truthy': ATTR_TYPES[tkind][2]}[dk]


def declared_literal(tkind, dk):
    return {'none': None, 'falsy': ATTR_TYPES[tkind][3], 'truthy': ATTR_TYPES[tkind][4]}[dk]


def value_token(v, intern):
    if v is None:
        return -1
    if isinstance(v, bool):
        return 900 + int(v)
    if isinstance(v, int):
        return v
    return 5000 + intern.tok(f'{type(v).__name__}:{v!r}')


def has_oracle_only(history):
    return any(op[0] in ORACLE_ONLY for op in history)


COMPOSITE = ('clearsupers', 'popsuper', 'setsupers', 'replsuper', 'popfeat', 'popop', 'editop', 'redecl')
NOBODY = 'zz_nobody'      # a name no class declares


def apply_param_edits(params, edits):
    ps = [list(p) for p in params]
    for e in edits:
        if e[0] == 'append':
            ps.append(list(e[1]))
        elif e[0] == 'insert':
            ps.insert(e[1], list(e[2]))
        elif e[0] == 'remove':
            del ps[e[1]]
        elif e[0] == 'flip':
            ps[e[1]][1] = 0 if ps[e[1]][1] else 1
        elif e[0] == 'move':
            ps.insert(e[2], ps.pop(e[1]))
        elif e[0] in ('clear', 'delslice', 'delattr'):       # eParameters.clear() / del eParameters[:] / del op.eParameters
            ps = []
        elif e[0] in ('extend', 'iadd'):                     # eParameters.extend([..]) / eParameters += [..]
            ps += [list(p) for p in e[1]]
        elif e[0] == 'assign':                               # op.eParameters = [..]   (fresh parameter objects)
            ps = [list(p) for p in e[1]]
        elif e[0] == 'pop':                                  # eParameters.pop() / pop(i)
            ps.pop(e[1])
        elif e[0] == 'retype':                               # parameter.eType = <type of kind e[2]>  ('none': None)
            ps[e[1]][2] = e[2]
        elif e[0] == 'rename':                               # parameter.name = e[2]
            ps[e[1]][0] = e[2]
        else:
            raise AssertionError(e)
    return ps


class Tracker:
    """The declared lists of a history (super types, feature names, operations with their current parameters,
    operations taken out of a class), as far as needed to say which primitive ops a composite op stands for."""

    def __init__(self):
        self.supers, self.feats, self.ops, self.dead = {}, {}, {}, {}

    def find_op(self, c, name):
        """-> ('live'|'dead'|None, params)"""
        for n, ps in self.ops.get(c, []):
            if n == name:
                return 'live', ps
        if (c, name) in self.dead:
            return 'dead', self.dead[(c, name)]
        return None, []

    def _rmop(self, c, name):
        for j, (n, ps) in enumerate(self.ops[c]):
            if n == name:
                self.dead[(c, name)] = ps
                del self.ops[c][j]
                return

    def expand(self, op):
        k = op[0]
        if k == 'newclass':
            c = len(self.supers) + 1
            self.supers[c], self.feats[c], self.ops[c] = list(dict.fromkeys(op[1])), [], []
        elif k == 'addsuper':
            if op[2] not in self.supers[op[1]]:
                self.supers[op[1]].append(op[2])
        elif k == 'rmsuper':
            if op[2] in self.supers[op[1]]:
                self.supers[op[1]].remove(op[2])
        elif k == 'clearsupers':
            c = op[1]
            old, self.supers[c] = self.supers[c], []
            return [['rmsuper', c, s] for s in old]
        elif k == 'popsuper':
            c, idx = op[1], op[2]
            ss = self.supers[c]
            if not -len(ss) <= idx < len(ss):
                return [['rmsuper', c, c]]          # nothing to remove: KeyError / IndexError
            return [['rmsuper', c, ss.pop(idx)]]
        elif k == 'setsupers':
            c, new = op[1], list(dict.fromkeys(op[2]))
            old, self.supers[c] = self.supers[c], new
            return [['rmsuper', c, s] for s in old] + [['addsuper', c, s] for s in new]
        elif k == 'replsuper':
            c, s = op[1], op[2]
            ss = self.supers[c]
            if not ss:
                return [['rmsuper', c, c]]
            last = ss.pop()
            if s not in ss:
                ss.append(s)
            return [['rmsuper', c, last], ['addsuper', c, s]]
        elif k == 'addfeat':
            self.feats[op[1]].append(op[2])
        elif k == 'rmfeat':
            if op[2] in self.feats[op[1]]:
                self.feats[op[1]].remove(op[2])
        elif k == 'clearfeats':
            self.feats[op[1]] = []
        elif k == 'popfeat':
            c, idx = op[1], op[2]
            fs = self.feats[c]
            if not -len(fs) <= idx < len(fs):
                return [['rmfeat', c, NOBODY]]
            return [['rmfeat', c, fs.pop(idx)]]
        elif k == 'addop':
            self.ops[op[1]].append((op[2], [list(p) for p in op[3]]))
        elif k == 'rmop':
            self._rmop(op[1], op[2])
        elif k == 'clearops':
            for n, _ in list(self.ops[op[1]]):
                self._rmop(op[1], n)
        elif k == 'popop':
            c, idx = op[1], op[2]
            os_ = self.ops[c]
            if not -len(os_) <= idx < len(os_):
                return [['rmop', c, NOBODY]]
            n = os_[idx][0]
            self.dead[(c, n)] = os_.pop(idx)[1]
            return [['rmop', c, n]]
        elif k == 'editop':
            c, name, edits = op[1], op[2], op[3]
            where, ps = self.find_op(c, name)
            ps2 = apply_param_edits(ps, edits)
            if where == 'live':
                self.ops[c] = [(n, ps2 if n == name else q) for n, q in self.ops[c]]
            else:
                self.dead[(c, name)] = ps2
            return []
        elif k == 'redecl':
            dst, src, name = op[1], op[2], op[3]
            where, ps = self.find_op(src, name)
            out = []
            if where == 'live':
                out.append(['rmop', src, name])
                if src != dst:      # added again where it already is, the object keeps its place in the ordered set
                    self.ops[src] = [(n, q) for n, q in self.ops[src] if n != name]
                    self.ops[dst].append((name, [list(p) for p in ps]))
            else:
                self.dead.pop((src, name), None)
                self.ops[dst].append((name, [list(p) for p in ps]))
            return out + [['addop', dst, name, [list(p) for p in ps], 'append']]
        return [op]


def expand(history):
    """-> (history of primitive ops, [number of primitive ops each op stands for])"""
    t = Tracker()
    prims, groups = [], []
    for op in history:
        e = t.expand(op)
        prims += e
        groups.append(len(e))
    return prims, groups


def fold_records(tokens, groups):
    """One record per original op: the first failing record of its group, else the last one ([0, 0] for an op
    that stands for no model op); the final dump follows unchanged."""
    out, i = [], 0
    for g in groups:
        chosen = [0, 0]
        done = False
        for _ in range(g):
            if i + 1 >= len(tokens):
                rec, i = tokens[i:], len(tokens)
            else:
                n = tokens[i + 1]
                rec = tokens[i:i + 2 + n]
                i += 2 + n
            if not done:
                chosen = rec
                done = bool(rec) and rec[0] != 0
        out += chosen
    return out + tokens[i:]


def has_live_edit(history):
    """Does the history edit the parameters of an operation WHILE it is declared?  (pyecore regenerates the method then;
    the model's operations are values: such histories are judged by the oracle only.)"""
    t = Tracker()
    for op in history:
        if op[0] == 'editop' and t.find_op(op[1], op[2])[0] == 'live':
            return True
        t.expand(op)
    return False


def has_composite(history):
    return any(op[0] in COMPOSITE for op in history)


def model_ask(model, history, names, init_flag, intern):
    """The model's answer for `history`, with one record per op of `history` (composite ops folded)."""
    if not has_composite(history):
        return model.ask('metaedit', model_tokens(history, names, init_flag, intern))
    prims, groups = expand(history)
    return fold_records(model.ask('metaedit', model_tokens(prims, names, init_flag, intern)), groups)


def model_tokens(history, names, init_flag, intern):
    t = [1 if init_flag else 0, len(history)]
    for op in history:
        t += enc_op(op, intern)
    t.append(len(names))
    for n in names:
        t += enc_name(n)
    return t


def exc_code(e):
    from pyecore.valuecontainer import BadValueError
    if isinstance(e, BadValueError):
        return 4
    if isinstance(e, (KeyError, ValueError, IndexError)):
        return 1
    if isinstance(e, AttributeError):
        return 5
    if isinstance(e, NotImplementedError):
        return 7
    if isinstance(e, TypeError):
        return 6
    if isinstance(e, SyntaxError):
        return 8
    if isinstance(e, NameError):
        return 9
    if isinstance(e, RecursionError):
        return 97
    return 98


def flag_installed():
    """Has pyecore replaced the linearisation of its metaclass (process-wide)?"""
    from pyecore.ecore import Metasubinstance
    return 'mro' in vars(Metasubinstance)


class Impl:
    """One universe of real pyecore objects driven by a history."""

    def __init__(self, intern):
        common.use_repo()
        import pyecore.ecore as ec
        from pyecore import behavior  # noqa: F401  (installs EClass.behavior)
        from pyecore.valuecontainer import ECollection, EValue, EcoreUtils
        self.ec, self.ECollection, self.EValue, self.EcoreUtils = ec, ECollection, EValue, EcoreUtils
        self.intern = intern
        self.classes = [ec.EObject.eClass]      # id 0
        self.feats = {}                          # class id -> list of live feature objects
        self.dead_feats = {}                     # (class id, name) -> a feature object that was removed / never added
        self.ops = {}
        self.dead_ops = {}
        self.gens = {}                           # class id -> its EGenericType objects, in order
        self.annots = {}
        self.typars = {}
        self.insts = []
        self.names = []
        self.class_names = []
        self.name_pkgs = []
        self.enum = ec.EEnum('LitEnum', literals=['lit_a', 'lit_b'])
        self.sdt = ec.EDataType('StrDT', str, default_value='hello')

    # ----- encoding of what comes back -----
    def enc_value(self, r):
        if r is None:
            return -1
        if isinstance(r, bool):
            return 900 + int(r)
        if isinstance(r, int):
            return r
        for j, x in enumerate(self.insts):
            if x is r:
                return 1000 + j
        if isinstance(r, (str, float)):
            return value_token(r, self.intern)
        return 999

    def classify(self, r):
        if isinstance(r, self.ECollection):
            vs = [self.enc_value(x) for x in r]
            return [2, len(vs)] + vs
        if isinstance(r, self.EValue):
            return [3]
        if inspect.ismethod(r) or inspect.isfunction(r):
            return [4, getattr(r, 'beh_id', 0)]
        return [1, self.enc_value(r)]

    def value(self, v):
        if v == -1:
            return None
        if v >= 1000:
            return self.insts[v - 1000]
        return v

    def ptype(self, tkind):
        ec = self.ec
        return {'int': ec.EInt, 'str': ec.EString, 'bool': ec.EBoolean, 'ref': self.classes[1] if len(self.classes) > 1 else None,
                'sdt': self.sdt, 'enum': self.enum, 'none': None}[tkind]

    def sig_tokens(self, m):
        bid = getattr(m, 'beh_id', None)
        if bid is not None:
            return [1, bid]
        sig = inspect.signature(m)
        out = [0, len(sig.parameters)]
        for p in sig.parameters.values():
            out += enc_name(p.name)
            if p.kind is not inspect.Parameter.POSITIONAL_OR_KEYWORD:
                out += [9, 9]
            elif p.default is inspect.Parameter.empty:
                out += [0, 0]
            else:
                out += [1, self.intern.tok(repr(p.default))]
        return out

    # ----- the spellings of the bulk calls -----
    @staticmethod
    def bulk_clear(owner, fname, via):
        if via == 'delslice':
            del getattr(owner, fname)[:]
        elif via == 'delattr':
            delattr(owner, fname)
        elif via == 'assign':
            setattr(owner, fname, [])
        else:
            getattr(owner, fname).clear()

    @staticmethod
    def pop_at(coll, idx, via):
        if via == 'delitem':
            del coll[idx]
        elif idx == -1:
            coll.pop()
        else:
            coll.pop(idx)

    def new_param(self, p):
        pn, rq, tk = p
        return self.ec.EParameter(pn, self.ptype(tk), required=bool(rq))

    def known_op(self, c, name):
        o = next((x for x in self.ops[c] if x.name == name), None)
        if o is not None:
            return 'live', o
        o = self.dead_ops.get((c, name))
        if o is not None:
            return 'dead', o
        return None, self.ec.EOperation(name)

    # ----- one op -----
    def do(self, op):
        """-> (code, payload)"""
        ec = self.ec
        k = op[0]
        try:
            if k == 'newclass':
                cid = len(self.classes)
                sup = tuple(self.classes[s] for s in op[1])
                # class_names (run_impl): [name, package 0|1|2] per class -- several classes may carry the SAME name
                cname, pk = self.class_names[cid - 1] if cid - 1 < len(self.class_names) else (f'C{cid}', 0)
                if len(sup) == 1:
                    C = ec.EClass(cname, superclass=sup[0])
                else:
                    C = ec.EClass(cname, superclass=sup)
                self.classes.append(C)
                if pk:
                    if not self.name_pkgs:
                        self.name_pkgs = [ec.EPackage('geometry', nsURI='http://verif/c12/geometry', nsPrefix='geometry'),
                                          ec.EPackage('graph', nsURI='http://verif/c12/graph', nsPrefix='graph')]
                    self.name_pkgs[pk - 1].eClassifiers.append(C)
                self.feats[cid], self.ops[cid] = [], []
                return 0, [cid]
            if k == 'addsuper':
                # optional op[3]: the public path used; all of them add the super type at the END (model: AddSuper)
                coll, x = self.classes[op[1]].eSuperTypes, self.classes[op[2]]
                via = op[3] if len(op) > 3 else 'append'
                if via == 'insert':
                    coll.insert(len(coll), x)
                elif via == 'extend':
                    coll.extend([x])
                elif via == 'iadd':
                    coll += [x]
                else:
                    coll.append(x)
                return 0, []
            if k == 'rmsuper':
                self.classes[op[1]].eSuperTypes.remove(self.classes[op[2]])
                return 0, []
            if k == 'clearsupers':
                self.bulk_clear(self.classes[op[1]], 'eSuperTypes', op[2] if len(op) > 2 else 'clear')
                return 0, []
            if k == 'popsuper':
                self.pop_at(self.classes[op[1]].eSuperTypes, op[2], op[3] if len(op) > 3 else 'pop')
                return 0, []
            if k == 'setsupers':
                self.classes[op[1]].eSuperTypes = [self.classes[s] for s in op[2]]
                return 0, []
            if k == 'replsuper':
                self.classes[op[1]].eSuperTypes[-1] = self.classes[op[2]]
                return 0, []
            if k == 'addfeat':
                _, c, name, ftype, many, default, via = op
                if ftype == 0:
                    f = ec.EAttribute(name, ec.EInt, upper=-1 if many else 1,
                                      **({} if (many or default == 0) else {'default_value': default}))
                else:
                    f = ec.EReference(name, self.classes[ftype], upper=-1 if many else 1)
                self.feats[c].append(f)
                coll = self.classes[c].eStructuralFeatures
                coll.extend([f]) if via == 'extend' else coll.append(f)
                return 0, []
            if k == 'look':
                x = self.insts[op[1]]
                C = x.eClass
                d = dir(x)
                allf = [f.name for f in C.eAllStructuralFeatures()]
                attrs = [f.name for f in C.eAllAttributes()]
                refs = [f.name for f in C.eAllReferences()]
                allops = [o.normalized_name() for o in C.eAllOperations()]
                out = []
                for n in self.names:
                    out += [1 if n in d else 0, 1 if n in allf else 0, 0 if C.findEStructuralFeature(n) is None else 1,
                            1 if n in attrs else 0, 1 if n in refs else 0, 1 if hasattr(type(x), n) else 0,
                            1 if n in allops else 0]
                return 0, out
            if k == 'movefeat':
                _, c, name, d, via = op
                f = next(x for x in self.feats[c] if x.name == name)
                self.feats[c].remove(f)
                if d:
                    self.feats[d].append(f)
                else:
                    self.dead_feats[(c, name)] = f
                if via == 'container':
                    f.eContainingClass = self.classes[d] if d else None
                else:
                    self.classes[d].eStructuralFeatures.append(f)
                return 0, []
            if k == 'moveop':
                _, c, name, d, via = op
                o = next(x for x in self.ops[c] if x.name == name)
                self.ops[c].remove(o)
                if d:
                    self.ops[d].append(o)
                else:
                    self.dead_ops[(c, name)] = o
                if via == 'container':
                    o.eContainingClass = self.classes[d] if d else None
                else:
                    self.classes[d].eOperations.append(o)
                return 0, []
            if k == 'delclass':
                c = op[1]
                for f in self.feats[c]:
                    self.dead_feats[(c, f.name)] = f
                for o in self.ops[c]:
                    self.dead_ops[(c, o.name)] = o
                self.feats[c], self.ops[c], self.gens[c] = [], [], []
                self.classes[c].delete()
                return 0, []
            if k == 'rebound':
                _, c, name, ub = op
                next(x for x in self.feats[c] if x.name == name).upperBound = ub
                return 0, []
            if k == 'pkg':
                _, c, what = op
                if not hasattr(self, 'package'):
                    self.package = ec.EPackage('pk', nsURI='http://verif/c12/pk', nsPrefix='pk')
                if what == 'set':
                    self.classes[c].ePackage = self.package
                elif what == 'add':
                    self.package.eClassifiers.append(self.classes[c])
                else:
                    self.classes[c].ePackage = None
                return 0, []
            if k == 'addgen':
                _, c, sid, mode = op
                S = None if sid == -1 else self.classes[sid]
                coll = self.classes[c].eGenericSuperTypes
                g = ec.EGenericType() if (mode == 'after' or S is None) else ec.EGenericType(eClassifier=S)
                self.gens.setdefault(c, []).append(g)
                coll.extend([g]) if mode == 'extend' else coll.append(g)
                if mode == 'after' and S is not None:
                    g.eClassifier = S
                return 0, []
            if k == 'retgen':
                self.gens[op[1]][op[2]].eClassifier = None if op[3] == -1 else self.classes[op[3]]
                return 0, []
            if k == 'rmgen':
                _, c, idx, via = op
                g = self.gens[c].pop(idx)
                coll = self.classes[c].eGenericSuperTypes
                if via == 'remove':
                    coll.remove(g)
                else:
                    self.pop_at(coll, idx, via)
                return 0, []
            if k == 'cleargens':
                self.gens[op[1]] = []
                self.bulk_clear(self.classes[op[1]], 'eGenericSuperTypes', op[2])
                return 0, []
            if k == 'movegen':
                _, c, idx, d = op
                g = self.gens[c].pop(idx)
                self.gens.setdefault(d, []).append(g)
                self.classes[d].eGenericSuperTypes.append(g)
                return 0, []
            if k == 'annot':
                _, c, what = op
                coll, mine = self.classes[c].eAnnotations, self.annots.setdefault(c, [])
                if what == 'add':
                    mine.append(ec.EAnnotation(source=f'src{len(mine)}'))
                    coll.append(mine[-1])
                elif what == 'clear':
                    del mine[:]
                    coll.clear()
                elif mine:
                    a = mine.pop()
                    coll.remove(a) if what == 'rm' else coll.pop()
                return 0, []
            if k == 'typar':
                _, c, what, name = op
                coll, mine = self.classes[c].eTypeParameters, self.typars.setdefault(c, [])
                if what == 'add':
                    mine.append(ec.ETypeParameter(name))
                    coll.append(mine[-1])
                elif mine:
                    coll.remove(mine.pop())
                return 0, []
            if k == 'addattr':
                _, c, name, tkind, dk, how = op
                etype = getattr(ec, tkind)
                if how == 'ctor':
                    f = ec.EAttribute(name, etype, default_value=declared_default(tkind, dk))
                elif how == 'literal':
                    f = ec.EAttribute(name, etype, defaultValueLiteral=declared_literal(tkind, dk))
                else:
                    f = ec.EAttribute(name, etype)
                if how == 'before':
                    f.default_value = declared_default(tkind, dk)
                self.feats[c].append(f)
                self.classes[c].eStructuralFeatures.append(f)
                if how == 'later':
                    f.default_value = declared_default(tkind, dk)
                elif how == 'literal-later':
                    f.defaultValueLiteral = declared_literal(tkind, dk)
                return 0, []
            if k == 'setdefault':
                _, c, name, dk, how = op
                f = next(x for x in self.feats[c] if x.name == name)
                tkind = f.eType.name
                if how == 'literal':
                    f.defaultValueLiteral = declared_literal(tkind, dk)
                else:
                    f.default_value = declared_default(tkind, dk)
                return 0, []
            if k == 'rmfeat':
                _, c, name = op
                f = next((x for x in self.feats[c] if x.name == name), None)
                if f is None:
                    f = self.dead_feats.get((c, name)) or ec.EAttribute(name, ec.EInt)
                else:
                    self.feats[c].remove(f)
                    self.dead_feats[(c, name)] = f
                self.classes[c].eStructuralFeatures.remove(f)
                return 0, []
            if k == 'clearfeats':
                c = op[1]
                for f in self.feats[c]:
                    self.dead_feats[(c, f.name)] = f
                self.feats[c] = []
                self.bulk_clear(self.classes[c], 'eStructuralFeatures', op[2] if len(op) > 2 else 'clear')
                return 0, []
            if k == 'popfeat':
                c, idx = op[1], op[2]
                if -len(self.feats[c]) <= idx < len(self.feats[c]):
                    f = self.feats[c].pop(idx)
                    self.dead_feats[(c, f.name)] = f
                self.pop_at(self.classes[c].eStructuralFeatures, idx, op[3] if len(op) > 3 else 'pop')
                return 0, []
            if k == 'addop':
                _, c, name, params, via = op
                o = ec.EOperation(name, params=[ec.EParameter(pn, self.ptype(tk), required=bool(rq))
                                                for pn, rq, tk in params])
                self.ops[c].append(o)
                coll = self.classes[c].eOperations
                coll.extend([o]) if via == 'extend' else coll.append(o)
                return 0, []
            if k == 'rmop':
                _, c, name = op
                o = next((x for x in self.ops[c] if x.name == name), None)
                if o is None:
                    o = self.dead_ops.get((c, name)) or ec.EOperation(name)
                else:
                    self.ops[c].remove(o)
                    self.dead_ops[(c, name)] = o
                self.classes[c].eOperations.remove(o)
                return 0, []
            if k == 'clearops':
                c = op[1]
                for o in self.ops[c]:
                    self.dead_ops[(c, o.name)] = o
                self.ops[c] = []
                self.bulk_clear(self.classes[c], 'eOperations', op[2] if len(op) > 2 else 'clear')
                return 0, []
            if k == 'popop':
                c, idx = op[1], op[2]
                if -len(self.ops[c]) <= idx < len(self.ops[c]):
                    o = self.ops[c].pop(idx)
                    self.dead_ops[(c, o.name)] = o
                self.pop_at(self.classes[c].eOperations, idx, op[3] if len(op) > 3 else 'pop')
                return 0, []
            if k == 'editop':
                _, c, name, edits = op
                o = self.known_op(c, name)[1]
                ps = o.eParameters
                for e in edits:
                    if e[0] == 'append':
                        ps.append(self.new_param(e[1]))
                    elif e[0] == 'insert':
                        ps.insert(e[1], self.new_param(e[2]))
                    elif e[0] == 'remove':
                        ps.remove(ps[e[1]])
                    elif e[0] == 'flip':
                        ps[e[1]].required = not ps[e[1]].required
                    elif e[0] == 'move':
                        x = ps.pop(e[1])
                        ps.insert(e[2], x)
                    elif e[0] == 'clear':
                        ps.clear()
                    elif e[0] == 'delslice':
                        del ps[:]
                    elif e[0] == 'delattr':
                        del o.eParameters
                    elif e[0] == 'extend':
                        ps.extend([self.new_param(q) for q in e[1]])
                    elif e[0] == 'iadd':
                        ps += [self.new_param(q) for q in e[1]]
                    elif e[0] == 'assign':
                        o.eParameters = [self.new_param(q) for q in e[1]]
                    elif e[0] == 'pop':
                        ps.pop() if e[1] == -1 else ps.pop(e[1])
                    elif e[0] == 'retype':
                        ps[e[1]].eType = self.ptype(e[2])
                    elif e[0] == 'rename':
                        ps[e[1]].name = e[2]
                    else:
                        raise AssertionError(e)
                return 0, []
            if k == 'redecl':
                _, dst, src, name, via = op
                where, o = self.known_op(src, name)
                if where == 'live' and src != dst:
                    self.ops[src].remove(o)
                elif where == 'dead':
                    del self.dead_ops[(src, name)]
                if not (where == 'live' and src == dst):
                    self.ops[dst].append(o)
                coll = self.classes[dst].eOperations
                if via == 'extend':
                    coll.extend([o])
                elif via == 'insert':
                    coll.insert(len(coll), o)
                elif via == 'iadd':
                    coll += [o]
                else:
                    coll.append(o)
                return 0, []
            if k == 'attach':
                _, c, fname, b = op

                def beh(self_, *args, _b=b):
                    return _b
                beh.__name__ = fname
                beh.beh_id = b
                self.classes[c].behavior(beh)
                return 0, []
            if k == 'newinst':
                x = self.classes[op[1]]()
                self.insts.append(x)
                return 0, [len(self.insts) - 1]
            if k == 'get':
                return 0, self.classify(getattr(self.insts[op[1]], op[2]))
            if k == 'set':
                setattr(self.insts[op[1]], op[2], self.value(op[3]))
                return 0, []
            if k == 'append':
                getattr(self.insts[op[1]], op[2]).append(self.value(op[3]))
                return 0, []
            if k == 'call':
                r = getattr(self.insts[op[1]], op[2])(*([1] * op[3]))
                return 0, [r if isinstance(r, int) else 999]
            if k == 'sig':
                m = getattr(self.insts[op[1]], op[2])
                if not callable(m):
                    return 6, []
                return 0, self.sig_tokens(m)
        except BaseException as e:          # noqa: BLE001 (SyntaxError etc. included on purpose)
            if isinstance(e, (KeyboardInterrupt, SystemExit, MemoryError)):
                raise
            return exc_code(e), []
        raise AssertionError(op)

    def record(self, res):
        code, payload = res
        if code != 0:
            return [code, 0]
        return [0, len(payload)] + list(payload)

    # ----- the final dump -----
    def cid_of(self, pycls):
        for j, C in enumerate(self.classes):
            if C.python_class is pycls:
                return j
        return None

    def dump(self, names):
        out = []
        disagreements = []
        for j, x in enumerate(self.insts):
            d = dir(x)
            for n in names:
                try:
                    out += self.classify(getattr(x, n))
                except AttributeError:
                    out += [0]
                out.append(1 if n in d else 0)
            for cid in range(1, len(self.classes)):
                a = isinstance(x, self.classes[cid])
                b = self.EcoreUtils.isinstance(x, self.classes[cid])
                if bool(a) != bool(b):
                    disagreements.append((j, cid, bool(a), bool(b)))
                out.append(1 if a else 0)
        for cid in range(1, len(self.classes)):
            pc = self.classes[cid].python_class
            bs = [self.cid_of(b) for b in pc.__bases__]
            out += [len(bs)] + [b if b is not None else 99 for b in bs]
            m = [self.cid_of(b) for b in pc.__mro__]
            m = [b for b in m if b is not None]
            out += [len(m)] + m
        out.append(1 if flag_installed() else 0)
        out.append(1)       # the model's own claim: its cached linearisations equal a linearisation from scratch
        return out, disagreements


def run_impl(history, names, intern=None, class_names=None):
    """-> dict(tokens, per_op=[(code,payload)], flag_before, flag_after, iso_disagreements)
    class_names: [[name, package 0|1|2], ...] for the classes in creation order (default: C1, C2, ... without package)"""
    intern = intern or Interner()
    before = flag_installed() if 'pyecore.ecore' in sys.modules else False
    im = Impl(intern)
    im.names = list(names)
    im.class_names = [tuple(x) for x in (class_names or [])]
    before = flag_installed()
    toks, per_op = [], []
    for op in history:
        r = im.do(op)
        per_op.append(r)
        toks += im.record(r)
    d, dis = im.dump(names)
    return {'tokens': toks + d, 'per_op': per_op, 'flag_before': before, 'flag_after': flag_installed(),
            'isinstance_disagreements': dis, 'impl': im}


# a history that makes both of pyecore's attempts to order the bases fail
FLAG_TRIGGER = [['newclass', []], ['newclass', []], ['newclass', [1, 2]], ['newclass', [2, 1]], ['newclass', [3, 4]]]


def worker_main():
    req = json.load(sys.stdin)
    common.use_repo()
    intern = Interner()
    intern.t = dict(req.get('intern', {'None': 0}))
    answers = []
    for case in req['cases']:
        if case.get('needs_flag') and not flag_installed():
            run_impl(FLAG_TRIGGER, [], intern)
        r = run_impl(case['history'], case['names'], intern)
        r.pop('impl')
        answers.append(r)
    json.dump({'answers': answers, 'intern': intern.t}, sys.stdout)


if __name__ == '__main__':
    worker_main()
