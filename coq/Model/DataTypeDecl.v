(* Vocabulary of the generated data type tables (coq/Gen/DataTypes.v is
   written by translator/datatypes_gen.py from /repo/pyecore/ecore.py,
   innerutils.py and type/type.py).  A source shape the translator does not
   recognise becomes an `..._unrecognised "<source>"` constructor: no proven
   conversion pair mentions it, so the coverage theorem of C17 stops
   compiling (fail closed).  No proofs here. *)
From Coq Require Import ZArith String List.
Import ListNotations.

(* the Python class given as eType (or reached through javaTransMap) *)
Inductive pytype : Type :=
| PT_str | PT_bool | PT_int | PT_float | PT_Decimal | PT_datetime
| PT_bytes | PT_bytearray | PT_dict | PT_list | PT_set | PT_type | PT_object
| PT_unrecognised (src : string).

(* to_string=... *)
Inductive ts_tag : Type :=
| TS_str                          (* EDataType.to_string default: str(value) *)
| TS_str_lower                    (* lambda x: str(x).lower() *)
| TS_strftime (fmt : string)      (* lambda d: d.strftime(fmt) *)
| TS_unrecognised (src : string).

(* from_string=... *)
Inductive fs_tag : Type :=
| FS_id                           (* EDataType.from_string default: the text itself *)
| FS_int | FS_float | FS_Decimal  (* the constructors int, float, decimal.Decimal *)
| FS_parse_date                   (* innerutils.parse_date *)
| FS_in_True_true                 (* lambda x: x in ['True', 'true'] *)
| FS_in_True_true_or_is_True      (* lambda x: x in ['True', 'true'] or x is True *)
| FS_unrecognised (src : string).

Inductive pydefault : Type :=
| DF_None | DF_False | DF_int (z : Z) | DF_float_zero | DF_str_empty
| DF_unrecognised (src : string).

(* X = EDataType('X', eType, default, from_string=, to_string=, type_as_factory=) of ecore.py *)
Record dtdecl : Type := {
  dt_name : string;
  dt_type : pytype;
  dt_ts : ts_tag;
  dt_fs : fs_tag;
  dt_default : pydefault;
  dt_factory : bool
}.

(* X = EDataType('X', instanceClassName=, from_string=, to_string=) of type/type.py *)
Record xmldecl : Type := {
  xd_name : string;
  xd_icn : string;
  xd_ts : ts_tag;
  xd_fs : fs_tag
}.

(* one entry of innerutils.javaTransMap: name -> (type, type_as_factory, default) *)
Record jtentry : Type := {
  jt_name : string;
  jt_type : pytype;
  jt_factory : bool;
  jt_default : pydefault
}.

(* how EEnum.from_string / EEnum.getEEnumLiteral / EEnumLiteral.__str__ are written *)
Inductive enum_fs_tag : Type :=
| EFS_getEEnumLiteral_name        (* return self.getEEnumLiteral(name=value) *)
| EFS_unrecognised (src : string).
Inductive enum_get_tag : Type :=
| EGET_name_if_truthy_else_value  (* if name: first literal with that name; else first literal with lit.value == value (default 0); None when absent *)
| EGET_unrecognised (src : string).
Inductive lit_str_tag : Type :=
| LS_name                         (* return self.name *)
| LS_unrecognised (src : string).
