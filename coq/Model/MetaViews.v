(* Metamodel-side reflective views of EClass (ecore.py:941-992):
   _eAllSuperTypes_gen / eAllSuperTypes, _eAllStructuralFeatures_gen /
   eAllStructuralFeatures / eAllAttributes / eAllReferences /
   findEStructuralFeature, over a class graph given as a value (direct
   supertypes and own features per class).  No proofs here. *)
From Coq Require Import ZArith List Bool Arith.
From PyecoreV Require Import Lib.PyBase Lib.PyList Model.Coll.
Import ListNotations.
Open Scope nat_scope.

Record cgraph : Type := {
  sups : nat -> list nat;          (* eSuperTypes, in declaration order *)
  own : nat -> list nat;           (* eStructuralFeatures (feature ids), in declaration order *)
  isref : nat -> bool;             (* feature id -> is a reference *)
  fname : nat -> Z                 (* feature id -> name (interned) *)
}.

(* generator order of _eAllSuperTypes_gen: the direct ones, then each one's own closure *)
Fixpoint supers_gen (fuel : nat) (g : cgraph) (c : nat) : list nat :=
  match fuel with
  | O => []
  | S fu => sups g c ++ flat_map (supers_gen fu g) (sups g c)
  end.

Fixpoint dedup_nat (seen l : list nat) : list nat :=
  match l with
  | [] => []
  | x :: r => if existsb (Nat.eqb x) seen then dedup_nat seen r else x :: dedup_nat (x :: seen) r
  end.

(* eAllSuperTypes(): OrderedSet of the generator *)
Definition all_supers (fuel : nat) (g : cgraph) (c : nat) : list nat :=
  dedup_nat [] (supers_gen fuel g c).

(* _eAllStructuralFeatures_gen: own features, then each direct supertype's *)
Fixpoint feats_gen (fuel : nat) (g : cgraph) (c : nat) : list nat :=
  match fuel with
  | O => []
  | S fu => own g c ++ flat_map (feats_gen fu g) (sups g c)
  end.

Definition all_feats (fuel : nat) (g : cgraph) (c : nat) : list nat :=
  dedup_nat [] (feats_gen fuel g c).

Definition all_refs (fuel : nat) (g : cgraph) (c : nat) : list nat :=
  filter (isref g) (all_feats fuel g c).
Definition all_attrs (fuel : nat) (g : cgraph) (c : nat) : list nat :=
  filter (fun f => negb (isref g f)) (all_feats fuel g c).

(* findEStructuralFeature: first of the generator with that name *)
Definition find_feat (fuel : nat) (g : cgraph) (c : nat) (nm : Z) : option nat :=
  find (fun f => Z.eqb (fname g f) nm) (feats_gen fuel g c).

(* ---- codec: ncls ; per class: nsup sups.. nown (fid isref name).. ; answer per class:
        |all_supers| .. |all_feats| .. |all_refs| .. |all_attrs| .. , then per (class, name in names) find ---- *)
Definition zn (z : Z) := Z.to_nat z.
Definition nz (n : nat) := Z.of_nat n.

Fixpoint dec_triples (n : nat) (t : list Z) : list (nat * bool * Z) * list Z :=
  match n with
  | O => ([], t)
  | S n' => match t with
            | a :: b :: c :: r => let '(l, r') := dec_triples n' r in ((zn a, negb (b =? 0)%Z, c) :: l, r')
            | _ => ([], [])
            end
  end.

Fixpoint dec_classes (n : nat) (t : list Z) : list (list nat * list (nat * bool * Z)) * list Z :=
  match n with
  | O => ([], t)
  | S n' =>
    match t with
    | ns :: r =>
      let ss := map zn (take (zn ns) r) in
      match drop (zn ns) r with
      | no :: r2 =>
        let '(tr, r3) := dec_triples (zn no) r2 in
        let '(cs, r4) := dec_classes n' r3 in ((ss, tr) :: cs, r4)
      | [] => ([], [])
      end
    | [] => ([], [])
    end
  end.

Definition graph_of (cs : list (list nat * list (nat * bool * Z))) : cgraph :=
  let allf := flat_map snd cs in
  {| sups := fun c => fst (nth c cs ([], []));
     own := fun c => map (fun t => fst (fst t)) (snd (nth c cs ([], [])));
     isref := fun f => match find (fun t => fst (fst t) =? f) allf with Some t => snd (fst t) | None => false end;
     fname := fun f => match find (fun t => fst (fst t) =? f) allf with Some t => snd t | None => (-1)%Z end |}.

Definition enc_list (l : list nat) : list Z := nz (length l) :: map nz l.

Definition run_metaviews (t : list Z) : list Z :=
  match t with
  | n :: r =>
    let '(cs, names) := dec_classes (zn n) r in
    let g := graph_of cs in
    let fuel := S (zn n) in
    flat_map (fun c => enc_list (all_supers fuel g c) ++ enc_list (all_feats fuel g c)
                       ++ enc_list (all_refs fuel g c) ++ enc_list (all_attrs fuel g c)
                       ++ map (fun nm => match find_feat fuel g c nm with Some f => nz f | None => (-1)%Z end) names)
             (seq 0 (zn n))
  | [] => []
  end.
