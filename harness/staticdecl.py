"""Static and dynamic DECLARATION of one metamodel description, on the real
pyecore, and the encoding of the same description for Model/StaticDecl.v
(`run_staticdecl`).  Used by harness/props/c13.py.

description D = {'types': [{'name', 'default': python value}],          data types bound in the module
                 'classes': [{'name', 'abstract', 'supers': [names], 'features': [fd], 'operations': [od],
                              'interface': bool (optional; implementation only: Model/StaticDecl.v does not carry it)}]}
fd = {'name','kind': 'attr'|'ref','type','lower','upper','ordered','unique','containment','opposite': [c,f]|None,
      'default': python value|None}
od = {'name', 'params': [{'name','required'}]}
Classes come with their supertypes declared first (the renderers write a
class once its supertypes are written: then the order is the description's).
A reflected description is the list, in class order, of
  {'name','abstract','supers','features': [feature tuples IN ORDER],'operations': [(name, ((p, required)..))]}."""
import keyword
import sys
import types as pytypes

from harness import common

_counter = [0]
BUILTIN_TYPES = ['EInt', 'EString', 'EBoolean', 'EDouble', 'EJavaObject']
ENUMS = [{'name': 'Color', 'literals': ['red', 'green', 'blue']}]


class Interner:
    """python values <-> tokens (by repr: True and 1 are different defaults)"""

    def __init__(self):
        self.t = {}

    def tok(self, v):
        if v is None:
            return None
        return self.t.setdefault(repr(v), len(self.t) + 1)


def cps(s):
    return [len(s)] + [ord(c) for c in s]


def opt(x):
    return [0] if x is None else [1, x]


# ------------------------------------------------------------------ static source
PRELUDE = ['from functools import partial',
           'import pyecore.ecore as Ecore',
           'from pyecore.ecore import *',
           "name = 'p'", "nsURI = 'http://p'", "nsPrefix = 'p'",
           'eClass = EPackage(name=name, nsURI=nsURI, nsPrefix=nsPrefix)',
           'eClassifiers = {}',
           'getEClassifier = partial(Ecore.getEClassifier, searchspace=eClassifiers)']


def feature_source(fd):
    if fd['kind'] == 'attr':
        s = (f"EAttribute(eType={fd['type']}, lower={fd['lower']}, upper={fd['upper']}, "
             f"ordered={fd['ordered']}, unique={fd['unique']}")
        if fd.get('default') is not None:
            s += f", default_value={fd['default']!r}"
        return s + ')'
    return (f"EReference(lower={fd['lower']}, upper={fd['upper']}, ordered={fd['ordered']}, "
            f"unique={fd['unique']}, containment={fd['containment']})")


def python_name(opname):
    """the method name of an operation: hard keywords get a trailing underscore, everything else keeps its name"""
    return opname + '_' if keyword.iskeyword(opname) else opname


def def_source(od, stub='none'):
    ps = ['self'] + [p['name'] if p['required'] else p['name'] + '=None' for p in od['params']]
    # what only a Python signature can say (no EParameter on HEAD: the description is the positional parameters)
    extra = od.get('python_only', {})
    if extra.get('varargs'):
        ps.append('*' + extra['varargs'])
    elif extra.get('kwonly'):
        ps.append('*')
    ps += [f'{n}=False' for n in extra.get('kwonly', [])]
    if extra.get('varkw'):
        ps.append('**' + extra['varkw'])
    ps = ', '.join(ps)
    body = '        return None' if stub == 'none' else "        raise NotImplementedError('not yet implemented')"
    return [f"    def {python_name(od['name'])}({ps}):", body]


def source(D, deco, stub='none', prelude=True, init_always=False):
    """the module text: same layout as harness/kstatic.py (nameless features, reference types and opposites
    assigned after the classes), @abstract outermost; stub='raise': method bodies raise NotImplementedError as
    generated code does"""
    # prelude=False: only the class statements and what follows them (a second rendering INTO the same module)
    L = list(PRELUDE) if prelude else []
    for en in D.get('enums', []) if prelude else []:
        L.append(f"{en['name']} = EEnum({en['name']!r}, literals={list(en['literals'])!r})")
    done = []
    for c in D['classes']:
        assert all(s in done for s in c['supers']), 'supertypes must be declared first'
        if c['abstract']:
            L.append('@abstract')
        bases = ', '.join(c['supers'])
        if not bases and deco:
            L.append('@EMetaclass')
            L.append(f"class {c['name']}(object):")
        elif not bases:
            L.append(f"class {c['name']}(EObject, metaclass=MetaEClass):")
        else:
            L.append(f"class {c['name']}({bases}):")
        body = [f"    {fd['name']} = {feature_source(fd)}" for fd in c['features']]
        for od in c['operations']:
            body += def_source(od, stub)
        if not deco or init_always:      # init_always: generated code writes an __init__ whatever the style
            # (no super() under @EMetaclass: the decorator re-creates the class, super()'s cell holds the old one)
            body += ['    def __init__(self, **kwargs):'] + ([] if deco else ['        super().__init__()']) + \
                    ['        for k, v in kwargs.items():', '            setattr(self, k, v)']
        L += body or ['    pass']
        if c.get('interface'):
            L.append(f"{c['name']}.eClass.interface = True")
        done.append(c['name'])
    for c in D['classes']:
        for fd in c['features']:
            if fd['kind'] == 'ref':
                L.append(f"{c['name']}.{fd['name']}.eType = {fd['type']}")
    seen = set()
    for c in D['classes']:
        for fd in c['features']:
            if fd.get('opposite'):
                oc, on = fd['opposite']
                key = tuple(sorted([(c['name'], fd['name']), (oc, on)]))
                if key in seen:
                    continue
                seen.add(key)
                L.append(f"{c['name']}.{fd['name']}.eOpposite = {oc}.{on}")
    return '\n'.join(L) + '\n'


def execute(src, tag):
    """run a module text in a fresh module registered in sys.modules -> module (caller: forget(mod))"""
    common.use_repo()
    _counter[0] += 1
    modname = f'verif_sd_{tag}_{_counter[0]}'
    mod = pytypes.ModuleType(modname)
    sys.modules[modname] = mod
    try:
        exec(compile(src, modname, 'exec'), mod.__dict__)
    except BaseException:
        sys.modules.pop(modname, None)
        raise
    return mod


def forget(mod):
    sys.modules.pop(mod.__name__, None)


# ------------------------------------------------------------------ dynamic construction
def build_dynamic(D, breadth=False):
    """-> list of EClass in class order (the construction of harness/kimpl.py, plus lower/default);
    breadth=True: every operation is first added to its class WITHOUT parameters (all classes), the parameters
    are described afterwards, class by class (what a loader or an editor does).
    A class may say HOW it is put together, c['build'] = {'supers': 'append'|'ctor'|'extend'|'iadd'|'assign'|'insert0',
    'features': 'append'|'extend', 'operations': 'append'|'extend'} (default: append); the result is the same
    description whatever the style"""
    common.use_repo()
    from pyecore import ecore as E
    enums = {en['name']: E.EEnum(en['name'], literals=list(en['literals'])) for en in D.get('enums', [])}
    classes = {}
    order = []
    def how(c, part):
        return c.get('build', {}).get(part, 'append')
    for c in D['classes']:
        if how(c, 'supers') == 'ctor' and c['supers']:
            # the super types are declared first: they exist
            classes[c['name']] = E.EClass(c['name'], superclass=tuple(classes[s] for s in c['supers']), abstract=c['abstract'])
        else:
            classes[c['name']] = E.EClass(c['name'], abstract=c['abstract'])
        if c.get('interface'):
            classes[c['name']].interface = True
        order.append(classes[c['name']])
    for c in D['classes']:
        ec, sups, style = classes[c['name']], [classes[s] for s in c['supers']], how(c, 'supers')
        if not sups or style == 'ctor':
            continue
        if style == 'extend':
            ec.eSuperTypes.extend(sups)
        elif style == 'iadd':
            ec.eSuperTypes += sups
        elif style == 'assign':
            ec.eSuperTypes = sups
        elif style == 'insert0':
            for x in reversed(sups):
                ec.eSuperTypes.insert(0, x)
        else:
            for x in sups:
                ec.eSuperTypes.append(x)
    byname = {}
    for c in D['classes']:
        made = []
        for fd in c['features']:
            if fd['kind'] == 'attr':
                et = enums[fd['type']] if fd['type'] in enums else getattr(E, fd['type'])
                kw = {} if fd.get('default') is None else {'default_value': fd['default']}
                f = E.EAttribute(fd['name'], et, lower=fd['lower'], upper=fd['upper'], ordered=fd['ordered'],
                                 unique=fd['unique'], **kw)
            else:
                f = E.EReference(fd['name'], classes[fd['type']], lower=fd['lower'], upper=fd['upper'],
                                 ordered=fd['ordered'], unique=fd['unique'], containment=fd['containment'])
            made.append(f)
            byname[(c['name'], fd['name'])] = f
            if how(c, 'features') != 'extend':
                classes[c['name']].eStructuralFeatures.append(f)
        if how(c, 'features') == 'extend' and made:
            classes[c['name']].eStructuralFeatures.extend(made)
    for c in D['classes']:
        for fd in c['features']:
            if fd.get('opposite'):
                byname[(c['name'], fd['name'])].eOpposite = byname[tuple(fd['opposite'])]
    later = []
    for c in D['classes']:
        made = []
        for od in c['operations']:
            ps = [E.EParameter(p['name'], eType=E.ENativeType, required=p['required']) for p in od['params']]
            if breadth:
                op = E.EOperation(od['name'])
                later.append((op, ps))
            else:
                op = E.EOperation(od['name'], params=ps)
            made.append(op)
            if how(c, 'operations') != 'extend':
                classes[c['name']].eOperations.append(op)
        if how(c, 'operations') == 'extend' and made:
            classes[c['name']].eOperations.extend(made)
    for op, ps in later:
        for prm in ps:
            op.eParameters.append(prm)
    pkg = E.EPackage('p', nsURI='http://p', nsPrefix='p')
    pkg.eClassifiers.extend(order)
    pkg.eClassifiers.extend(enums.values())
    return order


# ------------------------------------------------------------------ reflection (public API only)
def reflect(eclasses, intern, flags=False):
    """the ordered normal form compared with the model (harness/props/c13.py's description keeps the same
    fields, sorted)"""
    common.use_repo()
    from pyecore import ecore as E
    out = []
    for ec in eclasses:
        feats = []
        for f in ec.eStructuralFeatures:
            is_ref = isinstance(f, E.EReference)
            opp = getattr(f, 'eOpposite', None) if is_ref else None
            t = f.eType
            tn = '' if t is None else (t.eClass.name if isinstance(t, type) else t.name)
            feats.append((f.name or '', is_ref, tn, f.lowerBound, f.upperBound, bool(f.many), bool(f.ordered),
                          bool(f.unique), bool(getattr(f, 'containment', False)),
                          (opp.eContainingClass.name if opp.eContainingClass is not None else '', opp.name or '')
                          if opp is not None else None,
                          None if is_ref else intern.tok(f.default_value)))
        ops = []
        for op in ec.eOperations:
            ps = [(p.name, bool(p.required)) for p in op.eParameters]
            if ps and ps[0][0] == 'self':
                ps = ps[1:]          # static reflection lists the receiver; the declaration does not
            ops.append((op.name, tuple(ps)))
        out.append({'name': ec.name, 'abstract': bool(ec.abstract), 'supers': [s.name for s in ec.eSuperTypes],
                    'features': feats, 'operations': ops})
        if flags:
            out[-1]['interface'] = bool(ec.interface)
    return out


def strip_flags(desc):
    """a reflected description without the flags the model does not carry"""
    return [{k: v for k, v in c.items() if k != 'interface'} for c in desc] if isinstance(desc, list) else desc


def type_table(D, intern):
    """[(name, token of the data type's default_value)] for every data type the module binds"""
    common.use_repo()
    from pyecore import ecore as E
    tab = [(n, intern.tok(getattr(E, n).default_value)) for n in BUILTIN_TYPES]
    for en in D.get('enums', []):
        tab.append((en['name'], intern.tok(E.EEnum(en['name'], literals=list(en['literals'])).default_value)))
    return tab


# ------------------------------------------------------------------ codec (Model/StaticDecl.v)
def enc_feature(fd, intern):
    t = cps(fd['name']) + [int(fd['kind'] == 'ref')] + cps(fd['type']) + [fd['lower'], fd['upper'], int(fd['ordered']),
                                                                        int(fd['unique']), int(fd['containment'])]
    t += [0] if not fd.get('opposite') else [1] + cps(fd['opposite'][0]) + cps(fd['opposite'][1])
    return t + opt(intern.tok(fd.get('default')))


def enc_descr(D, intern):
    tab = type_table(D, intern)
    t = [len(tab)]
    for n, d in tab:
        t += cps(n) + opt(d)
    t.append(len(D['classes']))
    for c in D['classes']:
        t += cps(c['name']) + [int(c['abstract']), len(c['supers'])]
        for s in c['supers']:
            t += cps(s)
        t.append(len(c['features']))
        for fd in c['features']:
            t += enc_feature(fd, intern)
        t.append(len(c['operations']))
        for od in c['operations']:
            t += cps(od['name']) + [len(od['params'])]
            for p in od['params']:
                t += cps(p['name']) + [int(p['required'])]
    return t


class Reader:
    def __init__(self, toks):
        self.t = toks
        self.i = 0

    def z(self):
        v = self.t[self.i]
        self.i += 1
        return v

    def name(self):
        n = self.z()
        s = ''.join(chr(c) for c in self.t[self.i:self.i + n])
        self.i += n
        return s

    def classes(self):
        out = []
        for _ in range(self.z()):
            c = {'name': self.name(), 'abstract': bool(self.z()), 'supers': [self.name() for _ in range(self.z())]}
            feats = []
            for _ in range(self.z()):
                nm, ref, tn = self.name(), bool(self.z()), self.name()
                lo, up, many, od, un, ct = self.z(), self.z(), bool(self.z()), bool(self.z()), bool(self.z()), bool(self.z())
                opp = (self.name(), self.name()) if self.z() else None
                df = self.z() if self.z() else None
                feats.append((nm, ref, tn, lo, up, many, od, un, ct, opp, df))
            c['features'] = feats
            ops = []
            for _ in range(self.z()):
                on = self.name()
                ops.append((on, tuple((self.name(), bool(self.z())) for _ in range(self.z()))))
            c['operations'] = ops
            out.append(c)
        return out

    def result(self):
        return self.classes() if self.z() else None


def ask_descr(model, D, deco, intern):
    """-> (wf, static description | None, dynamic description | None, canonical description)"""
    r = Reader(model.ask('staticdecl', [0, int(deco)] + enc_descr(D, intern)))
    wf = bool(r.z())
    st, dy, ca = r.result(), r.result(), r.classes()
    assert r.i == len(r.t), 'trailing tokens'
    return wf, st, dy, ca


# ------------------------------------------------------------------ generators
def from_kgen(mm):
    """a kernel metamodel description (harness/kgen.py, with 'operations') as a description D"""
    classes = []
    for c in mm['classes']:
        feats = [{'name': fd['name'], 'kind': fd['kind'], 'type': fd['type'], 'lower': 0,
                  'upper': -1 if fd['many'] else 1, 'ordered': fd.get('ordered', True), 'unique': fd.get('unique', True),
                  'containment': bool(fd.get('containment', False)) and fd['kind'] == 'ref',
                  'opposite': list(fd['opposite']) if fd.get('opposite') else None, 'default': None}
                 for fd in c['features']]
        classes.append({'name': c['name'], 'abstract': bool(c.get('abstract', False)), 'supers': list(c.get('supers', [])),
                        'features': feats, 'operations': [dict(o) for o in c.get('operations', [])]})
    return {'enums': [dict(e) for e in mm.get('enums', [])], 'classes': classes}


ATTR_DEFAULTS = {'EInt': [None, None, 5, 0, -3], 'EString': [None, None, 'a', ''], 'EBoolean': [None, True, False],
                 'EDouble': [None, 1.5], 'EJavaObject': [None, None, 7, 'j'], 'Color': [None]}
FNAMES = ['x', 'y', 'n', 'name', 'kids', 'parent', 'items', 'owner', 'val', 'flag', 'left', 'right', 'a1', 'b_2', '_p', 'z9']
ONAMES = ['describe', 'scale', 'ping', 'run', 'check_it']
PNAMES = ['k', 'unit', 'v', 'w', 'flag2']
CNAMES = ['A', 'B', 'C', 'D', 'Ee', 'F1', 'G', 'H']


def mro_ok(supers_of, name, supers):
    """would Python accept `class name(*supers)`?  (asked to Python itself, on plain classes)"""
    made = {}

    def mk(n):
        if n not in made:
            made[n] = type(n, tuple(mk(s) for s in supers_of[n]) or (object,), {})
        return made[n]
    try:
        type(name, tuple(mk(s) for s in supers), {})
        return True
    except TypeError:
        return False


def gen_descr(rng, max_classes=6):
    """a random well-formed description: distinct names, supertypes declared first (diamonds allowed, only bases
    Python's C3 accepts), attributes with defaults and bounds, references with symmetric opposites, containment,
    abstract classes, operations (required parameters first)"""
    ncls = rng.randrange(1, max_classes + 1)
    names = rng.sample(CNAMES, ncls)
    supers_of = {}
    classes = []
    for i, n in enumerate(names):
        sup = []
        if i and rng.random() < 0.6:
            sup = rng.sample(names[:i], min(i, rng.choice([1, 1, 2, 2, 3])))
            if not mro_ok(supers_of, n, sup):
                sup = sup[:1]
        supers_of[n] = sup
        classes.append({'name': n, 'abstract': rng.random() < 0.3, 'interface': rng.random() < 0.3, 'supers': sup,
                        'features': [], 'operations': []})
    for c in classes:
        pool = rng.sample(FNAMES, rng.choice([0, 1, 2, 3, 4, 6]))
        nops = rng.choice([0, 0, 1, 2])
        for on in rng.sample(ONAMES, nops):
            ps = rng.sample(PNAMES, rng.randrange(0, 4))
            nreq = rng.randrange(0, len(ps) + 1)
            c['operations'].append({'name': on, 'params': [{'name': p, 'required': j < nreq} for j, p in enumerate(ps)]})
            k = (len(on) + len(ps) + len(c['name'])) % 5          # no draw: this generator shares the run's stream
            c['operations'][-1]['python_only'] = [{}, {'varargs': 'details'}, {'varkw': 'options'}, {'kwonly': ['relative']},
                                                  {'varargs': 'details', 'kwonly': ['relative', 'strict'], 'varkw': 'options'}][k]
        for fn in pool:
            if rng.random() < 0.5:
                t = rng.choice(BUILTIN_TYPES + ['Color'])
                up = rng.choice([1, 1, -1, -1, 3, 0, -2])
                c['features'].append({'name': fn, 'kind': 'attr', 'type': t, 'lower': rng.choice([0, 0, 1]), 'upper': up,
                                      'ordered': rng.random() < 0.8, 'unique': rng.random() < 0.7, 'containment': False,
                                      'opposite': None, 'default': rng.choice(ATTR_DEFAULTS[t])})
            else:
                c['features'].append({'name': fn, 'kind': 'ref', 'type': rng.choice(names), 'lower': rng.choice([0, 0, 1]),
                                      'upper': rng.choice([1, 1, -1, -1, 2]), 'ordered': rng.random() < 0.8,
                                      'unique': rng.random() < 0.8, 'containment': rng.random() < 0.3,
                                      'opposite': None, 'default': None})
    # symmetric opposites between references still free (a feature may be its own opposite)
    refs = [(c, fd) for c in classes for fd in c['features'] if fd['kind'] == 'ref']
    rng.shuffle(refs)
    while len(refs) >= 1 and rng.random() < 0.7:
        c1, f1 = refs.pop()
        if refs and rng.random() < 0.85:
            c2, f2 = refs.pop()
        else:
            c2, f2 = c1, f1
        if f1['containment'] and f2['containment']:
            f2['containment'] = False
        f1['opposite'] = [c2['name'], f2['name']]
        f2['opposite'] = [c1['name'], f1['name']]
    return {'enums': [dict(e) for e in ENUMS], 'classes': classes}


# ------------------------------------------------------------------ arbitrary class bodies (mode 1 of run_staticdecl)
# module = {'classes': [{'name','style': 'meta'|'deco'|'inherit','abstract','bases': [names], 'body': [entry]}],
#           'post': [['type', c, k, t] | ['opp', c, k, c2, k2]]}
# entry = {'key', 'kind': 'feat', 'ename': None|str, 'ref', 'type': None|name, 'lower','upper','ordered','unique','cont','default'}
#       | {'key', 'kind': 'func', 'args': [names], 'ndefaults': n} | {'key', 'kind': 'static'} | {'key', 'kind': 'other'}
BODY_KEYS = ['x', 'y', 'n', 'kids', 'owner', '_p', '__priv', '__du__', 'eClass', 'dyn_inst', '_staticEClass', 'm', 'run', 'z9']
FUNC_ARGS = [['self'], ['self', 'a'], ['self', 'a', 'b'], [], ['this'], ['this', 'self'], ['self', 'k', 'unit', 'w']]


def mangled(cname, key):
    if key.startswith('__') and not key.endswith('__') and cname.strip('_'):
        return '_' + cname.lstrip('_') + key
    return key


def gen_module(rng, max_classes=4):
    ncls = rng.randrange(1, max_classes + 1)
    names = rng.sample(CNAMES, ncls)
    supers_of, classes = {}, []
    for i, n in enumerate(names):
        sup = []
        if i and rng.random() < 0.5:
            sup = rng.sample(names[:i], min(i, rng.choice([1, 1, 2])))
            if not mro_ok(supers_of, n, sup):
                sup = sup[:1]
        supers_of[n] = sup
        body = []
        for _ in range(rng.choice([0, 1, 2, 3, 5, 7])):
            key = rng.choice(BODY_KEYS)
            r = rng.random()
            if r < 0.55:
                ref = rng.random() < 0.45
                t = None if ref or rng.random() < 0.15 else rng.choice(BUILTIN_TYPES)
                body.append({'key': key, 'kind': 'feat', 'ename': rng.choice([None, None, None, '', 'given', 'x', key]),
                             'ref': ref, 'type': t, 'lower': rng.choice([0, 1]), 'upper': rng.choice([1, -1, 2]),
                             'ordered': rng.random() < 0.8, 'unique': rng.random() < 0.8,
                             'cont': ref and rng.random() < 0.3,
                             'default': None if ref else rng.choice(ATTR_DEFAULTS[t or 'EJavaObject'])})
            elif r < 0.8:
                args = rng.choice(FUNC_ARGS)
                body.append({'key': key, 'kind': 'func', 'args': list(args), 'ndefaults': rng.randrange(0, len(args) + 1)})
            else:
                body.append({'key': key, 'kind': rng.choice(['static', 'other'])})
        style = 'inherit' if sup else rng.choice(['meta', 'deco'])
        classes.append({'name': n, 'style': style, 'abstract': rng.random() < 0.25, 'bases': sup, 'body': body})
    # what each key of a class finally holds
    final = {}
    for c in classes:
        ns = {}
        for e in c['body']:
            ns[mangled(c['name'], e['key'])] = e
        final[c['name']] = ns
    feats = [(c['name'], k, e) for c in classes for k, e in final[c['name']].items()
             if e['kind'] == 'feat' and k not in ('eClass', 'dyn_inst', '_staticEClass')]
    refs = [(cn, k) for cn, k, e in feats if e['ref']]
    post = []
    for cn, k, e in feats:
        if e['ref'] and rng.random() < 0.85:
            post.append(['type', cn, k, rng.choice(names)])
        elif rng.random() < 0.1:
            post.append(['type', cn, k, rng.choice(names + ['EInt'])])
    for _ in range(rng.choice([0, 0, 1, 2, 3])):
        if refs:
            a, b = rng.choice(refs), rng.choice(refs)
            post.append(['opp', a[0], a[1], b[0], b[1]])
    if rng.random() < 0.08:
        post.insert(rng.randrange(len(post) + 1), ['type', rng.choice(names), rng.choice(['zz_unknown', '__priv']), names[0]])
    return {'classes': classes, 'post': post}


def entry_source(e):
    k = e['key']
    if e['kind'] == 'feat':
        args = [] if e['ename'] is None else [f"name={e['ename']!r}"]
        if e['type'] is not None:
            args.append(f"eType={e['type']}")
        args += [f"lower={e['lower']}", f"upper={e['upper']}", f"ordered={e['ordered']}", f"unique={e['unique']}"]
        if e['ref']:
            args.append(f"containment={e['cont']}")
        elif e['default'] is not None:
            args.append(f"default_value={e['default']!r}")
        return [f"    {k} = {'EReference' if e['ref'] else 'EAttribute'}({', '.join(args)})"]
    if e['kind'] == 'func':
        n = len(e['args'])
        ps = [a if j < n - e['ndefaults'] else a + '=None' for j, a in enumerate(e['args'])]
        return [f"    def {k}({', '.join(ps)}):", '        return None']
    if e['kind'] == 'static':
        return [f"    {k} = staticmethod(_plain)"]
    return [f"    {k} = 3"]


def module_source(m):
    L = list(PRELUDE) + ['def _plain(a=None):', '    return None']
    for c in m['classes']:
        if c['abstract']:
            L.append('@abstract')
        if c['style'] == 'deco':
            L += ['@EMetaclass', f"class {c['name']}(object):"]
        elif c['style'] == 'meta':
            L.append(f"class {c['name']}(EObject, metaclass=MetaEClass):")
        else:
            L.append(f"class {c['name']}({', '.join(c['bases'])}):")
        body = []
        for e in c['body']:
            body += entry_source(e)
        L += body or ['    pass']
    for s in m['post']:
        if s[0] == 'type':
            L.append(f"{s[1]}.{s[2]}.eType = {s[3]}")
        else:
            L.append(f"{s[1]}.{s[2]}.eOpposite = {s[3]}.{s[4]}")
    return '\n'.join(L) + '\n'


def enc_module(m, intern):
    common.use_repo()
    from pyecore import ecore as E
    tab = [(n, intern.tok(getattr(E, n).default_value)) for n in BUILTIN_TYPES]
    t = [len(tab)]
    for n, d in tab:
        t += cps(n) + opt(d)
    t.append(len(m['classes']))
    for c in m['classes']:
        t += cps(c['name']) + [{'meta': 0, 'deco': 1, 'inherit': 2}[c['style']], int(c['abstract'])]
        bases = c['bases'] if c['style'] == 'inherit' else (['object'] if c['style'] == 'deco' else ['EObject'])
        t.append(len(bases))
        for b in bases:
            t += [0] if b == 'EObject' else [1] if b == 'object' else [2] + cps(b)
        t.append(len(c['body']))
        for e in c['body']:
            t += cps(e['key'])
            if e['kind'] == 'feat':
                t += [0] + ([0] if e['ename'] is None else [1] + cps(e['ename'])) + [int(e['ref'])]
                t += ([0] if e['type'] is None else [1] + cps(e['type']))
                t += [e['lower'], e['upper'], int(e['ordered']), int(e['unique']), int(e['cont'])] + opt(intern.tok(e['default']))
            elif e['kind'] == 'func':
                t += [1, len(e['args']), e['ndefaults']]
                for a in e['args']:
                    t += cps(a)
            else:
                t += [2 if e['kind'] == 'static' else 3]
    t.append(len(m['post']))
    for s in m['post']:
        t += ([0] + cps(s[1]) + cps(s[2]) + cps(s[3])) if s[0] == 'type' else ([1] + cps(s[1]) + cps(s[2]) + cps(s[3]) + cps(s[4]))
    return t


def ask_module(model, m, intern):
    r = Reader(model.ask('staticdecl', [1] + enc_module(m, intern)))
    res = r.result()
    assert r.i == len(r.t), 'trailing tokens'
    return res


# ------------------------------------------------------------------ behaviour of instances of both renderings
# history step (ci = index of the class whose instance is used; one instance per class and rendering):
#   ['mro', ci] ['get', ci, n] ['set', ci, n, v] ['eget', ci, n] ['eset', ci, n, v] ['isset', ci, n] ['unset', ci, n]
#   ['call', ci, python method name, number of positional arguments] ['state', ci] ['xload', ci]
#   ['new', ci]: one more instance of the class is created (ok / exception class)
#   ['issub', ci, cj, 'handle'|'eclass']: issubclass between the class handles / their EClasses (cj = -1: EObject)
#   ['sig', ci, python method name]: inspect.signature of the bound method as [name, required, kind]
# values are plain JSON: 'x', 3, True, 1.5, None, ['a'], [1, 2]
CLASH_TYPES = [('EString', 1), ('EInt', 1), ('EBoolean', 1), ('EDouble', 1), ('EString', -1), ('EInt', -1)]
CLASH_DEFAULTS = {'EString': [None, 'dflt'], 'EInt': [None, 7], 'EBoolean': [None, True], 'EDouble': [None, 2.5]}
VALUES = ['x', 3, True, 1.5, None, ['a'], [1, 2], '']
SOFT_KEYWORDS = ['match', 'case', 'type', '_']
HARD_KEYWORDS = ['class', 'def', 'import', 'lambda', 'is', 'None']


def _cls(classes, name, supers):
    c = {'name': name, 'abstract': False, 'supers': list(supers), 'features': [], 'operations': []}
    classes.append(c)
    return c


def _attr(name, t, upper, default=None):
    return {'name': name, 'kind': 'attr', 'type': t, 'lower': 0, 'upper': upper, 'ordered': True, 'unique': upper == 1,
            'containment': False, 'opposite': None, 'default': default if upper == 1 else None}


def _op(rng, name, maxp=3):
    ps = rng.sample(PNAMES, rng.randrange(0, maxp + 1))
    nreq = rng.randrange(0, len(ps) + 1)
    return {'name': name, 'params': [{'name': p, 'required': j < nreq} for j, p in enumerate(ps)]}


def _flags(rng, classes):
    """abstract x interface in all four combinations (mostly plain classes: their instances carry the scenarios)"""
    for c in classes:
        c['abstract'], c['interface'] = rng.choice([(False, False)] * 5 + [(False, True)] * 2 + [(True, False), (True, True)])


def gen_clash_descr(rng):
    """multiple inheritance over branches of DIFFERENT depth (optionally under one root) whose classes declare
    features and operations of the same name with different types / parameters; the leaf lists the branch tips in
    a random order, so a later super type can have the deeper hierarchy"""
    classes = []
    root = _cls(classes, 'Named', []) if rng.random() < 0.75 else None
    tips = []
    depths = rng.sample([1, 2, 3, 4], rng.choice([2, 2, 3]))
    for b, depth in enumerate(depths):
        prev = [root['name']] if root is not None and rng.random() < 0.85 else []
        for d in range(depth):
            prev = [_cls(classes, 'ABD'[b] + str(d), prev)['name']]
        tips.append(prev[0])
    rng.shuffle(tips)
    supers_of = {c['name']: c['supers'] for c in classes}
    while not mro_ok(supers_of, 'C', tips):
        tips.pop()
    leaf = _cls(classes, 'C', tips)
    if rng.random() < 0.4:
        _cls(classes, 'CC', ['C'])
    declaring = [c for c in classes if c is not leaf]
    for fn in rng.sample(['label', 'size', 'tag'], rng.choice([1, 2, 3])):
        owners = [c for c in declaring if rng.random() < 0.5]
        if len(owners) < 2:
            owners = rng.sample(declaring, min(2, len(declaring)))
        for c in owners:
            t, up = rng.choice(CLASH_TYPES)
            c['features'].append(_attr(fn, t, up, rng.choice(CLASH_DEFAULTS[t])))
    for on in rng.sample(['describe', 'run'], rng.choice([1, 2])):
        owners = [c for c in declaring if rng.random() < 0.5]
        if len(owners) < 2:
            owners = rng.sample(declaring, min(2, len(declaring)))
        for c in owners:
            c['operations'].append(_op(rng, on))
    if rng.random() < 0.3:
        leaf['operations'].append(_op(rng, 'describe'))
    _flags(rng, classes)
    return {'enums': [], 'classes': classes}


def gen_keyword_descr(rng):
    """operations named after soft keywords (ordinary method names), hard keywords (method gets a trailing
    underscore) and plain names, overridden with other parameters in a subclass"""
    classes = []
    rule = _cls(classes, 'Rule', [])
    rule['features'].append(_attr('pattern', 'EString', 1))
    special = _cls(classes, 'Special', ['Rule'])
    other = _cls(classes, 'Other', []) if rng.random() < 0.5 else None
    names = rng.sample(SOFT_KEYWORDS, rng.randrange(1, 5)) + rng.sample(HARD_KEYWORDS, rng.randrange(0, 3)) + ['check']
    rng.shuffle(names)
    for n in names:
        rule['operations'].append(_op(rng, n, 2))
        if rng.random() < 0.4:
            special['operations'].append(_op(rng, n, 3))
        if other is not None and rng.random() < 0.4:
            other['operations'].append(_op(rng, n, 2))
    if other is not None and rng.random() < 0.5:
        _cls(classes, 'Both', ['Special', 'Other'])
    _flags(rng, classes)
    return {'enums': [], 'classes': classes}


def behave_history(D, rng, xload=True):
    fnames = sorted({fd['name'] for c in D['classes'] for fd in c['features']})
    ops = {}
    for c in D['classes']:
        for od in c['operations']:
            ops.setdefault(python_name(od['name']), set()).update({len(od['params']), sum(p['required'] for p in od['params'])})
    hist = []
    for ci, c in enumerate(D['classes']):
        hist.append(['new', ci])
        if c['abstract']:
            continue                   # no instance to drive: the refusal itself is the observation
        for n in fnames:
            hist.append(['get', ci, n])
            hist.append(['isset', ci, n])
            for v in rng.sample(VALUES, 4):
                hist.append([rng.choice(['set', 'set', 'eset']), ci, n, v])
                hist.append([rng.choice(['get', 'eget']), ci, n])
            hist.append(['isset', ci, n])
            if rng.random() < 0.3:
                hist += [['unset', ci, n], ['get', ci, n], ['isset', ci, n]]
        for pn in sorted(ops):
            hist.append(['sig', ci, pn])
            for k in sorted({0, max(ops[pn]) + 1} | ops[pn]):
                hist.append(['call', ci, pn, k])
        hist += [['state', ci], ['mro', ci]]
    n = len(D['classes'])
    for ci in range(n):
        for cj in [-1] + list(range(n)):
            hist += [['issub', ci, cj, 'handle'], ['issub', ci, cj, 'eclass']]
    if xload:
        # an instance of every class is saved and loaded back by a static and by a dynamic rendering
        hist += [['xload', ci] for ci in range(len(D['classes']))]
    return hist


class Behaviour:
    """one rendering of D ('dynamic' | 'static-meta' | 'static-decorator') driven through a history"""

    breadth = False
    init_always = False

    def __init__(self, D, render):
        common.use_repo()
        from pyecore.notification import EObserver
        self.D, self.render, self.mod = D, render, None
        if render == 'dynamic':
            self.eclasses = build_dynamic(D, breadth=self.breadth)
            self.factories = list(self.eclasses)
            self.pkg = self.eclasses[0].ePackage
        else:
            self.mod = execute(source(D, render == 'static-decorator', stub='raise', init_always=self.init_always), 'bh')
            self.factories = [self.mod.__dict__[c['name']] for c in D['classes']]
            self.eclasses = [f.eClass for f in self.factories]
            self.pkg = self.mod
        self.objs, self.log, self.EObserver, self.loaders = {}, [], EObserver, None

    def close(self):
        if self.mod is not None:
            forget(self.mod)
        for b in self.loaders or []:
            b.close()

    def obj(self, ci):
        if ci not in self.objs:
            o = self.factories[ci]()
            self.EObserver(o, notifyChanged=lambda n: self.log.append(
                (n.kind.name, n.feature.name, n.feature.eContainingClass.name, canon(n.old), canon(n.new))))
            self.objs[ci] = o
        return self.objs[ci]

    def state(self, o):
        out = []
        for f in sorted(o.eClass.eAllStructuralFeatures(), key=lambda f: (f.name, f.eContainingClass.name)):
            try:
                out.append((f.name, f.eContainingClass.name, bool(o.eIsSet(f)), canon(o.eGet(f))))
            except Exception as e:  # noqa
                out.append((f.name, f.eContainingClass.name, 'raises', type(e).__name__))
        return out

    def step(self, st):
        if st[0] == 'new':
            self.factories[st[1]]()
            return 'created'
        if st[0] == 'issub':
            from pyecore.ecore import EObject
            if st[3] == 'handle':
                return bool(issubclass(self.factories[st[1]], EObject if st[2] < 0 else self.factories[st[2]]))
            return bool(issubclass(self.eclasses[st[1]], EObject.eClass if st[2] < 0 else self.eclasses[st[2]]))
        k, o = st[0], self.obj(st[1])
        if k == 'mro':
            names = {c['name'] for c in self.D['classes']}
            return [x.__name__ for x in type(o).__mro__ if x.__name__ in names]
        if k == 'get':
            return canon(getattr(o, st[2]))
        if k == 'eget':
            return canon(o.eGet(st[2]))
        if k == 'set':
            return canon(setattr(o, st[2], st[3]))
        if k == 'eset':
            return canon(o.eSet(st[2], st[3]))
        if k == 'isset':
            return bool(o.eIsSet(st[2]))
        if k == 'unset':
            return canon(delattr(o, st[2]))
        if k == 'call':
            return canon(getattr(o, st[2])(*['p'] * st[3]))
        if k == 'issub':
            raise ValueError('handled before the instance')
        if k == 'sig':
            import inspect
            return [[n, prm.default is inspect.Parameter.empty, prm.kind.name]
                    for n, prm in inspect.signature(getattr(o, st[2])).parameters.items()]
        if k == 'state':
            return self.state(o)
        if k == 'xload':
            return self.xload(o)
        raise ValueError(k)

    def xload(self, o):
        """save the instance; the document is loaded by a fresh static and by a fresh dynamic rendering"""
        import os
        import tempfile
        from pyecore.resources import ResourceSet, URI
        res = []
        with tempfile.TemporaryDirectory() as td:
            path = os.path.join(td, 'm.xmi')
            r = ResourceSet().create_resource(URI(path))
            r.append(o)
            r.save()
            if self.loaders is None:
                self.loaders = [Behaviour(self.D, render) for render in ('static-meta', 'dynamic')]
            for b in self.loaders:
                try:
                    rs = ResourceSet()
                    rs.metamodel_registry['http://p'] = b.pkg
                    root = rs.get_resource(URI(path)).contents[0]
                    res.append(('loaded', root.eClass.name, b.state(root)))
                except Exception as e:  # noqa
                    res.append(('load raises', type(e).__name__))
            r.remove(o)
        return res

    def run(self, history):
        trace = []
        for st in history:
            try:
                r = ('ok', self.step(st))
            except Exception as e:  # noqa
                r = ('raises', type(e).__name__)
            trace.append(json_able({'result': r, 'notifications': self.log[:]}))
            del self.log[:]
        return trace


def canon(v):
    common.use_repo()
    from pyecore.valuecontainer import ECollection
    if isinstance(v, ECollection) or isinstance(v, (list, tuple, set)):
        return ['coll'] + [canon(x) for x in v]
    if v is None or isinstance(v, (bool, int, float, str)):
        return repr(v)
    return type(v).__name__


def json_able(x):
    if isinstance(x, (list, tuple)):
        return [json_able(y) for y in x]
    if isinstance(x, dict):
        return {k: json_able(v) for k, v in x.items()}
    return x


# ------------------------------------------------------------------ populations: class-level queries, re-rendering
# population history (oi = index of an object in creation order, ri = resource index):
#   ['make', ci] ['contain', p, ref, c] ['uncontain', p, ref, c] ['rappend', ri, oi] ['rremove', ri, oi]
#   ['all', ci, None|[ri..]] (allInstances of the class handle) ['eall', ci, None|[ri..]] (of its EClass)
#   ['eres', oi] ['econtents', oi] ['eallcontents', oi] ['eroot', oi] ['econtainer', oi]
def _ref(name, t, upper, containment):
    return {'name': name, 'kind': 'ref', 'type': t, 'lower': 0, 'upper': upper, 'ordered': True, 'unique': True,
            'containment': containment, 'opposite': None, 'default': None}


def gen_population_descr(rng):
    """Node(kids*, kid, link) with subclasses, optionally under an abstract Base, and an unrelated holder class"""
    classes = []
    base = _cls(classes, 'Base', []) if rng.random() < 0.5 else None
    if base is not None:
        base['abstract'] = rng.random() < 0.7
    node = _cls(classes, 'Node', ['Base'] if base is not None else [])
    node['features'] += [_attr('name', 'EString', 1), _ref('kids', 'Node', -1, True), _ref('kid', 'Node', 1, True),
                         _ref('link', 'Node', 1, False)]
    leaf = _cls(classes, 'Leaf', ['Node'])
    if rng.random() < 0.6:
        leaf['features'].append(_attr('weight', 'EInt', 1))
    if rng.random() < 0.6:
        _cls(classes, 'Special', ['Leaf'])
    if rng.random() < 0.5:
        _cls(classes, 'Twig', ['Node'])
    other = _cls(classes, 'Other', [])
    other['features'].append(_ref('items', 'Node', -1, True))
    for c in classes:
        c['interface'] = False
    return {'enums': [], 'classes': classes}


def revise_descr(D, rng):
    """the description as revised later: some classes get one more attribute, sometimes one more class"""
    import copy
    R = copy.deepcopy(D)
    for c in R['classes']:
        if rng.random() < 0.4:
            c['features'].append(_attr('rev', rng.choice(['EInt', 'EString']), 1))
    if rng.random() < 0.3:
        _cls(R['classes'], 'Added', ['Node'])['interface'] = False
    return R


def _has_feature(D, ci, name):
    byname = {c['name']: c for c in D['classes']}
    todo, seen = [D['classes'][ci]['name']], set()
    while todo:
        c = byname[todo.pop()]
        if c['name'] in seen:
            continue
        seen.add(c['name'])
        if any(fd['name'] == name for fd in c['features']):
            return True
        todo += c['supers']
    return False


def population_history(D, rng):
    concrete = [ci for ci, c in enumerate(D['classes']) if not c['abstract']]
    h, cls_of = [], []
    for _ in range(rng.randrange(4, 9)):
        cls_of.append(rng.choice(concrete))
        h.append(['make', cls_of[-1]])
    n = len(cls_of)

    def queries():
        q = []
        for ci in range(len(D['classes'])):
            for rs in (None, [0], [1], [0, 1]):
                q.append([rng.choice(['all', 'all', 'eall']), ci, rs])
        for oi in rng.sample(range(n), min(n, 4)):
            q += [['eres', oi], ['econtents', oi], ['eallcontents', oi], ['eroot', oi], ['econtainer', oi]]
        return q
    for j in range(1, n):
        if rng.random() < 0.75:
            p = rng.randrange(j)                       # parents are older: no containment cycle
            refs = [r for r in ('kids', 'kids', 'kid', 'items') if _has_feature(D, cls_of[p], r)]
            if refs:
                h.append(['contain', p, rng.choice(refs), j])
    for oi in range(n):
        if rng.random() < 0.5:
            h.append(['rappend', rng.randrange(2), oi])
    h += queries()
    for _ in range(rng.randrange(0, 4)):
        k = rng.random()
        if k < 0.4:
            h.append(['rremove', rng.randrange(2), rng.randrange(n)])
        elif k < 0.7:
            h.append(['rappend', rng.randrange(2), rng.randrange(n)])
        else:
            p = rng.randrange(n)
            refs = [r for r in ('kids', 'kid', 'items') if _has_feature(D, cls_of[p], r)]
            if refs:
                h.append(['uncontain', p, rng.choice(refs), rng.randrange(n)])
    h += queries()
    return h


class Population(Behaviour):
    """several objects of one rendering in two resources; class-level queries answer with object indices"""

    def __init__(self, D, render):
        super().__init__(D, render)
        from pyecore.resources import ResourceSet, URI
        self.pop = []
        self.rset = ResourceSet()
        self.res = [self.rset.create_resource(URI(f'/nonexistent/pop{i}.xmi')) for i in range(2)]

    def ix(self, o):
        return next((i for i, x in enumerate(self.pop) if x is o), 'other')

    def ixs(self, objs, as_set=False):
        l = [self.ix(o) for o in objs]
        return sorted(l, key=str) if as_set else l

    def step(self, st):
        k = st[0]
        if k == 'make':
            self.pop.append(self.factories[st[1]]())
            return len(self.pop) - 1
        if k in ('all', 'eall'):
            handle = self.factories[st[1]] if k == 'all' else self.eclasses[st[1]]
            found = handle.allInstances() if st[2] is None else handle.allInstances(resources=[self.res[r] for r in st[2]])
            return self.ixs(found, as_set=True)
        if k in ('rappend', 'rremove'):
            getattr(self.res[st[1]], 'append' if k == 'rappend' else 'remove')(self.pop[st[2]])
            return None
        if k in ('contain', 'uncontain'):
            parent, child = self.pop[st[1]], self.pop[st[3]]
            many = parent.eClass.findEStructuralFeature(st[2]).many
            if k == 'contain':
                getattr(parent, st[2]).append(child) if many else setattr(parent, st[2], child)
            else:
                getattr(parent, st[2]).remove(child) if many else setattr(parent, st[2], None)
            return None
        o = self.pop[st[1]]
        if k == 'eres':
            r = o.eResource
            return None if r is None else next((i for i, x in enumerate(self.res) if x is r), 'other')
        # eContents walks eAllReferences(), a set: the order between two containment features is not fixed
        if k == 'econtents':
            return self.ixs(o.eContents, as_set=True)
        if k == 'eallcontents':
            return self.ixs(o.eAllContents(), as_set=True)
        if k == 'eroot':
            return self.ix(o.eRoot())
        if k == 'econtainer':
            c = o.eContainer()
            return None if c is None else self.ix(c)
        raise ValueError(k)


def rerender_trace(D1, D2, render):
    """D1 is rendered and a small model saved; then D2 (the same or a revised description) is rendered INTO THE
    SAME MODULE (static: the class statements are executed again in the module namespace) / built again (dynamic:
    new EClasses in a new EPackage); a second model is saved with the current classes; both documents are loaded
    through the module / current package.  Observations: are the loaded objects instances of the CURRENT classes,
    can they be moved into a current model."""
    import os
    import tempfile
    common.use_repo()
    from pyecore.resources import ResourceSet, URI
    deco = render == 'static-decorator'
    obs = []

    def world(D, mod):
        if render == 'dynamic':
            ecs = build_dynamic(D)
            return dict(zip([c['name'] for c in D['classes']], ecs)), ecs[0].ePackage, None
        if mod is None:
            mod = execute(source(D, deco, stub='raise'), 'rr')
        else:
            exec(compile(source(D, deco, stub='raise', prelude=False), mod.__name__, 'exec'), mod.__dict__)
        return {c['name']: mod.__dict__[c['name']] for c in D['classes']}, mod, mod

    def model(cls):
        root = cls['Node']()
        root.name = 'r'
        for k in ('Leaf', 'Node', 'Special', 'Twig', 'Added'):
            if k in cls:
                x = cls[k]()
                x.name = k
                root.kids.append(x)
        return root

    def attempt(what, fun):
        try:
            obs.append([what, 'ok', canon(fun())])
        except Exception as e:  # noqa
            obs.append([what, 'raises', type(e).__name__])
    mod = None
    with tempfile.TemporaryDirectory() as td:
        try:
            cls1, pkg1, mod = world(D1, None)
            docs = []
            for tag, cls in (('before', cls1), ('after', None)):
                if cls is None:
                    cls, pkg, mod = world(D2, mod)
                path = os.path.join(td, tag + '.xmi')
                r = ResourceSet().create_resource(URI(path))
                r.append(model(cls))
                r.save()
                docs.append((tag, path))
            attempt('old and current Node are different classes', lambda: cls1['Node'] is not cls['Node'])
            for tag, path in docs:
                rs = ResourceSet()
                rs.metamodel_registry['http://p'] = pkg
                try:
                    root = rs.get_resource(URI(path)).contents[0]
                except Exception as e:  # noqa
                    obs.append([f'load {tag}', 'raises', type(e).__name__])
                    continue
                objs = [root] + list(root.eAllContents())
                obs.append([f'load {tag}', 'ok', [o.eClass.name for o in objs]])
                for o in objs:
                    cur = cls[o.eClass.name]
                    cur_ec = cur if render == 'dynamic' else cur.eClass
                    attempt(f'{tag}: loaded {o.eClass.name} is an instance of the current class', lambda: isinstance(o, cur))
                    attempt(f'{tag}: its eClass is the current EClass', lambda: o.eClass is cur_ec)
                attempt(f'{tag}: the loaded root moves into a current model', lambda: cls['Node']().kids.append(root))
                attempt(f'{tag}: a loaded kid moves into a current model', lambda: cls['Other']().items.append(objs[-1]))
        except Exception as e:  # noqa
            obs.append(['rendering', 'raises', type(e).__name__])
        finally:
            if mod is not None:
                forget(mod)
    return json_able(obs)


class BreadthBehaviour(Behaviour):
    """the dynamic rendering is built breadth-first (operations first, their parameters afterwards)"""
    breadth = True


def gen_breadth_descr(rng):
    """several classes (some related) declaring operations of the SAME names with different parameters: built
    breadth-first, their generated stubs momentarily have the same source text"""
    classes = []
    names = rng.sample(['P', 'Q', 'R', 'S', 'T'], rng.randrange(2, 6))
    for i, n in enumerate(names):
        sup = [rng.choice(names[:i])] if i and rng.random() < 0.4 else []
        c = _cls(classes, n, sup)
        c['interface'] = False
        if rng.random() < 0.4:
            c['features'].append(_attr('label', 'EString', 1))
    opnames = rng.sample(['scale', 'run', 'describe', 'match'], rng.randrange(1, 4))
    for on in opnames:
        owners = [c for c in classes if rng.random() < 0.7]
        if len(owners) < 2:
            owners = rng.sample(classes, 2)
        for c in owners:
            c['operations'].append(_op(rng, on))
    return {'enums': [], 'classes': classes}


# ------------------------------------------------------------------ values that carry an eClass without being instances
# extra population steps:
#   ['offer', oi, ref, kind, ci]  the value `kind` of class ci is assigned / appended to pop[oi].ref
#   ['isinst', kind, ci, cj, 'handle'|'eclass']  isinstance(value, class handle / EClass of class cj)
#   ['proxy', ci, cj, 'handle'|'eclass']  a holder whose `link` is an UNRESOLVED proxy (cross-document reference right
#        after load) to an instance of ci: isinstance before the reference is followed, its name, isinstance after
# kinds: 'instance' (control) 'handle' (what the rendering hands out as the class) 'pyclass' (the Python class)
#        'eclass' (the EClass) 'namesake' (an instance of the class of that name in ANOTHER rendering of the same
#        kind) 'resolved-proxy' (EProxy(wrapped=instance))
VALUE_KINDS = ['instance', 'handle', 'pyclass', 'eclass', 'namesake', 'resolved-proxy']


class Offers(Population):
    def __init__(self, D, render):
        super().__init__(D, render)
        self.twin = None

    def close(self):
        super().close()
        if self.twin is not None:
            self.twin.close()

    def value(self, kind, ci):
        from pyecore.ecore import EProxy
        if kind == 'instance':
            return self.factories[ci]()
        if kind == 'handle':
            return self.factories[ci]
        if kind == 'pyclass':
            return self.eclasses[ci].python_class
        if kind == 'eclass':
            return self.eclasses[ci]
        if kind == 'namesake':
            if self.twin is None:
                self.twin = Behaviour(self.D, self.render)
            return self.twin.factories[ci]()
        if kind == 'resolved-proxy':
            return EProxy(wrapped=self.factories[ci]())
        raise ValueError(kind)

    def step(self, st):
        k = st[0]
        if k == 'offer':
            parent, v = self.pop[st[1]], self.value(st[3], st[4])
            if parent.eClass.findEStructuralFeature(st[2]).many:
                getattr(parent, st[2]).append(v)
                return len(getattr(parent, st[2]))
            setattr(parent, st[2], v)
            return getattr(parent, st[2]) is v
        if k == 'isinst':
            cls = self.factories[st[3]] if st[4] == 'handle' else self.eclasses[st[3]]
            return bool(isinstance(self.value(st[1], st[2]), cls))
        if k == 'proxy':
            return self.proxy(st[1], st[2], st[3])
        return super().step(st)

    def proxy(self, ci, cj, how):
        import os
        import tempfile
        from pyecore.resources import ResourceSet, URI
        node = next(i for i, c in enumerate(self.D['classes']) if c['name'] == 'Node')
        cls = self.factories[cj] if how == 'handle' else self.eclasses[cj]
        with tempfile.TemporaryDirectory() as td:
            rs = ResourceSet()
            target, holder = self.factories[ci](), self.factories[node]()
            target.name, holder.link = 'target', target
            for o, f in ((target, 'target.xmi'), (holder, 'holder.xmi')):
                rs.create_resource(URI(os.path.join(td, f))).append(o)
            for r in list(rs.resources.values()):
                r.save()
            rs2 = ResourceSet()
            rs2.metamodel_registry['http://p'] = self.pkg
            loaded = rs2.get_resource(URI(os.path.join(td, 'holder.xmi'))).contents[0]
            p = loaded.link
            before = bool(isinstance(p, cls))
            name = p.name                          # the reference is followed
            return [type(p).__name__, before, name, bool(isinstance(p, cls))]


def offers_history(D, rng):
    concrete = [ci for ci, c in enumerate(D['classes']) if not c['abstract']]
    nodes = [ci for ci in concrete if _has_feature(D, ci, 'kids')]
    h, cls_of = [], []
    for _ in range(rng.randrange(2, 5)):
        cls_of.append(rng.choice(concrete))
        h.append(['make', cls_of[-1]])
    for _ in range(rng.randrange(6, 12)):
        oi = rng.randrange(len(cls_of))
        refs = [r for r in ('kids', 'kid', 'link', 'link', 'items') if _has_feature(D, cls_of[oi], r)]
        kind = rng.choice(VALUE_KINDS)
        if not refs:
            continue
        h.append(['offer', oi, rng.choice(refs), kind, rng.choice(concrete if kind in ('instance', 'namesake', 'resolved-proxy')
                                                                 else range(len(D['classes'])))])
        if rng.random() < 0.3:
            h += [['econtents', oi], ['eallcontents', oi]]   # (no allInstances here: rejected values live until collected)
    for _ in range(rng.randrange(6, 12)):
        kind = rng.choice(VALUE_KINDS)
        ci = rng.choice(concrete if kind in ('instance', 'namesake', 'resolved-proxy') else range(len(D['classes'])))
        # mostly the very class of the value (and its super / sub types)
        cj = ci if rng.random() < 0.6 else rng.randrange(len(D['classes']))
        h.append(['isinst', kind, ci, cj, rng.choice(['handle', 'eclass'])])
    for _ in range(rng.choice([1, 1, 2])):
        ci = rng.choice(nodes)
        h.append(['proxy', ci, ci if rng.random() < 0.7 else rng.choice(nodes), rng.choice(['handle', 'eclass'])])
    return h


# ------------------------------------------------------------------ instances made through constructor keywords
# ['ctor', ci, {feature: token}]: cls(**keywords) becomes THE instance of class ci (then 'state', 'xload', ...)
# token: ['v', json value] | ['none'] | ['obj', cj] (a fresh instance of class cj) | ['list'|'tuple', [json values]]
#        | ['objs', 'list'|'tuple', [cj..]]
class CtorBehaviour(Behaviour):
    """every static style writes the __init__(**kwargs) generated code has (a class without one ignores keywords)"""
    init_always = True

    def token(self, t):
        if t[0] == 'v':
            return t[1]
        if t[0] == 'none':
            return None
        if t[0] == 'obj':
            return self.factories[t[1]]()
        if t[0] in ('list', 'tuple'):
            return list(t[1]) if t[0] == 'list' else tuple(t[1])
        if t[0] == 'objs':
            l = [self.factories[cj]() for cj in t[2]]
            return l if t[1] == 'list' else tuple(l)
        raise ValueError(t)

    def step(self, st):
        if st[0] == 'ctor':
            o = self.factories[st[1]](**{k: self.token(t) for k, t in st[2].items()})
            self.EObserver(o, notifyChanged=lambda n: self.log.append(
                (n.kind.name, n.feature.name, n.feature.eContainingClass.name, canon(n.old), canon(n.new))))
            self.objs[st[1]] = o
            return self.state(o)
        return super().step(st)


CTOR_GOOD = {'EInt': [0, 3, -2], 'EString': ['', 'x', 'none'], 'EBoolean': [True, False], 'EDouble': [0.0, 1.5]}


def gen_ctor_descr(rng):
    """Item (+ subclass, + unrelated Box): single attributes with the type's default, an explicit default or none,
    many-valued attributes, single / many references, a containment"""
    classes = []
    item = _cls(classes, 'Item', [])
    pool = [_attr('label', 'EString', 1), _attr('level', 'EInt', 1), _attr('rank', 'EInt', 1, 3),
            _attr('tag', 'EString', 1, 'none'), _attr('flag', 'EBoolean', 1), _attr('on', 'EBoolean', 1, True),
            _attr('ratio', 'EDouble', 1, 2.5), _attr('ns', 'EInt', -1), _attr('ss', 'EString', -1),
            _ref('next', 'Item', 1, False), _ref('others', 'Item', -1, False), _ref('part', 'Item', 1, True),
            _ref('parts', 'Item', -1, True)]
    rng.shuffle(pool)
    k = rng.randrange(4, len(pool) + 1)
    item['features'] += pool[:k]
    sub = _cls(classes, 'SubItem', ['Item'])
    sub['features'] += pool[k:k + 2]
    if rng.random() < 0.5:
        box = _cls(classes, 'Box', [])
        box['features'] += [_attr('level', 'EString', 1, 'low'), _ref('content', 'Item', 1, True)]
    for c in classes:
        c['interface'] = False
    return {'enums': [], 'classes': classes}


def _all_features(D, ci):
    byname = {c['name']: c for c in D['classes']}
    out, todo, seen = [], [D['classes'][ci]['name']], set()
    while todo:
        c = byname[todo.pop(0)]
        if c['name'] in seen:
            continue
        seen.add(c['name'])
        out += c['features']
        todo += c['supers']
    return out


def ctor_history(D, rng):
    names = [c['name'] for c in D['classes']]
    items = [ci for ci, c in enumerate(D['classes']) if c['name'] in ('Item', 'SubItem')]
    h = []
    for ci in range(len(D['classes'])):
        feats = _all_features(D, ci)
        for _ in range(rng.randrange(2, 5)):
            kw = {}
            for fd in rng.sample(feats, rng.randrange(0, len(feats) + 1)):
                many, r = fd['upper'] != 1, rng.random()
                if fd['kind'] == 'attr' and not many:
                    kw[fd['name']] = ['none'] if r < 0.4 else ['v', rng.choice(CTOR_GOOD[fd['type']])] if r < 0.93 else ['v', [1]]
                elif fd['kind'] == 'attr':
                    vals = [rng.choice(CTOR_GOOD[fd['type']]) for _ in range(rng.randrange(0, 3))]
                    kw[fd['name']] = [rng.choice(['list', 'tuple']), vals] if r < 0.9 else ['none']
                elif not many:
                    kw[fd['name']] = ['none'] if r < 0.45 else ['obj', rng.choice(items)] if r < 0.93 else ['obj', names.index('Box') if 'Box' in names else ci]
                else:
                    kw[fd['name']] = ['objs', rng.choice(['list', 'tuple']), [rng.choice(items) for _ in range(rng.randrange(0, 3))]] \
                        if r < 0.9 else ['none']
            h.append(['ctor', ci, kw])
            for fd in rng.sample(feats, min(2, len(feats))):
                h += [['get', ci, fd['name']], ['isset', ci, fd['name']]]
            if rng.random() < 0.6:
                h.append(['xload', ci])
    return h


# ------------------------------------------------------------------ how the dynamic metamodel is put together
SUPER_STYLES = ['append', 'ctor', 'extend', 'iadd', 'assign', 'insert0']


def draw_build_styles(D, rng):
    """per class: how its super types, features and operations reach the dynamic EClass (the static renderings and
    the description are the same whatever is drawn)"""
    for c in D['classes']:
        c['build'] = {'supers': rng.choice(SUPER_STYLES), 'features': rng.choice(['append', 'extend']),
                      'operations': rng.choice(['append', 'extend'])}
    return D
