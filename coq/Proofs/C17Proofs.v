(* C17: round trip of every conversion pair named by the generated tables,
   and coverage of the tables by the proven pairs. *)
From Coq Require Import ZArith List Bool Lia String.
From PyecoreV Require Import Model.Text Model.DateTime Model.DataTypeDecl Gen.DataTypes Model.DataConv
  Proofs.TextFacts Proofs.DateTimeProofs Proofs.DecimalProofs.
Import ListNotations.
Open Scope Z_scope.

(* ---------- booleans ---------- *)
Lemma bool_roundtrip : forall b, in_True_true (ascii_lower (bool_str b)) = b.
Proof. destruct b; vm_compute; reflexivity. Qed.

Lemma bool_str_ascii : forall b, forallb (fun c => c <? 128) (bool_str b) = true.
Proof. destruct b; vm_compute; reflexivity. Qed.

(* ---------- enumerations ---------- *)
Definition enum_ok (e : enum) : Prop :=
  NoDup (map fst e) /\ Forall (fun l => fst l <> []) e.

Lemma find_index_name : forall (e : enum) i nm v,
  NoDup (map fst e) -> nth_error e i = Some (nm, v) ->
  find_index (fun l => text_eqb (fst l) nm) e = Some i.
Proof.
  induction e as [|x r IH]; intros i nm v Hnd Hn.
  - destruct i; discriminate.
  - simpl in Hnd. inversion Hnd as [|? ? Hnotin Hnd']; subst.
    destruct i as [|j]; simpl in Hn.
    + inversion Hn; subst. simpl. rewrite text_eqb_refl. reflexivity.
    + simpl. destruct (text_eqb (fst x) nm) eqn:E.
      * apply text_eqb_eq in E. exfalso. apply Hnotin. rewrite E.
        apply nth_error_In in Hn. apply (in_map fst) in Hn. exact Hn.
      * rewrite (IH j nm v Hnd' Hn). reflexivity.
Qed.

Theorem enum_roundtrip : forall (e : enum) (i : nat), enum_ok e -> (i < List.length e)%nat ->
  exists s, enum_to_string eenum_to_string eenumliteral_str e i = Some s /\
            enum_from_string eenum_from_string eenum_getEEnumLiteral e s = Some i.
Proof.
  intros e i (Hnd & Hne) Hi.
  destruct (nth_error e i) as [[nm v]|] eqn:En; [|apply nth_error_None in En; lia].
  exists nm. unfold enum_to_string, eenum_to_string, eenumliteral_str. rewrite En. split; [reflexivity|].
  unfold enum_from_string, eenum_from_string, enum_get, eenum_getEEnumLiteral.
  assert (Hnm : nm <> []).
  { rewrite Forall_forall in Hne. apply (Hne (nm, v)). eapply nth_error_In. exact En. }
  destruct nm as [|c r]; [contradiction|]. eapply find_index_name; eassumption.
Qed.

(* ---------- the strptime fall-back over the GENERATED format list ---------- *)
Theorem strptime_fallback_roundtrip : forall d, fields_ok d -> offset_ok (dtz d) ->
  strptime_first parse_date_formats (date_text d) = Some d.
Proof.
  intros d Hf Htz. unfold parse_date_formats. cbn [strptime_first].
  destruct (dtz d) as [o|] eqn:Ho.
  - rewrite (strp_aware d o Hf Ho) by (rewrite Ho; exact Htz). reflexivity.
  - rewrite (strp_naive_first d Hf Ho), (strp_naive_second d Hf Ho). reflexivity.
Qed.

(* ---------- the generic layer ---------- *)
Section Generic.
Variable F : Type.
Variable repr_float : F -> text.
Variable parse_float : text -> option F.
(* CPython: "repr(f) ... float(repr(f)) == f" (shortest round-tripping repr, since 3.1);
   sampled against CPython by harness/props/c17.py *)
Hypothesis float_of_repr : forall f, parse_float (repr_float f) = Some f.

(* the values of a data type: same constructor = same Python type *)
Definition in_domain (t : pytype) (v : pyval F) : Prop :=
  match t, v with
  | PT_str, VStr _ => True
  | PT_bool, VBool _ => True
  | PT_int, VInt _ => True
  | PT_float, VFloat _ => True
  | PT_Decimal, VDec d => 0 <= dcoef d
  | PT_datetime, VDate d => fields_ok d /\ offset_ok (dtz d) /\ offset_iso_ok (dtz d)
  | _, _ => False
  end.

(* the conversion pairs for which the round trip is proven below *)
Definition proven_pair (t : pytype) (ts : ts_tag) (fs : fs_tag) : bool :=
  match t, ts, fs with
  | PT_str, TS_str, FS_id => true
  | PT_bool, TS_str_lower, FS_in_True_true => true
  | PT_bool, TS_str_lower, FS_in_True_true_or_is_True => true
  | PT_int, TS_str, FS_int => true
  | PT_float, TS_str, FS_float => true
  | PT_Decimal, TS_str, FS_Decimal => true
  | PT_datetime, TS_strftime fmt, FS_parse_date => String.eqb fmt date_fmt
  | _, _, _ => false
  end.

Theorem pair_roundtrip : forall formats t ts fs v,
  proven_pair t ts fs = true -> in_domain t v ->
  exists s, to_string repr_float ts v = Some s /\ from_string parse_float formats fs s = Some v.
Proof.
  intros formats t ts fs v Hp Hv.
  destruct t; try discriminate Hp; destruct ts; try discriminate Hp; destruct fs; try discriminate Hp;
    destruct v; try (exfalso; exact Hv); cbn [to_string py_str from_string].
  - (* str *) eexists; split; reflexivity.
  - (* bool, in [True, true] *)
    rewrite bool_str_ascii. eexists; split; [reflexivity|]. rewrite bool_roundtrip. reflexivity.
  - rewrite bool_str_ascii. eexists; split; [reflexivity|]. rewrite bool_roundtrip. reflexivity.
  - (* int *) eexists; split; [reflexivity|]. rewrite int_of_str_of_Z. reflexivity.
  - (* float *) eexists; split; [reflexivity|]. rewrite float_of_repr. reflexivity.
  - (* Decimal *) eexists; split; [reflexivity|]. cbn [in_domain] in Hv. rewrite (dec_roundtrip d Hv). reflexivity.
  - (* datetime *)
    cbn [proven_pair] in Hp. apply String.eqb_eq in Hp. subst fmt.
    destruct Hv as (Hf & Htz & Hiso).
    destruct (date_roundtrip formats d Hf Htz Hiso) as (s & H1 & H2).
    exists s. split; [exact H1|]. rewrite H2. reflexivity.
Qed.

(* ---------- coverage of the generated tables ---------- *)
(* the Python types that have a textual form in the property's list *)
Definition has_text (t : pytype) : bool :=
  match t with
  | PT_str | PT_bool | PT_int | PT_float | PT_Decimal | PT_datetime => true
  | _ => false
  end.

Definition covered_dt (d : dtdecl) : bool :=
  implb (has_text (dt_type d)) (proven_pair (dt_type d) (dt_ts d) (dt_fs d)).

(* XMLTypes: the Python type comes from javaTransMap; the java.math.BigInteger family is not in the
   map (Python type `object`) but its values are ints *)
Definition xml_value_type (d : xmldecl) : pytype :=
  if String.eqb (xd_icn d) "java.math.BigInteger" then PT_int else jt_lookup (xd_icn d).

Definition covered_xml (d : xmldecl) : bool :=
  implb (has_text (xml_value_type d)) (proven_pair (xml_value_type d) (xd_ts d) (xd_fs d)).

Lemma ecore_table_covered : forallb covered_dt ecore_datatypes = true.
Proof. vm_compute. reflexivity. Qed.

Lemma xml_table_covered : forallb covered_xml xml_datatypes = true.
Proof. vm_compute. reflexivity. Qed.

Theorem ecore_roundtrip : forall d, In d ecore_datatypes -> has_text (dt_type d) = true ->
  forall v, in_domain (dt_type d) v ->
  exists s, to_string repr_float (dt_ts d) v = Some s /\
            from_string parse_float parse_date_formats (dt_fs d) s = Some v.
Proof.
  intros d Hin Ht v Hv.
  pose proof (proj1 (forallb_forall covered_dt ecore_datatypes) ecore_table_covered d Hin) as Hc.
  unfold covered_dt in Hc. rewrite Ht in Hc. cbn [implb] in Hc.
  apply (pair_roundtrip parse_date_formats (dt_type d)); assumption.
Qed.

Theorem xml_roundtrip : forall d, In d xml_datatypes -> has_text (xml_value_type d) = true ->
  forall v, in_domain (xml_value_type d) v ->
  exists s, to_string repr_float (xd_ts d) v = Some s /\
            from_string parse_float parse_date_formats (xd_fs d) s = Some v.
Proof.
  intros d Hin Ht v Hv.
  pose proof (proj1 (forallb_forall covered_xml xml_datatypes) xml_table_covered d Hin) as Hc.
  unfold covered_xml in Hc. rewrite Ht in Hc. cbn [implb] in Hc.
  apply (pair_roundtrip parse_date_formats (xml_value_type d)); assumption.
Qed.

(* EDate without the restriction on the offset: what comes back is the same local time with the
   offset fromisoformat gives (UTC when the offset is below one second) *)
Theorem edate_any_offset : forall d fmt,
  In {| dt_name := "EDate"; dt_type := PT_datetime; dt_ts := TS_strftime fmt; dt_fs := FS_parse_date;
        dt_default := DF_None; dt_factory := false |} ecore_datatypes ->
  fields_ok d -> offset_ok (dtz d) ->
  exists s, to_string repr_float (TS_strftime fmt) (VDate d) = Some s /\
            from_string parse_float parse_date_formats FS_parse_date s
              = Some (VDate (with_tz d (iso_tz (dtz d)))).
Proof.
  intros d fmt Hin Hf Htz.
  pose proof (proj1 (forallb_forall covered_dt ecore_datatypes) ecore_table_covered _ Hin) as Hc.
  unfold covered_dt in Hc. cbn in Hc. apply String.eqb_eq in Hc. subst fmt.
  destruct (parse_date_strftime parse_date_formats d Hf Htz) as (s & H1 & H2).
  exists s. split; [exact H1|]. cbn [from_string]. rewrite H2. reflexivity.
Qed.
End Generic.

(* the data types the property names are in the generated tables, with a textual form *)
Definition ecore_listed : list string :=
  ["EString"; "EChar"; "ECharacterObject"; "EBoolean"; "EBooleanObject"; "EInt"; "EInteger"; "EIntegerObject";
   "ELong"; "ELongObject"; "EShort"; "EShortObject"; "EBigInteger"; "EDouble"; "EDoubleObject"; "EFloat";
   "EFloatObject"; "EBigDecimal"; "EDate"]%string.

Definition xml_listed : list string :=
  ["Boolean"; "BooleanObject"; "Byte"; "ByteObject"; "Short"; "ShortObject"; "Int"; "IntObject"; "Long";
   "LongObject"; "Integer"; "NonNegativeInteger"; "NonPositiveInteger"; "PositiveInteger"; "NegativeInteger";
   "UnsignedByte"; "UnsignedByteObject"; "UnsignedShort"; "UnsignedShortObject"; "UnsignedInt";
   "UnsignedIntObject"; "UnsignedLong"; "Double"; "DoubleObject"; "Float"; "FloatObject"]%string.

Lemma ecore_listed_present :
  forallb (fun n => existsb (fun d => String.eqb (dt_name d) n && has_text (dt_type d)) ecore_datatypes)
          ecore_listed = true.
Proof. vm_compute. reflexivity. Qed.

Lemma xml_listed_present :
  forallb (fun n => existsb (fun d => String.eqb (xd_name d) n &&
                                      match xml_value_type d with PT_bool | PT_int | PT_float => true | _ => false end)
                            xml_datatypes)
          xml_listed = true.
Proof. vm_compute. reflexivity. Qed.
