(* C19 — the reflective views agree with the model they describe.
   Statements only; proofs in Proofs/C19Proofs.v over Model/Kernel.v.
   eContents = the children held by the containment references; eAllContents
   yields exactly the transitive descendants (sound for any fuel, complete for
   every descendant within the fuel, which is the number of objects + 1);
   eRoot is the end of the eContainer chain and eResource is the root's
   resource, for every acyclic containment.
   PARTIAL: "exactly once" for eAllContents needs the single-owner invariant
   of C02 (not yet a theorem); the metamodel-side views (eAllStructuralFeatures,
   eAllSuperTypes, ...) and the interchangeability of access paths are decided
   by the correspondence (access path randomised per call) and by the oracle
   of harness/props/c19.py. *)
From Coq Require Import ZArith List Bool Arith.
From PyecoreV Require Import Lib.PyBase Lib.PyList Model.Kernel Proofs.C19Proofs.
Import ListNotations.

Theorem C19_econtents_are_the_containment_slots :
  forall m s o c,
    In c (econtents m s o) <->
    exists f, In f (ref_feats m o) /\ f_cont (fd m f) = true /\ In (VObj c) (vals s (o, f)).
Proof. exact econtents_spec. Qed.
Print Assumptions C19_econtents_are_the_containment_slots.

Theorem C19_eroot_ends_the_container_chain :
  forall m s o n,
    depth s o n -> n <= S (length (ocls m)) ->
    chain_end s o (eroot m s o) /\ cont s (eroot m s o) = None.
Proof. exact eroot_is_chain_end. Qed.
Print Assumptions C19_eroot_ends_the_container_chain.

Theorem C19_chain_end_unique :
  forall s o r r', chain_end s o r -> chain_end s o r' -> r = r'.
Proof. exact chain_end_unique. Qed.
Print Assumptions C19_chain_end_unique.

Theorem C19_eresource_is_the_roots :
  forall m s o, eresource_of m s o = eres s (eroot m s o).
Proof. exact eresource_is_roots. Qed.
Print Assumptions C19_eresource_is_the_roots.

Theorem C19_eallcontents_only_descendants :
  forall m s fuel o c, In c (eallcontents fuel m s o) -> descends m s o c.
Proof. exact eallcontents_sound. Qed.
Print Assumptions C19_eallcontents_only_descendants.

Theorem C19_eallcontents_every_descendant_partial :
  forall m s n o c fuel, descends_in m s n o c -> n <= fuel -> In c (eallcontents fuel m s o).
Proof. exact eallcontents_complete. Qed.
Print Assumptions C19_eallcontents_every_descendant_partial.

Definition ex_mm : mm :=
  {| feats := [ {| f_owner := 0; f_isref := true; f_many := true; f_unique := true; f_cont := true;
                   f_opp := None; f_type := TClass 0; f_default := VNone |} ];
     conf := [(0, 0)]; ocls := [0; 0; 0]; enames := []; nres := 1 |}.

Example C19_witness :
  let s := fold_left (next ex_mm) [OAppend 0 0 (VObj 1); OAppend 1 0 (VObj 2); ORAppend 0 0] (init_state ex_mm) in
  econtents ex_mm s 0 = [1] /\ eallcontents 4 ex_mm s 0 = [1; 2] /\ eroot ex_mm s 2 = 0 /\
  eresource_of ex_mm s 2 = Some 0.
Proof. vm_compute. repeat split; reflexivity. Qed.
