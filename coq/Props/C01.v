(* C01 — opposite references stay symmetric.  Statements only; proofs in
   Proofs/C01Proofs.v and Proofs/C01Full.v.  Model: Model/Kernel.v (EValue._set,
   ECollection and their opposite handling, EObject.delete, Resource.append,
   statement by statement).
   PROVED, for every metamodel WITHOUT CONTAINMENT FEATURES (`no_containment m`)
   whose eOpposites are well formed (`wf_opp m`: eOpposite is an involution
   between references, a many-valued bidirectional end is unique):
   * C01_step_no_containment: the invariant `Inv m s` = opposite symmetry
     (`y in x.r <-> x in y.r'` for every declared pair, self-opposites included)
     together with the slot shape it relies on (a single-valued slot holds exactly
     one value, a bidirectional collection holds an object at most once) is
     preserved by EVERY operation of `step`: x.f = v (accepted or rejected, v an
     object, None or anything else that passes the check), del x.f, x.f = [...],
     append/add, insert, remove, pop, clear, extend/update/+=, c[i] = v, del c[i],
     x.delete() (recursive or not), Resource.append/remove/extend, reads; for
     every multiplicity pairing (1-1, 1-n, n-1, n-n) and for features that are
     their own opposite (x.f = x and x.f.append(x) included).  The only premise
     on the call (`op_fits`) is that collection operations address many-valued
     features.
   * C01_every_history_no_containment: hence the invariant holds after every
     history of such calls from the initial state (reference defaults None).
   * C01_no_container_without_containment: in such metamodels no object ever
     gets a container (so Resource.append never has to detach anything).
   * the case theorems (unset, remove, re-pointing 1-1 / 1-n, append n-1 / n-n,
     and linking through a self-opposite feature, single- and many-valued) are
     kept as separate `_partial` statements.
   PROVED, for every well-formed metamodel WITH OR WITHOUT CONTAINMENT (`wf_mm m`:
   eOpposite an involution between references, many-valued bidirectional or
   containment ends unique, the opposite of a containment a single-valued
   non-containment container end):
   * C01_step_with_containment: the global invariant `WF m s` — opposite
     symmetry, slot shape, container back-pointers = containment slots, root
     lists = eResource, roots uncontained — is preserved by EVERY operation,
     including every interplay of opposite updates with _update_container (a
     child moved to a new container leaves its previous slot and that slot's
     opposite end, setting the container end re-parents the owner,
     Resource.append detaches a contained object, x.f = x, containment cycles).
   * C01_symmetric_in_every_reachable_state: hence `y in x.r <-> x in y.r'`
     for every declared pair after every history from the initial state.
   Proofs: Proofs/WFBase.v, WFRemove.v, SymLink.v (linking direction reduced to
   the no-containment theorem on the containment-erased metamodel after an
   explicit pre-unlink), OwnPrim/OwnAdd/OwnSet/OwnColl/OwnAll.v.
   No case of the property was found false of the model.  Not covered by a
   theorem: slice assignment (not modelled; oracle only) and metamodels outside
   `wf_mm` (e.g. a non-unique many-valued bidirectional end, which EMF rejects). *)
From Coq Require Import ZArith List Bool Arith.
From PyecoreV Require Import Lib.PyBase Lib.PyList Model.Kernel Proofs.KernelFacts Proofs.C01Proofs Proofs.C01Full
  Proofs.WFBase Proofs.SymLink Proofs.OwnAll Proofs.WFCorollaries Model.Premises Proofs.PremisesProofs.
Import ListNotations.

Theorem C01_unset_keeps_symmetry_partial :
  forall m, no_containment m -> wf_opp m ->
  forall s x f g,
    sym m s -> shape m s ->
    f_opp (fd m f) = Some g -> f_many (fd m f) = false ->
    sym m (snd (set_full m s (x, f) VNone)).
Proof. exact unset_preserves_sym. Qed.
Print Assumptions C01_unset_keeps_symmetry_partial.

Theorem C01_remove_keeps_symmetry_partial :
  forall m, no_containment m -> wf_opp m ->
  forall s x f g y,
    sym m s -> shape m s ->
    f_opp (fd m f) = Some g -> f_many (fd m f) = true -> R s f x y ->
    sym m (coll_remove_full m s (x, f) (VObj y)).
Proof. exact remove_preserves_sym. Qed.
Print Assumptions C01_remove_keeps_symmetry_partial.

Theorem C01_repointing_one_to_one_keeps_symmetry_partial :
  forall m, no_containment m -> wf_opp m ->
  forall s x f g y,
    sym m s -> shape m s ->
    f_opp (fd m f) = Some g -> f <> g ->
    f_many (fd m f) = false -> f_many (fd m g) = false ->
    check_single m f (VObj y) = true ->
    sym m (snd (set_full m s (x, f) (VObj y))).
Proof. exact set11_preserves_sym. Qed.
Print Assumptions C01_repointing_one_to_one_keeps_symmetry_partial.

Theorem C01_repointing_one_to_many_keeps_symmetry_partial :
  forall m, no_containment m -> wf_opp m ->
  forall s x f g y,
    sym m s -> shape m s ->
    f_opp (fd m f) = Some g -> f <> g ->
    f_many (fd m f) = false -> f_many (fd m g) = true ->
    check_single m f (VObj y) = true ->
    sym m (snd (set_full m s (x, f) (VObj y))).
Proof. exact set_1n_preserves_sym. Qed.
Print Assumptions C01_repointing_one_to_many_keeps_symmetry_partial.

Theorem C01_append_many_to_one_keeps_symmetry_partial :
  forall m, no_containment m -> wf_opp m ->
  forall s x f g pos y,
    sym m s -> shape m s ->
    f_opp (fd m f) = Some g -> f <> g ->
    f_many (fd m f) = true -> f_many (fd m g) = false ->
    check_elem m f (VObj y) = true ->
    sym m (snd (coll_add_full m s (x, f) pos (VObj y))).
Proof. exact add_n1_preserves_sym. Qed.
Print Assumptions C01_append_many_to_one_keeps_symmetry_partial.

Theorem C01_append_many_to_many_keeps_symmetry_partial :
  forall m, no_containment m -> wf_opp m ->
  forall s x f g pos y,
    sym m s ->
    f_opp (fd m f) = Some g -> f <> g ->
    f_many (fd m f) = true -> f_many (fd m g) = true ->
    check_elem m f (VObj y) = true ->
    sym m (snd (coll_add_full m s (x, f) pos (VObj y))).
Proof. exact add_nn_preserves_sym. Qed.
Print Assumptions C01_append_many_to_many_keeps_symmetry_partial.

Theorem C01_repointing_self_opposite_keeps_symmetry_partial :
  forall m, no_containment m -> wf_opp m ->
  forall s x f y,
    sym m s -> shape m s ->
    f_opp (fd m f) = Some f -> f_many (fd m f) = false ->
    check_single m f (VObj y) = true ->
    sym m (snd (set_full m s (x, f) (VObj y))).
Proof. exact set_self_preserves_sym. Qed.
Print Assumptions C01_repointing_self_opposite_keeps_symmetry_partial.

Theorem C01_append_self_opposite_keeps_symmetry_partial :
  forall m, no_containment m -> wf_opp m ->
  forall s x f pos y,
    sym m s ->
    f_opp (fd m f) = Some f -> f_many (fd m f) = true ->
    check_elem m f (VObj y) = true ->
    sym m (snd (coll_add_full m s (x, f) pos (VObj y))).
Proof. exact add_self_preserves_sym. Qed.
Print Assumptions C01_append_self_opposite_keeps_symmetry_partial.

(* every operation of `step` keeps symmetry + shape, in metamodels without containment *)
Theorem C01_step_no_containment :
  forall m, no_containment m -> wf_opp m ->
  forall s o, Inv m s -> C01Full.op_fits m o -> Inv m (next m s o).
Proof. exact sym_step. Qed.
Print Assumptions C01_step_no_containment.

Theorem C01_every_history_no_containment :
  forall m, no_containment m -> wf_opp m ->
  forall ops, ref_defaults_none m -> Forall (C01Full.op_fits m) ops ->
    Inv m (fold_left (next m) ops (init_state m)).
Proof. exact sym_history. Qed.
Print Assumptions C01_every_history_no_containment.

Theorem C01_no_container_without_containment :
  forall m, no_containment m ->
  forall ops, uncontained (fold_left (next m) ops (init_state m)).
Proof. exact uncontained_history. Qed.
Print Assumptions C01_no_container_without_containment.

(* non-vacuity: a 1-n pair, a reachable symmetric state, and the theorem's conclusion computed *)
Definition ex_mm : mm :=
  {| feats := [ {| f_owner := 0; f_isref := true; f_many := false; f_unique := true; f_cont := false;
                   f_opp := Some 1; f_type := TClass 1; f_default := VNone |};
                {| f_owner := 1; f_isref := true; f_many := true; f_unique := true; f_cont := false;
                   f_opp := Some 0; f_type := TClass 0; f_default := VNone |} ];
     conf := [(0, 0); (1, 1)]; ocls := [0; 0; 1; 1]; enames := []; nres := 0 |}.

Example C01_witness :
  let s1 := next ex_mm (init_state ex_mm) (OSet 0 0 (VObj 2)) in
  let s2 := next ex_mm s1 (OSet 1 0 (VObj 2)) in
  let s3 := next ex_mm s2 (OSet 0 0 (VObj 3)) in
  let s4 := next ex_mm s3 (ORemove 2 1 (VObj 1)) in
  (vals s3 (2, 1), vals s3 (3, 1), vals s3 (0, 0), vals s3 (1, 0)) = ([VObj 1], [VObj 0], [VObj 3], [VObj 2])
  /\ (vals s4 (2, 1), vals s4 (1, 0)) = ([], [VNone]).
Proof. vm_compute. split; reflexivity. Qed.

(* non-vacuity of the re-pointing theorem: a 1-1 pair, both ends already linked elsewhere *)
Definition ex_mm11 : mm :=
  {| feats := [ {| f_owner := 0; f_isref := true; f_many := false; f_unique := true; f_cont := false;
                   f_opp := Some 1; f_type := TClass 1; f_default := VNone |};
                {| f_owner := 1; f_isref := true; f_many := false; f_unique := true; f_cont := false;
                   f_opp := Some 0; f_type := TClass 0; f_default := VNone |} ];
     conf := [(0, 0); (1, 1)]; ocls := [0; 0; 1; 1]; enames := []; nres := 0 |}.

Example C01_repointing_witness :
  let s2 := fold_left (next ex_mm11) [OSet 0 0 (VObj 2); OSet 1 0 (VObj 3)] (init_state ex_mm11) in
  let s3 := next ex_mm11 s2 (OSet 0 0 (VObj 3)) in
  (vals s3 (0, 0), vals s3 (1, 0), vals s3 (2, 1), vals s3 (3, 1)) = ([VObj 3], [VNone], [VNone], [VObj 0]).
Proof. vm_compute. reflexivity. Qed.

(* non-vacuity of the self-opposite theorems: a single-valued self-opposite feature 0 ("spouse") and a
   many-valued one 1 ("friends"), metamodel ex_mm_self of Proofs/C01Full.v; re-pointing steals, self-links x.f = x and x.f.append(x) *)
Example C01_self_opposite_witness :
  let s2 := fold_left (next ex_mm_self) [OSet 0 0 (VObj 1); OSet 2 0 (VObj 3)] (init_state ex_mm_self) in
  let s3 := next ex_mm_self s2 (OSet 0 0 (VObj 3)) in
  let s4 := next ex_mm_self s3 (OSet 0 0 (VObj 0)) in
  (vals s3 (0, 0), vals s3 (1, 0), vals s3 (2, 0), vals s3 (3, 0)) = ([VObj 3], [VNone], [VNone], [VObj 0])
  /\ (vals s4 (0, 0), vals s4 (3, 0)) = ([VObj 0], [VNone]).
Proof. vm_compute. split; reflexivity. Qed.

Example C01_self_opposite_collection_witness :
  let s := fold_left (next ex_mm_self)
             [OAppend 0 1 (VObj 1); OAppend 0 1 (VObj 0); OInsert 2 1 0%Z (VObj 0); OPop 0 1 0%Z; OClear 2 1]
             (init_state ex_mm_self) in
  (vals s (0, 1), vals s (1, 1), vals s (2, 1)) = ([VObj 0], [], []).
Proof. vm_compute. reflexivity. Qed.

Theorem C01_premises_satisfiable :
  no_containment ex_mm_self /\ wf_opp ex_mm_self /\ ref_defaults_none ex_mm_self.
Proof. exact ex_mm_self_ok. Qed.
Print Assumptions C01_premises_satisfiable.

(* ---------- with containment: the global invariant ---------- *)
Theorem C01_step_with_containment :
  forall m, wf_mm m -> forall s o, WF m s -> op_many m o -> WF m (next m s o).
Proof. exact WF_step. Qed.
Print Assumptions C01_step_with_containment.

Theorem C01_symmetric_in_every_reachable_state :
  forall m, wf_mm m -> ref_defaults_none m -> forall ops, Forall (op_many m) ops ->
  sym m (fold_left (next m) ops (init_state m)).
Proof. exact reach_sym. Qed.
Print Assumptions C01_symmetric_in_every_reachable_state.

(* non-vacuity: a metamodel with a many containment with opposite, a single containment without
   opposite and a 1-1 containment pair meets the premises; WF_covers_cycles (Proofs/OwnAll.v) runs a
   history with re-parenting, x.twin = x and a resource append through the theorem *)
Example C01_containment_premises_satisfiable : wf_mm ex_mm_link /\ ref_defaults_none ex_mm_link.
Proof. exact ex_mm_link_wf. Qed.

(* the same statement on the boolean premises that the harness evaluates, through the extracted
   `run_premises`, for every case it runs on the implementation (evidence: cases_meeting_theorem_premises) *)
Theorem C01_symmetric_whenever_the_evaluated_premises_hold :
  forall m ops,
    wf_mmb m = true -> ref_defaults_noneb m = true -> forallb (op_manyb m) ops = true ->
    sym m (fold_left (next m) ops (init_state m)).
Proof. exact checked_sym. Qed.
Print Assumptions C01_symmetric_whenever_the_evaluated_premises_hold.
