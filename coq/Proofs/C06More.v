(* C06, continued: what Props/C06.v listed as partial after Proofs/C06Refs.v.
   1. Compound, generically: the members of a Compound (as prepared by
      can_execute in the compound's initial state) are executed one after the
      other; if each of them `inverts` between the states it meets, undo of the
      compound (members in reverse order) and redo (members in order) invert
      as a whole.  What the model's can_execute / can_undo of a Compound ask.
   2. Containment references WITH an opposite (children <-> container end)
      under the global invariant WF of Proofs/WFBase.v, and the lift of the
      containment kinds to words over the CommandStack.
   3. Delete.
   4. k undos then k redos for the enlarged command set.
   Nothing here changes a definition of the model or of the earlier proofs. *)
From Coq Require Import ZArith List Bool Arith Lia.
From PyecoreV Require Import Lib.PyBase Lib.PyList Model.Kernel Model.KernelIO Model.Commands
     Proofs.PyListFacts Proofs.KernelFacts Proofs.C01Proofs Proofs.C01Full Proofs.C03Proofs Proofs.C02Proofs
     Proofs.WFBase Proofs.WFRemove Proofs.SymLink Proofs.OwnPrim Proofs.OwnAdd Proofs.OwnSet Proofs.OwnColl
     Proofs.OwnAll Proofs.C06Proofs Proofs.C06Refs.
From PyecoreV Require Proofs.C07Full Proofs.C19Once Proofs.Acyclic.
Import ListNotations.
Open Scope nat_scope.

(* ====================================================================== *)
(* 1. Compound                                                             *)
(* ====================================================================== *)
Section CompoundFns.
Variable m : mm.

(* the loops of Commands.v's Compound cases, as top-level functions *)
Fixpoint cexec (s0 : state) (acc l : list cmd) {struct l} : outcome * list cmd * list cmd :=
  match l with
  | [] => ((None, s0), [], acc)
  | c1 :: r =>
    let '(o, c1') := execute m s0 c1 in
    if raised o then (o, c1' :: r, acc)
    else let '(o', r', acc') := cexec (snd o) (c1' :: acc) r in (o', c1' :: r', acc')
  end.

Fixpoint cundo (s0 : state) (l : list cmd) {struct l} : outcome * list cmd :=
  match l with
  | [] => ((None, s0), [])
  | c1 :: r =>
    let '(o, r') := cundo s0 r in
    if raised o then (o, c1 :: r')
    else let '(o', c1') := undo m (snd o) c1 in (o', c1' :: r')
  end.

Fixpoint credo (s0 : state) (l : list cmd) {struct l} : outcome * list cmd :=
  match l with
  | [] => ((None, s0), [])
  | c1 :: r =>
    let '(o, c1') := redo m s0 c1 in
    if raised o then (o, c1' :: r)
    else let '(o', r') := credo (snd o) r in (o', c1' :: r')
  end.

Definition ccanu (s : state) : list cmd -> res bool :=
  fix go (l : list cmd) : res bool :=
    match l with
    | [] => Ok true
    | c1 :: r => match can_undo m s c1 with Ok true => go r | b => b end
    end.

Definition ccane (s : state) : list cmd -> res bool * list cmd :=
  fix go (l : list cmd) : res bool * list cmd :=
    match l with
    | [] => (Ok true, [])
    | c1 :: r =>
      match can_execute m s c1 with
      | (Ok true, c1') => let '(b, r') := go r in (b, c1' :: r')
      | (b, c1') => (b, c1' :: r)
      end
    end.

Lemma execute_compound s cs :
  execute m s (CCompound cs) =
  (let '(o, cs', acc) := cexec s [] cs in
   match o with
   | (Some e, s1) =>
     let o2 := rollback m acc s1 in
     ((Some (match fst o2 with Some e2 => e2 | None => e end), snd o2), CCompound cs')
   | _ => (o, CCompound cs')
   end).
Proof. reflexivity. Qed.

Lemma undo_compound s cs :
  undo m s (CCompound cs) = (let '(o, cs') := cundo s cs in (o, CCompound cs')).
Proof. reflexivity. Qed.

Lemma redo_compound s cs :
  redo m s (CCompound cs) = (let '(o, cs') := credo s cs in (o, CCompound cs')).
Proof. reflexivity. Qed.

Lemma can_undo_compound s cs : can_undo m s (CCompound cs) = ccanu s cs.
Proof. reflexivity. Qed.

Lemma can_execute_compound s cs :
  can_execute m s (CCompound cs) = (let '(b, cs') := ccane s cs in (b, CCompound cs')).
Proof. reflexivity. Qed.

End CompoundFns.

(* induction over commands, members of a Compound included *)
Section CmdInd.
Variable Q : cmd -> Prop.
Hypothesis HSet : forall x f v p, Q (CSet x f v p).
Hypothesis HAdd : forall x f v i, Q (CAdd x f v i).
Hypothesis HRemove : forall x f v i, Q (CRemove x f v i).
Hypothesis HMove : forall x f v fr to, Q (CMove x f v fr to).
Hypothesis HDelete : forall x r i, Q (CDelete x r i).
Hypothesis HCompound : forall cs, Forall Q cs -> Q (CCompound cs).

Fixpoint cmd_ind2 (c : cmd) : Q c :=
  match c with
  | CSet x f v p => HSet x f v p
  | CAdd x f v i => HAdd x f v i
  | CRemove x f v i => HRemove x f v i
  | CMove x f v fr to => HMove x f v fr to
  | CDelete x r i => HDelete x r i
  | CCompound cs =>
    HCompound cs ((fix go (l : list cmd) : Forall Q l :=
                     match l with
                     | [] => Forall_nil Q
                     | c1 :: r => Forall_cons c1 (cmd_ind2 c1) (go r)
                     end) cs)
  end.
End CmdInd.

Section CompoundThms.
Variable m : mm.

Lemma ccanu_cons s c r :
  ccanu m s (c :: r) = match can_undo m s c with Ok true => ccanu m s r | b => b end.
Proof. reflexivity. Qed.

Lemma ccane_cons s c r :
  ccane m s (c :: r) =
  match can_execute m s c with
  | (Ok true, c1') => let '(b, r') := ccane m s r in (b, c1' :: r')
  | (b, c1') => (b, c1' :: r)
  end.
Proof. reflexivity. Qed.

(* can_undo reads the feature values only *)
Lemma can_undo_vals c : forall s t, (forall k, vals s k = vals t k) -> can_undo m s c = can_undo m t c.
Proof.
  induction c using cmd_ind2; intros s t E; try reflexivity.
  - cbn [can_undo]. rewrite (E (x, f)). reflexivity.
  - cbn [can_undo]. rewrite (E (x, f)). reflexivity.
  - rewrite !can_undo_compound. induction H as [|c cs Hc Hcs IH]; [reflexivity|].
    rewrite !ccanu_cons. rewrite (Hc s t E). destruct (can_undo m t c) as [[|]|]; try reflexivity. exact IH.
Qed.

Lemma can_undo_obs_eq c s t : obs_eq s t -> can_undo m s c = can_undo m t c.
Proof. intros (E & _). apply can_undo_vals. exact E. Qed.

(* ---------- the members one after the other ---------- *)
(* seq_exec s cs s' cs': every member executes without raising, from s to s', recorded as cs' *)
Inductive seq_exec : state -> list cmd -> state -> list cmd -> Prop :=
| se_nil s : seq_exec s [] s []
| se_cons s c r s1 c' s2 r' :
    execute m s c = ((None, s1), c') -> seq_exec s1 r s2 r' -> seq_exec s (c :: r) s2 (c' :: r').

(* seq_inv cs s0 s1: every recorded member inverts between the states it met *)
Inductive seq_inv : list cmd -> state -> state -> Prop :=
| si_nil s : seq_inv [] s s
| si_cons c cs s0 s1 s2 : inverts m c s0 s1 -> seq_inv cs s1 s2 -> seq_inv (c :: cs) s0 s2.

Lemma raised_none s : raised (None, s) = false.
Proof. reflexivity. Qed.
Lemma raised_some e s : raised (Some e, s) = true.
Proof. reflexivity. Qed.

Lemma cexec_seq s cs s' cs' :
  seq_exec s cs s' cs' -> forall acc, cexec m s acc cs = ((None, s'), cs', rev cs' ++ acc).
Proof.
  induction 1 as [s|s c r s1 c' s2 r' E _ IH]; intros acc; [reflexivity|].
  cbn [cexec]. rewrite E. cbn [raised fst snd]. rewrite (IH (c' :: acc)).
  cbn [rev]. rewrite <- app_assoc. reflexivity.
Qed.

Lemma cexec_ok cs : forall s acc s' cs' acc',
  cexec m s acc cs = ((None, s'), cs', acc') -> seq_exec s cs s' cs' /\ acc' = rev cs' ++ acc.
Proof.
  induction cs as [|c r IH]; intros s acc s' cs' acc' H; cbn [cexec] in H.
  - inversion H; subst. split; [constructor | reflexivity].
  - destruct (execute m s c) as [[[e|] s1] c'] eqn:E; cbn [raised fst snd] in H; [inversion H|].
    destruct (cexec m s1 (c' :: acc) r) as [[[oe s2] r'] acc2] eqn:E2.
    inversion H; subst. destruct (IH _ _ _ _ _ E2) as [S A]. split; [econstructor; eauto|].
    rewrite A. cbn [rev]. rewrite <- app_assoc. reflexivity.
Qed.

(* a member raises: the members before it were executed, the rest is left alone *)
Lemma cexec_raise cs : forall s acc e s1 cs' acc',
  cexec m s acc cs = ((Some e, s1), cs', acc') ->
  exists pre c post sj pre' c',
    cs = pre ++ c :: post /\ seq_exec s pre sj pre' /\ execute m sj c = ((Some e, s1), c') /\
    cs' = pre' ++ c' :: post /\ acc' = rev pre' ++ acc.
Proof.
  induction cs as [|c r IH]; intros s acc e s1 cs' acc' H; cbn [cexec] in H; [inversion H|].
  destruct (execute m s c) as [[[e0|] s0] c'] eqn:E; cbn [raised fst snd] in H.
  - inversion H; subst. exists [], c, r, s, [], c'. repeat split; try reflexivity; try constructor. exact E.
  - destruct (cexec m s0 (c' :: acc) r) as [[[oe s2] r'] acc2] eqn:E2. inversion H; subst.
    destruct (IH _ _ _ _ _ _ E2) as (pre & c0 & post & sj & pre' & c0' & A & B & C & D & F).
    exists (c :: pre), c0, post, sj, (c' :: pre'), c0'. subst. repeat split; try reflexivity.
    + econstructor; eauto.
    + exact C.
    + cbn [rev]. rewrite <- app_assoc. reflexivity.
Qed.

(* ---------- undo in reverse order, redo in order ---------- *)
Lemma cundo_inv cs s0 s1 :
  seq_inv cs s0 s1 -> forall t, obs_eq t s1 -> exists t', cundo m t cs = ((None, t'), cs) /\ obs_eq t' s0.
Proof.
  induction 1 as [s|c cs s0 s1 s2 I _ IH]; intros t Ht.
  - exists t. split; [reflexivity | exact Ht].
  - destruct (IH t Ht) as (t1 & E1 & O1). destruct I as [U _].
    destruct (U t1 O1) as (_ & t' & Eu & Ot').
    exists t'. cbn [cundo]. rewrite E1. cbn [raised fst snd]. rewrite Eu. split; [reflexivity | exact Ot'].
Qed.

Lemma credo_inv cs s0 s1 :
  seq_inv cs s0 s1 -> forall t, obs_eq t s0 -> exists t', credo m t cs = ((None, t'), cs) /\ obs_eq t' s1.
Proof.
  induction 1 as [s|c cs s0 s1 s2 I _ IH]; intros t Ht.
  - exists t. split; [reflexivity | exact Ht].
  - destruct I as [_ R]. destruct (R t Ht) as (t1 & Er & O1).
    destruct (IH t1 O1) as (t' & E' & Ot').
    exists t'. cbn [credo]. rewrite Er. cbn [raised fst snd]. rewrite E'. split; [reflexivity | exact Ot'].
Qed.

Lemma rollback_app a b s :
  rollback m (a ++ b) s = (if raised (rollback m a s) then rollback m a s else rollback m b (snd (rollback m a s))).
Proof.
  revert s. induction a as [|c a IH]; intros s; [reflexivity|].
  cbn [app rollback]. destruct (raised (fst (undo m s c))) eqn:E.
  - rewrite E. reflexivity.
  - apply IH.
Qed.

(* the except branch of Compound.execute on the executed members *)
Lemma rollback_inv cs s0 s1 :
  seq_inv cs s0 s1 -> forall t, obs_eq t s1 -> exists t', rollback m (rev cs) t = (None, t') /\ obs_eq t' s0.
Proof.
  induction 1 as [s|c cs s0 s1 s2 I _ IH]; intros t Ht.
  - exists t. split; [reflexivity | exact Ht].
  - destruct (IH t Ht) as (t1 & E1 & O1). destruct I as [U _].
    destruct (U t1 O1) as (_ & t' & Eu & Ot').
    exists t'. cbn [rev]. rewrite rollback_app, E1. cbn [raised fst snd rollback]. rewrite Eu.
    cbn [raised fst snd]. split; [reflexivity | exact Ot'].
Qed.

(* THE COMPOUND THEOREM: members that invert one after the other make a compound that inverts; the
   only extra premise is the model's Compound.can_undo, which asks every member on the FINAL state *)
Theorem compound_inverts cs s0 s1 :
  seq_inv cs s0 s1 -> can_undo m s1 (CCompound cs) = Ok true -> inverts m (CCompound cs) s0 s1.
Proof.
  intros SI CU. split.
  - intros t Ht. split; [rewrite (can_undo_obs_eq _ t s1 Ht); exact CU|].
    destruct (cundo_inv cs s0 s1 SI t Ht) as (t' & E & O). exists t'. rewrite undo_compound, E. split; [reflexivity | exact O].
  - intros t Ht. destruct (credo_inv cs s0 s1 SI t Ht) as (t' & E & O).
    exists t'. rewrite redo_compound, E. split; [reflexivity | exact O].
Qed.

(* without the can_undo premise: what undo and redo DO when they are called *)
Theorem compound_undo_redo cs s0 s1 :
  seq_inv cs s0 s1 ->
  (forall t, obs_eq t s1 -> exists t', undo m t (CCompound cs) = ((None, t'), CCompound cs) /\ obs_eq t' s0) /\
  (forall t, obs_eq t s0 -> exists t', redo m t (CCompound cs) = ((None, t'), CCompound cs) /\ obs_eq t' s1).
Proof.
  intros SI. split; intros t Ht.
  - destruct (cundo_inv cs s0 s1 SI t Ht) as (t' & E & O). exists t'. rewrite undo_compound, E. split; [reflexivity | exact O].
  - destruct (credo_inv cs s0 s1 SI t Ht) as (t' & E & O). exists t'. rewrite redo_compound, E. split; [reflexivity | exact O].
Qed.

(* execution of a compound that does not raise = successive execution of its members *)
Lemma execute_compound_ok s cs s' c2 :
  execute m s (CCompound cs) = ((None, s'), c2) -> exists cs', c2 = CCompound cs' /\ seq_exec s cs s' cs'.
Proof.
  rewrite execute_compound. destruct (cexec m s [] cs) as [[[[e|] s1] cs'] acc] eqn:E; intros H; [inversion H|].
  inversion H; subst. exists cs'. split; [reflexivity|]. exact (proj1 (cexec_ok _ _ _ _ _ _ E)).
Qed.

Lemma seq_exec_execute s cs s' cs' :
  seq_exec s cs s' cs' -> execute m s (CCompound cs) = ((None, s'), CCompound cs').
Proof. intros H. rewrite execute_compound, (cexec_seq _ _ _ _ H []). reflexivity. Qed.

(* a compound that raises: some member raised in the state the members before it left, and the
   members before it are rolled back from there *)
Lemma execute_compound_raise s cs e s' c2 :
  execute m s (CCompound cs) = ((Some e, s'), c2) ->
  exists pre c post sj pre' e0 s1 c',
    cs = pre ++ c :: post /\ seq_exec s pre sj pre' /\ execute m sj c = ((Some e0, s1), c') /\
    s' = snd (rollback m (rev pre') s1).
Proof.
  rewrite execute_compound. destruct (cexec m s [] cs) as [[[[e0|] s1] cs'] acc] eqn:E; intros H; [|inversion H].
  destruct (cexec_raise _ _ _ _ _ _ _ E) as (pre & c & post & sj & pre' & c' & A & B & C & D & F).
  exists pre, c, post, sj, pre', e0, s1, c'. rewrite app_nil_r in F. subst acc.
  inversion H; subst. repeat split; try reflexivity; assumption.
Qed.

End CompoundThms.

(* ---------- closing a set of covered commands under Compound ---------- *)
(* P: invariant of the model state; ok0: side condition of the primitive commands in the state they
   meet.  A covered command that raises may leave a state that differs in what the property does not
   observe (a rolled-back compound leaves notifications behind), hence obs_eq in ok0_raise. *)
Section Closure.
Variable m : mm.
Variable P : state -> Prop.
Variable ok0 : state -> cmd -> Prop.
Hypothesis P_obs : forall s t, obs_eq s t -> P s -> P t.
Hypothesis ok0_exec : forall s c c1 s' c2,
  P s -> ok0 s c -> can_execute m s c = (Ok true, c1) -> execute m s c1 = ((None, s'), c2) ->
  inverts m c2 s s' /\ P s'.
Hypothesis ok0_raise : forall s c c1 e s' c2,
  P s -> ok0 s c -> can_execute m s c = (Ok true, c1) -> execute m s c1 = ((Some e, s'), c2) -> obs_eq s' s.

(* the member as can_execute of the compound, asked in the compound's initial state s0, leaves it *)
Definition prep (s0 : state) (c : cmd) : cmd := snd (can_execute m s0 c).

(* every member, in the state si it meets: is covered there, would be accepted on its own there with
   the same recorded fields as when asked in s0 (the contrary is F-C06-compound-members-interfere) *)
Definition okM (Q : state -> cmd -> Prop) (s0 : state) : state -> list cmd -> Prop :=
  fix go (si : state) (l : list cmd) : Prop :=
    match l with
    | [] => True
    | c :: r =>
      Q si c /\ can_execute m si c = (Ok true, prep s0 c) /\
      (raised (fst (execute m si (prep s0 c))) = false -> go (snd (fst (execute m si (prep s0 c)))) r)
    end.

(* Compound.can_undo accepts on the state the compound leaves (the contrary is F-C06-compound-can-undo) *)
Definition cu_end (s : state) (c : cmd) : Prop :=
  let r := execute m s (prep s c) in raised (fst r) = false -> can_undo m (snd (fst r)) (snd r) = Ok true.

Fixpoint okC (s : state) (c : cmd) {struct c} : Prop :=
  match c with
  | CCompound cs => okM okC s s cs /\ cu_end s c
  | _ => ok0 s c
  end.

Lemma okM_cons Q s0 si c r :
  okM Q s0 si (c :: r) =
  (Q si c /\ can_execute m si c = (Ok true, prep s0 c) /\
   (raised (fst (execute m si (prep s0 c))) = false -> okM Q s0 (snd (fst (execute m si (prep s0 c)))) r)).
Proof. reflexivity. Qed.

Lemma ccane_ok s l l1 : ccane m s l = (Ok true, l1) -> l1 = map (prep s) l.
Proof.
  revert l1. induction l as [|c r IH]; intros l1 H.
  - inversion H. reflexivity.
  - rewrite ccane_cons in H. unfold prep at 1. cbn [map].
    destruct (can_execute m s c) as [[[|]|e] c1'] eqn:E; try (inversion H; fail).
    destruct (ccane m s r) as [b r'] eqn:E2. inversion H; subst. cbn [snd]. f_equal. apply IH. reflexivity.
Qed.

Definition exec_stmt (c : cmd) : Prop :=
  forall s c1 s' c2, P s -> okC s c -> can_execute m s c = (Ok true, c1) -> execute m s c1 = ((None, s'), c2) ->
                     inverts m c2 s s' /\ P s'.
Definition raise_stmt (c : cmd) : Prop :=
  forall s c1 e s' c2, P s -> okC s c -> can_execute m s c = (Ok true, c1) -> execute m s c1 = ((Some e, s'), c2) ->
                       obs_eq s' s.

Lemma members_run l : Forall (fun c => exec_stmt c /\ raise_stmt c) l ->
  forall s0 si s' l2, P si -> okM okC s0 si l -> seq_exec m si (map (prep s0) l) s' l2 ->
                      seq_inv m l2 si s' /\ P s'.
Proof.
  induction 1 as [|c r [Hc _] _ IH]; intros s0 si s' l2 HP HM HS.
  - inversion HS; subst. split; [constructor | exact HP].
  - cbn [map] in HS. inversion HS as [|a1 a2 a3 s1 c' a6 r' E HS']; subst.
    rewrite okM_cons in HM. destruct HM as (HQ & HCE & HR). rewrite E in HR. cbn [raised fst snd] in HR.
    destruct (Hc si (prep s0 c) s1 c' HP HQ HCE E) as (I & HP1).
    destruct (IH s0 s1 s' r' HP1 (HR eq_refl) HS') as (SI & HP').
    split; [econstructor; eauto | exact HP'].
Qed.

Lemma members_raise l : Forall (fun c => exec_stmt c /\ raise_stmt c) l ->
  forall s0 si acc e s1 l2 acc', P si -> okM okC s0 si l ->
    cexec m si acc (map (prep s0) l) = ((Some e, s1), l2, acc') ->
    exists pre' sj, acc' = rev pre' ++ acc /\ seq_inv m pre' si sj /\ obs_eq s1 sj.
Proof.
  induction 1 as [|c r [Hc Hr] _ IH]; intros s0 si acc e s1 l2 acc' HP HM HX; cbn [map cexec] in HX; [inversion HX|].
  rewrite okM_cons in HM. destruct HM as (HQ & HCE & HR).
  destruct (execute m si (prep s0 c)) as [[[e0|] sa] c'] eqn:E; cbn [raised fst snd] in HX, HR.
  - inversion HX; subst. exists [], si. split; [reflexivity|]. split; [constructor|].
    exact (Hr si (prep s0 c) e s1 c' HP HQ HCE E).
  - destruct (cexec m sa (c' :: acc) (map (prep s0) r)) as [[[oe s2] r'] acc2] eqn:E2. inversion HX; subst.
    destruct (Hc si (prep s0 c) sa c' HP HQ HCE E) as (I & HP1).
    destruct (IH s0 sa (c' :: acc) e s1 r' acc' HP1 (HR eq_refl) E2) as (pre' & sj & A & SI & O).
    exists (c' :: pre'), sj. split; [rewrite A; cbn [rev]; rewrite <- app_assoc; reflexivity|].
    split; [econstructor; eauto | exact O].
Qed.

Theorem okC_closed c : exec_stmt c /\ raise_stmt c.
Proof.
  induction c using cmd_ind2;
    try (split; [intros s c1 s' c2 HP HO; exact (ok0_exec s _ c1 s' c2 HP HO)
                | intros s c1 e s' c2 HP HO; exact (ok0_raise s _ c1 e s' c2 HP HO)]).
  split.
  - intros s c1 s' c2 HP HO HC HE. cbn [okC] in HO. destruct HO as [HM HU].
    unfold cu_end, prep in HU. rewrite HC in HU. cbn [snd] in HU. rewrite HE in HU. cbn [raised fst snd] in HU.
    rewrite can_execute_compound in HC. destruct (ccane m s cs) as [b l1] eqn:EC. inversion HC; subst b c1.
    apply ccane_ok in EC. subst l1.
    destruct (execute_compound_ok m s _ s' c2 HE) as (l2 & -> & HS).
    destruct (members_run cs H s s s' l2 HP HM HS) as (SI & HP').
    split; [|exact HP']. apply compound_inverts; [exact SI | exact (HU eq_refl)].
  - intros s c1 e s' c2 HP HO HC HE. cbn [okC] in HO. destruct HO as [HM _].
    rewrite can_execute_compound in HC. destruct (ccane m s cs) as [b l1] eqn:EC. inversion HC; subst b c1.
    apply ccane_ok in EC. subst l1.
    rewrite execute_compound in HE.
    destruct (cexec m s [] (map (prep s) cs)) as [[[[e0|] s1] l2] acc] eqn:EX; [|inversion HE].
    destruct (members_raise cs H s s [] e0 s1 l2 acc HP HM EX) as (pre' & sj & A & SI & O).
    rewrite app_nil_r in A. subst acc.
    destruct (rollback_inv m pre' s sj SI s1 O) as (t' & ER & OT).
    rewrite ER in HE. cbn [fst snd] in HE. inversion HE; subst. exact OT.
Qed.

Lemma okC_exec s c c1 s' c2 :
  P s -> okC s c -> can_execute m s c = (Ok true, c1) -> execute m s c1 = ((None, s'), c2) ->
  inverts m c2 s s' /\ P s'.
Proof. exact (proj1 (okC_closed c) s c1 s' c2). Qed.

Lemma okC_raise s c c1 e s' c2 :
  P s -> okC s c -> can_execute m s c = (Ok true, c1) -> execute m s c1 = ((Some e, s'), c2) -> obs_eq s' s.
Proof. exact (proj2 (okC_closed c) s c1 e s' c2). Qed.

End Closure.

(* ---------- words: C06Refs' GenericWords with `a failed execute leaves an observably equal state` ---------- *)
Section GenericWords2.
Variable m : mm.
Variable P : state -> Prop.
Variable ok : state -> cmd -> Prop.
Hypothesis P_obs : forall s t, obs_eq s t -> P s -> P t.
Hypothesis ok_exec : forall s c c1 s' c2,
  P s -> ok s c -> can_execute m s c = (Ok true, c1) -> execute m s c1 = ((None, s'), c2) ->
  inverts m c2 s s' /\ P s'.
Hypothesis ok_raise : forall s c c1 e s' c2,
  P s -> ok s c -> can_execute m s c = (Ok true, c1) -> execute m s c1 = ((Some e, s'), c2) -> obs_eq s' s.

Lemma g2_step_inv a o : ginv m P a -> gop_ok ok (fst (fst a)) o -> ginv m P (snd (a_step m a o)).
Proof.
  destruct a as [[s d] u]. intros Inv Hok. destruct o as [c| |]; unfold a_step.
  - cbn [gop_ok fst] in Hok. destruct Inv as (W & Ch & Fu). unfold a_execute.
    destruct (can_execute m s c) as [[[|]|e] c1] eqn:HC; simpl; try (split; [|split]; assumption).
    destruct (execute m s c1) as [[[e|] s'] c2] eqn:HE; simpl.
    + pose proof (ok_raise s c c1 e s' c2 W Hok HC HE) as O. apply obs_eq_sym in O.
      split; [exact (P_obs s s' O W)|]. split; [exact (gchain_obs_eq m P d s s' O Ch) | exact (gfuture_obs_eq m P u s s' O Fu)].
    + destruct (ok_exec s c c1 s' c2 W Hok HC HE) as (I & W').
      split; [exact W'|]. split; [exact (gchain_cons m P c2 d s s' W Ch I) | constructor].
  - destruct d as [|c d].
    + simpl. exact Inv.
    + destruct (g_undo_inv m P P_obs s c d u Inv) as (t & E & I & _). rewrite E. exact I.
  - destruct u as [|c u].
    + simpl. exact Inv.
    + destruct (g_redo_inv m P P_obs s c d u Inv) as (t & E & I). rewrite E. exact I.
Qed.

Lemma g2_run_inv a w : ginv m P a -> run_ok m ok a w -> ginv m P (a_run m a w).
Proof.
  revert a. induction w as [|o w IH]; intros a Inv Hok; [exact Inv|].
  destruct Hok as [H1 H2]. unfold a_run in *. simpl. apply IH; [|exact H2]. apply g2_step_inv; assumption.
Qed.

Theorem g2_invariant_of_words s0 w :
  P s0 -> run_ok m ok (s0, [], []) w -> ginv m P (abs (st_run m (s0, empty_stack) w)).
Proof.
  intros W Hok. destruct (stack_refinement_from_empty m s0 w) as (_ & E). rewrite E.
  apply g2_run_inv; [|exact Hok]. split; [exact W|]. split; constructor.
Qed.

Theorem g2_k_undo_k_redo_stack s0 w k :
  P s0 -> run_ok m ok (s0, [], []) w ->
  let ms := st_run m (s0, empty_stack) w in
  (k <= length (done_of (snd ms)))%nat ->
  let ms' := st_run m ms (repeat SUndo k ++ repeat SRedo k) in
  obs_eq (fst ms') (fst ms) /\ snd ms' = snd ms.
Proof.
  intros W Hok ms L ms'.
  destruct (stack_refinement_from_empty m s0 w) as (Wf & E). fold ms in Wf, E.
  pose proof (g2_invariant_of_words s0 w W Hok) as Inv. fold ms in Inv.
  destruct (stack_refinement m ms (repeat SUndo k ++ repeat SRedo k) Wf) as (Wf' & E'). fold ms' in Wf', E'.
  unfold abs in Inv at 1.
  destruct (g_k_undo_k_redo m P P_obs k (fst ms) (done_of (snd ms)) (undone_of (snd ms)) Inv L) as (s' & Er & Os & _).
  unfold abs in E' at 2. rewrite Er in E'. unfold abs in E'. inversion E' as [[Es Ed Eu]].
  split; [rewrite Es; exact Os|]. apply stack_ext; assumption.
Qed.
End GenericWords2.

(* ====================================================================== *)
(* 2. Containment with an opposite: children <-> container end             *)
(* ====================================================================== *)
(* f is a containment reference whose opposite g is the (single-valued, non-containment) container end *)
Record ce_pair (m : mm) (f g : fid) : Prop := {
  ce_ref_f : f_isref (fd m f) = true;
  ce_cont_f : f_cont (fd m f) = true;
  ce_opp_f : f_opp (fd m f) = Some g;
  ce_ref_g : f_isref (fd m g) = true;
  ce_single_g : f_many (fd m g) = false;
  ce_cont_g : f_cont (fd m g) = false;
  ce_opp_g : f_opp (fd m g) = Some f
}.

Lemma ce_pair_of_wf m f g : wf_mm m -> f_cont (fd m f) = true -> f_opp (fd m f) = Some g -> ce_pair m f g.
Proof.
  intros W Hc Ho. destruct (wf_container_end m W f g Ho Hc) as [A B].
  pose proof (wf_opp_inv m W f g Ho) as Hg.
  constructor; try assumption; [exact (wf_opp_ref m W f g Ho) | exact (wf_opp_ref m W g f Hg)].
Qed.

Lemma ce_neq m f g : ce_pair m f g -> f <> g.
Proof. intros [_ A _ _ _ B _] E. subst g. congruence. Qed.

Lemma ce_cells m f g (a b : oid) : ce_pair m f g -> ((a, f) : cell) <> (b, g).
Proof. intros H E. inversion E. exact (ce_neq m f g H ltac:(assumption)). Qed.

Lemma upd_comm {A} (V : cell -> A) k l k2 l2 k' : k <> k2 -> upd (upd V k l) k2 l2 k' = upd (upd V k2 l2) k l k'.
Proof.
  intros N. unfold upd. destruct (cell_eqb_spec k2 k') as [E2|N2]; destruct (cell_eqb_spec k k') as [E1|N1]; try reflexivity.
  exfalso. apply N. congruence.
Qed.

(* two slots (the owner's and the child's container end) and the container of the child change *)
Definition cc2 (s0 s1 : state) (x : oid) (f : fid) (lx : list value) (y : oid) (g : fid) (ly : list value)
           (c : option cell) : Prop :=
  (forall k', vals s1 k' = upd (upd (vals s0) (y, g) ly) (x, f) lx k') /\
  (forall o, cont s1 o = updn (cont s0) y c o) /\
  (forall o, eres s1 o = eres s0 o) /\ (forall r, rcont s1 r = rcont s0 r).

Lemma cc2_vals_x s s' x f lx y g ly c : cc2 s s' x f lx y g ly c -> vals s' (x, f) = lx.
Proof. intros (V & _). rewrite V. apply upd_same. Qed.

Lemma cc2_vals_y s s' x f lx y g ly c : (x, f) <> (y, g) -> cc2 s s' x f lx y g ly c -> vals s' (y, g) = ly.
Proof. intros N (V & _). rewrite V. rewrite upd_other by exact N. apply upd_same. Qed.

Lemma cc2_cont s s' x f lx y g ly c : cc2 s s' x f lx y g ly c -> cont s' y = c.
Proof. intros (_ & C & _). rewrite C. unfold updn. rewrite Nat.eqb_refl. reflexivity. Qed.

Lemma cc2_back (s s' t t' : state) x f lx y g ly c :
  cc2 s s' x f lx y g ly c -> obs_eq t s' ->
  cc2 t t' x f (vals s (x, f)) y g (vals s (y, g)) (cont s y) -> obs_eq t' s.
Proof.
  intros (V1 & C1 & E1 & R1) (A & B & C & D) (V2 & C2 & E2 & R2).
  repeat split; intros.
  - rewrite V2. unfold upd. destruct (cell_eqb_spec (x, f) k) as [<-|N1]; [reflexivity|].
    destruct (cell_eqb_spec (y, g) k) as [<-|N2]; [reflexivity|].
    rewrite A, V1. rewrite !upd_other by assumption. reflexivity.
  - rewrite C2. unfold updn. destruct (Nat.eqb_spec y o) as [->|N]; [reflexivity|].
    rewrite B, C1. unfold updn. destruct (Nat.eqb_spec y o); [contradiction | reflexivity].
  - rewrite E2, C, E1. reflexivity.
  - rewrite R2, D, R1. reflexivity.
Qed.

Lemma cc2_again (s s' t t' : state) x f lx y g ly c :
  cc2 s s' x f lx y g ly c -> obs_eq t s -> cc2 t t' x f lx y g ly c -> obs_eq t' s'.
Proof.
  intros (V1 & C1 & E1 & R1) (A & B & C & D) (V2 & C2 & E2 & R2).
  repeat split; intros.
  - rewrite V2, V1. unfold upd. destruct (cell_eqb (x, f) k); [reflexivity|].
    destruct (cell_eqb (y, g) k); [reflexivity | apply A].
  - rewrite C2, C1. unfold updn. destruct (y =? o); [reflexivity | apply B].
  - rewrite E2, E1. apply C.
  - rewrite R2, R1. apply D.
Qed.

Section CEKernel.
Variable m : mm.
Variables f g : fid.
Hypothesis HP : ce_pair m f g.

Lemma uc_g s (a : oid) v p : update_container m s a g v p = s.
Proof. unfold update_container. rewrite (ce_cont_g m f g HP). reflexivity. Qed.

(* insert / append of an unowned child whose container end is empty *)
Lemma coll_add_ce_ok s (x : oid) pos (y : oid) :
  check_elem m f (VObj y) = true -> unowned m s y -> obj_of (single s (y, g)) = None ->
  exists s', coll_add_full m s (x, f) pos (VObj y) = (None, s') /\
             cc2 s s' x f
                 (match pos with
                  | Some i => raw_insert (f_unique (fd m f)) i (VObj y) (vals s (x, f))
                  | None => raw_append (f_unique (fd m f)) (VObj y) (vals s (x, f)) end)
                 y g [VObj x] (Some (x, f)).
Proof.
  intros Ck Hu Hs. unfold coll_add_full, link_elem. rewrite Ck, (ce_ref_f m f g HP). cbn [negb obj_of].
  rewrite (update_container_unowned m s x f y (ce_cont_f m f g HP) Hu). unfold update_opposite_add.
  rewrite (ce_opp_f m f g HP), (ce_single_g m f g HP).
  change (single (set_cont s y (Some (x, f))) (y, g)) with (single s (y, g)). rewrite Hs.
  unfold set_obj_raw. cbn [fst snd]. rewrite (ce_ref_g m f g HP), uc_g.
  eexists. split; [reflexivity|].
  assert (N : ((y, g) : cell) <> (x, f)) by (intros E; exact (ce_cells m f g x y HP (eq_sym E))).
  repeat split; intros; cbn [vals cont eres rcont set_isset notify push_log set_vals set_store set_cont]; try reflexivity.
  rewrite (upd_other _ (y, g) (x, f)) by exact N. reflexivity.
Qed.

(* pop of a child: its container end is unset, its container pointer cleared *)
Lemma coll_pop_ce_ok s (x : oid) i (y : oid) l' :
  py_pop i (vals s (x, f)) = Some (VObj y, l') ->
  exists s', coll_pop_full m s (x, f) i = ((None, s'), Some (VObj y)) /\
             cc2 s s' x f l' y g [VNone] None.
Proof.
  intros Pp. unfold coll_pop_full, unlink_elem.
  destruct (vals s (x, f)) as [|a r] eqn:E; [rewrite py_pop_nil in Pp; discriminate|].
  rewrite Pp, (ce_ref_f m f g HP). cbn [obj_of]. unfold uc_clear at 1. rewrite (ce_cont_f m f g HP).
  unfold update_opposite_remove. rewrite (ce_opp_f m f g HP), (ce_single_g m f g HP).
  unfold set_none_raw. cbn [fst snd]. rewrite (ce_ref_g m f g HP). unfold uc_clear. rewrite (ce_cont_g m f g HP).
  eexists. split; [reflexivity|].
  assert (N : ((x, f) : cell) <> (y, g)) by exact (ce_cells m f g x y HP).
  repeat split; intros; cbn [vals cont eres rcont set_isset notify push_log set_vals set_store set_cont]; try reflexivity.
  apply upd_comm. exact N.
Qed.

End CEKernel.

(* --- Add to a containment collection whose opposite is the container end --- *)
Lemma add_ce_inverts m f g s (x : oid) (y : oid) idx c1 s' c' :
  ce_pair m f g -> f_many (fd m f) = true ->
  unowned m s y -> vals s (y, g) = [VNone] ->
  can_execute m s (CAdd x f (VObj y) idx) = (Ok true, c1) ->
  execute m s c1 = ((None, s'), c') ->
  exists i', c' = CAdd x f (VObj y) (Some i') /\
             inverts m c' s s' /\
             cc2 s s' x f (py_insert i' (VObj y) (vals s (x, f))) y g [VObj x] (Some (x, f)).
Proof.
  intros CP M Hu Hyg HC HE. set (l := vals s (x, f)) in *. set (v := VObj y) in *.
  cbn [can_execute] in HC. destruct (negb (base_can m x f)); [discriminate|]. rewrite M in HC. cbn [negb] in HC.
  apply pair_eq_inv in HC. destruct HC as [HB Hc1]. subst c1.
  injection HB as HU. unfold v in HU. cbn [is_none negb andb] in HU. apply negb_true_iff in HU. fold v l in HU.
  assert (Abs : f_unique (fd m f) = true -> vmem v l = false).
  { intros U. rewrite U in HU. exact HU. }
  assert (EX : exists pos i', (0 <= i' <= zlen l)%Z /\ c' = CAdd x f v (Some i') /\
                              coll_add_full m s (x, f) pos v = (None, s') /\
                              match pos with
                              | Some i => raw_insert (f_unique (fd m f)) i v l
                              | None => raw_append (f_unique (fd m f)) v l end = py_insert i' v l).
  { cbn [execute] in HE. destruct idx as [i|]; apply pair_eq_inv in HE; destruct HE as [H1 H2].
    - exists (Some (ins_pos (zlen l) i)), (ins_pos (zlen l) i). split; [apply clamp_index_range, zlen_nonneg|].
      split; [symmetry; exact H2|]. split; [exact H1 | apply raw_insert_absent; exact Abs].
    - exists None, (zlen l). split; [pose proof (zlen_nonneg l); lia|]. split; [symmetry; exact H2|].
      split; [exact H1|]. rewrite (raw_append_absent _ _ _ Abs), py_insert_len. reflexivity. }
  destruct EX as (pos & i' & Ri & Ec & Ea & El). exists i'. split; [exact Ec|].
  destruct (check_elem m f v) eqn:Cv.
  2:{ rewrite (coll_add_bad m s (x, f) pos v Cv) in Ea. discriminate. }
  assert (Hs : obj_of (single s (y, g)) = None) by (unfold single; rewrite Hyg; reflexivity).
  destruct (coll_add_ce_ok m f g CP s x pos y Cv Hu Hs) as (s1 & E1 & CC).
  fold v in E1. rewrite E1 in Ea. inversion Ea; subst s1. clear Ea E1. fold l v in CC. rewrite El in CC.
  split; [|exact CC]. subst c'.
  assert (N : ((x, f) : cell) <> (y, g)) by exact (ce_cells m f g x y CP).
  split.
  - intros t Ht. pose proof Ht as (Vt & _). cbn [can_undo undo idx_or0].
    rewrite (Vt (x, f)), (cc2_vals_x _ _ _ _ _ _ _ _ _ CC).
    split; [f_equal; apply vmem_In; apply py_insert_In; left; reflexivity|].
    assert (Pp : py_pop i' (vals t (x, f)) = Some (v, l)).
    { rewrite (Vt (x, f)), (cc2_vals_x _ _ _ _ _ _ _ _ _ CC). apply py_pop_insert. exact Ri. }
    destruct (coll_pop_ce_ok m f g CP t x i' y l Pp) as (t' & Et & CCt).
    exists t'. fold v in Et. rewrite Et. split; [reflexivity|].
    apply (cc2_back s s' t t' x f _ y g _ _ CC Ht). fold l. rewrite (proj1 Hu), Hyg. exact CCt.
  - intros t Ht. pose proof Ht as (Vt & _). cbn [redo idx_or0].
    assert (Hut : unowned m t y) by (apply (unowned_obs_eq m s t y (obs_eq_sym _ _ Ht) Hu)).
    assert (Hst : obj_of (single t (y, g)) = None) by (unfold single; rewrite (Vt (y, g)), Hyg; reflexivity).
    destruct (coll_add_ce_ok m f g CP t x (Some i') y Cv Hut Hst) as (t' & Et & CCt).
    exists t'. fold v in Et. rewrite Et. split; [reflexivity|].
    apply (cc2_again s s' t t' x f _ y g _ _ CC Ht).
    rewrite (Vt (x, f)) in CCt. fold l v in CCt. rewrite (raw_insert_absent _ _ _ _ Abs) in CCt. exact CCt.
Qed.

(* --- Remove from a containment collection whose opposite is the container end --- *)
Lemma remove_ce_inverts m f g s (x : oid) v idx c1 s' c' :
  ce_pair m f g -> f_many (fd m f) = true -> nodup_objs (vals s (x, f)) ->
  (* the children: objects held by (x, f), pointing back to x, of the right type, none a root of a resource *)
  (forall w, In w (vals s (x, f)) ->
             exists y, w = VObj y /\ cont s y = Some (x, f) /\ not_root s y /\ vals s (y, g) = [VObj x] /\
                       check_elem m f (VObj y) = true) ->
  can_execute m s (CRemove x f v idx) = (Ok true, c1) ->
  execute m s c1 = ((None, s'), c') ->
  exists i y l2, c' = CRemove x f (VObj y) (Some i) /\
                 inverts m c' s s' /\ cc2 s s' x f l2 y g [VNone] None.
Proof.
  intros CP M ND Hown HC HE. set (l := vals s (x, f)) in *.
  cbn [can_execute] in HC. destruct (negb (base_can m x f)); [discriminate|]. rewrite M in HC. cbn [negb] in HC.
  assert (EX : exists i v1, (0 <= i)%Z /\
            (let '(o, w) := coll_pop_full m s (x, f) i in
             (o, CRemove x f (match w with Some w' => w' | None => v1 end) (Some i))) = ((None, s'), c')).
  { destruct idx as [i0|].
    - fold l in HC. destruct (py_get i0 l) as [w0|] eqn:G; [|apply pair_eq_inv in HC; destruct HC; discriminate].
      apply pair_eq_inv in HC. destruct HC as [_ Hc1]. subst c1. cbn [execute] in HE. fold l in HE.
      destruct (py_get_norm i0 l w0 G) as (k & N & _).
      rewrite (norm_index_neg_shift _ _ _ N) in HE. exists k, w0. split; [|exact HE].
      apply norm_index_range in N. lia.
    - apply pair_eq_inv in HC. destruct HC as [_ Hc1]. subst c1. cbn [execute] in HE. fold l in HE.
      destruct (index_of veqb v l) as [n|]; [|apply pair_eq_inv in HE; destruct HE; discriminate].
      exists (Z.of_nat n), v. split; [lia | exact HE]. }
  destruct EX as (i & v1 & Hi & HE2). clear HE HC.
  destruct (coll_pop_full m s (x, f) i) as [[[e|] s1] w] eqn:EP;
    apply pair_eq_inv in HE2; destruct HE2 as [H1 H2]; [discriminate|].
  inversion H1; subst s1. clear H1.
  destruct (pop_full_inv m s x f i s' w EP) as (w' & l2 & Pp & Ew). subst w. fold l in Pp.
  destruct (py_pop_nonneg i l w' l2 Hi Pp) as (Hlt & Nth & El2).
  destruct (Hown w' (nth_error_In _ _ Nth)) as (y & Ey & Hcy & Hnr & Hyg & Cw). subst w'.
  destruct (coll_pop_ce_ok m f g CP s x i y l2 Pp) as (s2 & E2 & CC).
  rewrite EP in E2. inversion E2; subst s2. clear E2.
  assert (Abs : f_unique (fd m f) = true -> vmem (VObj y) l2 = false).
  { intros _. apply vmem_obj_false. subst l2. apply nodup_objs_removed; [exact ND | exact Nth]. }
  assert (N : ((x, f) : cell) <> (y, g)) by exact (ce_cells m f g x y CP).
  exists i, y, l2. split; [symmetry; exact H2|]. split; [|exact CC].
  subst c'. split.
  - intros t Ht. pose proof Ht as (Vt & Ct & Et & Rt). split; [reflexivity|]. cbn [undo idx_or0].
    assert (Hut : unowned m t y).
    { assert (Cy : cont t y = None) by (rewrite Ct; apply (cc2_cont _ _ _ _ _ _ _ _ _ CC)).
      split; [exact Cy|]. unfold eresource_of. cbn [root_of]. rewrite Cy.
      destruct CC as (_ & _ & E1 & R1). rewrite Et, E1. unfold not_root in Hnr.
      destruct (eres s y) as [r|]; [rewrite Rt, R1; exact Hnr | exact I]. }
    assert (Hst : obj_of (single t (y, g)) = None).
    { unfold single. rewrite (Vt (y, g)), (cc2_vals_y _ _ _ _ _ _ _ _ _ N CC). reflexivity. }
    destruct (coll_add_ce_ok m f g CP t x (Some i) y Cw Hut Hst) as (t' & Et' & CCt).
    exists t'. rewrite Et'. split; [reflexivity|].
    apply (cc2_back s s' t t' x f _ y g _ _ CC Ht). fold l. rewrite Hcy, Hyg.
    rewrite (Vt (x, f)), (cc2_vals_x _ _ _ _ _ _ _ _ _ CC) in CCt.
    rewrite (raw_insert_absent _ _ _ _ Abs), (py_insert_pop i l (VObj y) l2 Hi Pp) in CCt. exact CCt.
  - intros t Ht. pose proof Ht as (Vt & _). cbn [redo idx_or0].
    assert (Pt : py_pop i (vals t (x, f)) = Some (VObj y, l2)) by (rewrite (Vt (x, f)); exact Pp).
    destruct (coll_pop_ce_ok m f g CP t x i y l2 Pt) as (t' & Et' & CCt).
    exists t'. rewrite Et'. split; [reflexivity|].
    apply (cc2_again s s' t t' x f _ y g _ _ CC Ht). exact CCt.
Qed.

(* --- Set on a single-valued containment reference whose opposite is the container end --- *)
Definition SetV (V : cell -> list value) (x : oid) (f g : fid) (v pv : value) : cell -> list value :=
  let V1 := upd V (x, f) [v] in
  let V2 := match obj_of pv with Some q => upd V1 (q, g) [VNone] | None => V1 end in
  match obj_of v with Some y => upd V2 (y, g) [VObj x] | None => V2 end.

Section CEKernel2.
Variable m : mm.
Variables f g : fid.
Hypothesis HP : ce_pair m f g.

Lemma set_none_raw_g s (q : oid) :
  set_none_raw m s (q, g) = set_store m s (q, g) VNone.
Proof.
  unfold set_none_raw. cbn [snd]. rewrite (ce_ref_g m f g HP). unfold uc_clear. rewrite (ce_cont_g m f g HP). reflexivity.
Qed.

Lemma set_obj_raw_g s (y x : oid) :
  set_obj_raw m s (y, g) x = set_store m s (y, g) (VObj x).
Proof.
  unfold set_obj_raw. cbn [fst snd]. rewrite (ce_ref_g m f g HP). apply (uc_g m f g HP).
Qed.

Lemma set_full_ce_ok s (x : oid) v :
  check_single m f v = true ->
  (forall y, v = VObj y -> unowned m s y /\ obj_of (single s (y, g)) = None) ->
  (forall y p, v = VObj y -> single s (x, f) = VObj p -> y <> p) ->
  exists s', set_full m s (x, f) v = (None, s') /\
             (forall k, vals s' k = SetV (vals s) x f g v (single s (x, f)) k) /\
             (forall o, cont s' o = cont_after (cont s) x f v (single s (x, f)) o) /\
             (forall o, eres s' o = eres s o) /\ (forall r, rcont s' r = rcont s r).
Proof.
  intros Ck Hu Hne. unfold set_full. rewrite Ck, (ce_ref_f m f g HP). cbn [negb]. rewrite (ce_opp_f m f g HP).
  set (pv := single s (x, f)) in *.
  assert (Hu1 : forall y, obj_of v = Some y -> unowned m (set_store m s (x, f) v) y).
  { intros y Ey. apply obj_of_Some' in Ey.
    apply (unowned_frame m s _ y); [reflexivity | reflexivity | reflexivity | exact (proj1 (Hu y Ey))]. }
  rewrite (update_container_set m (set_store m s (x, f) v) x f (obj_of v) (obj_of pv) (ce_cont_f m f g HP) Hu1).
  2:{ intros y p Ey Ep. apply obj_of_Some' in Ey. apply obj_of_Some' in Ep. exact (Hne y p Ey Ep). }
  rewrite (ce_single_g m f g HP).
  assert (Nfg : forall a b : oid, cell_eqb (a, g) (b, f) = false).
  { intros a b. destruct (cell_eqb_spec (a, g) (b, f)) as [E|]; [|reflexivity].
    exfalso. exact (ce_cells m f g b a HP (eq_sym E)). }
  unfold SetV, cont_after. cbv zeta.
  destruct (obj_of v) as [y|] eqn:Ev; destruct (obj_of pv) as [q|] eqn:Ep.
  - apply obj_of_Some' in Ev. apply obj_of_Some' in Ep.
    pose proof (Hne y q Ev Ep) as Nyq. destruct (Nat.eqb_spec y q) as [|_]; [contradiction|].
    rewrite Nfg, set_none_raw_g.
    match goal with |- context [single ?st (y, g)] =>
      assert (Es : single st (y, g) = single s (y, g)) end.
    { unfold single. cbn [vals set_store set_isset notify push_log set_vals set_cont].
      rewrite upd_other by (intros E; inversion E; congruence).
      rewrite upd_other by (intros E; exact (ce_cells m f g x y HP E)). reflexivity. }
    rewrite Es, (proj2 (Hu y Ev)), set_obj_raw_g.
    eexists. split; [reflexivity|]. repeat split; intros; reflexivity.
  - apply obj_of_Some' in Ev.
    match goal with |- context [single ?st (y, g)] =>
      assert (Es : single st (y, g) = single s (y, g)) end.
    { unfold single. cbn [vals set_store set_isset notify push_log set_vals set_cont].
      rewrite upd_other by (intros E; exact (ce_cells m f g x y HP E)). reflexivity. }
    rewrite Es, (proj2 (Hu y Ev)), set_obj_raw_g.
    eexists. split; [reflexivity|]. repeat split; intros; reflexivity.
  - rewrite Nfg, set_none_raw_g.
    eexists. split; [reflexivity|]. repeat split; intros; reflexivity.
  - eexists. split; [reflexivity|]. repeat split; intros; reflexivity.
Qed.

End CEKernel2.

Lemma SetV_ext V W x f g v pv : (forall k, W k = V k) -> forall k, SetV W x f g v pv k = SetV V x f g v pv k.
Proof.
  intros E k. unfold SetV. cbv zeta.
  destruct (obj_of v); destruct (obj_of pv); unfold upd;
    repeat match goal with |- context [cell_eqb ?a ?b] => destruct (cell_eqb a b) end; try reflexivity; apply E.
Qed.

(* setting the previous value again, from the store the first Set left *)
Lemma SetV_back V W (x : oid) (f g : fid) v pv :
  f <> g ->
  (forall k, W k = SetV V x f g v pv k) ->
  V (x, f) = [pv] ->
  (forall y, v = VObj y -> V (y, g) = [VNone]) ->
  (forall q, pv = VObj q -> V (q, g) = [VObj x]) ->
  (forall y q, v = VObj y -> pv = VObj q -> y <> q) ->
  forall k, SetV W x f g pv v k = V k.
Proof.
  intros Nfg EW Hx Hy Hq Hne k.
  assert (Nc : forall a b : oid, ((a, f) : cell) <> (b, g)) by (intros a b E; inversion E; contradiction).
  unfold SetV in *. cbv zeta in *.
  destruct (obj_of v) as [y|] eqn:Ev; destruct (obj_of pv) as [q|] eqn:Ep;
    try apply obj_of_Some' in Ev; try apply obj_of_Some' in Ep.
  - specialize (Hy y Ev). specialize (Hq q Ep). specialize (Hne y q Ev Ep).
    destruct (cell_eqb_spec (q, g) k) as [<-|N1]; [rewrite upd_same; symmetry; exact Hq|]. rewrite upd_other by exact N1.
    destruct (cell_eqb_spec (y, g) k) as [<-|N2]; [rewrite upd_same; symmetry; exact Hy|]. rewrite upd_other by exact N2.
    destruct (cell_eqb_spec (x, f) k) as [<-|N3]; [rewrite upd_same; symmetry; exact Hx|]. rewrite upd_other by exact N3.
    rewrite EW. rewrite !upd_other by assumption. reflexivity.
  - specialize (Hy y Ev).
    destruct (cell_eqb_spec (y, g) k) as [<-|N2]; [rewrite upd_same; symmetry; exact Hy|]. rewrite upd_other by exact N2.
    destruct (cell_eqb_spec (x, f) k) as [<-|N3]; [rewrite upd_same; symmetry; exact Hx|]. rewrite upd_other by exact N3.
    rewrite EW. rewrite !upd_other by assumption. reflexivity.
  - specialize (Hq q Ep).
    destruct (cell_eqb_spec (q, g) k) as [<-|N1]; [rewrite upd_same; symmetry; exact Hq|]. rewrite upd_other by exact N1.
    destruct (cell_eqb_spec (x, f) k) as [<-|N3]; [rewrite upd_same; symmetry; exact Hx|]. rewrite upd_other by exact N3.
    rewrite EW. rewrite !upd_other by assumption. reflexivity.
  - destruct (cell_eqb_spec (x, f) k) as [<-|N3]; [rewrite upd_same; symmetry; exact Hx|]. rewrite upd_other by exact N3.
    rewrite EW. rewrite !upd_other by assumption. reflexivity.
Qed.

(* the same for the container pointers *)
Lemma cont_after_back (C D : oid -> option cell) (x : oid) (f : fid) v pv :
  (forall o, D o = cont_after C x f v pv o) ->
  (forall y, v = VObj y -> C y = None) ->
  (forall q, pv = VObj q -> C q = Some (x, f)) ->
  forall o, cont_after D x f pv v o = C o.
Proof.
  intros ED Hy Hq o. unfold cont_after in *.
  destruct (obj_of v) as [y|] eqn:Ev; destruct (obj_of pv) as [q|] eqn:Ep;
    try apply obj_of_Some' in Ev; try apply obj_of_Some' in Ep; unfold updn in *.
  - specialize (Hy y Ev). specialize (Hq q Ep). specialize (ED o).
    destruct (Nat.eqb_spec y o) as [->|Ny]; [symmetry; exact Hy|].
    destruct (Nat.eqb_spec q o) as [->|Nq]; [symmetry; exact Hq|]. exact ED.
  - specialize (Hy y Ev). specialize (ED o).
    destruct (Nat.eqb_spec y o) as [->|Ny]; [symmetry; exact Hy | exact ED].
  - specialize (Hq q Ep). specialize (ED o).
    destruct (Nat.eqb_spec q o) as [->|Nq]; [symmetry; exact Hq | exact ED].
  - apply ED.
Qed.

Lemma cont_after_ext (C D : oid -> option cell) x f v pv :
  (forall o, D o = C o) -> forall o, cont_after D x f v pv o = cont_after C x f v pv o.
Proof.
  intros E o. unfold cont_after. destruct (obj_of v); destruct (obj_of pv); unfold updn;
    repeat match goal with |- context [?a =? ?b] => destruct (a =? b) end; try reflexivity; apply E.
Qed.

Lemma set_ce_inverts m f g s (x : oid) v p0 s' c' :
  ce_pair m f g -> f_many (fd m f) = false -> cell_wt m f (vals s (x, f)) ->
  (* the new child is taken from nobody *)
  (forall y, v = VObj y -> unowned m s y /\ vals s (y, g) = [VNone]) ->
  (* the previous child is x's, points back to x and is no root of a resource *)
  (forall p, vals s (x, f) = [VObj p] -> cont s p = Some (x, f) /\ not_root s p /\ vals s (p, g) = [VObj x]) ->
  execute m s (CSet x f v p0) = ((None, s'), c') ->
  inverts m c' s s' /\
  (forall k, vals s' k = SetV (vals s) x f g v (single s (x, f)) k) /\
  (forall o, cont s' o = cont_after (cont s) x f v (single s (x, f)) o) /\
  (forall o, eres s' o = eres s o) /\ (forall r, rcont s' r = rcont s r).
Proof.
  intros CP M W Hu Hown HE.
  pose proof (ce_neq m f g CP) as Nfg.
  unfold cell_wt in W. rewrite M in W. destruct W as (pv & Hpv & Cp).
  assert (Sg : single s (x, f) = pv) by (unfold single; rewrite Hpv; reflexivity).
  cbn [execute] in HE. apply pair_eq_inv in HE. destruct HE as [H1 H2]. rewrite Sg in H2 |- *.
  assert (Cv : check_single m f v = true).
  { destruct (check_single m f v) eqn:C; [reflexivity|]. rewrite (set_full_bad m s (x, f) v C) in H1. discriminate. }
  assert (Hne : forall y p, v = VObj y -> pv = VObj p -> y <> p).
  { intros y p Ey Ep E. subst p. destruct (Hu y Ey) as [[Hcy _] _].
    destruct (Hown y) as [Hc' _]; [rewrite Hpv, Ep; reflexivity|]. congruence. }
  assert (Hu' : forall y, v = VObj y -> unowned m s y /\ obj_of (single s (y, g)) = None).
  { intros y Ey. destruct (Hu y Ey) as [A B]. split; [exact A|]. unfold single. rewrite B. reflexivity. }
  destruct (set_full_ce_ok m f g CP s x v Cv Hu') as (s1 & E1 & VS & CS & ES & RS).
  { intros y p Ey Ep. rewrite Sg in Ep. exact (Hne y p Ey Ep). }
  rewrite E1 in H1. inversion H1; subst s1. clear H1 E1. rewrite Sg in VS, CS.
  split; [|split; [exact VS | split; [exact CS | split; [exact ES | exact RS]]]].
  assert (Cy : forall y, v = VObj y -> cont s y = None) by (intros y Ey; exact (proj1 (proj1 (Hu y Ey)))).
  assert (Vy : forall y, v = VObj y -> vals s (y, g) = [VNone]) by (intros y Ey; exact (proj2 (Hu y Ey))).
  assert (Cpp : forall p, pv = VObj p -> cont s p = Some (x, f) /\ not_root s p /\ vals s (p, g) = [VObj x]).
  { intros p Ep. apply Hown. rewrite Hpv, Ep. reflexivity. }
  subst c'. split.
  - (* undo: x.f = pv *)
    intros t Ht. pose proof Ht as (Vt & Ct & Et & Rt). split; [reflexivity|]. cbn [undo].
    assert (Vts : forall k, vals t k = SetV (vals s) x f g v pv k) by (intros k; rewrite Vt; apply VS).
    assert (St : single t (x, f) = v).
    { unfold single. rewrite Vts. unfold SetV. cbv zeta.
      assert (Nc : forall b : oid, ((b, g) : cell) <> (x, f)) by (intros b E; inversion E; congruence).
      destruct (obj_of v); destruct (obj_of pv); rewrite ?(upd_other _ (_, g) (x, f)) by apply Nc; rewrite upd_same; reflexivity. }
    assert (Hut : forall p, pv = VObj p -> unowned m t p /\ obj_of (single t (p, g)) = None).
    { intros p Ep. destruct (Cpp p Ep) as (Hcp & Hnr & _).
      assert (Cp0 : cont t p = None).
      { rewrite Ct, CS. unfold cont_after. rewrite Ep. cbn [obj_of]. unfold updn. rewrite Nat.eqb_refl. reflexivity. }
      split.
      - split; [exact Cp0|]. unfold eresource_of. cbn [root_of]. rewrite Cp0. rewrite Et, ES.
        unfold not_root in Hnr. destruct (eres s p) as [r|]; [rewrite Rt, RS; exact Hnr | exact I].
      - unfold single. rewrite Vts. unfold SetV. cbv zeta. rewrite Ep. cbn [obj_of].
        destruct (obj_of v) as [y|] eqn:Ev.
        + apply obj_of_Some' in Ev. pose proof (Hne y p Ev Ep) as N.
          rewrite upd_other by (intros E; inversion E; congruence). rewrite upd_same. reflexivity.
        + rewrite upd_same. reflexivity. }
    destruct (set_full_ce_ok m f g CP t x pv Cp Hut) as (t' & Et' & Vt' & Ct' & Et2 & Rt2).
    { intros p y Ep Ey. rewrite St in Ey. intros E. exact (Hne y p Ey Ep (eq_sym E)). }
    exists t'. rewrite Et'. split; [reflexivity|]. rewrite St in Vt', Ct'.
    repeat split; intros.
    + rewrite Vt'. apply (SetV_back (vals s) (vals t) x f g v pv Nfg Vts Hpv Vy).
      * intros q Eq. exact (proj2 (proj2 (Cpp q Eq))).
      * exact Hne.
    + rewrite Ct'. apply (cont_after_back (cont s) (cont t) x f v pv).
      * intros o'. rewrite Ct. apply CS.
      * exact Cy.
      * intros q Eq. exact (proj1 (Cpp q Eq)).
    + rewrite Et2, Et, ES. reflexivity.
    + rewrite Rt2, Rt, RS. reflexivity.
  - (* redo: x.f = v *)
    intros t Ht. pose proof Ht as (Vt & Ct & Et & Rt). cbn [redo].
    assert (St : single t (x, f) = pv) by (unfold single; rewrite (Vt (x, f)), Hpv; reflexivity).
    assert (Hut : forall y, v = VObj y -> unowned m t y /\ obj_of (single t (y, g)) = None).
    { intros y Ey. split; [apply (unowned_obs_eq m s t y (obs_eq_sym _ _ Ht)); exact (proj1 (Hu y Ey))|].
      unfold single. rewrite (Vt (y, g)), (Vy y Ey). reflexivity. }
    destruct (set_full_ce_ok m f g CP t x v Cv Hut) as (t' & Et' & Vt' & Ct' & Et2 & Rt2).
    { intros y p Ey Ep. rewrite St in Ep. exact (Hne y p Ey Ep). }
    exists t'. rewrite Et'. split; [reflexivity|]. rewrite St in Vt', Ct'.
    repeat split; intros.
    + rewrite Vt', VS. apply SetV_ext. exact Vt.
    + rewrite Ct', CS. apply cont_after_ext. exact Ct.
    + rewrite Et2, ES. apply Et.
    + rewrite Rt2, RS. apply Rt.
Qed.

(* ====================================================================== *)
(* 2a'. Move inside a containment collection (re-ordering children)         *)
(* ====================================================================== *)
(* Move = pop + insert on the same collection.  Generic part: whenever `pop then insert the popped element`
   changes nothing but the order of the slot, Move inverts (index bookkeeping as for attribute collections). *)
Section MoveGen.
Variable m : mm.
Variable x : oid.
Variable f : fid.
Variable good : state -> value -> Prop.     (* what pop + insert needs to know about an element *)
Hypothesis Hmany : f_many (fd m f) = true.
Hypothesis good_obs : forall t t' w, obs_eq t' t -> good t w -> good t' w.
Hypothesis good_only : forall t t' l w, only_cell t t' (x, f) l -> good t w -> good t' w.
Hypothesis pop_add : forall t i w l1 j,
  py_pop i (vals t (x, f)) = Some (w, l1) -> good t w -> (f_unique (fd m f) = true -> vmem w l1 = false) ->
  exists t1, coll_pop_full m t (x, f) i = ((None, t1), Some w) /\ vals t1 (x, f) = l1 /\
  exists t2, coll_add_full m t1 (x, f) (Some j) w = (None, t2) /\ only_cell t t2 (x, f) (py_insert j w l1).

Lemma move_gen_inverts s v from to c1 s' c' :
  (forall w, In w (vals s (x, f)) -> good s w) ->
  (forall i w l1, py_pop i (vals s (x, f)) = Some (w, l1) -> f_unique (fd m f) = true -> vmem w l1 = false) ->
  (is_none v = true \/ from = None) ->
  can_execute m s (CMove x f v from to) = (Ok true, c1) ->
  execute m s c1 = ((None, s'), c') ->
  exists fr w to' l2, c' = CMove x f w (Some fr) to' /\ inverts m c' s s' /\ only_cell s s' (x, f) l2.
Proof.
  intros Hgood Habs Hx HC HE. set (l := vals s (x, f)) in *.
  cbn [can_execute] in HC. destruct (negb (base_can m x f)); [discriminate|]. rewrite Hmany in HC. cbn [negb] in HC.
  fold l in HC.
  assert (EX : exists fr0 v1, c1 = CMove x f v1 (Some fr0) to /\
                              (0 <= (if fr0 <? 0 then fr0 + zlen l else fr0))%Z).
  { destruct (is_none v) eqn:Nv.
    - destruct from as [i0|]; [|apply pair_eq_inv in HC; destruct HC; discriminate].
      destruct (py_get i0 l) as [w0|] eqn:G; [|apply pair_eq_inv in HC; destruct HC; discriminate].
      apply pair_eq_inv in HC. destruct HC as [_ Hc]. exists i0, w0. split; [symmetry; exact Hc|].
      destruct (py_get_norm i0 l w0 G) as (k & N & _). rewrite (norm_index_neg_shift _ _ _ N).
      apply norm_index_range in N. lia.
    - destruct Hx as [Hx|Hx]; [discriminate|]. subst from.
      destruct (index_of veqb v l) as [n|]; [|apply pair_eq_inv in HC; destruct HC; discriminate].
      apply pair_eq_inv in HC. destruct HC as [_ Hc]. exists (Z.of_nat n), v. split; [symmetry; exact Hc|].
      rewrite nonneg_shift; lia. }
  destruct EX as (fr0 & v1 & Hc1 & Hfr). subst c1. clear HC.
  cbn [execute] in HE. unfold do_move in HE. fold l in HE.
  set (fr := (if fr0 <? 0 then fr0 + zlen l else fr0)%Z) in *.
  destruct (coll_pop_full m s (x, f) fr) as [[[e|] s1] w] eqn:EP;
    [apply pair_eq_inv in HE; destruct HE; discriminate|].
  destruct (pop_full_inv m s x f fr s1 w EP) as (w' & l1 & Pp & Ew). subst w. fold l in Pp.
  destruct (py_pop_nonneg fr l w' l1 Hfr Pp) as (Hlt & Nth & El1).
  assert (Gw : good s w') by (apply Hgood; eapply nth_error_In; exact Nth).
  assert (Abs : f_unique (fd m f) = true -> vmem w' l1 = false) by (intros U; exact (Habs fr w' l1 Pp U)).
  set (to' := ins_pos (zlen l1) to).
  assert (Rto : (0 <= to' <= zlen l1)%Z) by (apply clamp_index_range, zlen_nonneg).
  destruct (pop_add s fr w' l1 to' Pp Gw Abs) as (s1' & E1 & V1 & s2 & E2 & OC).
  rewrite EP in E1. inversion E1; subst s1'. clear E1.
  apply pair_eq_inv in HE. destruct HE as [H1 H2]. rewrite V1 in H1, H2. fold to' in H1, H2.
  rewrite E2 in H1. inversion H1; subst s2. clear H1.
  set (l2 := py_insert to' w' l1) in *.
  exists fr, w', to', l2. split; [symmetry; exact H2|]. split; [|exact OC].
  subst c'. split.
  - intros t Ht. pose proof Ht as (Vt & _). cbn [can_undo undo idx_or0].
    rewrite (Vt (x, f)), (only_cell_vals _ _ _ _ OC). unfold l2 at 1.
    rewrite (py_get_insert to' w' l1 Rto), value_is_refl. split; [reflexivity|].
    assert (Pt : py_pop to' (vals t (x, f)) = Some (w', l1)).
    { rewrite (Vt (x, f)), (only_cell_vals _ _ _ _ OC). apply py_pop_insert. exact Rto. }
    assert (Gt : good t w') by (apply (good_obs s' t w' Ht); exact (good_only s s' _ w' OC Gw)).
    destruct (pop_add t to' w' l1 fr Pt Gt Abs) as (t1 & Et1 & Vt1 & t' & Et & OCt).
    rewrite Et1, Et. exists t'. split; [reflexivity|].
    apply (only_cell_back s s' t t' (x, f) _ OC Ht). fold l.
    rewrite (py_insert_pop fr l w' l1 Hfr Pp) in OCt. exact OCt.
  - intros t Ht. pose proof Ht as (Vt & _). cbn [redo]. unfold do_move.
    rewrite (Vt (x, f)). fold l. rewrite (nonneg_shift (zlen l) fr Hfr).
    assert (Pt : py_pop fr (vals t (x, f)) = Some (w', l1)) by (rewrite (Vt (x, f)); exact Pp).
    assert (Gt : good t w') by (exact (good_obs s t w' Ht Gw)).
    destruct (pop_add t fr w' l1 to' Pt Gt Abs) as (t1 & Et1 & Vt1 & t' & Et & OCt).
    rewrite Et1, Vt1.
    assert (Eto : ins_pos (zlen l1) to' = to') by (apply clamp_index_id; exact Rto).
    rewrite Eto, Et. exists t'. split; [reflexivity|].
    apply (only_cell_again s s' t t' (x, f) _ OC Ht). exact OCt.
Qed.

End MoveGen.

(* instance 1: containment collection whose opposite is the container end *)
Section MoveCE.
Variable m : mm.
Variables f g : fid.
Hypothesis HP : ce_pair m f g.
Variable x : oid.

Definition good_ce (t : state) (w : value) : Prop :=
  exists y, w = VObj y /\ cont t y = Some (x, f) /\ not_root t y /\ vals t (y, g) = [VObj x] /\
            check_elem m f (VObj y) = true.

Lemma good_ce_obs t t' w : obs_eq t' t -> good_ce t w -> good_ce t' w.
Proof.
  intros (A & B & C & D) (y & E & Hc & Hn & Hv & Ck). exists y. split; [exact E|].
  split; [rewrite B; exact Hc|]. split; [|split; [rewrite A; exact Hv | exact Ck]].
  unfold not_root in *. rewrite C. destruct (eres t y); [rewrite D; exact Hn | exact I].
Qed.

Lemma good_ce_only t t' l w : only_cell t t' (x, f) l -> good_ce t w -> good_ce t' w.
Proof.
  intros (V & Cn & Er & R) (y & E & Hc & Hn & Hv & Ck). exists y. split; [exact E|].
  split; [rewrite Cn; exact Hc|]. split; [|split; [|exact Ck]].
  - unfold not_root in *. rewrite Er. destruct (eres t y); [rewrite R; exact Hn | exact I].
  - rewrite V. rewrite upd_other by exact (ce_cells m f g x y HP). exact Hv.
Qed.

Lemma pop_add_ce t i w l1 j :
  py_pop i (vals t (x, f)) = Some (w, l1) -> good_ce t w -> (f_unique (fd m f) = true -> vmem w l1 = false) ->
  exists t1, coll_pop_full m t (x, f) i = ((None, t1), Some w) /\ vals t1 (x, f) = l1 /\
  exists t2, coll_add_full m t1 (x, f) (Some j) w = (None, t2) /\ only_cell t t2 (x, f) (py_insert j w l1).
Proof.
  intros Pp (y & -> & Hc & Hn & Hv & Ck) Abs.
  destruct (coll_pop_ce_ok m f g HP t x i y l1 Pp) as (t1 & E1 & CC1).
  exists t1. split; [exact E1|]. split; [exact (cc2_vals_x _ _ _ _ _ _ _ _ _ CC1)|].
  assert (N : ((x, f) : cell) <> (y, g)) by exact (ce_cells m f g x y HP).
  assert (Hu : unowned m t1 y).
  { assert (Cy : cont t1 y = None) by exact (cc2_cont _ _ _ _ _ _ _ _ _ CC1).
    split; [exact Cy|]. unfold eresource_of. cbn [root_of]. rewrite Cy.
    destruct CC1 as (_ & _ & Er & R). rewrite Er. unfold not_root in Hn.
    destruct (eres t y); [rewrite R; exact Hn | exact I]. }
  assert (Hs : obj_of (single t1 (y, g)) = None).
  { unfold single. rewrite (cc2_vals_y _ _ _ _ _ _ _ _ _ N CC1). reflexivity. }
  destruct (coll_add_ce_ok m f g HP t1 x (Some j) y Ck Hu Hs) as (t2 & E2 & CC2).
  exists t2. split; [exact E2|].
  rewrite (cc2_vals_x _ _ _ _ _ _ _ _ _ CC1), (raw_insert_absent _ _ _ _ Abs) in CC2.
  destruct CC1 as (V1 & C1 & Er1 & R1). destruct CC2 as (V2 & C2 & Er2 & R2).
  repeat split; intros.
  - rewrite V2. unfold upd. destruct (cell_eqb_spec (x, f) k') as [_|Na]; [reflexivity|].
    destruct (cell_eqb_spec (y, g) k') as [<-|Nb]; [symmetry; exact Hv|].
    rewrite V1. rewrite !upd_other by assumption. reflexivity.
  - rewrite C2. unfold updn. destruct (Nat.eqb_spec y o) as [<-|Ny]; [symmetry; exact Hc|].
    rewrite C1. unfold updn. destruct (Nat.eqb_spec y o); [contradiction | reflexivity].
  - rewrite Er2. apply Er1.
  - rewrite R2. apply R1.
Qed.

End MoveCE.

(* instance 2: containment collection without opposite *)
Section MoveCP.
Variable m : mm.
Variable f : fid.
Hypothesis CP : cont_plain m f.
Variable x : oid.

Definition good_cp (t : state) (w : value) : Prop :=
  exists y, w = VObj y /\ cont t y = Some (x, f) /\ not_root t y /\ check_elem m f (VObj y) = true.

Lemma good_cp_obs t t' w : obs_eq t' t -> good_cp t w -> good_cp t' w.
Proof.
  intros (A & B & C & D) (y & E & Hc & Hn & Ck). exists y. split; [exact E|].
  split; [rewrite B; exact Hc|]. split; [|exact Ck].
  unfold not_root in *. rewrite C. destruct (eres t y); [rewrite D; exact Hn | exact I].
Qed.

Lemma good_cp_only t t' l w : only_cell t t' (x, f) l -> good_cp t w -> good_cp t' w.
Proof.
  intros (V & Cn & Er & R) (y & E & Hc & Hn & Ck). exists y. split; [exact E|].
  split; [rewrite Cn; exact Hc|]. split; [|exact Ck].
  unfold not_root in *. rewrite Er. destruct (eres t y); [rewrite R; exact Hn | exact I].
Qed.

Lemma pop_add_cp (Hm : f_many (fd m f) = true) t i w l1 j :
  py_pop i (vals t (x, f)) = Some (w, l1) -> good_cp t w -> (f_unique (fd m f) = true -> vmem w l1 = false) ->
  exists t1, coll_pop_full m t (x, f) i = ((None, t1), Some w) /\ vals t1 (x, f) = l1 /\
  exists t2, coll_add_full m t1 (x, f) (Some j) w = (None, t2) /\ only_cell t t2 (x, f) (py_insert j w l1).
Proof.
  intros Pp (y & -> & Hc & Hn & Ck) Abs.
  destruct (coll_pop_cont_ok m t x f i y l1 CP Pp) as (t1 & E1 & CC1).
  exists t1. split; [exact E1|]. split; [exact (cc_vals _ _ _ _ _ _ CC1)|].
  assert (Hu : unowned m t1 y).
  { assert (Cy : cont t1 y = None) by exact (cc_cont _ _ _ _ _ _ CC1).
    split; [exact Cy|]. unfold eresource_of. cbn [root_of]. rewrite Cy.
    destruct CC1 as (_ & _ & Er & R). rewrite Er. unfold not_root in Hn.
    destruct (eres t y); [rewrite R; exact Hn | exact I]. }
  destruct (coll_add_cont_ok m t1 x f (Some j) y CP Hm Ck Hu) as (t2 & E2 & CC2).
  exists t2. split; [exact E2|].
  rewrite (cc_vals _ _ _ _ _ _ CC1), (raw_insert_absent _ _ _ _ Abs) in CC2.
  destruct CC1 as (V1 & C1 & Er1 & R1). destruct CC2 as (V2 & C2 & Er2 & R2).
  repeat split; intros.
  - rewrite V2. unfold upd. destruct (cell_eqb_spec (x, f) k') as [_|Na]; [reflexivity|].
    rewrite V1. rewrite upd_other by assumption. reflexivity.
  - rewrite C2. unfold updn. destruct (Nat.eqb_spec y o) as [<-|Ny]; [symmetry; exact Hc|].
    rewrite C1. unfold updn. destruct (Nat.eqb_spec y o); [contradiction | reflexivity].
  - rewrite Er2. apply Er1.
  - rewrite R2. apply R1.
Qed.

End MoveCP.

(* kernel closed forms for the container end itself (used for Set on the container end and, in part 3,
   for Delete of a leaf child) *)
(* x.g = None / x.g = p, and steps on empty slots *)
Section LeafKernel.
Variable m : mm.
Variables f g : fid.
Hypothesis HP : ce_pair m f g.

(* what p.f holds once x has left it *)
Definition lessx (x : oid) (l : list value) : list value :=
  if f_many (fd m f) then raw_remove (VObj x) l else [VNone].
(* ... and once x has come back through the setter of its container end *)
Definition plusx (x : oid) (l : list value) : list value :=
  if f_many (fd m f) then l ++ [VObj x] else [VObj x].

Lemma check_single_none h : check_single m h VNone = true.
Proof. reflexivity. Qed.

(* x.g = None: x leaves p.f, its container pointer is cleared *)
Lemma unset_container_end t (x p : oid) :
  vals t (x, g) = [VObj p] -> In (VObj x) (vals t (p, f)) ->
  (f_many (fd m f) = false -> vals t (p, f) = [VObj x]) ->
  exists t', set_full m t (x, g) VNone = (None, t') /\
             cc2 t t' p f (lessx x (vals t (p, f))) x g [VNone] None.
Proof.
  intros Hxg Hin Hsing. unfold set_full. rewrite check_single_none, (ce_ref_g m f g HP). cbn [negb obj_of].
  assert (Sg : single t (x, g) = VObj p) by (unfold single; rewrite Hxg; reflexivity).
  rewrite Sg. cbn [obj_of]. rewrite (uc_g m f g HP), (ce_opp_g m f g HP).
  assert (Nc : ((p, f) : cell) <> (x, g)) by exact (ce_cells m f g p x HP).
  assert (Nc' : ((x, g) : cell) <> (p, f)) by (intros E; exact (Nc (eq_sym E))).
  unfold lessx. destruct (f_many (fd m f)) eqn:M.
  - unfold coll_remove_raw.
    assert (Vp : vals (set_store m t (x, g) VNone) (p, f) = vals t (p, f)).
    { cbn [vals set_store set_isset notify push_log set_vals]. apply upd_other. exact Nc'. }
    rewrite Vp. rewrite (proj2 (vmem_obj x _) Hin). unfold uc_clear. cbn [snd]. rewrite (ce_cont_f m f g HP).
    eexists. split; [reflexivity|].
    repeat split; intros; cbn [vals cont eres rcont set_isset notify push_log set_vals set_store set_cont]; try reflexivity.
    rewrite (upd_other _ (x, g) (p, f)) by exact Nc'. reflexivity.
  - destruct (cell_eqb_spec (p, f) (x, g)) as [E|_]; [contradiction|].
    unfold set_none_raw. cbn [snd]. rewrite (ce_ref_f m f g HP).
    assert (Sp : single (set_store m t (x, g) VNone) (p, f) = VObj x).
    { unfold single. cbn [vals set_store set_isset notify push_log set_vals].
      rewrite upd_other by exact Nc'. rewrite (Hsing eq_refl). reflexivity. }
    rewrite Sp. cbn [obj_of]. unfold uc_clear. rewrite (ce_cont_f m f g HP).
    eexists. split; [reflexivity|].
    repeat split; intros; cbn [vals cont eres rcont set_isset notify push_log set_vals set_store set_cont]; reflexivity.
Qed.

(* x.g = p for an unowned x with an empty container end: x is appended to p.f (stored in the free slot p.f) *)
Lemma set_container_end t (x p : oid) :
  vals t (x, g) = [VNone] -> unowned m t x -> check_single m g (VObj p) = true ->
  (f_many (fd m f) = false -> vals t (p, f) = [VNone]) ->
  (f_many (fd m f) = true -> f_unique (fd m f) = true -> ~ In (VObj x) (vals t (p, f))) ->
  exists t', set_full m t (x, g) (VObj p) = (None, t') /\
             cc2 t t' p f (plusx x (vals t (p, f))) x g [VObj p] (Some (p, f)).
Proof.
  intros Hxg Hu Ck Hfree Habs. unfold set_full. rewrite Ck, (ce_ref_g m f g HP). cbn [negb obj_of].
  assert (Sg : single t (x, g) = VNone) by (unfold single; rewrite Hxg; reflexivity).
  rewrite Sg. cbn [obj_of]. rewrite (uc_g m f g HP), (ce_opp_g m f g HP).
  assert (Nc' : ((x, g) : cell) <> (p, f)) by (intros E; exact (ce_cells m f g p x HP (eq_sym E))).
  set (t1 := set_store m t (x, g) (VObj p)).
  assert (Hu1 : unowned m t1 x) by (apply (unowned_frame m t t1 x); try reflexivity; exact Hu).
  assert (Vp : vals t1 (p, f) = vals t (p, f)).
  { unfold t1. cbn [vals set_store set_isset notify push_log set_vals]. apply upd_other. exact Nc'. }
  unfold plusx. destruct (f_many (fd m f)) eqn:M.
  - unfold coll_append_raw. cbn [fst snd].
    rewrite (update_container_unowned m t1 p f x (ce_cont_f m f g HP) Hu1).
    change (vals (set_cont t1 x (Some (p, f))) (p, f)) with (vals t1 (p, f)). rewrite Vp.
    assert (Ra : raw_append (f_unique (fd m f)) (VObj x) (vals t (p, f)) = vals t (p, f) ++ [VObj x]).
    { apply raw_append_absent. intros U. apply vmem_obj_false. exact (Habs eq_refl U). }
    rewrite Ra. eexists. split; [reflexivity|].
    repeat split; intros; unfold t1; cbn [vals cont eres rcont set_isset notify push_log set_vals set_store set_cont]; reflexivity.
  - assert (Sp : single t1 (p, f) = VNone) by (unfold single; rewrite Vp, (Hfree eq_refl); reflexivity).
    rewrite Sp. cbn [obj_of]. unfold set_obj_raw. cbn [fst snd]. rewrite (ce_ref_f m f g HP), Sp. cbn [obj_of].
    assert (Hu2 : unowned m (set_store m t1 (p, f) (VObj x)) x).
    { apply (unowned_frame m t1 _ x); try reflexivity; exact Hu1. }
    rewrite (update_container_unowned m _ p f x (ce_cont_f m f g HP) Hu2).
    eexists. split; [reflexivity|].
    repeat split; intros; unfold t1; cbn [vals cont eres rcont set_isset notify push_log set_vals set_store set_cont]; reflexivity.
Qed.

End LeafKernel.

(* steps of delete() and of Delete.undo on a reference slot of x that holds nothing: no observable effect *)
Section EmptySteps.
Variable m : mm.

Definition empty_cell (t : state) (x : oid) (h : fid) : Prop :=
  vals t (x, h) = if f_many (fd m h) then [] else [VNone].

Lemma empty_cell_obs t t' x h : obs_eq t' t -> empty_cell t x h -> empty_cell t' x h.
Proof. intros (A & _) H. unfold empty_cell. rewrite A. exact H. Qed.

Lemma obs_set_store t k v : vals t k = [v] -> obs_eq (set_store m t k v) t.
Proof.
  intros H. repeat split; intros; try reflexivity.
  cbn [vals set_store set_isset notify push_log set_vals]. unfold upd.
  destruct (cell_eqb_spec k k0) as [<-|N]; [symmetry; exact H | reflexivity].
Qed.

Lemma set_full_none_noop t (x : oid) (h : fid) :
  vals t (x, h) = [VNone] -> exists t', set_full m t (x, h) VNone = (None, t') /\ obs_eq t' t.
Proof.
  intros H. assert (Sg : single t (x, h) = VNone) by (unfold single; rewrite H; reflexivity).
  unfold set_full. rewrite check_single_none, Sg. cbn [negb obj_of].
  destruct (f_isref (fd m h)); cbn [negb].
  - assert (U : update_container m (set_store m t (x, h) VNone) x h None None = set_store m t (x, h) VNone).
    { unfold update_container. destruct (f_cont (fd m h)); reflexivity. }
    rewrite U. destruct (f_opp (fd m h)); eexists; (split; [reflexivity | apply obs_set_store; exact H]).
  - eexists. split; [reflexivity | apply obs_set_store; exact H].
Qed.

Lemma extend_nil_noop t (x : oid) (h : fid) :
  exists t', coll_extend_full m t (x, h) [] = (None, t') /\ obs_eq t' t.
Proof.
  unfold coll_extend_full. cbn [forallb negb fold_left].
  eexists. split; [reflexivity|]. destruct (f_unique (fd m h)).
  - repeat split; intros; reflexivity.
  - repeat split; intros; try reflexivity.
    cbn [vals set_isset notify push_log set_vals]. unfold upd.
    destruct (cell_eqb_spec (x, h) k) as [<-|N]; [apply app_nil_r | reflexivity].
Qed.

Lemma delete_step_own_empty t (x : oid) (h : fid) :
  empty_cell t x h -> obs_eq (delete_step m x t (x, h)) t.
Proof.
  unfold empty_cell, delete_step. intros H. destruct (f_many (fd m h)).
  - rewrite Nat.eqb_refl. unfold coll_clear_full. rewrite H. apply obs_eq_refl.
  - rewrite Nat.eqb_refl, orb_true_r. destruct (set_full_none_noop t x h H) as (t' & E & O). rewrite E. exact O.
Qed.

Lemma fold_own_empty (x : oid) L : forall t,
  (forall h, In h L -> empty_cell t x h) ->
  obs_eq (fold_left (delete_step m x) (map (fun h => (x, h)) L) t) t.
Proof.
  induction L as [|a L IH]; intros t H; [apply obs_eq_refl|]. cbn [map fold_left].
  pose proof (delete_step_own_empty t x a (H a (or_introl eq_refl))) as O1.
  eapply obs_eq_trans; [|exact O1]. apply IH.
  intros h Hh. apply (empty_cell_obs t _ x h O1). apply H. right. exact Hh.
Qed.

(* the first loop of Delete.undo on the snapshots of empty slots *)
Lemma restore_own_empty (x : oid) (V : cell -> list value) L : forall t,
  (forall h, In h L -> V (x, h) = if f_many (fd m h) then [] else [VNone]) ->
  (forall h, In h L -> empty_cell t x h) ->
  exists t', restore_refs_one m x (map (fun h => (h, V (x, h))) L) t = (None, t') /\ obs_eq t' t.
Proof.
  induction L as [|a L IH]; intros t HV H; [exists t; split; [reflexivity | apply obs_eq_refl]|].
  cbn [map restore_refs_one]. rewrite (HV a (or_introl eq_refl)).
  pose proof (H a (or_introl eq_refl)) as Ha. unfold empty_cell in Ha.
  assert (S1 : exists t1, (if f_many (fd m a)
                           then coll_extend_full m t (x, a) (if f_many (fd m a) then [] else [VNone])
                           else set_full m t (x, a) (KernelIO.hdv (if f_many (fd m a) then [] else [VNone]))) = (None, t1) /\
                          obs_eq t1 t).
  { destruct (f_many (fd m a)); [apply extend_nil_noop | apply set_full_none_noop; exact Ha]. }
  destruct S1 as (t1 & E1 & O1). rewrite E1. cbn [seq_outcome].
  destruct (IH t1) as (t' & E' & O').
  - intros h Hh. apply HV. right. exact Hh.
  - intros h Hh. apply (empty_cell_obs t t1 x h O1). apply H. right. exact Hh.
  - exists t'. split; [exact E' | eapply obs_eq_trans; eauto].
Qed.

End EmptySteps.

(* --- Set on the container end g itself: x.g = p (x unowned, its container end empty) --- *)
Lemma set_end_link_inverts m f g s (x p : oid) p0 s' c' :
  ce_pair m f g -> vals s (x, g) = [VNone] -> unowned m s x ->
  (f_many (fd m f) = false -> vals s (p, f) = [VNone]) -> ~ In (VObj x) (vals s (p, f)) ->
  execute m s (CSet x g (VObj p) p0) = ((None, s'), c') ->
  inverts m c' s s' /\ cc2 s s' p f (plusx m f x (vals s (p, f))) x g [VObj p] (Some (p, f)).
Proof.
  intros CP Hxg Hu Hfree Habs HE.
  assert (Sg : single s (x, g) = VNone) by (unfold single; rewrite Hxg; reflexivity).
  cbn [execute] in HE. apply pair_eq_inv in HE. destruct HE as [H1 H2]. rewrite Sg in H2.
  assert (Ck : check_single m g (VObj p) = true).
  { destruct (check_single m g (VObj p)) eqn:C; [reflexivity|]. rewrite (set_full_bad m s (x, g) _ C) in H1. discriminate. }
  destruct (set_container_end m f g CP s x p Hxg Hu Ck Hfree (fun _ _ => Habs)) as (s1 & E1 & CC).
  rewrite E1 in H1. inversion H1; subst s1. clear H1 E1. split; [|exact CC]. subst c'.
  assert (N2 : ((p, f) : cell) <> (x, g)) by exact (ce_cells m f g p x CP).
  assert (Back : lessx m f x (plusx m f x (vals s (p, f))) = vals s (p, f)).
  { unfold lessx, plusx. destruct (f_many (fd m f)) eqn:M; [apply rr_app_last; exact Habs | symmetry; exact (Hfree eq_refl)]. }
  split.
  - intros t Ht. pose proof Ht as (Vt & _). split; [reflexivity|]. cbn [undo].
    assert (Vpf : vals t (p, f) = plusx m f x (vals s (p, f))) by (rewrite Vt; exact (cc2_vals_x _ _ _ _ _ _ _ _ _ CC)).
    destruct (unset_container_end m f g CP t x p) as (t' & Et & CCt).
    + rewrite Vt. exact (cc2_vals_y _ _ _ _ _ _ _ _ _ N2 CC).
    + rewrite Vpf. unfold plusx. destruct (f_many (fd m f)); [apply in_or_app; right|]; left; reflexivity.
    + intros M. rewrite Vpf. unfold plusx. rewrite M. reflexivity.
    + exists t'. rewrite Et. split; [reflexivity|].
      apply (cc2_back s s' t t' p f _ x g _ _ CC Ht). rewrite Hxg, (proj1 Hu). rewrite Vpf, Back in CCt. exact CCt.
  - intros t Ht. pose proof Ht as (Vt & _). cbn [redo].
    destruct (set_container_end m f g CP t x p) as (t' & Et & CCt).
    + rewrite Vt. exact Hxg.
    + exact (unowned_obs_eq m s t x (obs_eq_sym _ _ Ht) Hu).
    + exact Ck.
    + intros M. rewrite Vt. exact (Hfree M).
    + intros _ _. rewrite Vt. exact Habs.
    + exists t'. rewrite Et. split; [reflexivity|].
      apply (cc2_again s s' t t' p f _ x g _ _ CC Ht). rewrite (Vt (p, f)) in CCt. exact CCt.
Qed.

(* --- x.g = None: x leaves its container p; exact when x was the last element of p.f (or p.f is single-valued):
       undo goes through the setter of g, which appends (F-C06-relink-order) --- *)
Lemma set_end_unlink_inverts m f g s (x p : oid) p0 s' c' :
  ce_pair m f g -> vals s (x, g) = [VObj p] -> In (VObj x) (vals s (p, f)) ->
  (f_many (fd m f) = false -> vals s (p, f) = [VObj x]) -> nodup_objs (vals s (p, f)) ->
  cont s x = Some (p, f) -> not_root s x -> check_single m g (VObj p) = true ->
  (f_many (fd m f) = true -> lastv (VObj x) (vals s (p, f))) ->
  execute m s (CSet x g VNone p0) = ((None, s'), c') ->
  inverts m c' s s' /\ cc2 s s' p f (lessx m f x (vals s (p, f))) x g [VNone] None.
Proof.
  intros CP Hxg Hin Hsing ND Hcx Hnr Ck Hlast HE.
  assert (Sg : single s (x, g) = VObj p) by (unfold single; rewrite Hxg; reflexivity).
  cbn [execute] in HE. apply pair_eq_inv in HE. destruct HE as [H1 H2]. rewrite Sg in H2.
  destruct (unset_container_end m f g CP s x p Hxg Hin Hsing) as (s1 & E1 & CC).
  rewrite E1 in H1. inversion H1; subst s1. clear H1 E1. split; [|exact CC]. subst c'.
  assert (N2 : ((p, f) : cell) <> (x, g)) by exact (ce_cells m f g p x CP).
  assert (Back : plusx m f x (lessx m f x (vals s (p, f))) = vals s (p, f)).
  { unfold plusx, lessx. destruct (f_many (fd m f)) eqn:M; [|symmetry; exact (Hsing eq_refl)].
    destruct (Hlast eq_refl) as (l0 & El). rewrite El.
    rewrite rr_app_last; [reflexivity|]. apply nodup_objs_app_last. rewrite <- El. exact ND. }
  split.
  - intros t Ht. pose proof Ht as (Vt & Ct & Et & Rt). split; [reflexivity|]. cbn [undo].
    assert (Vpf : vals t (p, f) = lessx m f x (vals s (p, f))) by (rewrite Vt; exact (cc2_vals_x _ _ _ _ _ _ _ _ _ CC)).
    destruct (set_container_end m f g CP t x p) as (t' & Et' & CCt).
    + rewrite Vt. exact (cc2_vals_y _ _ _ _ _ _ _ _ _ N2 CC).
    + assert (Cx : cont t x = None) by (rewrite Ct; exact (cc2_cont _ _ _ _ _ _ _ _ _ CC)).
      split; [exact Cx|]. unfold eresource_of. cbn [root_of]. rewrite Cx.
      destruct CC as (_ & _ & Es & Rs). rewrite Et, Es. unfold not_root in Hnr.
      destruct (eres s x) as [r|]; [rewrite Rt, Rs; exact Hnr | exact I].
    + exact Ck.
    + intros M. rewrite Vpf. unfold lessx. rewrite M. reflexivity.
    + intros M _. rewrite Vpf. unfold lessx. rewrite M. intros Hi.
      exact (C07Full.raw_remove_obj_neq _ x x ND Hi eq_refl).
    + exists t'. rewrite Et'. split; [reflexivity|].
      apply (cc2_back s s' t t' p f _ x g _ _ CC Ht). rewrite Hxg, Hcx. rewrite Vpf, Back in CCt. exact CCt.
  - intros t Ht. pose proof Ht as (Vt & _). cbn [redo].
    destruct (unset_container_end m f g CP t x p) as (t' & Et' & CCt).
    + rewrite Vt. exact Hxg.
    + rewrite Vt. exact Hin.
    + intros M. rewrite Vt. exact (Hsing M).
    + exists t'. rewrite Et'. split; [reflexivity|].
      apply (cc2_again s s' t t' p f _ x g _ _ CC Ht). rewrite (Vt (p, f)) in CCt. exact CCt.
Qed.

(* --- x.g = None when it is None already: nothing observable happens, in either direction --- *)
Lemma set_none_none_inverts m s (x : oid) (h : fid) p0 s' c' :
  vals s (x, h) = [VNone] -> execute m s (CSet x h VNone p0) = ((None, s'), c') ->
  inverts m c' s s' /\ obs_eq s' s.
Proof.
  intros Hv HE. assert (Sg : single s (x, h) = VNone) by (unfold single; rewrite Hv; reflexivity).
  cbn [execute] in HE. apply pair_eq_inv in HE. destruct HE as [H1 H2]. rewrite Sg in H2.
  destruct (set_full_none_noop m s x h Hv) as (s1 & E1 & O1). rewrite E1 in H1. inversion H1; subst s1.
  split; [|exact O1]. subst c'. split.
  - intros t Ht. split; [reflexivity|]. cbn [undo].
    destruct (set_full_none_noop m t x h) as (t' & Et & Ot); [rewrite (proj1 Ht), (proj1 O1); exact Hv|].
    exists t'. rewrite Et. split; [reflexivity|]. eapply obs_eq_trans; [exact Ot|]. eapply obs_eq_trans; eauto.
  - intros t Ht. cbn [redo].
    destruct (set_full_none_noop m t x h) as (t' & Et & Ot); [rewrite (proj1 Ht); exact Hv|].
    exists t'. rewrite Et. split; [reflexivity|]. eapply obs_eq_trans; [exact Ot|]. eapply obs_eq_trans; [exact Ht|].
    apply obs_eq_sym. exact O1.
Qed.

(* ====================================================================== *)
(* 2b. The invariant for metamodels WITH containment and the lift to words *)
(* ====================================================================== *)
(* WF (symmetry, shape, ownership, resources; Proofs/WFBase.v, preserved by every kernel operation:
   Proofs/OwnAll.v) + typed slots (C03) + duplicate-free unique attribute collections (C04) *)
Definition K (m : mm) (s : state) : Prop := WF m s /\ typed m s /\ uniq_attr m s.

Lemma K_obs_eq m s t : obs_eq s t -> K m s -> K m t.
Proof.
  intros (A & B & C & D) (HW & HT & HU). split; [|split].
  - apply (WF_ext m s t); try (intros; symmetry; auto); exact HW.
  - apply (typed_ext m s t); [intros k; symmetry; apply A | exact HT].
  - intros x f H1 H2 H3. rewrite <- A. apply HU; assumption.
Qed.

(* where a successful primitive command leaves the model, as a kernel procedure *)
Lemma exec_set_state m s x f v p s' c' :
  execute m s (CSet x f v p) = ((None, s'), c') -> s' = snd (set_full m s (x, f) v).
Proof. cbn [execute]. intros H. apply pair_eq_inv in H. destruct H as [H _]. rewrite H. reflexivity. Qed.

Lemma exec_add_state m s x f v idx c1 s' c2 :
  can_execute m s (CAdd x f v idx) = (Ok true, c1) -> execute m s c1 = ((None, s'), c2) ->
  exists pos, s' = snd (coll_add_full m s (x, f) pos v).
Proof.
  intros HC HE. cbn [can_execute] in HC. destruct (negb (base_can m x f)); [discriminate|].
  destruct (negb (f_many (fd m f))); [discriminate|]. apply pair_eq_inv in HC. destruct HC as [_ <-].
  cbn [execute] in HE. destruct idx as [i|]; apply pair_eq_inv in HE; destruct HE as [H _];
    eexists; rewrite H; reflexivity.
Qed.

Lemma exec_remove_state m s x f v idx c1 s' c2 :
  can_execute m s (CRemove x f v idx) = (Ok true, c1) -> execute m s c1 = ((None, s'), c2) ->
  exists i, s' = snd (fst (coll_pop_full m s (x, f) i)).
Proof.
  intros HC HE. cbn [can_execute] in HC. destruct (negb (base_can m x f)); [discriminate|].
  destruct (negb (f_many (fd m f))); [discriminate|].
  assert (EX : exists v1 idx1, c1 = CRemove x f v1 idx1).
  { destruct idx as [i0|].
    - destruct (py_get i0 (vals s (x, f))); apply pair_eq_inv in HC; destruct HC as [_ Hc]; subst c1; eauto.
    - apply pair_eq_inv in HC; destruct HC as [_ Hc]; subst c1; eauto. }
  destruct EX as (v1 & idx1 & ->). cbn [execute] in HE.
  match type of HE with (match ?ri with _ => _ end) = _ => destruct ri as [i|e0] end.
  - exists i. destruct (coll_pop_full m s (x, f) i) as [o w]. apply pair_eq_inv in HE. destruct HE as [H _].
    rewrite H. reflexivity.
  - apply pair_eq_inv in HE. destruct HE as [H _]. discriminate.
Qed.

Lemma exec_move_state m s x f v from to c1 s' c2 :
  can_execute m s (CMove x f v from to) = (Ok true, c1) -> execute m s c1 = ((None, s'), c2) ->
  exists i j w, s' = snd (coll_add_full m (snd (fst (coll_pop_full m s (x, f) i))) (x, f) (Some j) w) /\
                In w (vals s (x, f)).
Proof.
  intros HC HE. cbn [can_execute] in HC. destruct (negb (base_can m x f)); [discriminate|].
  destruct (negb (f_many (fd m f))); [discriminate|].
  assert (EX : exists v1 fr0, c1 = CMove x f v1 fr0 to).
  { destruct (is_none v).
    - destruct from as [i0|]; [|apply pair_eq_inv in HC; destruct HC; discriminate].
      destruct (py_get i0 (vals s (x, f))); apply pair_eq_inv in HC; destruct HC as [_ Hc]; subst c1; eauto.
    - destruct from as [i0|].
      + apply pair_eq_inv in HC; destruct HC as [_ Hc]; subst c1; eauto.
      + destruct (index_of veqb v (vals s (x, f))); apply pair_eq_inv in HC; destruct HC as [_ Hc]; subst c1; eauto. }
  destruct EX as (v1 & fr0 & ->). cbn [execute] in HE. unfold do_move in HE.
  match type of HE with (match coll_pop_full m s (x, f) ?z with _ => _ end) = _ => set (fr := z) in * end.
  destruct (coll_pop_full m s (x, f) fr) as [[[e1|] s1] w] eqn:EP;
    [apply pair_eq_inv in HE; destruct HE; discriminate|].
  destruct (pop_full_inv m s x f fr s1 w EP) as (w' & l1 & Pp & ->).
  apply pair_eq_inv in HE. destruct HE as [H1 _].
  eexists fr, _, w'. split; [|exact (py_pop_In _ _ _ _ Pp)].
  rewrite EP. cbn [fst snd]. rewrite H1. reflexivity.
Qed.

Section Lift.
Variable m : mm.
Hypothesis W : wf_mm m.
Hypothesis Hrt : ref_typed m.

Lemma K_cell_wt_single s (x : oid) (f : fid) : K m s -> f_many (fd m f) = false -> cell_wt m f (vals s (x, f)).
Proof.
  intros (HW & HT & _) M. unfold cell_wt. rewrite M.
  destruct (proj1 (wf_shape m s HW x f) M) as (v & Hv). exists v. split; [exact Hv|].
  pose proof (HT (x, f) v) as Ho. rewrite Hv in Ho. specialize (Ho (or_introl eq_refl)).
  unfold okv in Ho. cbn [snd] in Ho. rewrite M in Ho. exact Ho.
Qed.

Lemma K_cell_wt_attr s (x : oid) (f : fid) : K m s -> attr_many m f -> cell_wt m f (vals s (x, f)).
Proof.
  intros (_ & HT & HU) [M R]. unfold cell_wt. rewrite M. split.
  - intros v Hv. pose proof (HT (x, f) v Hv) as Ho. unfold okv in Ho. cbn [snd] in Ho. rewrite M in Ho. exact Ho.
  - intros U. apply HU; assumption.
Qed.

(* a slot of a reference holds objects or None *)
Lemma ref_slot_cases s (a : oid) (f : fid) w :
  typed m s -> f_isref (fd m f) = true -> In w (vals s (a, f)) -> w = VNone \/ exists o, w = VObj o.
Proof.
  intros HT R Hw. pose proof (HT (a, f) w Hw) as Ho. unfold okv in Ho. cbn [snd] in Ho.
  destruct (Hrt f R) as (c & Ec). unfold check_elem, check_single in Ho. rewrite R, Ec in Ho.
  destruct w; [left; reflexivity | right; eexists; reflexivity | | | | | ];
    destruct (f_many (fd m f)); simpl in Ho; discriminate.
Qed.

Lemma check_elem_of_typed s (a : oid) (f : fid) w :
  typed m s -> f_many (fd m f) = true -> In w (vals s (a, f)) -> check_elem m f w = true.
Proof. intros HT M Hw. pose proof (HT (a, f) w Hw) as Ho. unfold okv in Ho. cbn [snd] in Ho. rewrite M in Ho. exact Ho. Qed.

(* a child listed in a containment slot: container pointer, no root of a resource *)
Lemma child_facts_plain s (x : oid) (f : fid) (y : oid) :
  WF m s -> f_cont (fd m f) = true -> In (VObj y) (vals s (x, f)) -> cont s y = Some (x, f) /\ not_root s y.
Proof.
  intros HW Hc Hin. assert (Cy : cont s y = Some (x, f)) by (apply (wf_own m s HW); split; assumption).
  split; [exact Cy|]. unfold not_root. destruct (eres s y) as [r|] eqn:Er; [|exact I].
  exfalso. apply (proj2 (wf_res m s HW)) in Er. apply (wf_roots m s HW) in Er. congruence.
Qed.

(* ... and with a container end: the child points back *)
Lemma child_facts s (x : oid) (f g : fid) (y : oid) :
  WF m s -> ce_pair m f g -> In (VObj y) (vals s (x, f)) ->
  cont s y = Some (x, f) /\ not_root s y /\ vals s (y, g) = [VObj x].
Proof.
  intros HW CP Hin. destruct (child_facts_plain s x f y HW (ce_cont_f m f g CP) Hin) as [A B].
  split; [exact A|]. split; [exact B|].
  destruct (proj1 (wf_shape m s HW y g) (ce_single_g m f g CP)) as (v & Hv).
  pose proof (proj1 (wf_sym m s HW f g (ce_opp_f m f g CP) x y) Hin) as Hb. unfold R in Hb. rewrite Hv in Hb.
  destruct Hb as [<-|[]]. exact Hv.
Qed.

(* an object without container has an empty container end *)
Lemma unowned_g_none s (f g : fid) (y : oid) :
  K m s -> ce_pair m f g -> cont s y = None -> vals s (y, g) = [VNone].
Proof.
  intros (HW & HT & _) CP Cy.
  destruct (proj1 (wf_shape m s HW y g) (ce_single_g m f g CP)) as (v & Hv). rewrite Hv. f_equal.
  destruct (ref_slot_cases s y g v HT (ce_ref_g m f g CP)) as [E|(c & E)]; [rewrite Hv; left; reflexivity | exact E |].
  exfalso. subst v.
  assert (Hin : In (VObj y) (vals s (c, f))).
  { apply (wf_sym m s HW f g (ce_opp_f m f g CP) c y). unfold R. rewrite Hv. left. reflexivity. }
  destruct (child_facts_plain s c f y HW (ce_cont_f m f g CP) Hin) as [A _]. congruence.
Qed.

Lemma uniq_attr_refcells s s' :
  (forall (a : oid) (h : fid), f_isref (fd m h) = false -> f_many (fd m h) = true -> vals s' (a, h) = vals s (a, h)) ->
  uniq_attr m s -> uniq_attr m s'.
Proof. intros Fr HU a h H1 H2 H3. rewrite Fr by assumption. apply HU; assumption. Qed.

(* ---------- the three containment-with-opposite theorems from the invariant ---------- *)
Theorem add_ce_undo_redo s (f g : fid) (x y : oid) idx c1 s' c' :
  K m s -> f_cont (fd m f) = true -> f_opp (fd m f) = Some g -> f_many (fd m f) = true ->
  unowned m s y ->
  can_execute m s (CAdd x f (VObj y) idx) = (Ok true, c1) ->
  execute m s c1 = ((None, s'), c') ->
  exists i', c' = CAdd x f (VObj y) (Some i') /\
             inverts m c' s s' /\
             cc2 s s' x f (py_insert i' (VObj y) (vals s (x, f))) y g [VObj x] (Some (x, f)).
Proof.
  intros HK Hc Ho M Hu HC HE. pose proof (ce_pair_of_wf m f g W Hc Ho) as CP.
  exact (add_ce_inverts m f g s x y idx c1 s' c' CP M Hu (unowned_g_none s f g y HK CP (proj1 Hu)) HC HE).
Qed.

Lemma many_ref_objs s (x : oid) (f : fid) w :
  typed m s -> f_isref (fd m f) = true -> f_many (fd m f) = true -> In w (vals s (x, f)) -> exists y, w = VObj y.
Proof.
  intros HT R M Hw. destruct (ref_slot_cases s x f w HT R Hw) as [E|E]; [|exact E].
  exfalso. subst w. pose proof (check_elem_of_typed s x f VNone HT M Hw) as C. unfold check_elem in C. rewrite R in C. discriminate.
Qed.

Theorem remove_ce_undo_redo s (f g : fid) (x : oid) v idx c1 s' c' :
  K m s -> f_cont (fd m f) = true -> f_opp (fd m f) = Some g -> f_many (fd m f) = true ->
  can_execute m s (CRemove x f v idx) = (Ok true, c1) ->
  execute m s c1 = ((None, s'), c') ->
  exists i y l2, c' = CRemove x f (VObj y) (Some i) /\
                 inverts m c' s s' /\ cc2 s s' x f l2 y g [VNone] None.
Proof.
  intros HK Hc Ho M HC HE. pose proof (ce_pair_of_wf m f g W Hc Ho) as CP. destruct HK as (HW & HT & HU).
  apply (remove_ce_inverts m f g s x v idx c1 s' c' CP M); try assumption.
  - apply (proj2 (wf_shape m s HW x f)). right. exact Hc.
  - intros w Hw. destruct (many_ref_objs s x f w HT (ce_ref_f m f g CP) M Hw) as (y & ->).
    destruct (child_facts s x f g y HW CP Hw) as (A & B & C).
    exists y. repeat split; try assumption. exact (check_elem_of_typed s x f _ HT M Hw).
Qed.

(* Move inside a containment collection, with or without container end: only the order of the slot changes *)
Theorem move_cont_undo_redo s (f : fid) (x : oid) v from to c1 s' c' :
  K m s -> f_cont (fd m f) = true -> f_many (fd m f) = true ->
  (is_none v = true \/ from = None) ->
  can_execute m s (CMove x f v from to) = (Ok true, c1) ->
  execute m s c1 = ((None, s'), c') ->
  exists fr w to' l2, c' = CMove x f w (Some fr) to' /\ inverts m c' s s' /\ only_cell s s' (x, f) l2.
Proof.
  intros HK Hc M Hx HC HE. pose proof HK as (HW & HT & _). pose proof (wf_cont_ref m W f Hc) as R.
  assert (Hobj : forall w, In w (vals s (x, f)) -> exists y, w = VObj y) by (intros w; apply many_ref_objs; assumption).
  assert (Habs : forall i w l1, py_pop i (vals s (x, f)) = Some (w, l1) -> f_unique (fd m f) = true -> vmem w l1 = false).
  { intros i w l1 Pp _. destruct (C01Full.py_pop_nth i _ _ _ Pp) as (n & Hn & ->).
    destruct (Hobj w (nth_error_In _ _ Hn)) as (y & ->). apply vmem_obj_false.
    apply nodup_objs_removed; [|exact Hn]. apply (proj2 (wf_shape m s HW x f)). right. exact Hc. }
  destruct (f_opp (fd m f)) as [g|] eqn:Ho.
  - pose proof (ce_pair_of_wf m f g W Hc Ho) as CP.
    apply (move_gen_inverts m x f (good_ce m f g x) M (good_ce_obs m f g x) (good_ce_only m f g CP x)
                            (pop_add_ce m f g CP x) s v from to c1 s' c'); try assumption.
    intros w Hw. destruct (Hobj w Hw) as (y & ->). destruct (child_facts s x f g y HW CP Hw) as (A & B & C).
    exists y. repeat split; try assumption. exact (check_elem_of_typed s x f _ HT M Hw).
  - assert (CP : cont_plain m f) by (split; [exact R | split; assumption]).
    apply (move_gen_inverts m x f (good_cp m f x) M (good_cp_obs m f x) (good_cp_only m f x)
                            (pop_add_cp m f CP x M) s v from to c1 s' c'); try assumption.
    intros w Hw. destruct (Hobj w Hw) as (y & ->). destruct (child_facts_plain s x f y HW Hc Hw) as (A & B).
    exists y. repeat split; try assumption. exact (check_elem_of_typed s x f _ HT M Hw).
Qed.

Theorem set_ce_undo_redo s (f g : fid) (x : oid) v p0 s' c' :
  K m s -> f_cont (fd m f) = true -> f_opp (fd m f) = Some g -> f_many (fd m f) = false ->
  (forall y, v = VObj y -> unowned m s y) ->
  execute m s (CSet x f v p0) = ((None, s'), c') ->
  inverts m c' s s' /\
  (forall k, vals s' k = SetV (vals s) x f g v (single s (x, f)) k) /\
  (forall o, cont s' o = cont_after (cont s) x f v (single s (x, f)) o) /\
  (forall o, eres s' o = eres s o) /\ (forall r, rcont s' r = rcont s r).
Proof.
  intros HK Hc Ho M Hu HE. pose proof (ce_pair_of_wf m f g W Hc Ho) as CP.
  apply (set_ce_inverts m f g s x v p0 s' c' CP M (K_cell_wt_single s x f HK M)); try assumption.
  - intros y Ey. split; [exact (Hu y Ey) | exact (unowned_g_none s f g y HK CP (proj1 (Hu y Ey)))].
  - intros p Ep. apply (child_facts s x f g p (proj1 HK) CP). rewrite Ep. left. reflexivity.
Qed.

(* ---------- K after the primitive commands ---------- *)
Lemma K_only_cell_attr s s' (x : oid) (f : fid) l1 :
  K m s -> f_isref (fd m f) = false -> only_cell s s' (x, f) l1 -> cell_wt m f l1 -> K m s'.
Proof.
  intros (HW & HT & HU) R (V & C & E & Rc) CW.
  assert (Fr : forall k, k <> (x, f) -> vals s' k = vals s k).
  { intros k Nk. rewrite V. apply upd_other. intros E0; apply Nk; symmetry; exact E0. }
  assert (Eo : vals s' (x, f) = l1) by (rewrite V; apply upd_same).
  split; [|split].
  - apply (C07Full.WF_attr_write m W s s' x f l1 HW R); try assumption.
    intros M. unfold cell_wt in CW. rewrite M in CW. destruct CW as (v & Ev & _). exists v. exact Ev.
  - intros k v Hv. destruct (cell_eqb_spec k (x, f)) as [E0|N].
    + subst k. rewrite Eo in Hv. unfold okv. cbn [snd]. unfold cell_wt in CW.
      destruct (f_many (fd m f)); [apply (proj1 CW); exact Hv|].
      destruct CW as (w & Ew & Cw). rewrite Ew in Hv. destruct Hv as [<-|[]]. exact Cw.
    + rewrite (Fr k N) in Hv. exact (HT k v Hv).
  - intros a h H1 H2 H3. destruct (cell_eqb_spec (a, h) (x, f)) as [E0|N].
    + inversion E0; subst a h. rewrite Eo. unfold cell_wt in CW. rewrite H2 in CW. apply (proj2 CW). exact H3.
    + rewrite (Fr _ N). apply HU; assumption.
Qed.

Lemma K_set s s' (x : oid) (f : fid) v :
  K m s -> f_many (fd m f) = false -> (forall y, v = VObj y -> opp_typed m x f) ->
  s' = snd (set_full m s (x, f) v) ->
  (forall (a : oid) (h : fid), f_isref (fd m h) = false -> f_many (fd m h) = true -> vals s' (a, h) = vals s (a, h)) ->
  K m s'.
Proof.
  intros (HW & HT & HU) M Hot -> Fr. split; [|split].
  - apply (WF_set_full m W); assumption.
  - apply typed_set_full; assumption.
  - exact (uniq_attr_refcells s _ Fr HU).
Qed.

Lemma K_add s s' (x : oid) (f : fid) pos v :
  K m s -> f_many (fd m f) = true -> opp_typed m x f ->
  s' = snd (coll_add_full m s (x, f) pos v) ->
  (forall (a : oid) (h : fid), f_isref (fd m h) = false -> f_many (fd m h) = true -> vals s' (a, h) = vals s (a, h)) ->
  K m s'.
Proof.
  intros (HW & HT & HU) M Hot -> Fr. split; [|split].
  - apply (WF_coll_add_full m W); assumption.
  - apply typed_coll_add_full; assumption.
  - exact (uniq_attr_refcells s _ Fr HU).
Qed.

Lemma K_pop s s' (x : oid) (f : fid) i :
  K m s -> f_many (fd m f) = true ->
  s' = snd (fst (coll_pop_full m s (x, f) i)) ->
  (forall (a : oid) (h : fid), f_isref (fd m h) = false -> f_many (fd m h) = true -> vals s' (a, h) = vals s (a, h)) ->
  K m s'.
Proof.
  intros (HW & HT & HU) M -> Fr. split; [|split].
  - apply (WF_pop m W); assumption.
  - apply typed_coll_pop_full; assumption.
  - exact (uniq_attr_refcells s _ Fr HU).
Qed.

Lemma nodupv_of_objs l : (forall w, In w l -> exists y, w = VObj y) -> nodup_objs l -> nodupv l = true.
Proof.
  unfold nodup_objs. induction l as [|a r IH]; intros Ho ND; [reflexivity|].
  destruct (Ho a (or_introl eq_refl)) as (y & ->). simpl in ND. inversion ND as [|? ? Hn ND']; subst.
  cbn [nodupv]. rewrite IH; [|intros w Hw; apply Ho; right; exact Hw | exact ND'].
  rewrite andb_true_r. apply negb_true_iff. apply vmem_obj_false. rewrite <- objs_of_In. exact Hn.
Qed.

(* ---------- the side condition of a primitive command in the state it meets ---------- *)
(* the kinds of C06Proofs.v (attributes, plain references), or Set / Add / Remove on a containment
   reference - with or without a container end as opposite - that puts only an unowned child under
   the owner (the property's `does not take its value away from another container`); opp_typed: the
   owner conforms to the type of the container end *)
Definition covered3 (s : state) (c : cmd) : Prop :=
  covered m c \/
  match c with
  | CSet x f v _ => f_cont (fd m f) = true /\ f_many (fd m f) = false /\
                    (forall y, v = VObj y -> unowned m s y /\ opp_typed m x f)
  | CAdd x f v _ => exists y, v = VObj y /\ f_cont (fd m f) = true /\ f_many (fd m f) = true /\
                              unowned m s y /\ opp_typed m x f
  | CRemove x f v _ => f_cont (fd m f) = true /\ f_many (fd m f) = true
  | CMove x f v from _ => f_cont (fd m f) = true /\ f_many (fd m f) = true /\ (is_none v = true \/ from = None)
  | _ => False
  end \/
  (* Set on a container end h, the opposite of a containment reference f: unset (exact when the owner is
     the last child of its container, F-C06-relink-order otherwise), or give an unowned object a container *)
  match c with
  | CSet x h v _ =>
    exists f, f_cont (fd m f) = true /\ f_opp (fd m f) = Some h /\
      ((v = VNone /\
        forall p, vals s (x, h) = [VObj p] -> f_many (fd m f) = true -> lastv (VObj x) (vals s (p, f))) \/
       (exists p, v = VObj p /\ vals s (x, h) = [VNone] /\ unowned m s x /\
                  (f_many (fd m f) = false -> vals s (p, f) = [VNone]) /\ opp_typed m x h))
  | _ => False
  end.

Lemma nonref_neq (h f : fid) : f_isref (fd m h) = false -> f_isref (fd m f) = true -> h <> f.
Proof. intros A B E. subst h. congruence. Qed.

Lemma cell_neq_feat (a b : oid) (h f : fid) : h <> f -> ((b, f) : cell) <> (a, h).
Proof. intros N E. inversion E. congruence. Qed.

Lemma opp_typed_noopp (x : oid) (f : fid) : f_opp (fd m f) = None -> opp_typed m x f.
Proof. intros H g E. congruence. Qed.

Lemma covered3_exec s c c1 s' c2 :
  K m s -> covered3 s c ->
  can_execute m s c = (Ok true, c1) -> execute m s c1 = ((None, s'), c2) ->
  inverts m c2 s s' /\ K m s'.
Proof.
  intros HK [Cv|[Cv|Cv]] HC HE.
  - (* the kinds of C06Proofs.v *)
    destruct c as [x f v p|x f v idx|x f v idx|x f v from to| |]; simpl in Cv; try contradiction.
    + destruct Cv as [P M]. cbn [can_execute] in HC. apply pair_eq_inv in HC. destruct HC as [_ Hc]. subst c1.
      destruct (set_inverts m s x f v p s' c2 P M (K_cell_wt_single s x f HK M) HE) as (I & OC & CW).
      split; [exact I|]. destruct (f_isref (fd m f)) eqn:R.
      * destruct P as [P|[Pc Po]]; [congruence|].
        apply (K_set s s' x f v HK M (fun _ _ => opp_typed_noopp x f Po) (exec_set_state m s x f v p s' c2 HE)).
        intros a h Rh _. rewrite (proj1 OC). apply upd_other. apply cell_neq_feat. exact (nonref_neq h f Rh R).
      * exact (K_only_cell_attr s s' x f _ HK R OC CW).
    + destruct (add_inverts m s x f v idx c1 s' c2 Cv (K_cell_wt_attr s x f HK Cv) HC HE) as (i' & _ & I & OC & CW).
      split; [exact I | exact (K_only_cell_attr s s' x f _ HK (proj2 Cv) OC CW)].
    + destruct (remove_inverts m s x f v idx c1 s' c2 Cv (K_cell_wt_attr s x f HK Cv) HC HE) as (i & w & l2 & _ & I & OC & CW).
      split; [exact I | exact (K_only_cell_attr s s' x f _ HK (proj2 Cv) OC CW)].
    + destruct Cv as [A Hx].
      destruct (move_inverts m s x f v from to c1 s' c2 A (K_cell_wt_attr s x f HK A) Hx HC HE)
        as (fr & w & to' & l2 & _ & I & OC & CW).
      split; [exact I | exact (K_only_cell_attr s s' x f _ HK (proj2 A) OC CW)].
  - (* containment *)
    destruct c as [x f v p|x f v idx|x f v idx|x f v from to| |]; try contradiction.
    + destruct Cv as (Hc & M & Hcond). pose proof (wf_cont_ref m W f Hc) as R.
      cbn [can_execute] in HC. apply pair_eq_inv in HC. destruct HC as [_ Hc1]. subst c1.
      assert (Hu : forall y, v = VObj y -> unowned m s y) by (intros y Ey; exact (proj1 (Hcond y Ey))).
      assert (Hot : forall y, v = VObj y -> opp_typed m x f) by (intros y Ey; exact (proj2 (Hcond y Ey))).
      destruct (f_opp (fd m f)) as [g|] eqn:Ho.
      * destruct (set_ce_undo_redo s f g x v p s' c2 HK Hc Ho M Hu HE) as (I & VS & _).
        split; [exact I|]. apply (K_set s s' x f v HK M Hot (exec_set_state m s x f v p s' c2 HE)).
        intros a h Rh _. rewrite VS. unfold SetV. cbv zeta.
        pose proof (ce_pair_of_wf m f g W Hc Ho) as CP.
        assert (N1 : forall b : oid, ((b, g) : cell) <> (a, h)).
        { intros b. apply cell_neq_feat. exact (nonref_neq h g Rh (ce_ref_g m f g CP)). }
        assert (N2 : ((x, f) : cell) <> (a, h)) by (apply cell_neq_feat; exact (nonref_neq h f Rh R)).
        destruct (obj_of v); destruct (obj_of (single s (x, f))); rewrite ?(upd_other _ (_, g) (a, h)) by apply N1;
          apply upd_other; exact N2.
      * assert (CP : cont_plain m f) by (split; [exact R | split; assumption]).
        destruct (set_cont_inverts m s x f v p s' c2 CP M (K_cell_wt_single s x f HK M) Hu) as (I & VS & _); [|exact HE|].
        { intros q Eq. apply (child_facts_plain s x f q (proj1 HK) Hc). rewrite Eq. left. reflexivity. }
        split; [exact I|]. apply (K_set s s' x f v HK M Hot (exec_set_state m s x f v p s' c2 HE)).
        intros a h Rh _. rewrite VS. apply upd_other. apply cell_neq_feat. exact (nonref_neq h f Rh R).
    + destruct Cv as (y & -> & Hc & M & Hu & Hot). pose proof (wf_cont_ref m W f Hc) as R.
      destruct (exec_add_state m s x f _ idx c1 s' c2 HC HE) as (pos & Es).
      destruct (f_opp (fd m f)) as [g|] eqn:Ho.
      * destruct (add_ce_undo_redo s f g x y idx c1 s' c2 HK Hc Ho M Hu HC HE) as (i' & _ & I & (VS & _)).
        split; [exact I|]. apply (K_add s s' x f pos _ HK M Hot Es).
        pose proof (ce_pair_of_wf m f g W Hc Ho) as CP.
        intros a h Rh _. rewrite VS.
        rewrite upd_other by (apply cell_neq_feat; exact (nonref_neq h f Rh R)).
        apply upd_other. apply cell_neq_feat. exact (nonref_neq h g Rh (ce_ref_g m f g CP)).
      * assert (CP : cont_plain m f) by (split; [exact R | split; assumption]).
        destruct (add_cont_inverts m s x f y idx c1 s' c2 CP M Hu HC HE) as (i' & _ & I & (VS & _)).
        split; [exact I|]. apply (K_add s s' x f pos _ HK M Hot Es).
        intros a h Rh _. rewrite VS. apply upd_other. apply cell_neq_feat. exact (nonref_neq h f Rh R).
    + destruct Cv as (Hc & M). pose proof (wf_cont_ref m W f Hc) as R.
      destruct (exec_remove_state m s x f v idx c1 s' c2 HC HE) as (i0 & Es).
      destruct (f_opp (fd m f)) as [g|] eqn:Ho.
      * destruct (remove_ce_undo_redo s f g x v idx c1 s' c2 HK Hc Ho M HC HE) as (i & y & l2 & _ & I & (VS & _)).
        split; [exact I|]. apply (K_pop s s' x f i0 HK M Es).
        pose proof (ce_pair_of_wf m f g W Hc Ho) as CP.
        intros a h Rh _. rewrite VS.
        rewrite upd_other by (apply cell_neq_feat; exact (nonref_neq h f Rh R)).
        apply upd_other. apply cell_neq_feat. exact (nonref_neq h g Rh (ce_ref_g m f g CP)).
      * assert (CP : cont_plain m f) by (split; [exact R | split; assumption]).
        pose proof HK as (HW & HT & _).
        assert (Hobj : forall w, In w (vals s (x, f)) -> exists y, w = VObj y) by (intros w; apply many_ref_objs; assumption).
        destruct (remove_cont_inverts m s x f v idx c1 s' c2 CP M) as (i & y & l2 & _ & I & (VS & _)); try assumption.
        { unfold cell_wt. rewrite M. split; [intros w Hw; exact (check_elem_of_typed s x f w HT M Hw)|].
          intros _. apply nodupv_of_objs; [exact Hobj|]. apply (proj2 (wf_shape m s HW x f)). right. exact Hc. }
        { intros w Hw. destruct (Hobj w Hw) as (y & ->). exists y. split; [reflexivity|].
          exact (child_facts_plain s x f y HW Hc Hw). }
        split; [exact I|]. apply (K_pop s s' x f i0 HK M Es).
        intros a h Rh _. rewrite VS. apply upd_other. apply cell_neq_feat. exact (nonref_neq h f Rh R).
    + destruct Cv as (Hc & M & Hx). pose proof (wf_cont_ref m W f Hc) as R. pose proof HK as (HW & HT & HU).
      destruct (move_cont_undo_redo s f x v from to c1 s' c2 HK Hc M Hx HC HE) as (fr & w & to' & l2 & _ & I & OC).
      split; [exact I|].
      destruct (exec_move_state m s x f v from to c1 s' c2 HC HE) as (i & j & w0 & Es & Hw0).
      assert (Hot : opp_typed m x f).
      { intros g Ho. pose proof (ce_pair_of_wf m f g W Hc Ho) as CP.
        destruct (many_ref_objs s x f w0 HT R M Hw0) as (y & ->).
        destruct (child_facts s x f g y HW CP Hw0) as (_ & _ & Vy).
        pose proof (HT (y, g) (VObj x)) as Hk. rewrite Vy in Hk. exact (Hk (or_introl eq_refl)). }
      split; [|split].
      * rewrite Es. apply (WF_coll_add_full m W); [|exact M]. apply (WF_pop m W); assumption.
      * rewrite Es. apply typed_coll_add_full; [|exact M | exact Hot]. apply typed_coll_pop_full. exact HT.
      * apply (uniq_attr_refcells s s'); [|exact HU]. intros a h Rh _. rewrite (proj1 OC). apply upd_other.
        apply cell_neq_feat. exact (nonref_neq h f Rh R).
  - (* Set on a container end *)
    destruct c as [x h v p0|x f v idx|x f v idx|x f v from to| |]; try contradiction.
    destruct Cv as (f & Hc & Ho & Cases). pose proof (ce_pair_of_wf m f h W Hc Ho) as CP.
    pose proof (ce_single_g m f h CP) as M. pose proof (wf_cont_ref m W f Hc) as R.
    cbn [can_execute] in HC. apply pair_eq_inv in HC. destruct HC as [_ Hc1]. subst c1.
    pose proof HK as (HW & HT & _).
    assert (Fr : forall lx ly (q : oid) cq, cc2 s s' q f lx x h ly cq ->
                 forall (a : oid) (h0 : fid), f_isref (fd m h0) = false -> f_many (fd m h0) = true ->
                                             vals s' (a, h0) = vals s (a, h0)).
    { intros lx ly q cq (VS & _) a h0 Rh _. rewrite VS.
      rewrite upd_other by (apply cell_neq_feat; exact (nonref_neq h0 f Rh R)).
      apply upd_other. apply cell_neq_feat. exact (nonref_neq h0 h Rh (ce_ref_g m f h CP)). }
    destruct Cases as [[-> Hlast]|(p & -> & Hxh & Hu & Hfree & Hot)].
    + destruct (proj1 (wf_shape m s HW x h) M) as (v0 & Hv0).
      destruct (ref_slot_cases s x h v0 HT (ce_ref_g m f h CP)) as [->|(p & ->)]; [rewrite Hv0; left; reflexivity | |].
      * destruct (set_none_none_inverts m s x h p0 s' c2 Hv0 HE) as (I & O).
        split; [exact I | exact (K_obs_eq m s s' (obs_eq_sym _ _ O) HK)].
      * assert (Hin : In (VObj x) (vals s (p, f))).
        { apply (wf_sym m s HW h f (ce_opp_g m f h CP) x p). unfold C01Proofs.R. rewrite Hv0. left. reflexivity. }
        destruct (child_facts s p f h x HW CP Hin) as (A & B & _).
        destruct (set_end_unlink_inverts m f h s x p p0 s' c2 CP Hv0 Hin) as (I & CC); try assumption.
        { intros Mf. destruct (proj1 (wf_shape m s HW p f) Mf) as (w & Hw). rewrite Hw in Hin |- *.
          destruct Hin as [<-|[]]. reflexivity. }
        { apply (proj2 (wf_shape m s HW p f)). right. exact Hc. }
        { pose proof (HT (x, h) (VObj p)) as Hk. rewrite Hv0 in Hk. specialize (Hk (or_introl eq_refl)).
          unfold okv in Hk. cbn [snd] in Hk. rewrite M in Hk. exact Hk. }
        { exact (Hlast p Hv0). }
        split; [exact I|].
        apply (K_set s s' x h VNone HK M (fun y E => ltac:(discriminate)) (exec_set_state m s x h VNone p0 s' c2 HE)).
        exact (Fr _ _ _ _ CC).
    + assert (Habs : ~ In (VObj x) (vals s (p, f))).
      { intros Hin. destruct (child_facts_plain s p f x HW Hc Hin) as [A _]. destruct Hu as [Hu _]. congruence. }
      destruct (set_end_link_inverts m f h s x p p0 s' c2 CP Hxh Hu Hfree Habs HE) as (I & CC).
      split; [exact I|].
      apply (K_set s s' x h (VObj p) HK M (fun _ _ => Hot) (exec_set_state m s x h (VObj p) p0 s' c2 HE)).
      exact (Fr _ _ _ _ CC).
Qed.

(* a covered primitive command that raises leaves the model as it was *)
Lemma covered3_raise s c c1 e s' c2 :
  K m s -> covered3 s c ->
  can_execute m s c = (Ok true, c1) -> execute m s c1 = ((Some e, s'), c2) -> s' = s.
Proof.
  intros HK Cv HC HE.
  destruct c as [x f v p|x f v idx|x f v idx|x f v from to| |].
  - cbn [can_execute] in HC. apply pair_eq_inv in HC. destruct HC as [_ Hc]. subst c1.
    cbn [execute] in HE. apply pair_eq_inv in HE. destruct HE as [H1 _]. eapply set_full_raise; exact H1.
  - cbn [can_execute] in HC. destruct (negb (base_can m x f)); [discriminate|].
    destruct (negb (f_many (fd m f))); [discriminate|].
    apply pair_eq_inv in HC. destruct HC as [_ Hc]. subst c1. cbn [execute] in HE.
    destruct idx as [i|]; apply pair_eq_inv in HE; destruct HE as [H1 _]; eapply coll_add_raise; exact H1.
  - cbn [can_execute] in HC. destruct (negb (base_can m x f)); [discriminate|].
    destruct (negb (f_many (fd m f))); [discriminate|].
    assert (EX : exists v1 idx1, c1 = CRemove x f v1 idx1).
    { destruct idx as [i0|].
      - destruct (py_get i0 (vals s (x, f))); apply pair_eq_inv in HC; destruct HC as [_ Hc]; subst c1; eauto.
      - apply pair_eq_inv in HC; destruct HC as [_ Hc]; subst c1; eauto. }
    destruct EX as (v1 & idx1 & Hc). subst c1. cbn [execute] in HE.
    match type of HE with (match ?ri with _ => _ end) = _ => destruct ri as [i|e0] end.
    + destruct (coll_pop_full m s (x, f) i) as [[[e1|] s1] w] eqn:EP;
        apply pair_eq_inv in HE; destruct HE as [H1 _]; [|discriminate].
      inversion H1; subst. eapply coll_pop_raise; exact EP.
    + apply pair_eq_inv in HE. destruct HE as [H1 _]. inversion H1. reflexivity.
  - assert (MW : f_many (fd m f) = true /\ forall w, In w (vals s (x, f)) -> check_elem m f w = true).
    { destruct Cv as [Cv|[Cv|[]]].
      - simpl in Cv. destruct Cv as [A _]. split; [exact (proj1 A)|].
        pose proof (K_cell_wt_attr s x f HK A) as CW. unfold cell_wt in CW. rewrite (proj1 A) in CW. exact (proj1 CW).
      - destruct Cv as (_ & M & _). split; [exact M|]. intros w Hw.
        exact (check_elem_of_typed s x f w (proj1 (proj2 HK)) M Hw). }
    destruct MW as [M Wt].
    cbn [can_execute] in HC.
    destruct (negb (base_can m x f)); [discriminate|]. rewrite M in HC. cbn [negb] in HC.
    assert (EX : exists v1 fr0, c1 = CMove x f v1 fr0 to).
    { destruct (is_none v).
      - destruct from as [i0|]; [|apply pair_eq_inv in HC; destruct HC; discriminate].
        destruct (py_get i0 (vals s (x, f))); apply pair_eq_inv in HC; destruct HC as [_ Hc]; subst c1; eauto.
      - destruct from as [i0|].
        + apply pair_eq_inv in HC; destruct HC as [_ Hc]; subst c1; eauto.
        + destruct (index_of veqb v (vals s (x, f))); apply pair_eq_inv in HC; destruct HC as [_ Hc]; subst c1; eauto. }
    destruct EX as (v1 & fr0 & Hc). subst c1. cbn [execute] in HE. unfold do_move in HE.
    match type of HE with (match coll_pop_full m s (x, f) ?z with _ => _ end) = _ => set (fr := z) in * end.
    destruct (coll_pop_full m s (x, f) fr) as [[[e1|] s1] w] eqn:EP.
    + apply pair_eq_inv in HE. destruct HE as [H1 _]. inversion H1; subst. eapply coll_pop_raise; exact EP.
    + exfalso. destruct (pop_full_inv m s x f fr s1 w EP) as (w' & l1 & Pp & Ew). subst w.
      apply pair_eq_inv in HE. destruct HE as [H1 _].
      pose proof (Wt w' (py_pop_In _ _ _ _ Pp)) as Ck.
      unfold coll_add_full in H1. rewrite Ck in H1. discriminate.
  - destruct Cv as [[]|[[]|[]]].
  - destruct Cv as [[]|[[]|[]]].
Qed.

Lemma covered3_raise_obs s c c1 e s' c2 :
  K m s -> covered3 s c ->
  can_execute m s c = (Ok true, c1) -> execute m s c1 = ((Some e, s'), c2) -> obs_eq s' s.
Proof. intros A B C D. rewrite (covered3_raise s c c1 e s' c2 A B C D). apply obs_eq_refl. Qed.

(* ---------- the covered commands: covered3 closed under Compound ---------- *)
Definition covered4 : state -> cmd -> Prop := okC m covered3.

Lemma covered4_exec s c c1 s' c2 :
  K m s -> covered4 s c -> can_execute m s c = (Ok true, c1) -> execute m s c1 = ((None, s'), c2) ->
  inverts m c2 s s' /\ K m s'.
Proof. exact (okC_exec m (K m) covered3 covered3_exec covered3_raise_obs s c c1 s' c2). Qed.

Lemma covered4_raise s c c1 e s' c2 :
  K m s -> covered4 s c -> can_execute m s c = (Ok true, c1) -> execute m s c1 = ((Some e, s'), c2) -> obs_eq s' s.
Proof. exact (okC_raise m (K m) covered3 covered3_exec covered3_raise_obs s c c1 e s' c2). Qed.

(* ---------- the word-level theorems: containment, container ends, compounds ---------- *)
Theorem cont_invariant_of_words s0 w :
  K m s0 -> run_ok m covered4 (s0, [], []) w ->
  ginv m (K m) (abs (st_run m (s0, empty_stack) w)).
Proof. exact (g2_invariant_of_words m (K m) covered4 (K_obs_eq m) covered4_exec covered4_raise s0 w). Qed.

Theorem cont_k_undo_k_redo s0 w k :
  K m s0 -> run_ok m covered4 (s0, [], []) w ->
  let ms := st_run m (s0, empty_stack) w in
  (k <= length (done_of (snd ms)))%nat ->
  let ms' := st_run m ms (repeat SUndo k ++ repeat SRedo k) in
  obs_eq (fst ms') (fst ms) /\ snd ms' = snd ms.
Proof. exact (g2_k_undo_k_redo_stack m (K m) covered4 (K_obs_eq m) covered4_exec covered4_raise s0 w k). Qed.

End Lift.

(* ---------- compounds over the reference kinds of Proofs/C06Refs.v (metamodels without containment) ---------- *)
Section RefsCompound.
Variable m : mm.
Hypothesis Hnc : no_containment m.
Hypothesis Hwf : wf_opp m.
Hypothesis Hrt : ref_typed m.

Definition covered2C : state -> cmd -> Prop := okC m (covered2 m).

Lemma covered2_raise_obs s c c1 e s' c2 :
  J m s -> covered2 m s c ->
  can_execute m s c = (Ok true, c1) -> execute m s c1 = ((Some e, s'), c2) -> obs_eq s' s.
Proof. intros A B C D. rewrite (covered2_raise m s c c1 e s' c2 A B C D). apply obs_eq_refl. Qed.

Theorem refsC_invariant_of_words s0 w :
  J m s0 -> run_ok m covered2C (s0, [], []) w ->
  ginv m (J m) (abs (st_run m (s0, empty_stack) w)).
Proof.
  apply (g2_invariant_of_words m (J m) covered2C (J_obs_eq m)).
  - exact (okC_exec m (J m) (covered2 m) (covered2_exec m Hnc Hwf Hrt) covered2_raise_obs).
  - exact (okC_raise m (J m) (covered2 m) (covered2_exec m Hnc Hwf Hrt) covered2_raise_obs).
Qed.

Theorem refsC_k_undo_k_redo s0 w k :
  J m s0 -> run_ok m covered2C (s0, [], []) w ->
  let ms := st_run m (s0, empty_stack) w in
  (k <= length (done_of (snd ms)))%nat ->
  let ms' := st_run m ms (repeat SUndo k ++ repeat SRedo k) in
  obs_eq (fst ms') (fst ms) /\ snd ms' = snd ms.
Proof.
  apply (g2_k_undo_k_redo_stack m (J m) covered2C (J_obs_eq m)).
  - exact (okC_exec m (J m) (covered2 m) (covered2_exec m Hnc Hwf Hrt) covered2_raise_obs).
  - exact (okC_raise m (J m) (covered2 m) (covered2_exec m Hnc Hwf Hrt) covered2_raise_obs).
Qed.
End RefsCompound.

(* ====================================================================== *)
(* Non-vacuity on SymLink's metamodel (kids <-> parent, pet, twin <-> twinof) *)
(* ====================================================================== *)
Lemma ex_link_premises :
  wf_mm ex_mm_link /\ ref_typed ex_mm_link /\ K ex_mm_link (init_state ex_mm_link).
Proof.
  destruct ex_mm_link_wf as [W D]. split; [exact W|]. split; [|split; [|split]].
  - intros f. fcase f; intros H; try discriminate; eexists; reflexivity.
  - exact (WF_init ex_mm_link W D).
  - apply typed_init. intros f. fcase f; intros; reflexivity.
  - intros x f R M _. exfalso. revert R M. fcase f; intros; discriminate.
Qed.

Lemma opp_typed_link_0 : opp_typed ex_mm_link 0 0 /\ opp_typed ex_mm_link 1 0 /\ opp_typed ex_mm_link 2 3 /\
                         opp_typed ex_mm_link 0 2 /\ opp_typed ex_mm_link 3 1.
Proof. repeat split; intros g H; inversion H; reflexivity. Qed.

(* 3.parent = 1; 3.parent = None (Set on the container end, both ways); 0.pet = 3; 0.pet = None;
   0.kids.append(2); 2.twin = 3;
   Compound(Remove(0.kids, 2), Add(1.kids, 2)) - the move of a child as EMF expresses it -; undo; undo; redo *)
Definition ex_cont_word : list sop :=
  [SExec (CSet 3 1 (VObj 1) VNone);
   SExec (CSet 3 1 VNone VNone);
   SExec (CSet 0 2 (VObj 3) VNone);
   SExec (CSet 0 2 VNone VNone);
   SExec (CAdd 0 0 (VObj 2) None);
   SExec (CSet 2 3 (VObj 3) VNone);
   SExec (CCompound [CRemove 0 0 (VObj 2) None; CAdd 1 0 (VObj 2) None]);
   SUndo; SUndo; SRedo].

Ltac unown := split; vm_compute; [reflexivity | exact I].

Lemma ex_cont_word_ok :
  run_ok ex_mm_link (covered4 ex_mm_link) (init_state ex_mm_link, [], []) ex_cont_word.
Proof.
  destruct opp_typed_link_0 as (T00 & T10 & T23 & T02 & T31).
  unfold ex_cont_word. cbn [run_ok gop_ok fst].
  split. { right; right. exists 0. split; [reflexivity|]. split; [reflexivity|]. right. exists 1.
           split; [reflexivity|]. split; [vm_compute; reflexivity|]. split; [unown|].
           split; [intros H; vm_compute in H; discriminate | exact T31]. }
  split. { right; right. exists 0. split; [reflexivity|]. split; [reflexivity|]. left. split; [reflexivity|].
           intros p E _. vm_compute in E. inversion E; subst p. exists []. vm_compute. reflexivity. }
  split. { right; left. split; [reflexivity|]. split; [reflexivity|]. intros y E. inversion E; subst y. split; [unown | exact T02]. }
  split. { right; left. split; [reflexivity|]. split; [reflexivity|]. intros y E. discriminate. }
  split. { right; left. exists 2. split; [reflexivity|]. split; [reflexivity|]. split; [reflexivity|]. split; [unown | exact T00]. }
  split. { right; left. split; [reflexivity|]. split; [reflexivity|]. intros y E. inversion E; subst y. split; [unown | exact T23]. }
  split.
  { split; [|vm_compute; intros _; reflexivity].
    split; [right; left; split; reflexivity|]. split; [vm_compute; reflexivity|]. intros _.
    split; [right; left; exists 2; split; [reflexivity|]; split; [reflexivity|]; split; [reflexivity|]; split; [unown | exact T10]|].
    split; [vm_compute; reflexivity|]. intros _. exact I. }
  repeat split.
Qed.

Example ex_cont_word_result :
  let ms := st_run ex_mm_link (init_state ex_mm_link, empty_stack) ex_cont_word in
  vals (fst ms) (0, 0) = [VObj 2] /\ vals (fst ms) (1, 0) = [] /\ vals (fst ms) (2, 1) = [VObj 0] /\
  cont (fst ms) 2 = Some (0, 0) /\ cont (fst ms) 3 = Some (2, 3) /\ vals (fst ms) (3, 4) = [VObj 2] /\
  sidx (snd ms) = 5%Z /\ zlen (items (snd ms)) = 7%Z /\
  let ms1 := st_run ex_mm_link ms [SRedo] in
  vals (fst ms1) (0, 0) = [] /\ vals (fst ms1) (1, 0) = [VObj 2] /\ vals (fst ms1) (2, 1) = [VObj 1] /\
  cont (fst ms1) 2 = Some (1, 0) /\
  let ms2 := st_run ex_mm_link ms1 (repeat SUndo 7 ++ repeat SRedo 7) in
  vals (fst ms2) (1, 0) = [VObj 2] /\ cont (fst ms2) 2 = Some (1, 0) /\ cont (fst ms2) 3 = Some (2, 3) /\
  sidx (snd ms2) = 6%Z /\
  (* after the first command alone: 3 sits under 1 through its container end *)
  let ms3 := st_run ex_mm_link (init_state ex_mm_link, empty_stack) [SExec (CSet 3 1 (VObj 1) VNone)] in
  vals (fst ms3) (1, 0) = [VObj 3] /\ cont (fst ms3) 3 = Some (1, 0).
Proof. vm_compute. repeat split; reflexivity. Qed.

(* ====================================================================== *)
(* 1b. What the model's Compound.can_execute / can_undo ask                *)
(* ====================================================================== *)
Section CompoundAsks.
Variable m : mm.

(* can_execute: every member is asked in the state BEFORE the first member runs (and records there what
   its can_execute records); the compound is accepted iff every member is *)
Theorem compound_can_execute_spec s cs c1 :
  can_execute m s (CCompound cs) = (Ok true, c1) <->
  (c1 = CCompound (map (prep m s) cs) /\ Forall (fun c => fst (can_execute m s c) = Ok true) cs).
Proof.
  rewrite can_execute_compound. split.
  - destruct (ccane m s cs) as [b l1] eqn:E. intros H. inversion H; subst b c1.
    split; [f_equal; exact (ccane_ok m s cs l1 E)|].
    clear H. revert l1 E. induction cs as [|c r IH]; intros l1 E; [constructor|].
    rewrite ccane_cons in E. destruct (can_execute m s c) as [[[|]|e] c'] eqn:Ec; try (inversion E; fail).
    destruct (ccane m s r) as [b r'] eqn:Er. inversion E; subst b l1.
    constructor; [rewrite Ec; reflexivity | exact (IH r' eq_refl)].
  - intros [-> HF]. assert (E : ccane m s cs = (Ok true, map (prep m s) cs)); [|rewrite E; reflexivity].
    induction HF as [|c r Hc _ IH]; [reflexivity|].
    rewrite ccane_cons. unfold prep at 1. cbn [map]. destruct (can_execute m s c) as [b c'] eqn:Ec.
    cbn [fst] in Hc. subst b. rewrite IH. reflexivity.
Qed.

(* can_undo: every member is asked on the state the WHOLE compound left *)
Theorem compound_can_undo_spec t cs :
  can_undo m t (CCompound cs) = Ok true <-> Forall (fun c => can_undo m t c = Ok true) cs.
Proof.
  rewrite can_undo_compound. induction cs as [|c r IH]; [split; [constructor | reflexivity]|].
  rewrite ccanu_cons. split.
  - destruct (can_undo m t c) as [[|]|e] eqn:Ec; intros H; try discriminate.
    constructor; [exact Ec | apply IH; exact H].
  - intros H. inversion H as [|? ? Hc Hr]; subst. rewrite Hc. apply IH. exact Hr.
Qed.

End CompoundAsks.

(* the can_undo premise of compound_inverts cannot be dropped (F-C06-compound-can-undo): on C06Proofs' ex_mm,
   ns = [1], Compound(Add(ns, 7), Remove(ns, 7)): every member is covered and accepted in the state it meets,
   the compound executes - and Add.can_undo, asked on the final state [1], answers False: CommandStack.undo
   returns without undoing and leaves the compound on top *)
Example compound_can_undo_needed_refuted :
  let s0 := fold_left (next ex_mm) [OAppend 0 1 (VInt 1)] (init_state ex_mm) in
  let c := CCompound [CAdd 0 1 (VInt 7) None; CRemove 0 1 (VInt 7) None] in
  okM ex_mm (covered3 ex_mm) s0 s0 [CAdd 0 1 (VInt 7) None; CRemove 0 1 (VInt 7) None] /\
  ~ cu_end ex_mm s0 c /\
  (let ms := st_run ex_mm (s0, empty_stack) [SExec c] in
   sidx (snd ms) = 0%Z /\ vals (fst ms) (0, 1) = [VInt 1] /\
   fst (st_step ex_mm ms SUndo) = None /\ sidx (snd (snd (st_step ex_mm ms SUndo))) = 0%Z).
Proof.
  cbv zeta. split; [|split].
  - split; [left; split; reflexivity|]. split; [vm_compute; reflexivity|]. intros _.
    split; [left; split; reflexivity|]. split; [vm_compute; reflexivity|]. intros _. exact I.
  - intros H. unfold cu_end in H. vm_compute in H. specialize (H eq_refl). discriminate.
  - vm_compute. repeat split; reflexivity.
Qed.

(* ====================================================================== *)
(* 3. Delete                                                               *)
(* ====================================================================== *)
(* 3a. whatever is deleted (recursive, cross-referenced, ...) and whatever the snapshot holds, execute /
   redo and undo of a Delete keep the global well-formedness WF: undo is a sequence of ordinary setter,
   extend and insert calls *)
Section DeleteWF.
Variable m : mm.
Hypothesis W : wf_mm m.

Lemma WF_seq o (g : state -> outcome) :
  WF m (snd o) -> (forall s, WF m s -> WF m (snd (g s))) -> WF m (snd (seq_outcome o g)).
Proof. destruct o as [[e|] s]; cbn [seq_outcome snd]; intros H Hg; [exact H | apply Hg; exact H]. Qed.

Lemma WF_restore_refs_one (e : oid) l : forall s, WF m s -> WF m (snd (restore_refs_one m e l s)).
Proof.
  induction l as [|[f content] r IH]; intros s H; cbn [restore_refs_one]; [exact H|].
  apply WF_seq; [|exact IH]. destruct (f_many (fd m f)) eqn:M.
  - apply (WF_extend m W); assumption.
  - apply (WF_set_full m W); assumption.
Qed.

Lemma WF_restore_refs l : forall s, WF m s -> WF m (snd (restore_refs m l s)).
Proof.
  induction l as [|[e rl] r IH]; intros s H; cbn [restore_refs]; [exact H|].
  apply WF_seq; [apply WF_restore_refs_one; exact H | exact IH].
Qed.

Lemma WF_restore_sorted l : forall s, WF m s -> WF m (snd (restore_sorted m l s)).
Proof.
  induction l as [|[i [e [a h]]] r IH]; intros s H; cbn [restore_sorted]; [exact H|].
  apply WF_seq; [|exact IH]. cbn [snd]. destruct (f_many (fd m h)) eqn:M.
  - apply (WF_coll_add_full m W); assumption.
  - apply (WF_set_full m W); assumption.
Qed.

Lemma WF_restore_invs l : forall s, WF m s -> WF m (snd (restore_invs m l s)).
Proof. intros s H. unfold restore_invs. apply WF_restore_sorted. exact H. Qed.

Theorem delete_keeps_WF s (x : oid) r i :
  WF m s ->
  WF m (snd (fst (execute m s (CDelete x r i)))) /\ WF m (snd (fst (redo m s (CDelete x r i)))) /\
  WF m (snd (fst (undo m s (CDelete x r i)))).
Proof.
  intros H. assert (D : WF m (snd (fst (do_delete m s x)))).
  { unfold do_delete. destruct (snap_invs m s (delete_elements m s x)); cbn [fst snd]; [|exact H].
    apply (OwnAll.WF_delete_obj m W). exact H. }
  split; [exact D|]. split; [exact D|]. cbn [undo fst].
  apply WF_seq; [apply WF_restore_refs; exact H | apply WF_restore_invs].
Qed.

End DeleteWF.


Lemma cc2_obs_l t s t' x f lx y g ly c : obs_eq t s -> cc2 t t' x f lx y g ly c -> cc2 s t' x f lx y g ly c.
Proof.
  intros (A & B & C & D) (V & Cn & E & R). repeat split; intros.
  - rewrite V. unfold upd. destruct (cell_eqb (x, f) k'); [reflexivity|]. destruct (cell_eqb (y, g) k'); [reflexivity | apply A].
  - rewrite Cn. unfold updn. destruct (y =? o); [reflexivity | apply B].
  - rewrite E. apply C.
  - rewrite R. apply D.
Qed.

Lemma cc2_obs_r s t' t'' x f lx y g ly c : cc2 s t' x f lx y g ly c -> obs_eq t'' t' -> cc2 s t'' x f lx y g ly c.
Proof.
  intros (V & Cn & E & R) (A & B & C & D). repeat split; intros.
  - rewrite A. apply V.
  - rewrite B. apply Cn.
  - rewrite C. apply E.
  - rewrite D. apply R.
Qed.

Lemma restore_refs_one_app m e a b t :
  restore_refs_one m e (a ++ b) t = seq_outcome (restore_refs_one m e a t) (restore_refs_one m e b).
Proof.
  revert t. induction a as [|[h c] r IH]; intros t; [reflexivity|].
  cbn [app restore_refs_one].
  destruct (if f_many (fd m h) then coll_extend_full m t (e, h) c else set_full m t (e, h) (KernelIO.hdv c)) as [[e0|] s1];
    cbn [seq_outcome]; [reflexivity | apply IH].
Qed.

(* 3c. Delete of a leaf child x of p: x has no contents and no link but its container end; p.f holds x *)
Section DeleteLeaf.
Variable m : mm.
Variables f g : fid.
Hypothesis HP : ce_pair m f g.
Variables x p : oid.

Record leaf (s : state) : Prop := {
  lf_neq : p <> x;
  lf_g : vals s (x, g) = [VObj p];
  lf_in : In (VObj x) (vals s (p, f));
  lf_sing : f_many (fd m f) = false -> vals s (p, f) = [VObj x];
  lf_nd : nodup_objs (vals s (p, f));
  lf_cont : cont s x = Some (p, f);
  lf_nr : not_root s x;
  lf_ck : check_single m g (VObj p) = true;
  lf_app : In g (ref_feats m x);
  (* every other reference of x is empty *)
  lf_empty : forall h, In h (ref_feats m x) -> h <> g -> empty_cell m s x h;
  (* no holder is recorded in x's inverse set (references with an opposite are not recorded there) *)
  lf_inv : inv s x = []
}.

Lemma leaf_econtents s : leaf s -> econtents m s x = [].
Proof.
  intros L. unfold econtents.
  assert (H : forall h, In h (ref_feats m x) -> (if f_cont (fd m h) then objs_of (vals s (x, h)) else []) = []).
  { intros h Hh. destruct (Nat.eq_dec h g) as [->|N]; [rewrite (ce_cont_g m f g HP); reflexivity|].
    pose proof (lf_empty s L h Hh N) as E. unfold empty_cell in E. rewrite E.
    destruct (f_cont (fd m h)); [|reflexivity]. destruct (f_many (fd m h)); reflexivity. }
  induction (ref_feats m x) as [|a r IH]; [reflexivity|]. cbn [flat_map].
  rewrite (H a (or_introl eq_refl)). cbn [app]. apply IH. intros h Hh. apply H. right. exact Hh.
Qed.

Lemma leaf_split s : leaf s ->
  exists l1 l2, ref_feats m x = l1 ++ g :: l2 /\
                (forall h, In h l1 -> In h (ref_feats m x) /\ h <> g) /\
                (forall h, In h l2 -> In h (ref_feats m x) /\ h <> g).
Proof.
  intros L. destruct (in_split g _ (lf_app s L)) as (l1 & l2 & E). exists l1, l2. split; [exact E|].
  pose proof (C19Once.ref_feats_NoDup m x) as ND. rewrite E in ND. apply NoDup_remove_2 in ND.
  split; intros h Hh; (split; [rewrite E; apply in_or_app; simpl; tauto|]); intros ->; apply ND; apply in_or_app; tauto.
Qed.

(* the state after x.delete(): exactly as after Remove(p.f, x) *)
Lemma leaf_delete_state fuel s :
  leaf s -> cc2 s (delete_obj (S fuel) m s x true) p f (lessx m f x (vals s (p, f))) x g [VNone] None.
Proof.
  intros L. cbn [delete_obj]. rewrite (leaf_econtents s L). cbn [fold_left]. rewrite (lf_inv s L). cbn [filter].
  rewrite app_nil_r. destruct (leaf_split s L) as (l1 & l2 & E & H1 & H2). rewrite E, map_app, fold_left_app.
  cbn [map fold_left].
  match goal with |- context [delete_step m x ?T (x, g)] => set (t1 := T) end.
  assert (O1 : obs_eq t1 s).
  { apply fold_own_empty. intros h Hh. destruct (H1 h Hh) as [A B]. exact (lf_empty s L h A B). }
  pose proof O1 as (V1 & _).
  assert (D : exists t2, delete_step m x t1 (x, g) = t2 /\ cc2 t1 t2 p f (lessx m f x (vals t1 (p, f))) x g [VNone] None).
  { unfold delete_step. rewrite (ce_single_g m f g HP), Nat.eqb_refl, orb_true_r.
    destruct (unset_container_end m f g HP t1 x p) as (t2 & E2 & CC).
    - rewrite V1. exact (lf_g s L).
    - rewrite V1. exact (lf_in s L).
    - intros M. rewrite V1. exact (lf_sing s L M).
    - exists t2. rewrite E2. split; [reflexivity | exact CC]. }
  destruct D as (t2 & E2 & CC). rewrite E2. rewrite (V1 (p, f)) in CC.
  apply (cc2_obs_r s t2). { exact (cc2_obs_l t1 s t2 _ _ _ _ _ _ _ O1 CC). }
  apply fold_own_empty. intros h Hh. destruct (H2 h Hh) as [A B].
  unfold empty_cell. rewrite (proj1 CC).
  rewrite upd_other by (intros E0; inversion E0; exact (lf_neq s L ltac:(assumption))).
  rewrite upd_other by (intros E0; inversion E0; congruence).
  rewrite V1. exact (lf_empty s L h A B).
Qed.

(* the command Delete.do_execute records *)
Lemma leaf_do_delete s :
  leaf s ->
  do_delete m s x = ((None, delete_obj (S (length (ocls m))) m s x true),
                     CDelete x [(x, map (fun h => (h, vals s (x, h))) (ref_feats m x))] [(x, [])]).
Proof.
  intros L. unfold do_delete, delete_elements. cbn [eallcontents]. rewrite (leaf_econtents s L). cbn [app flat_map].
  cbn [snap_invs]. rewrite (lf_inv s L). cbn [snap_inv_one bindr]. reflexivity.
Qed.

(* undo: the first loop sets x's references again - all empty but the container end, whose setter appends x to
   p.f (or stores it in the slot p.f); the second loop has nothing to do *)
Theorem leaf_delete_undo s :
  leaf s ->
  let s' := delete_obj (S (length (ocls m))) m s x true in
  let c' := CDelete x [(x, map (fun h => (h, vals s (x, h))) (ref_feats m x))] [(x, [])] in
  execute m s (CDelete x [] []) = ((None, s'), c') /\
  cc2 s s' p f (lessx m f x (vals s (p, f))) x g [VNone] None /\
  forall t, obs_eq t s' ->
    can_undo m t c' = Ok true /\
    exists t', undo m t c' = ((None, t'), c') /\
               cc2 s t' p f (plusx m f x (lessx m f x (vals s (p, f)))) x g (vals s (x, g)) (cont s x).
Proof.
  intros L s' c'. split; [exact (leaf_do_delete s L)|].
  pose proof (leaf_delete_state (length (ocls m)) s L) as CC. fold s' in CC. split; [exact CC|].
  intros t Ht. split; [reflexivity|]. unfold c'. unfold restore_invs. cbn [undo restore_refs restore_sorted sort_invs flat_invs flat_map map app fold_left fst snd].
  destruct (leaf_split s L) as (l1 & l2 & E & H1 & H2). rewrite E, map_app, restore_refs_one_app. cbn [map].
  pose proof Ht as (Vt & Ct & Et & Rt).
  assert (Nxp : forall h : fid, ((p, f) : cell) <> (x, h)) by (intros h E0; inversion E0; exact (lf_neq s L ltac:(assumption))).
  (* the slots of x other than the container end are as in s, in every state that agrees with s' there *)
  assert (Emp : forall u, (forall k, k <> (p, f) -> k <> (x, g) -> vals u k = vals s k) ->
                     forall h, In h (ref_feats m x) -> h <> g -> empty_cell m u x h).
  { intros u Hu h A B. unfold empty_cell. rewrite Hu; [exact (lf_empty s L h A B) | |].
    - intros E0. exact (Nxp h (eq_sym E0)).
    - intros E0. inversion E0. contradiction. }
  assert (Fr' : forall k, k <> (p, f) -> k <> (x, g) -> vals t k = vals s k).
  { intros k N1 N2. rewrite Vt, (proj1 CC). rewrite upd_other by (intros E0; apply N1; symmetry; exact E0).
    apply upd_other. intros E0; apply N2; symmetry; exact E0. }
  destruct (restore_own_empty m x (vals s) l1 t) as (t1 & E1 & O1).
  { intros h Hh. destruct (H1 h Hh) as [A B]. exact (lf_empty s L h A B). }
  { intros h Hh. destruct (H1 h Hh) as [A B]. exact (Emp t Fr' h A B). }
  rewrite E1. cbn [seq_outcome restore_refs_one]. rewrite (ce_single_g m f g HP), (lf_g s L). cbn [KernelIO.hdv].
  pose proof O1 as (V1 & C1 & Er1 & R1).
  assert (N2 : ((p, f) : cell) <> (x, g)) by exact (ce_cells m f g p x HP).
  assert (Vpf : vals t1 (p, f) = lessx m f x (vals s (p, f))).
  { rewrite V1, Vt. exact (cc2_vals_x _ _ _ _ _ _ _ _ _ CC). }
  destruct (set_container_end m f g HP t1 x p) as (t2 & E2 & CC2).
  - rewrite V1, Vt. exact (cc2_vals_y _ _ _ _ _ _ _ _ _ N2 CC).
  - assert (Cx : cont t1 x = None) by (rewrite C1, Ct; exact (cc2_cont _ _ _ _ _ _ _ _ _ CC)).
    split; [exact Cx|]. unfold eresource_of. cbn [root_of]. rewrite Cx.
    destruct CC as (_ & _ & Es & Rs). rewrite Er1, Et, Es. pose proof (lf_nr s L) as Hnr. unfold not_root in Hnr.
    destruct (eres s x) as [r|]; [rewrite R1, Rt, Rs; exact Hnr | exact I].
  - exact (lf_ck s L).
  - intros M. rewrite Vpf. unfold lessx. rewrite M. reflexivity.
  - intros M _. rewrite Vpf. unfold lessx. rewrite M. intros Hin.
    exact (C07Full.raw_remove_obj_neq _ x x (lf_nd s L) Hin eq_refl).
  - rewrite E2. cbn [seq_outcome].
    assert (Fr2 : forall k, k <> (p, f) -> k <> (x, g) -> vals t2 k = vals s k).
    { intros k N1 N3. rewrite (proj1 CC2). rewrite upd_other by (intros E0; apply N1; symmetry; exact E0).
      rewrite upd_other by (intros E0; apply N3; symmetry; exact E0). rewrite V1. apply Fr'; assumption. }
    destruct (restore_own_empty m x (vals s) l2 t2) as (t3 & E3 & O3).
    { intros h Hh. destruct (H2 h Hh) as [A B]. exact (lf_empty s L h A B). }
    { intros h Hh. destruct (H2 h Hh) as [A B]. exact (Emp t2 Fr2 h A B). }
    rewrite E3. cbn [seq_outcome]. exists t3. split; [reflexivity|].
    apply (cc2_obs_r s t2 t3); [|exact O3].
    rewrite Vpf in CC2. rewrite (lf_cont s L).
    destruct CC2 as (V2 & C2 & Er2 & R2). destruct CC as (Vs & Cs & Es & Rs).
    repeat split; intros.
    + rewrite V2. unfold upd. destruct (cell_eqb_spec (p, f) k') as [_|Na]; [reflexivity|].
      destruct (cell_eqb_spec (x, g) k') as [_|Nb]; [reflexivity|].
      rewrite V1. apply Fr'; intros E0; [apply Na | apply Nb]; symmetry; exact E0.
    + rewrite C2. unfold updn. destruct (Nat.eqb_spec x o) as [_|Nx]; [reflexivity|].
      rewrite C1, Ct, Cs. unfold updn. destruct (Nat.eqb_spec x o); [contradiction | reflexivity].
    + rewrite Er2, Er1, Et, Es. reflexivity.
    + rewrite R2, R1, Rt, Rs. reflexivity.
Qed.

End DeleteLeaf.

(* members of a collection after `remove x; append x` *)
Lemma raw_remove_readd x l :
  In (VObj x) l -> forall w, In w (raw_remove (VObj x) l ++ [VObj x]) <-> In w l.
Proof.
  unfold raw_remove. induction l as [|a r IH]; intros Hin w; [destruct Hin|].
  cbn [remove_first]. destruct (veqb a (VObj x)) eqn:E.
  - apply veqb_obj_r in E. subst a. rewrite in_app_iff. simpl. tauto.
  - destruct Hin as [Ha|Hin]; [subst a; rewrite C06Proofs.veqb_refl in E; discriminate|].
    specialize (IH Hin w). destruct (remove_first veqb (VObj x) r) as [r'|].
    + cbn [app In]. rewrite IH. simpl. tauto.
    + cbn [app In] in *. rewrite in_app_iff in *. simpl in *. tauto.
Qed.

Section DeleteLeafCor.
Variable m : mm.
Variables f g : fid.
Hypothesis HP : ce_pair m f g.
Variables x p : oid.

(* every value is back, p.f up to the position of x (now last); containers and resources are back *)
Theorem leaf_delete_undo_members s :
  leaf m f g x p s ->
  exists s' c', execute m s (CDelete x [] []) = ((None, s'), c') /\
    forall t, obs_eq t s' ->
      can_undo m t c' = Ok true /\
      exists t', undo m t c' = ((None, t'), c') /\
                 (forall k, k <> (p, f) -> vals t' k = vals s k) /\
                 (forall w, In w (vals t' (p, f)) <-> In w (vals s (p, f))) /\
                 (f_many (fd m f) = true -> lastv (VObj x) (vals t' (p, f))) /\
                 (forall o, cont t' o = cont s o) /\ (forall o, eres t' o = eres s o) /\
                 (forall r, rcont t' r = rcont s r).
Proof.
  intros L. destruct (leaf_delete_undo m f g HP x p s L) as (E & _ & U).
  eexists. eexists. split; [exact E|]. intros t Ht. destruct (U t Ht) as (CU & t' & Eu & (V & C & Er & R)).
  split; [exact CU|]. exists t'. split; [exact Eu|].
  assert (N2 : ((p, f) : cell) <> (x, g)) by exact (ce_cells m f g p x HP).
  assert (Vpf : vals t' (p, f) = plusx m f x (lessx m f x (vals s (p, f)))) by (rewrite V; apply upd_same).
  repeat split.
  - intros k N. rewrite V. rewrite upd_other by (intros E0; apply N; symmetry; exact E0).
    unfold upd. destruct (cell_eqb_spec (x, g) k) as [<-|_]; reflexivity.
  - rewrite Vpf. unfold plusx, lessx. destruct (f_many (fd m f)) eqn:M.
    + apply (proj1 (raw_remove_readd x _ (lf_in m f g x p s L) w)).
    + rewrite (lf_sing m f g x p s L M). tauto.
  - rewrite Vpf. unfold plusx, lessx. destruct (f_many (fd m f)) eqn:M.
    + apply (proj2 (raw_remove_readd x _ (lf_in m f g x p s L) w)).
    + rewrite (lf_sing m f g x p s L M). tauto.
  - intros M. rewrite Vpf. unfold plusx. rewrite M. eexists. reflexivity.
  - intros o. rewrite C. unfold updn. destruct (Nat.eqb_spec x o) as [<-|]; reflexivity.
  - exact Er.
  - exact R.
Qed.

(* exact when x was the last child (or p.f is single-valued): the whole observable state is back *)
Theorem leaf_delete_undo_exact s :
  leaf m f g x p s -> (f_many (fd m f) = true -> lastv (VObj x) (vals s (p, f))) ->
  exists s' c', execute m s (CDelete x [] []) = ((None, s'), c') /\
    forall t, obs_eq t s' ->
      can_undo m t c' = Ok true /\ exists t', undo m t c' = ((None, t'), c') /\ obs_eq t' s.
Proof.
  intros L Hlast. destruct (leaf_delete_undo m f g HP x p s L) as (E & _ & U).
  eexists. eexists. split; [exact E|]. intros t Ht. destruct (U t Ht) as (CU & t' & Eu & (V & C & Er & R)).
  split; [exact CU|]. exists t'. split; [exact Eu|].
  assert (Back : plusx m f x (lessx m f x (vals s (p, f))) = vals s (p, f)).
  { unfold plusx, lessx. destruct (f_many (fd m f)) eqn:M; [|symmetry; exact (lf_sing m f g x p s L M)].
    destruct (Hlast eq_refl) as (l0 & El). rewrite El.
    rewrite rr_app_last; [reflexivity|]. apply nodup_objs_app_last. rewrite <- El. exact (lf_nd m f g x p s L). }
  repeat split; intros.
  - rewrite V, Back. unfold upd. destruct (cell_eqb_spec (p, f) k) as [<-|_]; [reflexivity|].
    destruct (cell_eqb_spec (x, g) k) as [<-|_]; reflexivity.
  - rewrite C. unfold updn. destruct (Nat.eqb_spec x o) as [<-|]; reflexivity.
  - apply Er.
  - apply R.
Qed.

End DeleteLeafCor.

Lemma nodup_objs_readd x l : nodup_objs l -> In (VObj x) l -> nodup_objs (raw_remove (VObj x) l ++ [VObj x]).
Proof.
  intros ND Hin. destruct (raw_remove_obj_In x l ND Hin) as [Hm ND']. unfold nodup_objs in *.
  rewrite objs_of_app. cbn [objs_of]. apply C19Once.NoDup_app_intro; [exact ND' | constructor; [intros [] | constructor] |].
  intros y Hy [E|[]]. subst y. apply objs_of_In in Hy. apply Hm in Hy. tauto.
Qed.

Section DeleteLeafRedo.
Variable m : mm.
Variables f g : fid.
Hypothesis HP : ce_pair m f g.
Variables x p : oid.

Lemma lessx_plusx s :
  leaf m f g x p s -> lessx m f x (plusx m f x (lessx m f x (vals s (p, f)))) = lessx m f x (vals s (p, f)).
Proof.
  intros L. unfold lessx, plusx. destruct (f_many (fd m f)); [|reflexivity].
  apply rr_app_last. intros Hin. exact (C07Full.raw_remove_obj_neq _ x x (lf_nd m f g x p s L) Hin eq_refl).
Qed.

(* the state Delete.undo leaves is again a leaf situation, provided x's inverse set is still empty there *)
Lemma leaf_after_undo s t :
  leaf m f g x p s ->
  cc2 s t p f (plusx m f x (lessx m f x (vals s (p, f)))) x g (vals s (x, g)) (cont s x) ->
  inv t x = [] -> leaf m f g x p t.
Proof.
  intros L (V & C & Er & R) Hinv.
  assert (N2 : ((p, f) : cell) <> (x, g)) by exact (ce_cells m f g p x HP).
  assert (Vpf : vals t (p, f) = plusx m f x (lessx m f x (vals s (p, f)))) by (rewrite V; apply upd_same).
  assert (Vxg : vals t (x, g) = vals s (x, g)) by (rewrite V, upd_other by exact N2; apply upd_same).
  assert (Cx : cont t x = cont s x) by (rewrite C; unfold updn; rewrite Nat.eqb_refl; reflexivity).
  constructor.
  - exact (lf_neq m f g x p s L).
  - rewrite Vxg. exact (lf_g m f g x p s L).
  - rewrite Vpf. unfold plusx. destruct (f_many (fd m f)); [apply in_or_app; right|]; left; reflexivity.
  - intros M. rewrite Vpf. unfold plusx. rewrite M. reflexivity.
  - rewrite Vpf. unfold plusx, lessx. destruct (f_many (fd m f)) eqn:M.
    + apply nodup_objs_readd; [exact (lf_nd m f g x p s L) | exact (lf_in m f g x p s L)].
    + apply nodup_single.
  - rewrite Cx. exact (lf_cont m f g x p s L).
  - pose proof (lf_nr m f g x p s L) as Hn. unfold not_root in *. rewrite Er.
    destruct (eres s x) as [r|]; [rewrite R; exact Hn | exact I].
  - exact (lf_ck m f g x p s L).
  - exact (lf_app m f g x p s L).
  - intros h A B. unfold empty_cell. rewrite V.
    rewrite upd_other by (intros E0; inversion E0; exact (lf_neq m f g x p s L ltac:(assumption))).
    rewrite upd_other by (intros E0; inversion E0; congruence).
    exact (lf_empty m f g x p s L h A B).
  - exact Hinv.
Qed.

(* redo (Delete.do_execute again) from the state undo left: the state after the Delete, the same command *)
Theorem leaf_delete_redo s t :
  leaf m f g x p s ->
  cc2 s t p f (plusx m f x (lessx m f x (vals s (p, f)))) x g (vals s (x, g)) (cont s x) ->
  inv t x = [] ->
  let s' := delete_obj (S (length (ocls m))) m s x true in
  let c' := CDelete x [(x, map (fun h => (h, vals s (x, h))) (ref_feats m x))] [(x, [])] in
  exists t', redo m t c' = ((None, t'), c') /\ obs_eq t' s'.
Proof.
  intros L CT Hinv s' c'. pose proof (leaf_after_undo s t L CT Hinv) as Lt.
  exists (delete_obj (S (length (ocls m))) m t x true). split.
  - unfold c'. cbn [redo]. rewrite (leaf_do_delete m f g HP x p t Lt). f_equal. f_equal. f_equal. f_equal.
    apply map_ext_in. intros h Hh. f_equal. destruct CT as (V & _). rewrite V.
    rewrite upd_other by (intros E0; inversion E0; exact (lf_neq m f g x p s L ltac:(assumption))).
    unfold upd. destruct (cell_eqb_spec (x, g) (x, h)) as [E0|_]; [inversion E0; reflexivity | reflexivity].
  - pose proof (leaf_delete_state m f g HP x p (length (ocls m)) t Lt) as (V2 & C2 & E2 & R2).
    pose proof (leaf_delete_state m f g HP x p (length (ocls m)) s L) as (V1 & C1 & E1 & R1). fold s' in V1, C1, E1, R1.
    destruct CT as (V & C & Er & R).
    assert (Vpf : vals t (p, f) = plusx m f x (lessx m f x (vals s (p, f)))) by (rewrite V; apply upd_same).
    repeat split; intros.
    + rewrite V2, V1, Vpf, (lessx_plusx s L). unfold upd.
      destruct (cell_eqb_spec (p, f) k) as [_|Na]; [reflexivity|].
      destruct (cell_eqb_spec (x, g) k) as [_|Nb]; [reflexivity|].
      rewrite V. rewrite !upd_other by assumption. reflexivity.
    + rewrite C2, C1. unfold updn. destruct (Nat.eqb_spec x o) as [_|N]; [reflexivity|].
      rewrite C. unfold updn. destruct (Nat.eqb_spec x o); [contradiction | reflexivity].
    + rewrite E2, E1. apply Er.
    + rewrite R2, R1. apply R.
Qed.

End DeleteLeafRedo.

(* the leaf premises from the invariant K *)
Lemma leaf_of_K m (W : wf_mm m) (f g : fid) (x p : oid) s :
  K m s -> f_cont (fd m f) = true -> f_opp (fd m f) = Some g ->
  In (VObj x) (vals s (p, f)) -> p <> x -> In g (ref_feats m x) ->
  (forall h, In h (ref_feats m x) -> h <> g -> empty_cell m s x h) -> inv s x = [] ->
  ce_pair m f g /\ leaf m f g x p s.
Proof.
  intros (HW & HT & HU) Hc Ho Hin Np Hg Hemp Hinv. pose proof (ce_pair_of_wf m f g W Hc Ho) as CP.
  split; [exact CP|]. destruct (child_facts m s p f g x HW CP Hin) as (A & B & C).
  constructor; try assumption.
  - intros M. destruct (proj1 (wf_shape m s HW p f) M) as (v & Hv). rewrite Hv in Hin |- *.
    destruct Hin as [<-|[]]. reflexivity.
  - apply (proj2 (wf_shape m s HW p f)). right. exact Hc.
  - pose proof (HT (x, g) (VObj p)) as Hk. rewrite C in Hk. specialize (Hk (or_introl eq_refl)).
    unfold okv in Hk. cbn [snd] in Hk. rewrite (ce_single_g m f g CP) in Hk. exact Hk.
Qed.

(* ---------- non-vacuity and what is false, on Acyclic's tree metamodel (kids <-> parent) ---------- *)
Definition ex_tree_s0 : state :=
  fold_left (next Acyclic.ex_mm_tree) [OAppend 0 0 (VObj 1); OAppend 0 0 (VObj 2); OAppend 1 0 (VObj 3)]
            (init_state Acyclic.ex_mm_tree).

(* o2 is the LAST child of o0 and has neither contents nor other links: the premises of the leaf theorems hold *)
Example ex_leaf_witness :
  ce_pair Acyclic.ex_mm_tree 0 1 /\ leaf Acyclic.ex_mm_tree 0 1 2 0 ex_tree_s0 /\
  lastv (VObj 2) (vals ex_tree_s0 (0, 0)).
Proof.
  split; [|split].
  - apply (ce_pair_of_wf _ 0 1 (proj1 Acyclic.ex_mm_tree_wf)); reflexivity.
  - constructor.
    + discriminate.
    + vm_compute. reflexivity.
    + vm_compute. right. left. reflexivity.
    + intros H. vm_compute in H. discriminate.
    + unfold nodup_objs. vm_compute. repeat constructor; simpl; intuition discriminate.
    + vm_compute. reflexivity.
    + vm_compute. exact I.
    + vm_compute. reflexivity.
    + vm_compute. right. left. reflexivity.
    + intros h Hh Nh. vm_compute in Hh. destruct Hh as [<-|[<-|[]]]; [vm_compute; reflexivity | contradiction].
    + vm_compute. reflexivity.
  - exists [VObj 1]. vm_compute. reflexivity.
Qed.

(* Delete(o2); undo; redo; undo on the model: everything back, o0.kids in its order *)
Example ex_leaf_result :
  let ms := st_run Acyclic.ex_mm_tree (ex_tree_s0, empty_stack) [SExec (CDelete 2 [] [])] in
  vals (fst ms) (0, 0) = [VObj 1] /\ vals (fst ms) (2, 1) = [VNone] /\ cont (fst ms) 2 = None /\
  let ms1 := st_run Acyclic.ex_mm_tree ms [SUndo] in
  vals (fst ms1) (0, 0) = [VObj 1; VObj 2] /\ vals (fst ms1) (2, 1) = [VObj 0] /\ cont (fst ms1) 2 = Some (0, 0) /\
  let ms2 := st_run Acyclic.ex_mm_tree ms1 [SRedo; SUndo] in
  vals (fst ms2) (0, 0) = [VObj 1; VObj 2] /\ cont (fst ms2) 2 = Some (0, 0) /\ sidx (snd ms2) = (-1)%Z.
Proof. vm_compute. repeat split; reflexivity. Qed.

(* FALSE in general: the order of p.f.  kids is many-valued with a SINGLE-valued opposite, so the property
   demands its order back; Delete(o1) (a middle child, with its own child o3), undo: o0.kids = [o2, o1].
   The container end is re-set through its ordinary setter, which appends (F-C06-relink-order). *)
Example delete_undo_child_order_refuted :
  let ms := st_run Acyclic.ex_mm_tree (ex_tree_s0, empty_stack) [SExec (CDelete 1 [] []); SUndo] in
  vals ex_tree_s0 (0, 0) = [VObj 1; VObj 2] /\ vals (fst ms) (0, 0) = [VObj 2; VObj 1] /\
  vals (fst ms) (1, 0) = vals ex_tree_s0 (1, 0) /\ vals (fst ms) (1, 1) = vals ex_tree_s0 (1, 1) /\
  vals (fst ms) (3, 1) = vals ex_tree_s0 (3, 1) /\
  cont (fst ms) 1 = cont ex_tree_s0 1 /\ cont (fst ms) 3 = cont ex_tree_s0 3 /\ sidx (snd ms) = (-1)%Z.
Proof. vm_compute. repeat split; reflexivity. Qed.

(* ---------- Set on the container end, from the invariant ---------- *)
Section LiftEnd.
Variable m : mm.
Hypothesis W : wf_mm m.

Theorem set_end_link_undo_redo s (f g : fid) (x p : oid) p0 s' c' :
  K m s -> f_cont (fd m f) = true -> f_opp (fd m f) = Some g ->
  vals s (x, g) = [VNone] -> unowned m s x -> (f_many (fd m f) = false -> vals s (p, f) = [VNone]) ->
  execute m s (CSet x g (VObj p) p0) = ((None, s'), c') ->
  inverts m c' s s' /\ cc2 s s' p f (plusx m f x (vals s (p, f))) x g [VObj p] (Some (p, f)).
Proof.
  intros (HW & _) Hc Ho Hxg Hu Hfree HE. pose proof (ce_pair_of_wf m f g W Hc Ho) as CP.
  apply (set_end_link_inverts m f g s x p p0 s' c' CP Hxg Hu Hfree); [|exact HE].
  intros Hin. destruct (child_facts_plain m s p f x HW Hc Hin) as [A _]. destruct Hu as [Hu _]. congruence.
Qed.

Theorem set_end_unlink_undo_redo s (f g : fid) (x p : oid) p0 s' c' :
  K m s -> f_cont (fd m f) = true -> f_opp (fd m f) = Some g ->
  vals s (x, g) = [VObj p] -> (f_many (fd m f) = true -> lastv (VObj x) (vals s (p, f))) ->
  execute m s (CSet x g VNone p0) = ((None, s'), c') ->
  inverts m c' s s' /\ cc2 s s' p f (lessx m f x (vals s (p, f))) x g [VNone] None.
Proof.
  intros (HW & HT & _) Hc Ho Hxg Hlast HE. pose proof (ce_pair_of_wf m f g W Hc Ho) as CP.
  assert (Hin : In (VObj x) (vals s (p, f))).
  { apply (wf_sym m s HW g f (ce_opp_g m f g CP) x p). unfold C01Proofs.R. rewrite Hxg. left. reflexivity. }
  destruct (child_facts m s p f g x HW CP Hin) as (A & B & _).
  apply (set_end_unlink_inverts m f g s x p p0 s' c' CP Hxg Hin); try assumption.
  - intros Mf. destruct (proj1 (wf_shape m s HW p f) Mf) as (w & Hw). rewrite Hw in Hin |- *.
    destruct Hin as [<-|[]]. reflexivity.
  - apply (proj2 (wf_shape m s HW p f)). right. exact Hc.
  - pose proof (HT (x, g) (VObj p)) as Hk. rewrite Hxg in Hk. specialize (Hk (or_introl eq_refl)).
    unfold okv in Hk. cbn [snd] in Hk. rewrite (ce_single_g m f g CP) in Hk. exact Hk.
Qed.
End LiftEnd.

(* without `x is the last child`: o0.kids = [o1, o2]; Set(o1.parent, None); undo: o0.kids = [o2, o1] *)
Example set_end_relink_refuted :
  let s0 := fold_left (next Acyclic.ex_mm_tree) [OAppend 0 0 (VObj 1); OAppend 0 0 (VObj 2)] (init_state Acyclic.ex_mm_tree) in
  let ms := st_run Acyclic.ex_mm_tree (s0, empty_stack) [SExec (CSet 1 1 VNone VNone); SUndo] in
  vals s0 (0, 0) = [VObj 1; VObj 2] /\ vals (fst ms) (0, 0) = [VObj 2; VObj 1] /\
  vals (fst ms) (1, 1) = vals s0 (1, 1) /\ cont (fst ms) 1 = cont s0 1.
Proof. vm_compute. repeat split; reflexivity. Qed.

(* forward direction, recorded command and redo in one statement *)
Theorem leaf_delete_execute_redo m f g (HP : ce_pair m f g) (x p : oid) s :
  leaf m f g x p s ->
  let s' := delete_obj (S (length (ocls m))) m s x true in
  let c' := CDelete x [(x, map (fun h => (h, vals s (x, h))) (ref_feats m x))] [(x, [])] in
  execute m s (CDelete x [] []) = ((None, s'), c') /\
  cc2 s s' p f (lessx m f x (vals s (p, f))) x g [VNone] None /\
  forall t,
    cc2 s t p f (plusx m f x (lessx m f x (vals s (p, f)))) x g (vals s (x, g)) (cont s x) ->
    inv t x = [] ->
    exists t', redo m t c' = ((None, t'), c') /\ obs_eq t' s'.
Proof.
  intros L s' c'. destruct (leaf_delete_undo m f g HP x p s L) as (A & B & _).
  split; [exact A|]. split; [exact B|]. intros t CT Hi. exact (leaf_delete_redo m f g HP x p s t L CT Hi).
Qed.

(* ---------- non-vacuity for Move on a containment collection (Acyclic's tree metamodel) ---------- *)
Lemma ex_tree_premises :
  wf_mm Acyclic.ex_mm_tree /\ ref_typed Acyclic.ex_mm_tree /\ K Acyclic.ex_mm_tree (init_state Acyclic.ex_mm_tree).
Proof.
  destruct Acyclic.ex_mm_tree_wf as [W D]. split; [exact W|]. split; [|split; [|split]].
  - intros f. Acyclic.tcase f; intros H; try discriminate; eexists; reflexivity.
  - exact (WF_init Acyclic.ex_mm_tree W D).
  - apply typed_init. intros f. Acyclic.tcase f; intros; reflexivity.
  - intros x f R M _. exfalso. revert R M. Acyclic.tcase f; intros; discriminate.
Qed.

(* three children, the first one moved to the end by index, the child o3 moved to the front by value *)
Definition ex_move_word : list sop :=
  [SExec (CAdd 0 0 (VObj 1) None); SExec (CAdd 0 0 (VObj 2) None); SExec (CAdd 0 0 (VObj 3) None);
   SExec (CMove 0 0 VNone (Some 0%Z) 2%Z); SExec (CMove 0 0 (VObj 3) None 0%Z); SUndo; SUndo; SRedo].

Lemma ex_move_word_ok :
  run_ok Acyclic.ex_mm_tree (covered4 Acyclic.ex_mm_tree) (init_state Acyclic.ex_mm_tree, [], []) ex_move_word.
Proof.
  assert (T : opp_typed Acyclic.ex_mm_tree 0 0) by (intros g H; inversion H; reflexivity).
  unfold ex_move_word. cbn [run_ok gop_ok fst].
  split. { right; left. exists 1. split; [reflexivity|]. split; [reflexivity|]. split; [reflexivity|]. split; [unown | exact T]. }
  split. { right; left. exists 2. split; [reflexivity|]. split; [reflexivity|]. split; [reflexivity|]. split; [unown | exact T]. }
  split. { right; left. exists 3. split; [reflexivity|]. split; [reflexivity|]. split; [reflexivity|]. split; [unown | exact T]. }
  split. { right; left. split; [reflexivity|]. split; [reflexivity|]. left. reflexivity. }
  split. { right; left. split; [reflexivity|]. split; [reflexivity|]. right. reflexivity. }
  repeat split.
Qed.

Example ex_move_word_result :
  let ms := st_run Acyclic.ex_mm_tree (init_state Acyclic.ex_mm_tree, empty_stack) ex_move_word in
  vals (fst ms) (0, 0) = [VObj 2; VObj 3; VObj 1] /\ cont (fst ms) 1 = Some (0, 0) /\ vals (fst ms) (1, 1) = [VObj 0] /\
  sidx (snd ms) = 3%Z /\
  let ms1 := st_run Acyclic.ex_mm_tree ms [SRedo] in
  vals (fst ms1) (0, 0) = [VObj 3; VObj 2; VObj 1] /\ vals (fst ms1) (3, 1) = [VObj 0] /\ cont (fst ms1) 3 = Some (0, 0) /\
  let ms2 := st_run Acyclic.ex_mm_tree ms [SUndo] in
  vals (fst ms2) (0, 0) = [VObj 1; VObj 2; VObj 3] /\
  let ms3 := st_run Acyclic.ex_mm_tree ms1 (repeat SUndo 5 ++ repeat SRedo 5) in
  vals (fst ms3) (0, 0) = [VObj 3; VObj 2; VObj 1] /\ sidx (snd ms3) = 4%Z.
Proof. vm_compute. repeat split; reflexivity. Qed.

(* ====================================================================== *)
(* 6. Collections of references without containment and without opposite   *)
(* ====================================================================== *)
(* Add / Remove / Move on such a collection behave, observably, like on an attribute collection: only the
   slot changes (the inverse bookkeeping of the elements is not observable). *)
Definition loose (m : mm) (f : fid) : Prop :=
  f_many (fd m f) = true /\ f_cont (fd m f) = false /\ f_opp (fd m f) = None.

Lemma coll_add_loose_ok m s (x : oid) (f : fid) pos v :
  f_cont (fd m f) = false -> f_opp (fd m f) = None -> check_elem m f v = true ->
  exists s', coll_add_full m s (x, f) pos v = (None, s') /\
             obs4 s' = (upd (vals s) (x, f)
                            (match pos with
                             | Some i => raw_insert (f_unique (fd m f)) i v (vals s (x, f))
                             | None => raw_append (f_unique (fd m f)) v (vals s (x, f))
                             end), cont s, eres s, rcont s).
Proof.
  intros Hc Ho C. unfold coll_add_full, link_elem. rewrite C. cbn [negb].
  destruct (f_isref (fd m f)); [destruct (obj_of v) as [y|]|]; try (eexists; split; reflexivity).
  unfold update_container. rewrite Hc. cbn [negb]. unfold update_opposite_add. rewrite Ho.
  eexists. split; [reflexivity|]. unfold inv_add. destruct (cmem (x, f) (inv s y)); reflexivity.
Qed.

Lemma coll_pop_loose_ok m s (x : oid) (f : fid) i w l' :
  f_cont (fd m f) = false -> f_opp (fd m f) = None -> py_pop i (vals s (x, f)) = Some (w, l') ->
  exists s', coll_pop_full m s (x, f) i = ((None, s'), Some w) /\
             obs4 s' = (upd (vals s) (x, f) l', cont s, eres s, rcont s).
Proof.
  intros Hc Ho P. unfold coll_pop_full, unlink_elem.
  destruct (vals s (x, f)) as [|y ys] eqn:E; [rewrite py_pop_nil in P; discriminate|].
  rewrite P. destruct (f_isref (fd m f)); [destruct (obj_of w) as [b|]|]; try (eexists; split; reflexivity).
  unfold uc_clear. rewrite Hc. unfold update_opposite_remove. rewrite Ho.
  eexists. split; [reflexivity|].
  match goal with |- context [cmem ?c ?l] => destruct (cmem c l) end;
    [reflexivity | unfold inv_add; match goal with |- context [cmem ?c ?l] => destruct (cmem c l) end; reflexivity].
Qed.

Section LooseColl.
Variable m : mm.
Variable f : fid.
Hypothesis HL : loose m f.
Let M := proj1 HL.
Let Hc := proj1 (proj2 HL).
Let Ho := proj2 (proj2 HL).

Lemma add_loose_inverts s (x : oid) v idx c1 s' c' :
  cell_wt m f (vals s (x, f)) ->
  can_execute m s (CAdd x f v idx) = (Ok true, c1) ->
  execute m s c1 = ((None, s'), c') ->
  exists i', c' = CAdd x f v (Some i') /\
             inverts m c' s s' /\ only_cell s s' (x, f) (py_insert i' v (vals s (x, f))) /\
             cell_wt m f (py_insert i' v (vals s (x, f))).
Proof.
  intros W HC HE. set (l := vals s (x, f)) in *.
  cbn [can_execute] in HC. destruct (negb (base_can m x f)); [discriminate|]. rewrite M in HC. cbn [negb] in HC.
  apply pair_eq_inv in HC. destruct HC as [HB Hc1]. subst c1.
  injection HB as HB. apply andb_true_iff in HB. destruct HB as [_ HU]. apply negb_true_iff in HU. fold l in HU.
  assert (Abs : f_unique (fd m f) = true -> vmem v l = false).
  { intros U. rewrite U in HU. exact HU. }
  unfold cell_wt in W. rewrite M in W. destruct W as [Wc Wn].
  assert (EX : exists pos i', (0 <= i' <= zlen l)%Z /\ c' = CAdd x f v (Some i') /\
                              coll_add_full m s (x, f) pos v = (None, s') /\
                              match pos with
                              | Some i => raw_insert (f_unique (fd m f)) i v l
                              | None => raw_append (f_unique (fd m f)) v l end = py_insert i' v l).
  { cbn [execute] in HE. destruct idx as [i|]; apply pair_eq_inv in HE; destruct HE as [H1 H2].
    - exists (Some (ins_pos (zlen l) i)), (ins_pos (zlen l) i). split; [apply clamp_index_range, zlen_nonneg|].
      split; [symmetry; exact H2|]. split; [exact H1 | apply raw_insert_absent; exact Abs].
    - exists None, (zlen l). split; [pose proof (zlen_nonneg l); lia|]. split; [symmetry; exact H2|].
      split; [exact H1|]. rewrite (raw_append_absent _ _ _ Abs), py_insert_len. reflexivity. }
  destruct EX as (pos & i' & Ri & Ec & Ea & El). exists i'. split; [exact Ec|].
  destruct (check_elem m f v) eqn:Cv.
  2:{ rewrite (coll_add_bad m s (x, f) pos v Cv) in Ea. discriminate. }
  destruct (coll_add_loose_ok m s x f pos v Hc Ho Cv) as (s1 & E1 & O1).
  rewrite E1 in Ea. inversion Ea; subst s1. clear Ea E1. fold l in O1. rewrite El in O1.
  assert (OC : only_cell s s' (x, f) (py_insert i' v l)) by (apply obs4_only_cell; exact O1).
  assert (CW : cell_wt m f (py_insert i' v l)).
  { unfold cell_wt. rewrite M. split.
    - intros y Hy. apply py_insert_In in Hy. destruct Hy as [Hy|Hy]; [subst; exact Cv | apply Wc; exact Hy].
    - intros U. unfold py_insert. apply nodupv_insert_at; [apply Wn; exact U | apply Abs; exact U]. }
  split; [|split; [exact OC | exact CW]].
  subst c'. split.
  - intros t Ht. pose proof Ht as (Vt & _). cbn [can_undo undo idx_or0].
    rewrite (Vt (x, f)), (only_cell_vals _ _ _ _ OC).
    split; [f_equal; apply vmem_In; apply py_insert_In; left; reflexivity|].
    assert (Pp : py_pop i' (vals t (x, f)) = Some (v, l)).
    { rewrite (Vt (x, f)), (only_cell_vals _ _ _ _ OC). apply py_pop_insert. exact Ri. }
    destruct (coll_pop_loose_ok m t x f i' v l Hc Ho Pp) as (t' & Et & Ot).
    exists t'. rewrite Et. split; [reflexivity|].
    apply (only_cell_back s s' t t' (x, f) _ OC Ht). apply obs4_only_cell. exact Ot.
  - intros t Ht. pose proof Ht as (Vt & _). cbn [redo idx_or0].
    destruct (coll_add_loose_ok m t x f (Some i') v Hc Ho Cv) as (t' & Et & Ot).
    exists t'. rewrite Et. split; [reflexivity|].
    apply (only_cell_again s s' t t' (x, f) _ OC Ht). apply obs4_only_cell.
    rewrite (Vt (x, f)) in Ot. fold l in Ot. rewrite (raw_insert_absent _ _ _ _ Abs) in Ot. exact Ot.
Qed.

Lemma remove_loose_inverts s (x : oid) v idx c1 s' c' :
  cell_wt m f (vals s (x, f)) ->
  can_execute m s (CRemove x f v idx) = (Ok true, c1) ->
  execute m s c1 = ((None, s'), c') ->
  exists i w l2, c' = CRemove x f w (Some i) /\
                 inverts m c' s s' /\ only_cell s s' (x, f) l2 /\ cell_wt m f l2.
Proof.
  intros W HC HE. set (l := vals s (x, f)) in *.
  unfold cell_wt in W. rewrite M in W. destruct W as [Wc Wn].
  cbn [can_execute] in HC. destruct (negb (base_can m x f)); [discriminate|]. rewrite M in HC. cbn [negb] in HC.
  assert (EX : exists i v1, (0 <= i)%Z /\
            (let '(o, w) := coll_pop_full m s (x, f) i in
             (o, CRemove x f (match w with Some w' => w' | None => v1 end) (Some i))) = ((None, s'), c')).
  { destruct idx as [i0|].
    - fold l in HC. destruct (py_get i0 l) as [w0|] eqn:G; [|apply pair_eq_inv in HC; destruct HC; discriminate].
      apply pair_eq_inv in HC. destruct HC as [_ Hc1]. subst c1. cbn [execute] in HE. fold l in HE.
      destruct (py_get_norm i0 l w0 G) as (k & N & _).
      rewrite (norm_index_neg_shift _ _ _ N) in HE. exists k, w0. split; [|exact HE].
      apply norm_index_range in N. lia.
    - apply pair_eq_inv in HC. destruct HC as [_ Hc1]. subst c1. cbn [execute] in HE. fold l in HE.
      destruct (index_of veqb v l) as [n|]; [|apply pair_eq_inv in HE; destruct HE; discriminate].
      exists (Z.of_nat n), v. split; [lia | exact HE]. }
  destruct EX as (i & v1 & Hi & HE2). clear HE HC.
  destruct (coll_pop_full m s (x, f) i) as [[[e|] s1] w] eqn:EP;
    apply pair_eq_inv in HE2; destruct HE2 as [H1 H2]; [discriminate|].
  inversion H1; subst s1. clear H1.
  destruct (pop_full_inv m s x f i s' w EP) as (w' & l2 & Pp & Ew). subst w. fold l in Pp.
  destruct (coll_pop_loose_ok m s x f i w' l2 Hc Ho Pp) as (s2 & E2 & O2).
  rewrite EP in E2. inversion E2; subst s2. clear E2.
  assert (OC : only_cell s s' (x, f) l2) by (apply obs4_only_cell; exact O2).
  destruct (py_pop_nonneg i l w' l2 Hi Pp) as (Hlt & Nth & El2).
  assert (Cw : check_elem m f w' = true) by (apply Wc; eapply nth_error_In; exact Nth).
  assert (Abs : f_unique (fd m f) = true -> vmem w' l2 = false).
  { intros U. subst l2. apply nodupv_removed_notin; [apply Wn; exact U | exact Nth]. }
  assert (CW : cell_wt m f l2).
  { unfold cell_wt. rewrite M. split.
    - intros y Hy. apply Wc. subst l2. eapply remove_at_In; exact Hy.
    - intros U. subst l2. apply nodupv_remove_at. apply Wn; exact U. }
  exists i, w', l2. split; [symmetry; exact H2|]. split; [|split; [exact OC | exact CW]].
  subst c'. split.
  - intros t Ht. pose proof Ht as (Vt & _). split; [reflexivity|]. cbn [undo idx_or0].
    destruct (coll_add_loose_ok m t x f (Some i) w' Hc Ho Cw) as (t' & Et & Ot).
    exists t'. rewrite Et. split; [reflexivity|].
    apply (only_cell_back s s' t t' (x, f) _ OC Ht). apply obs4_only_cell.
    rewrite (Vt (x, f)), (only_cell_vals _ _ _ _ OC) in Ot.
    rewrite (raw_insert_absent _ _ _ _ Abs), (py_insert_pop i l w' l2 Hi Pp) in Ot. exact Ot.
  - intros t Ht. pose proof Ht as (Vt & _). cbn [redo idx_or0].
    assert (Pt : py_pop i (vals t (x, f)) = Some (w', l2)) by (rewrite (Vt (x, f)); exact Pp).
    destruct (coll_pop_loose_ok m t x f i w' l2 Hc Ho Pt) as (t' & Et & Ot).
    exists t'. rewrite Et. split; [reflexivity|].
    apply (only_cell_again s s' t t' (x, f) _ OC Ht). apply obs4_only_cell. exact Ot.
Qed.

End LooseColl.

Lemma pop_add_loose m (f : fid) (x : oid) :
  f_cont (fd m f) = false -> f_opp (fd m f) = None ->
  forall t i w l1 j,
    py_pop i (vals t (x, f)) = Some (w, l1) -> check_elem m f w = true ->
    (f_unique (fd m f) = true -> vmem w l1 = false) ->
    exists t1, coll_pop_full m t (x, f) i = ((None, t1), Some w) /\ vals t1 (x, f) = l1 /\
    exists t2, coll_add_full m t1 (x, f) (Some j) w = (None, t2) /\ only_cell t t2 (x, f) (py_insert j w l1).
Proof.
  intros Hc Ho t i w l1 j Pp Ck Abs.
  destruct (coll_pop_loose_ok m t x f i w l1 Hc Ho Pp) as (t1 & E1 & O1).
  assert (OC1 : only_cell t t1 (x, f) l1) by (apply obs4_only_cell; exact O1).
  exists t1. split; [exact E1|]. split; [exact (only_cell_vals _ _ _ _ OC1)|].
  destruct (coll_add_loose_ok m t1 x f (Some j) w Hc Ho Ck) as (t2 & E2 & O2).
  exists t2. split; [exact E2|].
  rewrite (only_cell_vals _ _ _ _ OC1), (raw_insert_absent _ _ _ _ Abs) in O2.
  eapply only_cell_trans; [exact OC1 | apply obs4_only_cell; exact O2].
Qed.

Lemma move_loose_inverts m (f : fid) s (x : oid) v from to c1 s' c' :
  loose m f -> cell_wt m f (vals s (x, f)) ->
  (is_none v = true \/ from = None) ->
  can_execute m s (CMove x f v from to) = (Ok true, c1) ->
  execute m s c1 = ((None, s'), c') ->
  exists fr w to' l2, c' = CMove x f w (Some fr) to' /\ inverts m c' s s' /\ only_cell s s' (x, f) l2.
Proof.
  intros (M & Hc & Ho) W Hx HC HE. unfold cell_wt in W. rewrite M in W. destruct W as [Wc Wn].
  apply (move_gen_inverts m x f (fun _ w => check_elem m f w = true) M) with (v := v) (from := from) (to := to) (c1 := c1);
    try assumption.
  - intros t t' w _ H. exact H.
  - intros t t' l w _ H. exact H.
  - intros t i w l1 j. apply pop_add_loose; assumption.
  - intros i w l1 Pp U. destruct (C01Full.py_pop_nth i _ _ _ Pp) as (n & Hn & ->).
    apply nodupv_removed_notin; [apply Wn; exact U | exact Hn].
Qed.

(* ---------- C07Full's uniq_ok (a unique collection holds an object at most once) alone, for the three
   procedures the primitive commands call ---------- *)
Section UniqOk.
Variable m : mm.
Hypothesis Hwf : wf_opp m.

Lemma uniq_ok_set_full s (x : oid) (f : fid) v :
  C07Full.uniq_ok m s -> C07Full.uniq_ok m (snd (set_full m s (x, f) v)).
Proof.
  intros U.
  destruct (C07Full.tracked_dec m f) as [T|T];
    [|exact (C07Full.nd_uniq m s _ (proj1 (C07Full.good_set_full m Hwf s x f v (or_intror T))) U)].
  destruct (obj_of v) as [y|] eqn:Ev;
    [|exact (C07Full.nd_uniq m s _ (proj1 (C07Full.good_set_full m Hwf s x f v (or_introl Ev))) U)].
  apply obj_of_Some' in Ev. subst v. destruct T as [Hr [Ho Hmu]].
  unfold set_full. cbv beta iota zeta.
  destruct (check_single m f (VObj y)); cbn [negb snd]; [|exact U].
  rewrite Hr, Ho. cbn [negb snd obj_of].
  set (s1 := set_store m s (x, f) (VObj y)).
  set (s2 := update_container m s1 x f (Some y) (obj_of (single s (x, f)))).
  assert (U1 : C07Full.uniq_ok m s1) by (apply (C07Full.nd_uniq m s); [apply C07Full.nd_set_store | exact U]).
  pose proof (C07Full.good_update_container m s1 x f (Some y) (obj_of (single s (x, f)))) as [N2 _]. fold s2 in N2.
  intros a h Hu. rewrite C07Full.vals_inv_add'.
  assert (V3 : vals (match obj_of (single s (x, f)) with Some q => inv_del s2 q (x, f) | None => s2 end) = vals s2)
    by (destruct (obj_of (single s (x, f))); reflexivity).
  rewrite V3. apply (C07Full.nd_uniq m s1 s2 N2 U1). exact Hu.
Qed.

Lemma uniq_ok_coll_add_full s (x : oid) (f : fid) pos v :
  C07Full.uniq_ok m s -> C07Full.uniq_ok m (snd (coll_add_full m s (x, f) pos v)).
Proof.
  intros U. unfold coll_add_full. cbv beta iota zeta.
  destruct (check_elem m f v); cbn [negb snd]; [|exact U].
  pose proof (C07Full.nd_uniq m s _ (proj1 (C07Full.good_link_elem m Hwf s x f v)) U) as U1.
  intros a h Hu. cbn [vals set_isset notify push_log set_vals]. unfold upd.
  destruct (cell_eqb_spec (x, f) (a, h)) as [E|N]; [|apply U1; exact Hu].
  inversion E; subst a h. rewrite Hu.
  destruct pos; [apply nodup_raw_insert | apply nodup_raw_append]; apply U1; exact Hu.
Qed.

Lemma uniq_ok_coll_pop_full s (x : oid) (f : fid) i :
  f_many (fd m f) = true -> C07Full.uniq_ok m s -> C07Full.uniq_ok m (snd (fst (coll_pop_full m s (x, f) i))).
Proof. intros M U. exact (C07Full.nd_uniq m s _ (proj1 (C07Full.good_coll_pop_full m s x f i M)) U). Qed.

End UniqOk.

(* a primitive command (Set / Add / Remove / Move) that raises leaves the model as it was; for Move: when the
   elements of the collection pass the type check (the re-insertion after the pop cannot be refused) *)
Lemma prim_raise m s c c1 e s' c2 :
  match c with
  | CMove x f _ _ _ => forall w, In w (vals s (x, f)) -> check_elem m f w = true
  | CDelete _ _ _ | CCompound _ => False
  | _ => True
  end ->
  can_execute m s c = (Ok true, c1) -> execute m s c1 = ((Some e, s'), c2) -> s' = s.
Proof.
  intros Cv HC HE.
  destruct c as [x f v p|x f v idx|x f v idx|x f v from to| |]; try contradiction.
  - cbn [can_execute] in HC. apply pair_eq_inv in HC. destruct HC as [_ Hc]. subst c1.
    cbn [execute] in HE. apply pair_eq_inv in HE. destruct HE as [H1 _]. eapply set_full_raise; exact H1.
  - cbn [can_execute] in HC. destruct (negb (base_can m x f)); [discriminate|].
    destruct (negb (f_many (fd m f))); [discriminate|].
    apply pair_eq_inv in HC. destruct HC as [_ Hc]. subst c1. cbn [execute] in HE.
    destruct idx as [i|]; apply pair_eq_inv in HE; destruct HE as [H1 _]; eapply coll_add_raise; exact H1.
  - cbn [can_execute] in HC. destruct (negb (base_can m x f)); [discriminate|].
    destruct (negb (f_many (fd m f))); [discriminate|].
    assert (EX : exists v1 idx1, c1 = CRemove x f v1 idx1).
    { destruct idx as [i0|].
      - destruct (py_get i0 (vals s (x, f))); apply pair_eq_inv in HC; destruct HC as [_ Hc]; subst c1; eauto.
      - apply pair_eq_inv in HC; destruct HC as [_ Hc]; subst c1; eauto. }
    destruct EX as (v1 & idx1 & Hc). subst c1. cbn [execute] in HE.
    match type of HE with (match ?ri with _ => _ end) = _ => destruct ri as [i|e0] end.
    + destruct (coll_pop_full m s (x, f) i) as [[[e1|] s1] w] eqn:EP;
        apply pair_eq_inv in HE; destruct HE as [H1 _]; [|discriminate].
      inversion H1; subst. eapply coll_pop_raise; exact EP.
    + apply pair_eq_inv in HE. destruct HE as [H1 _]. inversion H1. reflexivity.
  - cbn [can_execute] in HC.
    destruct (negb (base_can m x f)); [discriminate|]. destruct (negb (f_many (fd m f))); [discriminate|].
    assert (EX : exists v1 fr0, c1 = CMove x f v1 fr0 to).
    { destruct (is_none v).
      - destruct from as [i0|]; [|apply pair_eq_inv in HC; destruct HC; discriminate].
        destruct (py_get i0 (vals s (x, f))); apply pair_eq_inv in HC; destruct HC as [_ Hc]; subst c1; eauto.
      - destruct from as [i0|].
        + apply pair_eq_inv in HC; destruct HC as [_ Hc]; subst c1; eauto.
        + destruct (index_of veqb v (vals s (x, f))); apply pair_eq_inv in HC; destruct HC as [_ Hc]; subst c1; eauto. }
    destruct EX as (v1 & fr0 & Hc). subst c1. cbn [execute] in HE. unfold do_move in HE.
    match type of HE with (match coll_pop_full m s (x, f) ?z with _ => _ end) = _ => set (fr := z) in * end.
    destruct (coll_pop_full m s (x, f) fr) as [[[e1|] s1] w] eqn:EP.
    + apply pair_eq_inv in HE. destruct HE as [H1 _]. inversion H1; subst. eapply coll_pop_raise; exact EP.
    + exfalso. destruct (pop_full_inv m s x f fr s1 w EP) as (w' & l1 & Pp & Ew). subst w.
      apply pair_eq_inv in HE. destruct HE as [H1 _].
      pose proof (Cv w' (py_pop_In _ _ _ _ Pp)) as Ck.
      unfold coll_add_full in H1. rewrite Ck in H1. discriminate.
Qed.

Lemma can_execute_many m s c c1 :
  can_execute m s c = (Ok true, c1) ->
  match c with
  | CAdd x f _ _ | CRemove x f _ _ | CMove x f _ _ _ => f_many (fd m f) = true
  | _ => True
  end.
Proof.
  destruct c as [x f v p|x f v idx|x f v idx|x f v from to| |]; try (intros; exact I);
    cbn [can_execute]; destruct (negb (base_can m x f)); try discriminate;
    destruct (f_many (fd m f)); cbn [negb]; try discriminate; reflexivity.
Qed.

(* ---------- the invariant with uniq_ok, and the covered commands with plain reference collections ---------- *)
Definition K2 (m : mm) (s : state) : Prop := K m s /\ C07Full.uniq_ok m s.

Lemma K2_obs_eq m s t : obs_eq s t -> K2 m s -> K2 m t.
Proof.
  intros O [HK HU]. split; [exact (K_obs_eq m s t O HK)|].
  intros a f U. rewrite <- (proj1 O). apply HU. exact U.
Qed.

Section Lift2.
Variable m : mm.
Hypothesis W : wf_mm m.
Hypothesis Hrt : ref_typed m.

Definition covered5 (s : state) (c : cmd) : Prop :=
  covered3 m s c \/
  match c with
  | CAdd x f _ _ | CRemove x f _ _ => f_isref (fd m f) = true /\ loose m f
  | CMove x f v from _ => f_isref (fd m f) = true /\ loose m f /\ (is_none v = true \/ from = None)
  | _ => False
  end.

Lemma K2_cell_wt_loose s (x : oid) (f : fid) :
  K2 m s -> f_isref (fd m f) = true -> f_many (fd m f) = true -> cell_wt m f (vals s (x, f)).
Proof.
  intros [(HW & HT & _) HU] R M. unfold cell_wt. rewrite M. split.
  - intros w Hw. exact (check_elem_of_typed m s x f w HT M Hw).
  - intros U. apply nodupv_of_objs; [|apply HU; exact U].
    intros w Hw. exact (many_ref_objs m Hrt s x f w HT R M Hw).
Qed.

(* uniq_ok after any primitive command that did not raise *)
Lemma uniq_ok_exec s c c1 s' c2 :
  match c with CDelete _ _ _ | CCompound _ => False | _ => True end ->
  C07Full.uniq_ok m s -> can_execute m s c = (Ok true, c1) -> execute m s c1 = ((None, s'), c2) ->
  C07Full.uniq_ok m s'.
Proof.
  intros Hp U HC HE. pose proof (wf_mm_wf_opp m W) as Hwf. pose proof (can_execute_many m s c c1 HC) as M.
  destruct c as [x f v p|x f v idx|x f v idx|x f v from to| |]; try contradiction.
  - cbn [can_execute] in HC. apply pair_eq_inv in HC. destruct HC as [_ <-].
    rewrite (exec_set_state m s x f v p s' c2 HE). apply uniq_ok_set_full; assumption.
  - destruct (exec_add_state m s x f v idx c1 s' c2 HC HE) as (pos & ->). apply uniq_ok_coll_add_full; assumption.
  - destruct (exec_remove_state m s x f v idx c1 s' c2 HC HE) as (i & ->). apply uniq_ok_coll_pop_full; assumption.
  - destruct (exec_move_state m s x f v from to c1 s' c2 HC HE) as (i & j & w & -> & _).
    apply uniq_ok_coll_add_full; [exact Hwf|]. apply uniq_ok_coll_pop_full; assumption.
Qed.

Lemma covered3_prim s c : covered3 m s c -> match c with CDelete _ _ _ | CCompound _ => False | _ => True end.
Proof. destruct c; try (intros; exact I); intros [[]|[[]|[]]]. Qed.

Lemma covered5_exec s c c1 s' c2 :
  K2 m s -> covered5 s c ->
  can_execute m s c = (Ok true, c1) -> execute m s c1 = ((None, s'), c2) ->
  inverts m c2 s s' /\ K2 m s'.
Proof.
  intros [HK HU] [Cv|Cv] HC HE.
  - destruct (covered3_exec m W Hrt s c c1 s' c2 HK Cv HC HE) as (I & HK').
    split; [exact I|]. split; [exact HK'|].
    exact (uniq_ok_exec s c c1 s' c2 (covered3_prim s c Cv) HU HC HE).
  - assert (Hp : match c with CDelete _ _ _ | CCompound _ => False | _ => True end)
      by (destruct c; try exact I; contradiction).
    pose proof (uniq_ok_exec s c c1 s' c2 Hp HU HC HE) as HU'.
    pose proof HK as (HW & HT & HA).
    assert (KK : forall (x : oid) (f : fid) l2, f_isref (fd m f) = true -> loose m f -> only_cell s s' (x, f) l2 ->
                   WF m s' -> typed m s' -> K2 m s').
    { intros x f l2 R L OC HW' HT'. split; [|exact HU']. split; [exact HW'|]. split; [exact HT'|].
      apply (uniq_attr_refcells m s s'); [|exact HA]. intros a h Rh _. rewrite (proj1 OC). apply upd_other.
      apply cell_neq_feat. exact (nonref_neq m h f Rh R). }
    destruct c as [x f v p|x f v idx|x f v idx|x f v from to| |]; try contradiction.
    + destruct Cv as (R & L). pose proof L as (M & Hc & Ho).
      destruct (add_loose_inverts m f L s x v idx c1 s' c2 (K2_cell_wt_loose s x f (conj HK HU) R M) HC HE)
        as (i' & _ & I & OC & _).
      split; [exact I|]. destruct (exec_add_state m s x f v idx c1 s' c2 HC HE) as (pos & Es).
      apply (KK x f _ R L OC); rewrite Es.
      * apply (WF_coll_add_full m W); assumption.
      * apply typed_coll_add_full; [exact HT | exact M | exact (opp_typed_noopp m x f Ho)].
    + destruct Cv as (R & L). pose proof L as (M & Hc & Ho).
      destruct (remove_loose_inverts m f L s x v idx c1 s' c2 (K2_cell_wt_loose s x f (conj HK HU) R M) HC HE)
        as (i & w & l2 & _ & I & OC & _).
      split; [exact I|]. destruct (exec_remove_state m s x f v idx c1 s' c2 HC HE) as (i0 & Es).
      apply (KK x f _ R L OC); rewrite Es.
      * apply (WF_pop m W); assumption.
      * apply typed_coll_pop_full. exact HT.
    + destruct Cv as (R & L & Hx). pose proof L as (M & Hc & Ho).
      destruct (move_loose_inverts m f s x v from to c1 s' c2 L (K2_cell_wt_loose s x f (conj HK HU) R M) Hx HC HE)
        as (fr & w & to' & l2 & _ & I & OC).
      split; [exact I|]. destruct (exec_move_state m s x f v from to c1 s' c2 HC HE) as (i & j & w0 & Es & _).
      apply (KK x f _ R L OC); rewrite Es.
      * apply (WF_coll_add_full m W); [|exact M]. apply (WF_pop m W); assumption.
      * apply typed_coll_add_full; [|exact M | exact (opp_typed_noopp m x f Ho)]. apply typed_coll_pop_full. exact HT.
Qed.

Lemma covered5_raise s c c1 e s' c2 :
  K2 m s -> covered5 s c ->
  can_execute m s c = (Ok true, c1) -> execute m s c1 = ((Some e, s'), c2) -> obs_eq s' s.
Proof.
  intros [HK HU] [Cv|Cv] HC HE.
  - exact (covered3_raise_obs m s c c1 e s' c2 HK Cv HC HE).
  - rewrite (prim_raise m s c c1 e s' c2); [apply obs_eq_refl | | exact HC | exact HE].
    destruct c as [x f v p|x f v idx|x f v idx|x f v from to| |]; try exact I; try contradiction.
    destruct Cv as (R & (M & _) & _). intros w Hw. exact (check_elem_of_typed m s x f w (proj1 (proj2 HK)) M Hw).
Qed.

(* closed under Compound *)
Definition covered6 : state -> cmd -> Prop := okC m covered5.

Theorem all_invariant_of_words s0 w :
  K2 m s0 -> run_ok m covered6 (s0, [], []) w ->
  ginv m (K2 m) (abs (st_run m (s0, empty_stack) w)).
Proof.
  apply (g2_invariant_of_words m (K2 m) covered6 (K2_obs_eq m)).
  - exact (okC_exec m (K2 m) covered5 covered5_exec covered5_raise).
  - exact (okC_raise m (K2 m) covered5 covered5_exec covered5_raise).
Qed.

Theorem all_k_undo_k_redo s0 w k :
  K2 m s0 -> run_ok m covered6 (s0, [], []) w ->
  let ms := st_run m (s0, empty_stack) w in
  (k <= length (done_of (snd ms)))%nat ->
  let ms' := st_run m ms (repeat SUndo k ++ repeat SRedo k) in
  obs_eq (fst ms') (fst ms) /\ snd ms' = snd ms.
Proof.
  apply (g2_k_undo_k_redo_stack m (K2 m) covered6 (K2_obs_eq m)).
  - exact (okC_exec m (K2 m) covered5 covered5_exec covered5_raise).
  - exact (okC_raise m (K2 m) covered5 covered5_exec covered5_raise).
Qed.

End Lift2.

(* ---------- non-vacuity: a metamodel with containment + container end, a plain reference collection and
   attributes: kids (0) <-> parent (1), refs (2), n (3), ns (4); one class, four objects ---------- *)
Definition ex_mm_all : mm :=
  {| feats := [ {| f_owner := 0; f_isref := true; f_many := true; f_unique := true; f_cont := true;
                   f_opp := Some 1; f_type := TClass 0; f_default := VNone |};
                {| f_owner := 0; f_isref := true; f_many := false; f_unique := true; f_cont := false;
                   f_opp := Some 0; f_type := TClass 0; f_default := VNone |};
                {| f_owner := 0; f_isref := true; f_many := true; f_unique := true; f_cont := false;
                   f_opp := None; f_type := TClass 0; f_default := VNone |};
                {| f_owner := 0; f_isref := false; f_many := false; f_unique := true; f_cont := false;
                   f_opp := None; f_type := TInt; f_default := VInt 0 |};
                {| f_owner := 0; f_isref := false; f_many := true; f_unique := true; f_cont := false;
                   f_opp := None; f_type := TInt; f_default := VNone |} ];
     conf := [(0, 0)]; ocls := [0; 0; 0; 0]; enames := []; nres := 1 |}.

Lemma ex_all_premises :
  wf_mm ex_mm_all /\ ref_typed ex_mm_all /\ K2 ex_mm_all (init_state ex_mm_all).
Proof.
  assert (W : wf_mm ex_mm_all).
  { constructor.
    - intros f g. fcase f; intros H; inversion H; reflexivity.
    - intros f g. fcase f; intros H; try reflexivity; discriminate.
    - intros f. fcase f; intros H; try reflexivity; discriminate.
    - intros f. fcase f; intros H _; try reflexivity; discriminate.
    - intros f g. fcase f; intros H H2; try discriminate; inversion H; subst g; split; reflexivity. }
  assert (D : ref_defaults_none ex_mm_all) by (intros f; fcase f; intros H H2; try reflexivity; discriminate).
  split; [exact W|]. split; [|split; [split; [|split]|]].
  - intros f. fcase f; intros H; try discriminate; eexists; reflexivity.
  - exact (WF_init ex_mm_all W D).
  - apply typed_init. intros f. fcase f; intros; reflexivity.
  - intros x f R M _. cbn [vals init_state snd]. rewrite M. reflexivity.
  - intros a f _. cbn [vals init_state snd]. destruct (f_many (fd ex_mm_all f)); [constructor | apply nodup_single].
Qed.

(* a child, two plain references (one of them to the child), a Move and a Remove on the plain collection,
   an attribute, a Compound mixing a plain reference and an attribute collection; undo, undo, redo *)
Definition ex_all_word : list sop :=
  [SExec (CAdd 0 0 (VObj 1) None);
   SExec (CAdd 0 2 (VObj 1) None); SExec (CAdd 0 2 (VObj 2) None);
   SExec (CMove 0 2 VNone (Some 0%Z) 1%Z);
   SExec (CRemove 0 2 (VObj 1) None);
   SExec (CSet 0 3 (VInt 5) VNone);
   SExec (CCompound [CAdd 1 2 (VObj 0) None; CAdd 0 4 (VInt 7) None]);
   SUndo; SUndo; SRedo].

Lemma ex_all_word_ok :
  run_ok ex_mm_all (covered6 ex_mm_all) (init_state ex_mm_all, [], []) ex_all_word.
Proof.
  assert (T : opp_typed ex_mm_all 0 0) by (intros g H; inversion H; reflexivity).
  assert (L2 : loose ex_mm_all 2) by (repeat split).
  unfold ex_all_word. cbn [run_ok gop_ok fst].
  split. { left. right; left. exists 1. split; [reflexivity|]. split; [reflexivity|]. split; [reflexivity|]. split; [unown | exact T]. }
  split. { right. split; [reflexivity | exact L2]. }
  split. { right. split; [reflexivity | exact L2]. }
  split. { right. split; [reflexivity|]. split; [exact L2 | left; reflexivity]. }
  split. { right. split; [reflexivity | exact L2]. }
  split. { left. left. split; [left; reflexivity | reflexivity]. }
  split.
  { split; [|vm_compute; intros _; reflexivity].
    split; [right; split; [reflexivity | exact L2]|]. split; [vm_compute; reflexivity|]. intros _.
    split; [left; left; split; reflexivity|]. split; [vm_compute; reflexivity|]. intros _. exact I. }
  repeat split.
Qed.

Example ex_all_word_result :
  let ms := st_run ex_mm_all (init_state ex_mm_all, empty_stack) ex_all_word in
  vals (fst ms) (0, 0) = [VObj 1] /\ vals (fst ms) (0, 2) = [VObj 2] /\ vals (fst ms) (0, 3) = [VInt 5] /\
  vals (fst ms) (1, 2) = [] /\ vals (fst ms) (0, 4) = [] /\ cont (fst ms) 1 = Some (0, 0) /\ sidx (snd ms) = 5%Z /\
  let ms1 := st_run ex_mm_all ms [SRedo] in
  vals (fst ms1) (1, 2) = [VObj 0] /\ vals (fst ms1) (0, 4) = [VInt 7] /\
  let ms2 := st_run ex_mm_all ms1 (repeat SUndo 6 ++ repeat SRedo 6) in
  vals (fst ms2) (0, 2) = [VObj 2] /\ vals (fst ms2) (1, 2) = [VObj 0] /\ vals (fst ms2) (0, 0) = [VObj 1] /\
  sidx (snd ms2) = 6%Z /\
  let ms3 := st_run ex_mm_all ms1 (repeat SUndo 4) in
  vals (fst ms3) (0, 2) = [VObj 1; VObj 2].
Proof. vm_compute. repeat split; reflexivity. Qed.
