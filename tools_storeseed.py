#!/venv/bin/python
"""usage: tools_storeseed.py <srcdir> <name> <detected:0|1> <text>  -- copies a confirmed seeded change into /verif/seeded/<name>"""
import json, os, shutil, sys
src, name, det, text = sys.argv[1], sys.argv[2], sys.argv[3] == '1', sys.argv[4]
dst = f'/verif/seeded/{name}'
os.makedirs(dst, exist_ok=True)
for f in ('patch.diff', 'demo.py'):
    shutil.copy(os.path.join(src, f), os.path.join(dst, f))
try:
    meta = json.load(open(os.path.join(src, 'meta.json')))
except Exception:
    meta = {}
meta['detected'] = det
meta['detection'] = text
meta['round'] = 2
json.dump(meta, open(os.path.join(dst, 'meta.json'), 'w'), indent=1)
print('stored', dst)
