(* Executable model of pyecore/commands.py on top of the kernel model
   (Model/Kernel.v): the commands Set / Add / Remove / Move / Delete / Compound
   as data carrying the fields the Python objects record (previous_value,
   index, value, from_index/to_index, Delete's snapshot), their can_execute /
   execute / can_undo / undo / redo as state transformers built from the
   kernel's procedures statement by statement, and the CommandStack (list +
   stack_index, `top` setter and deleter, execute / undo / redo with their
   exceptions).  Token codec run_commands at the end.  No proofs here.

   Python                                   here
   owner.eGet(f) on a foreign feature       AttrErr (getattr fails)
   owner.eSet(f, v)                         set_full
   collection.insert(i, v) / append(v)      coll_add_full (Some i) / None
   collection.pop(i)                        coll_pop_full
   collection.extend(vs)                    coll_extend_full
   collection.index(v)                      index_of veqb (KeyError / ValueError)
   collection[i]                            py_get (IndexError)
   owner.delete()                           delete_obj ... true                 *)
From Coq Require Import ZArith List Bool Arith.
From PyecoreV Require Import Lib.PyBase Lib.PyList Model.Kernel Model.KernelIO.
Import ListNotations.
Open Scope Z_scope.

(* ---------- commands as data ---------- *)
(* Delete's snapshot: for every element of the deleted subtree its own
   references with a copy of their content, and the inverse references
   (index, holder cell) recorded by can_execute *)
Definition refsnap := list (oid * list (fid * list value)).
Definition invsnap := list (oid * list (Z * cell)).

Inductive cmd : Type :=
| CSet (x : oid) (f : fid) (v prev : value)                      (* value, previous_value *)
| CAdd (x : oid) (f : fid) (v : value) (idx : option Z)          (* value, index *)
| CRemove (x : oid) (f : fid) (v : value) (idx : option Z)       (* value (VNone = None), index *)
| CMove (x : oid) (f : fid) (v : value) (from : option Z) (to : Z)
| CDelete (x : oid) (refs : refsnap) (invs : invsnap)
| CCompound (cs : list cmd).

Definition is_none (v : value) : bool := match v with VNone => true | _ => false end.

(* `a is b` on the generated values: same kind and same payload *)
Definition value_is (a b : value) : bool :=
  match a, b with
  | VNone, VNone => true
  | VObj x, VObj y => Nat.eqb x y
  | VInt x, VInt y => Z.eqb x y
  | VStr x, VStr y => Z.eqb x y
  | VBool x, VBool y => Bool.eqb x y
  | VLit e l, VLit e' l' => Nat.eqb e e' && Nat.eqb l l'
  | VFlt x, VFlt y => Z.eqb x y
  | _, _ => false
  end.

(* AbstractCommand.can_execute: the feature object is the one the owner's class finds under that name *)
Definition base_can (m : mm) (x : oid) (f : fid) : bool := applicable m x f.

(* ---------- Delete._snapshot (first statement of do_execute) ---------- *)
Definition delete_elements (m : mm) (s : state) (x : oid) : list oid :=
  x :: eallcontents (S (length (ocls m))) m s x.

Definition snap_refs (m : mm) (s : state) (els : list oid) : refsnap :=
  map (fun e => (e, map (fun f => (f, vals s (e, f))) (ref_feats m e))) els.

(* obj.eGet(reference).index(element) raises when the element is not there *)
Fixpoint snap_inv_one (m : mm) (s : state) (e : oid) (cs : list cell) : res (list (Z * cell)) :=
  match cs with
  | [] => Ok []
  | c :: r =>
    let i := if f_many (fd m (snd c))
             then match index_of veqb (VObj e) (vals s c) with
                  | Some n => Ok (Z.of_nat n)
                  | None => Err (lookup_err m (snd c))
                  end
             else Ok 0 in
    bindr i (fun i' => bindr (snap_inv_one m s e r) (fun r' => Ok ((i', c) :: r')))
  end.

Fixpoint snap_invs (m : mm) (s : state) (els : list oid) : res invsnap :=
  match els with
  | [] => Ok []
  | e :: r =>
    bindr (snap_inv_one m s e (inv s e)) (fun a => bindr (snap_invs m s r) (fun b => Ok ((e, a) :: b)))
  end.

(* ---------- can_execute (a property with side effects on the command) ---------- *)
Fixpoint can_execute (m : mm) (s : state) (c : cmd) {struct c} : res bool * cmd :=
  match c with
  | CSet x f v p => (Ok (base_can m x f && negb (f_many (fd m f))), c)
  | CAdd x f v idx =>
    if negb (base_can m x f) then (Err AttrErr, c)            (* self.owner.eGet(self.feature) *)
    else if negb (f_many (fd m f)) then (Err TypeErr, c)      (* outside the modelled domain *)
    else (Ok (negb (is_none v) && negb (f_unique (fd m f) && vmem v (vals s (x, f)))), c)
  | CRemove x f v idx =>
    if negb (base_can m x f) then (Err AttrErr, c)
    else if negb (f_many (fd m f)) then (Err TypeErr, c)
    else match idx with
         | None => (Ok (negb (is_none v)), c)
         | Some i => match py_get i (vals s (x, f)) with
                     | Some w => (Ok true, CRemove x f w idx)
                     | None => (Err IndexErr, c)
                     end
         end
  | CMove x f v from to =>
    if negb (base_can m x f) then (Err AttrErr, c)
    else if negb (f_many (fd m f)) then (Err TypeErr, c)
    else
      let l := vals s (x, f) in
      (* if self.value is None: self.value = self._collection[self.from_index] *)
      let rv := if is_none v
                then match from with
                     | Some i => match py_get i l with Some w => Ok w | None => Err IndexErr end
                     | None => Err TypeErr
                     end
                else Ok v in
      match rv with
      | Err e => (Err e, c)
      | Ok v1 =>
        (* if self.from_index is None: self.from_index = self._collection.index(self.value) *)
        match from with
        | Some i => (Ok (vmem v1 l), CMove x f v1 from to)
        | None => match index_of veqb v1 l with
                  | Some n => (Ok (vmem v1 l), CMove x f v1 (Some (Z.of_nat n)) to)
                  | None => (Err (lookup_err m f), CMove x f v1 from to)
                  end
        end
      end
  | CDelete x _ _ => (Ok true, c)
  | CCompound cs =>
    (* all(command.can_execute for command in self): stops at the first False *)
    let fix go (l : list cmd) : res bool * list cmd :=
        match l with
        | [] => (Ok true, [])
        | c1 :: r =>
          match can_execute m s c1 with
          | (Ok true, c1') => let '(b, r') := go r in (b, c1' :: r')
          | (b, c1') => (b, c1' :: r)
          end
        end in
    let '(b, cs') := go cs in (b, CCompound cs')
  end.

(* ---------- undo ---------- *)
Definition raised (o : outcome) : bool := match fst o with Some _ => true | None => false end.

Definition idx_or0 (i : option Z) : Z := match i with Some z => z | None => 0 end.

(* Delete.undo, first loop: the deleted elements get their own references back *)
Fixpoint restore_refs_one (m : mm) (e : oid) (l : list (fid * list value)) (s : state) : outcome :=
  match l with
  | [] => (None, s)
  | (f, content) :: r =>
    let o := if f_many (fd m f) then coll_extend_full m s (e, f) content
             else set_full m s (e, f) (hdv content) in
    seq_outcome o (restore_refs_one m e r)
  end.

Fixpoint restore_refs (m : mm) (l : refsnap) (s : state) : outcome :=
  match l with
  | [] => (None, s)
  | (e, rl) :: r => seq_outcome (restore_refs_one m e rl s) (restore_refs m r)
  end.

(* second loop: the holders without opposite get the element back at the recorded index; the entries of all
   deleted elements are taken in ascending index (sorted(..., key=index) is stable) *)
Definition flat_invs (l : invsnap) : list (Z * (oid * cell)) :=
  flat_map (fun ei => map (fun ic => (fst ic, (fst ei, snd ic))) (snd ei)) l.

Fixpoint ins_sorted (a : Z * (oid * cell)) (l : list (Z * (oid * cell))) : list (Z * (oid * cell)) :=
  match l with
  | [] => [a]
  | b :: r => if fst a <? fst b then a :: l else b :: ins_sorted a r
  end.

Definition sort_invs (l : list (Z * (oid * cell))) : list (Z * (oid * cell)) :=
  fold_left (fun acc a => ins_sorted a acc) l [].

Fixpoint restore_sorted (m : mm) (l : list (Z * (oid * cell))) (s : state) : outcome :=
  match l with
  | [] => (None, s)
  | (i, (e, c)) :: r =>
    let o := if f_many (fd m (snd c)) then coll_add_full m s c (Some i) (VObj e)
             else set_full m s c (VObj e) in
    seq_outcome o (restore_sorted m r)
  end.

Definition restore_invs (m : mm) (l : invsnap) (s : state) : outcome :=
  restore_sorted m (sort_invs (flat_invs l)) s.

Fixpoint undo (m : mm) (s : state) (c : cmd) {struct c} : outcome * cmd :=
  match c with
  | CSet x f v p => (set_full m s (x, f) p, c)
  | CAdd x f v idx => (fst (coll_pop_full m s (x, f) (idx_or0 idx)), c)
  | CRemove x f v idx => (coll_add_full m s (x, f) (Some (idx_or0 idx)) v, c)
  | CMove x f v from to =>
    (* self.value = self._collection.pop(self.to_index); self._collection.insert(self.from_index, self.value) *)
    match coll_pop_full m s (x, f) to with
    | ((Some e, s1), _) => ((Some e, s1), c)
    | ((None, s1), w) =>
      let v1 := match w with Some w' => w' | None => v end in
      (coll_add_full m s1 (x, f) (Some (idx_or0 from)) v1, CMove x f v1 from to)
    end
  | CDelete x r i => (seq_outcome (restore_refs m r s) (restore_invs m i), c)
  | CCompound cs =>
    (* for command in reversed(self): command.undo()  -- the tail is undone before the head *)
    let fix go (s0 : state) (l : list cmd) : outcome * list cmd :=
        match l with
        | [] => ((None, s0), [])
        | c1 :: r =>
          let '(o, r') := go s0 r in
          if raised o then (o, c1 :: r')
          else let '(o', c1') := undo m (snd o) c1 in (o', c1' :: r')
        end in
    let '(o, cs') := go s cs in (o, CCompound cs')
  end.

(* ---------- execute ---------- *)
(* position list.insert / OrderedSet.insert really uses *)
Definition ins_pos (len i : Z) : Z := clamp_index len i.

Definition do_move (m : mm) (s : state) (x : oid) (f : fid) (v : value) (from : option Z) (to : Z)
  : outcome * cmd :=
  let l := vals s (x, f) in
  let fr := match from with Some i => if i <? 0 then i + zlen l else i | None => 0 end in
  match coll_pop_full m s (x, f) fr with
  | ((Some e, s1), _) => ((Some e, s1), CMove x f v (Some fr) to)
  | ((None, s1), w) =>
    let v1 := match w with Some w' => w' | None => v end in
    let to' := ins_pos (zlen (vals s1 (x, f))) to in
    (coll_add_full m s1 (x, f) (Some to') v1, CMove x f v1 (Some fr) to')
  end.

(* Delete.do_execute: self._snapshot(); self.owner.delete() *)
Definition do_delete (m : mm) (s : state) (x : oid) : outcome * cmd :=
  let els := delete_elements m s x in
  match snap_invs m s els with
  | Ok iv => ((None, delete_obj (S (length (ocls m))) m s x true), CDelete x (snap_refs m s els) iv)
  | Err e => ((Some e, s), CDelete x [] [])
  end.

(* the except branch of Compound.execute: l = executed members, most recent first; an undo that
   raises replaces the exception being handled *)
Fixpoint rollback (m : mm) (l : list cmd) (s : state) : outcome :=
  match l with
  | [] => (None, s)
  | c :: r => let o := fst (undo m s c) in if raised o then o else rollback m r (snd o)
  end.

Fixpoint execute (m : mm) (s : state) (c : cmd) {struct c} : outcome * cmd :=
  match c with
  | CSet x f v _ =>
    (* self.previous_value = object_.eGet(self.feature); object_.eSet(self.feature, self.value) *)
    (set_full m s (x, f) v, CSet x f v (single s (x, f)))
  | CAdd x f v idx =>
    match idx with
    | Some i =>
      let i' := ins_pos (zlen (vals s (x, f))) i in
      (coll_add_full m s (x, f) (Some i') v, CAdd x f v (Some i'))
    | None =>
      (coll_add_full m s (x, f) None v, CAdd x f v (Some (zlen (vals s (x, f)))))
    end
  | CRemove x f v idx =>
    let l := vals s (x, f) in
    let ri := match idx with
              | None => match index_of veqb v l with
                        | Some n => Ok (Z.of_nat n)
                        | None => Err (lookup_err m f)
                        end
              | Some i => Ok (if i <? 0 then i + zlen l else i)
              end in
    match ri with
    | Err e => ((Some e, s), c)
    | Ok i =>
      let '(o, w) := coll_pop_full m s (x, f) i in
      (o, CRemove x f (match w with Some w' => w' | None => v end) (Some i))
    end
  | CMove x f v from to => do_move m s x f v from to
  | CDelete x _ _ => do_delete m s x
  | CCompound cs =>
    (* executed = []; try: for command in self: command.execute(); executed.append(command)
       except: for command in reversed(executed): command.undo(); raise *)
    let fix go (s0 : state) (acc : list cmd) (l : list cmd) : outcome * list cmd * list cmd :=
        match l with
        | [] => ((None, s0), [], acc)
        | c1 :: r =>
          let '(o, c1') := execute m s0 c1 in
          if raised o then (o, c1' :: r, acc)
          else let '(o', r', acc') := go (snd o) (c1' :: acc) r in (o', c1' :: r', acc')
        end in
    let '(o, cs', acc) := go s [] cs in
    match o with
    | (Some e, s1) =>
      let o2 := rollback m acc s1 in
      ((Some (match fst o2 with Some e2 => e2 | None => e end), snd o2), CCompound cs')
    | _ => (o, CCompound cs')
    end
  end.

(* ---------- can_undo ---------- *)
Fixpoint can_undo (m : mm) (s : state) (c : cmd) {struct c} : res bool :=
  match c with
  | CSet _ _ _ _ => Ok true
  | CAdd x f v _ => Ok (vmem v (vals s (x, f)))
  | CRemove _ _ _ _ => Ok true
  | CMove x f v _ to =>
    match py_get to (vals s (x, f)) with
    | Some w => Ok (value_is w v)
    | None => Err IndexErr
    end
  | CDelete _ _ _ => Ok true
  | CCompound cs =>
    let fix go (l : list cmd) : res bool :=
        match l with
        | [] => Ok true
        | c1 :: r => match can_undo m s c1 with Ok true => go r | b => b end
        end in
    go cs
  end.

(* ---------- redo ---------- *)
Fixpoint redo (m : mm) (s : state) (c : cmd) {struct c} : outcome * cmd :=
  match c with
  | CSet x f v p => (set_full m s (x, f) v, c)
  | CAdd x f v idx => (coll_add_full m s (x, f) (Some (idx_or0 idx)) v, c)
  | CRemove x f v idx => (fst (coll_pop_full m s (x, f) (idx_or0 idx)), c)
  | CMove x f v from to => do_move m s x f v from to
  | CDelete x _ _ => do_delete m s x
  | CCompound cs =>
    let fix go (s0 : state) (l : list cmd) : outcome * list cmd :=
        match l with
        | [] => ((None, s0), [])
        | c1 :: r =>
          let '(o, c1') := redo m s0 c1 in
          if raised o then (o, c1' :: r)
          else let '(o', r') := go (snd o) r in (o', c1' :: r')
        end in
    let '(o, cs') := go s cs in (o, CCompound cs')
  end.

(* ---------- CommandStack ---------- *)
Record cstack : Type := { items : list cmd; sidx : Z }.     (* self.stack, self.stack_index *)

Definition empty_stack : cstack := {| items := []; sidx := -1 |}.

Definition dummy_cmd : cmd := CCompound [].

Definition item_at (k : cstack) (i : Z) : cmd := nth (Z.to_nat i) (items k) dummy_cmd.

Definition put_at (k : cstack) (i : Z) (c : cmd) : cstack :=
  {| items := set_at (Z.to_nat i) c (items k); sidx := sidx k |}.

(* @top.setter:  index = self.stack_index + 1; self.stack[index:] = [command]; self.stack_index = index *)
Definition top_set (k : cstack) (c : cmd) : cstack :=
  let index := sidx k + 1 in
  {| items := firstn (Z.to_nat index) (items k) ++ [c]; sidx := index |}.

(* @top.deleter *)
Definition top_del (k : cstack) : cstack := {| items := items k; sidx := sidx k - 1 |}.

Definition mstate := (state * cstack)%type.

Inductive sop : Type := SExec (c : cmd) | SUndo | SRedo.

(* CommandStack.execute(command) *)
Definition st_execute (m : mm) (ms : mstate) (c : cmd) : option exn * mstate :=
  let '(s, k) := ms in
  match can_execute m s c with
  | (Err e, _) => (Some e, ms)
  | (Ok false, _) => (Some ValueErr, ms)
  | (Ok true, c1) =>
    let '(o, c2) := execute m s c1 in
    match o with
    | (Some e, s') => (Some e, (s', k))
    | (None, s') => (None, (s', top_set k c2))
    end
  end.

(* CommandStack.undo() *)
Definition st_undo (m : mm) (ms : mstate) : option exn * mstate :=
  let '(s, k) := ms in
  if negb (-1 <? sidx k) then (Some IndexErr, ms) else
  let c := item_at k (sidx k) in
  match can_undo m s c with
  | Err e => (Some e, ms)
  | Ok false => (None, ms)
  | Ok true =>
    let '(o, c') := undo m s c in
    let k' := put_at k (sidx k) c' in
    match o with
    | (Some e, s') => (Some e, (s', k'))
    | (None, s') => (None, (s', top_del k'))
    end
  end.

(* CommandStack.redo():  self.peek_next_top.redo(); self.stack_index += 1 *)
Definition st_redo (m : mm) (ms : mstate) : option exn * mstate :=
  let '(s, k) := ms in
  let n := sidx k + 1 in
  if negb (n <? zlen (items k)) then (Some IndexErr, ms) else
  let c := item_at k n in
  let '(o, c') := redo m s c in
  let k' := put_at k n c' in
  match o with
  | (Some e, s') => (Some e, (s', k'))
  | (None, s') => (None, (s', {| items := items k'; sidx := n |}))
  end.

Definition st_step (m : mm) (ms : mstate) (o : sop) : option exn * mstate :=
  match o with
  | SExec c => st_execute m ms c
  | SUndo => st_undo m ms
  | SRedo => st_redo m ms
  end.

Definition st_run (m : mm) (ms : mstate) (w : list sop) : mstate :=
  fold_left (fun acc o => snd (st_step m acc o)) w ms.

(* ---------- token codec ---------- *)
(* a primitive command: kind x f has_idx idx has_from from to vtag vpayload  (10 tokens)
   a compound:          6 n  followed by n commands                                       *)
Definition dec_opt (has i : Z) : option Z := if has =? 0 then None else Some i.

Fixpoint dec_cmd (fuel : nat) (t : list Z) : cmd * list Z :=
  match fuel with
  | O => (dummy_cmd, [])
  | S fu =>
    match t with
    | 6 :: n :: rest =>
      let fix go (k : nat) (t0 : list Z) : list cmd * list Z :=
          match k with
          | O => ([], t0)
          | S k' => let '(c, r) := dec_cmd fu t0 in
                    let '(cs, r') := go k' r in (c :: cs, r')
          end in
      let '(cs, r) := go (zn n) rest in (CCompound cs, r)
    | kind :: x :: f :: hi :: i :: hf :: fr :: to :: vt :: vp :: rest =>
      let v := dec_value vt vp in
      (match kind with
       | 1 => CSet (zn x) (zn f) v VNone
       | 2 => CAdd (zn x) (zn f) v (dec_opt hi i)
       | 3 => CRemove (zn x) (zn f) v (dec_opt hi i)
       | 4 => CMove (zn x) (zn f) v (dec_opt hf fr) to
       | _ => CDelete (zn x) [] []
       end, rest)
    | _ => (dummy_cmd, [])
    end
  end.

(* a stack operation: 0 <command> | 1 (undo) | 2 (redo) *)
Fixpoint dec_word (fuel : nat) (t : list Z) : list sop :=
  match fuel with
  | O => []
  | S fu =>
    match t with
    | 0 :: rest => let '(c, r) := dec_cmd (length rest) rest in SExec c :: dec_word fu r
    | 1 :: rest => SUndo :: dec_word fu rest
    | 2 :: rest => SRedo :: dec_word fu rest
    | _ => []
    end
  end.

(* after every stack operation: outcome + new notifications + full dump, in the kernel's encoding *)
Fixpoint run_word (m : mm) (ms : mstate) (w : list sop) : list Z :=
  match w with
  | [] => []
  | o :: rest =>
    let '(e, ms') := st_step m ms o in
    enc_step m (fst ms) ((e, fst ms'), None) ++ run_word m ms' rest
  end.

(* stack_index and len(stack) after every stack operation (trailer of the answer) *)
Fixpoint run_word_stack (m : mm) (ms : mstate) (w : list sop) : list Z :=
  match w with
  | [] => []
  | o :: rest =>
    let ms' := snd (st_step m ms o) in
    [sidx (snd ms'); zlen (items (snd ms'))] ++ run_word_stack m ms' rest
  end.

(* tokens: <metamodel+universe> nh <nh tokens: kernel history> <word> *)
Definition run_commands (t : list Z) : list Z :=
  let '(m, rest) := dec_mm t in
  match rest with
  | nh :: rest1 =>
    let h := firstn (zn nh) rest1 in
    let wt := skipn (zn nh) rest1 in
    let s0 := fold_left (next m) (dec_ops (length h) h) (init_state m) in
    let w := dec_word (length wt) wt in
    run_word m (s0, empty_stack) w ++ run_word_stack m (s0, empty_stack) w
  | [] => []
  end.
