"""C16 — save() only observes the model and never destroys the previous file.

  implementation (XMIResource.save / JsonResource.save on generated models)
     <-> oracle   : (purity) public observations before/after a save are equal,
                    (idempotence) two consecutive saves write the same bytes,
                    (failsafe) a save that raises leaves the pre-filled target bytes in place
     <-> Coq model: Model/SaveFs.v run with the order of effects TRANSLATED from the
                    source (translator/saveorder_gen.py -> Gen/SaveOrder.v): predicted
                    outcome (done/raised) and content of the target for every planted fault
  Coq model <-> property: theorems of Props/C16.v.

Fault enumeration: for every object position of every generated model, plant
  tostring-raises     an attribute whose data type's to_string raises
  tostring-nonstring  an attribute whose data type's to_string returns a non-string
  orphan-child        a contained object whose EClass is in no EPackage
  orphan-ref          a referenced object whose EClass is in no EPackage
  orphan-root         (positions = roots) a root whose EClass is in no EPackage
  lone-surrogate      a string attribute holding a lone surrogate (a str that UTF-8 cannot encode)
  ns-no-uri / ns-empty-prefix / ns-bad-prefix   (once per model) the EPackage of the model has no nsURI, an empty
                      nsPrefix, an nsPrefix that is not an XML name: fails in the NAMESPACE step, after the traversal
and for every annotation of every generated metamodel-as-model
  annotation-detail-int / annotation-detail-object   a non-string annotation detail."""
import datetime
import hashlib
import json
import os
import tempfile
import time

from harness import common

PID = 'C16'
FMT_CODE = {'xmi': 0, 'json': 1}
INSTANCE_FAULTS = ['tostring-raises', 'tostring-nonstring', 'orphan-child', 'orphan-ref', 'orphan-root',
                   'lone-surrogate', 'ns-no-uri', 'ns-empty-prefix', 'ns-bad-prefix']
# kinds whose effect depends on the model or on the serialiser's settings: the outcome (raised or saved) is taken
# as observed and the phase below applies when it raised; what is compared is the CONTENT of the target
OBSERVED_OUTCOME = {'ns-no-uri': 'ns', 'ns-empty-prefix': 'ns', 'ns-bad-prefix': 'ns', 'lone-surrogate': 'bytes'}
SURROGATE = 'caf\udce9.txt'       # what os.fsdecode gives for a non-UTF-8 file name: a str UTF-8 cannot encode
NS_FAULTS = {'ns-no-uri', 'ns-empty-prefix', 'ns-bad-prefix'}    # model-wide: planted once (position 0)
ECORE_FAULTS = ['annotation-detail-int', 'annotation-detail-object']
# What the implementation is expected to do with a planted fault: phase in which the
# save raises ('build' | 'encode'), or None when the element is serialisable after all
# (JSON writes any annotation detail through str()).  Validated by the correspondence.
PHASE = {
    ('xmi', 'tostring-raises'): 'build', ('json', 'tostring-raises'): 'build',
    ('xmi', 'tostring-nonstring'): 'build', ('json', 'tostring-nonstring'): 'encode',
    ('xmi', 'orphan-child'): 'build', ('json', 'orphan-child'): 'build',
    ('xmi', 'orphan-ref'): 'build', ('json', 'orphan-ref'): 'build',
    ('xmi', 'orphan-root'): 'build', ('json', 'orphan-root'): 'build',
    # the package of the model has no nsURI / an nsPrefix that is empty or not an XML name: the traversal
    # succeeds, lxml refuses the namespace map when the root element is created (JSON does not care)
    ('xmi', 'ns-no-uri'): 'ns', ('json', 'ns-no-uri'): None,
    ('xmi', 'ns-empty-prefix'): 'ns', ('json', 'ns-empty-prefix'): None,
    ('xmi', 'ns-bad-prefix'): 'ns', ('json', 'ns-bad-prefix'): None,
    # a string with a lone surrogate: lxml refuses it when the attribute is set (construction); json.dumps escapes
    # it (ensure_ascii) and the save succeeds - were it written unescaped, .encode('utf-8') would raise
    ('xmi', 'lone-surrogate'): 'build', ('json', 'lone-surrogate'): None,
    ('xmi', 'annotation-detail-int'): 'build', ('json', 'annotation-detail-int'): None,
    ('xmi', 'annotation-detail-object'): 'build', ('json', 'annotation-detail-object'): None,
}


class Opaque:
    """A value no serialiser knows."""

    def __repr__(self):
        return 'Opaque()'


# ----------------------------------------------------------------------------
# metamodel of the instance models (fresh objects at every call)

def make_mm():
    common.use_repo()
    from pyecore.ecore import (EClass, EAttribute, EReference, EPackage, EDataType, EEnum, EString, EInt,
                               EBoolean, EFloat, EDate)

    def boom(v):
        raise ValueError('this value has no textual form')

    Bad = EDataType('Bad', Opaque, to_string=boom)
    BadNS = EDataType('BadNS', Opaque, to_string=lambda v: v)
    Color = EEnum('Color', literals=['RED', 'GREEN', 'BLUE'])
    pk = EPackage('shop', nsURI='http://verif/c16/shop', nsPrefix='shop')
    Node = EClass('Node')
    Leaf = EClass('Leaf', superclass=(Node,))
    Node.eStructuralFeatures.extend([
        EAttribute('name', EString), EAttribute('n', EInt), EAttribute('flag', EBoolean),
        EAttribute('ratio', EFloat), EAttribute('col', Color), EAttribute('when', EDate),
        EAttribute('tags', EString, upper=-1), EAttribute('nums', EInt, upper=-1),
        EAttribute('bad', Bad), EAttribute('badns', BadNS),
        EReference('kids', Node, upper=-1, containment=True),
        EReference('one', Node, containment=True),
        EReference('peer', Node), EReference('friends', Node, upper=-1)])
    owned = EReference('owned', Node, upper=-1, containment=True)
    owner = EReference('owner', Node, eOpposite=owned)
    Node.eStructuralFeatures.extend([owned, owner])
    Leaf.eStructuralFeatures.append(EAttribute('extra', EString, default_value='dflt'))
    pk.eClassifiers.extend([Node, Leaf, Color, Bad, BadNS])
    Orphan = EClass('Orphan', superclass=(Node,))      # deliberately in no EPackage
    # a second package, created WITHOUT nsPrefix (only used by the 'prefixless' scenario family)
    pk2 = EPackage('extra', nsURI='http://verif/c16/extra')
    Extra = EClass('Extra', superclass=(Node,))
    pk2.eClassifiers.append(Extra)
    return {'pk': pk, 'Node': Node, 'Leaf': Leaf, 'Orphan': Orphan, 'Color': Color, 'pk2': pk2, 'Extra': Extra}


STRINGS = ['', 'a', 'two words', ' lead', 'x<y&z>"q\'', 'héllo 世', 'tab\there', 'line\nbreak', '0', 'None']


def gen_instance_spec(rng, nmax):
    n = rng.randint(1, nmax)
    objs = []
    for i in range(n):
        o = {'cls': rng.choice(['Node', 'Node', 'Leaf']), 'parent': None, 'via': None, 'res': 0, 'attrs': {},
             'peer': None, 'friends': []}
        if i > 0 and rng.random() < 0.85:
            cands = list(range(i))
            rng.shuffle(cands)
            for p in cands:
                via = rng.choice(['kids', 'kids', 'one', 'owned'])
                if via == 'one' and any(q['parent'] == p and q['via'] == 'one' for q in objs):
                    continue
                o['parent'], o['via'] = p, via
                break
        elif i > 0:
            o['res'] = rng.choice([0, 1, 1])
        a = o['attrs']
        if rng.random() < 0.8:
            a['name'] = rng.choice(STRINGS + [None])
        if rng.random() < 0.6:
            a['n'] = rng.choice([0, 1, -7, 2 ** 40, None])
        if rng.random() < 0.5:
            a['flag'] = rng.choice([True, False, None])
        if rng.random() < 0.4:
            a['ratio'] = rng.choice([0.0, 1.5, -2.25, 1e100, None])
        if rng.random() < 0.4:
            a['col'] = rng.choice(['RED', 'GREEN', 'BLUE', None])
        if rng.random() < 0.3:
            a['when'] = rng.choice(['2020-02-29T12:30:00', '1999-12-31T23:59:59.000123', None])
        if rng.random() < 0.5:
            a['tags'] = [rng.choice(STRINGS) for _ in range(rng.randint(0, 3))]
        if rng.random() < 0.4:
            a['nums'] = [rng.choice([0, 5, -1, 5]) for _ in range(rng.randint(0, 3))]
        if o['cls'] == 'Leaf' and rng.random() < 0.6:
            a['extra'] = rng.choice(['dflt', 'other', None])
        objs.append(o)
    for i, o in enumerate(objs):
        if rng.random() < 0.5:
            o['peer'] = rng.randrange(n)
        if rng.random() < 0.4:
            o['friends'] = sorted(set(rng.randrange(n) for _ in range(rng.randint(1, 3))))
    # resource of a contained object = resource of its root
    for i, o in enumerate(objs):
        j = i
        while objs[j]['parent'] is not None:
            j = objs[j]['parent']
        o['res'] = objs[j]['res']
    if all(o['res'] == 1 for o in objs):
        for o in objs:
            o['res'] = 0
    preset = rng.random() < 0.3     # some objects already carry an id before the first save
    return {'kind': 'instance', 'objs': objs, 'ext_uuid': rng.random() < 0.5,
            'preset_ids': [i for i in range(n) if preset and rng.random() < 0.5]}


def gen_ecore_spec(rng, nmax):
    ncls = rng.randint(1, max(1, nmax // 2))

    def annots():
        out = []
        for _ in range(rng.choice([0, 1, 1, 2])):
            out.append({'source': rng.choice(['doc', 'http://x/y', 'gen model']),
                        'details': {rng.choice(['k', 'documentation', 'a b']) + str(j): rng.choice(STRINGS)
                                    for j in range(rng.randint(0, 2))}})
        return out
    classes = []
    for i in range(ncls):
        classes.append({'name': f'C{i}', 'abstract': rng.random() < 0.2,
                        'supers': [j for j in range(i) if rng.random() < 0.3],
                        'attrs': [{'name': f'a{k}', 'type': rng.choice(['EString', 'EInt', 'EBoolean']),
                                   'upper': rng.choice([1, 1, -1]), 'annots': annots()}
                                  for k in range(rng.randint(0, 2))],
                        'refs': [{'name': f'r{k}', 'target': rng.randrange(ncls), 'containment': rng.random() < 0.4,
                                  'upper': rng.choice([1, -1])} for k in range(rng.randint(0, 2))],
                        'annots': annots()})
    spec = {'kind': 'ecore', 'classes': classes, 'annots': annots()}
    if count_annots(spec) == 0:
        spec['annots'] = [{'source': 'doc', 'details': {'k0': 'v'}}]
    return spec


def count_annots(spec):
    return len(spec['annots']) + sum(len(c['annots']) + sum(len(a['annots']) for a in c['attrs'])
                                     for c in spec['classes'])


class Built:
    """A model built from a spec: resources, universe of objects, fault positions."""


def build(spec, d, fmt, use_uuid, indent=None):
    """Build the model of `spec` into fresh resources located in directory d."""
    common.use_repo()
    from pyecore.resources import ResourceSet, URI
    from pyecore.resources.json import JsonResource
    b = Built()
    b.rset = ResourceSet()
    b.rset.resource_factory['json'] = lambda uri, **kw: JsonResource(uri, indent=indent, **kw)
    b.path = os.path.join(d, 'model.' + fmt)
    b.res = b.rset.create_resource(URI(b.path), use_uuid=use_uuid)
    b.resources = [b.res]
    if spec['kind'] == 'instance':
        mm = make_mm()
        b.mm = mm
        b.ext = b.rset.create_resource(URI(os.path.join(d, 'ext.' + fmt)), use_uuid=spec['ext_uuid'])
        b.resources.append(b.ext)
        objs = []
        for o in spec['objs']:
            x = mm[o['cls']]()
            for k, v in o['attrs'].items():
                if isinstance(v, list):
                    x.eGet(k).extend(v)
                elif v is None:
                    x.eSet(k, None)
                elif k == 'col':
                    x.eSet(k, mm['Color'].getEEnumLiteral(v))
                elif k == 'when':
                    x.eSet(k, datetime.datetime.fromisoformat(v))
                else:
                    x.eSet(k, v)
            objs.append(x)
        for i, o in enumerate(spec['objs']):
            if o['parent'] is not None:
                p = objs[o['parent']]
                if o['via'] == 'one':
                    p.one = objs[i]
                else:
                    p.eGet(o['via']).append(objs[i])
            else:
                b.resources[o['res']].append(objs[i])
        for i, o in enumerate(spec['objs']):
            if o['peer'] is not None:
                objs[i].peer = objs[o['peer']]
            for f in o['friends']:
                objs[i].friends.append(objs[f])
        for i in spec['preset_ids']:
            objs[i]._internal_id = f'preset-{i}'
        b.universe = list(objs)
        b.positions = [i for i, o in enumerate(spec['objs']) if o['res'] == 0]
        b.root_positions = [i for i, o in enumerate(spec['objs']) if o['res'] == 0 and o['parent'] is None]
    else:
        from pyecore import ecore as E
        pk = E.EPackage('meta', nsURI='http://verif/c16/meta', nsPrefix='meta')
        universe = [pk]
        annots = []

        def add_annots(owner, lst):
            for a in lst:
                an = E.EAnnotation(source=a['source'])
                owner.eAnnotations.append(an)
                for k, v in a['details'].items():
                    an.details[k] = v
                universe.append(an)
                annots.append(an)
        add_annots(pk, spec['annots'])
        classes = []
        for c in spec['classes']:
            ec = E.EClass(c['name'], abstract=c['abstract'])
            pk.eClassifiers.append(ec)
            classes.append(ec)
            universe.append(ec)
        for c, ec in zip(spec['classes'], classes):
            for s in c['supers']:
                ec.eSuperTypes.append(classes[s])
            add_annots(ec, c['annots'])
            for a in c['attrs']:
                ea = E.EAttribute(a['name'], getattr(E, a['type']), upper=a['upper'])
                ec.eStructuralFeatures.append(ea)
                universe.append(ea)
                add_annots(ea, a['annots'])
            for r in c['refs']:
                er = E.EReference(r['name'], classes[r['target']], containment=r['containment'], upper=r['upper'])
                ec.eStructuralFeatures.append(er)
                universe.append(er)
        b.res.append(pk)
        b.universe = universe
        b.annots = annots
        b.positions = list(range(len(annots)))
        b.root_positions = []
    return b


def plant(b, spec, kind, pos):
    """Plant one unserialisable element at position pos; returns the function that repairs the model."""
    if spec['kind'] == 'ecore':
        an = b.annots[pos]
        an.details['planted'] = 3 if kind == 'annotation-detail-int' else Opaque()
        return lambda: an.details.pop('planted')
    if kind in NS_FAULTS:
        pk = b.mm['pk']
        attr, bad = {'ns-no-uri': ('nsURI', None), 'ns-empty-prefix': ('nsPrefix', ''),
                     'ns-bad-prefix': ('nsPrefix', 'not a name')}[kind]
        previous = getattr(pk, attr)
        setattr(pk, attr, bad)
        return lambda: setattr(pk, attr, previous)
    x = b.universe[pos]
    if kind == 'lone-surrogate':
        previous = x.name
        x.name = SURROGATE
        return lambda: setattr(x, 'name', previous)
    if kind == 'tostring-raises':
        x.bad = Opaque()
        return lambda: setattr(x, 'bad', None)
    if kind == 'tostring-nonstring':
        x.badns = Opaque()
        return lambda: setattr(x, 'badns', None)
    orphan = b.mm['Orphan'](name='orphan')
    b.universe.append(orphan)
    if kind == 'orphan-child':
        x.kids.append(orphan)

        def undo():
            x.kids.remove(orphan)
            b.universe.remove(orphan)
    elif kind == 'orphan-ref':
        previous = x.peer
        x.peer = orphan

        def undo():
            x.peer = previous
            b.universe.remove(orphan)
    else:   # orphan-root: one more root, next to root x
        b.res.append(orphan)

        def undo():
            b.res.remove(orphan)
            b.universe.remove(orphan)
    return undo


# ----------------------------------------------------------------------------
# observation of every public property of the model

def vrepr(v, idx):
    from pyecore.ecore import EObject
    if isinstance(v, EObject) or (isinstance(v, type) and hasattr(v, 'eClass')):
        return ('obj', idx.get(id(v), 'outside:' + type(v).__name__))
    if isinstance(v, dict):
        return ('dict', sorted((repr(k), repr(x)) for k, x in v.items()))
    return repr(v)


def dump(b):
    idx = {id(o): i for i, o in enumerate(b.universe)}
    ridx = {id(r): i for i, r in enumerate(b.resources)}
    out = {'resources': [[idx.get(id(o), '?') for o in r.contents] for r in b.resources], 'objects': []}
    # where the resources live and what their resource set knows (a save must leave that as it found it)
    from pyecore.resources import global_registry
    out['environment'] = {
        'resource uris': [os.path.basename(getattr(getattr(r, 'uri', None), 'plain', None) or '') for r in b.resources],
        'rset.resources': [(os.path.basename(k), ridx.get(id(v), 'other')) for k, v in b.rset.resources.items()],
        'rset.metamodel_registry': sorted(map(str, b.rset.metamodel_registry.maps[0])),
        'global_registry': sorted(map(str, global_registry)),
    }
    out['metamodel'] = metamodel_side(b)
    for o in b.universe:
        feats = []
        for f in sorted(o.eClass.eAllStructuralFeatures(), key=lambda f: f.name):
            if f.derived:
                continue
            try:
                v = o.eGet(f.name)
            except Exception as e:       # reading must not fail, but it is not C16's business
                feats.append((f.name, 'unreadable:' + type(e).__name__))
                continue
            if f.many and not isinstance(v, dict):
                val = [vrepr(x, idx) for x in v]
            else:
                val = vrepr(v, idx)
            feats.append((f.name, bool(o.eIsSet(f.name)), val))
        c = o.eContainer()
        cf = o.eContainmentFeature()
        out['objects'].append({
            'class': o.eClass.name, 'features': feats,
            'container': idx.get(id(c)) if c is not None else None,
            'containment_feature': cf.name if cf is not None else None,
            'resource': ridx.get(id(o.eResource)) if o.eResource is not None else None})
    return out


def metamodel_side(b):
    """What a save may touch on the METAMODEL side: every EPackage reachable from the classes of the model's
    objects (their supertypes, the types of their features): name, nsURI, nsPrefix, and per class the features
    with type and opposite."""
    pkgs, seen = {}, set()

    def visit(c):
        if c is None or id(c) in seen:
            return
        seen.add(id(c))
        p = getattr(c, 'ePackage', None)
        if p is not None and id(p) not in pkgs:
            pkgs[id(p)] = p
        for st in getattr(c, 'eSuperTypes', ()):
            visit(st)
        for f in getattr(c, 'eStructuralFeatures', ()):
            visit(getattr(f, '_eType', None) if not hasattr(getattr(f, '_eType', None), 'force_resolve') else None)
    for o in b.universe:
        visit(o.eClass)
    out = []
    for p in pkgs.values():
        classes = []
        for c in p.eClassifiers:
            classes.append((c.name, [(f.name, getattr(getattr(f, '_eType', None), 'name', None),
                                      getattr(getattr(f, 'eOpposite', None), 'name', None))
                                     for f in getattr(c, 'eStructuralFeatures', ())]))
        out.append((str(p.name), str(p.nsURI), repr(p.nsPrefix), sorted(classes)))
    return sorted(out)


def id_book(b):
    """The id bookkeeping other code reads: the keys of every resource's uuid_dict, and for every object that has
    an internal id whether its resource resolves that id to the object.  A save may ADD entries (uuid mode gives ids
    to objects without one); whatever was there before must still be there afterwards."""
    keys = [set(map(str, getattr(r, 'uuid_dict', {}))) for r in b.resources]
    keys = _Keys(keys, [bool(getattr(r, 'use_uuid', False)) for r in b.resources])
    resolves = {}
    for i, o in enumerate(b.universe):
        r, iid = o.eResource, getattr(o, '_internal_id', None)
        if r is None or not iid:
            continue
        try:
            resolves[i] = r.resolve(iid) is o
        except Exception:       # noqa: not found
            resolves[i] = False
    return keys, resolves


class _Keys(list):
    def __init__(self, keys, uuid_modes):
        super().__init__(keys)
        self.uuid_modes = uuid_modes


def id_book_lost(before, after):
    """-> description of an id entry that a save took away - or, for a resource that is NOT in uuid mode (a save has
    no id to hand out there), of any change of its id table -, or None."""
    for ri, (k0, k1) in enumerate(zip(before[0], after[0])):
        if k0 - k1:
            return f'uuid_dict of resource {ri} lost {len(k0 - k1)} of its {len(k0)} keys'
        if k1 - k0 and not before[0].uuid_modes[ri] and not after[0].uuid_modes[ri]:
            return (f'save wrote {len(k1 - k0)} new key(s) into the id table (uuid_dict) of resource {ri}, which is not '
                    f'in uuid mode: {sorted(k1 - k0)[:3]}')
    for i, ok in before[1].items():
        if ok and not after[1].get(i, False):
            return f'object {i} is no longer found by resolve(<its id>) in its resource'
    return None


def ids_of(b):
    return [getattr(o, '_internal_id', None) for o in b.universe]


def first_difference(a, b_):
    for k, v in a.get('environment', {}).items():
        if v != b_.get('environment', {}).get(k):
            return f"{k}: {v} -> {b_.get('environment', {}).get(k)}"
    if a.get('metamodel') != b_.get('metamodel'):
        x = next(((p, q) for p, q in zip(a['metamodel'], b_['metamodel']) if p != q), None)
        return f'metamodel: package {x[0][:3]} -> {x[1][:3]}' if x and x[0][:3] != x[1][:3] else 'metamodel: a class or feature changed'
    if a['resources'] != b_['resources']:
        return f"resource contents {a['resources']} -> {b_['resources']}"
    for i, (x, y) in enumerate(zip(a['objects'], b_['objects'])):
        if x != y:
            for k in x:
                if x[k] != y[k]:
                    if k == 'features':
                        for fx, fy in zip(x[k], y[k]):
                            if fx != fy:
                                return f'object {i} feature {fx} -> {fy}'
                    return f'object {i} {k}: {x[k]} -> {y[k]}'
    return 'different number of objects'


# ----------------------------------------------------------------------------

def save_options(fmt, opts):
    from pyecore.resources.xmi import XMIOptions
    from pyecore.resources.json import JsonOptions
    o = {}
    if fmt == 'xmi':
        if opts['serialize_default']:
            o[XMIOptions.SERIALIZE_DEFAULT_VALUES] = True
        if opts.get('xmi_type'):
            o[XMIOptions.OPTION_USE_XMI_TYPE] = True
    else:
        if opts['serialize_default']:
            o[JsonOptions.SERIALIZE_DEFAULT_VALUES] = True
    return o or None


_FRESH = object()


def do_save(b, fmt, opts, output=None, options_obj=_FRESH):
    """-> None when the save returns, the exception class name when it raises.
    options_obj: the options mapping to pass (the SAME object for consecutive saves, as a caller keeping its
    options in a variable does); by default a fresh dict per call."""
    from pyecore.resources import URI
    o = save_options(fmt, opts) if options_obj is _FRESH else options_obj
    try:
        if output is not None:
            # a URI OBJECT given by the caller is passed as it is (and stays alive in the caller)
            b.res.save(output=URI(output) if isinstance(output, str) else output, options=o)
        else:
            b.res.save(options=o)
        return None
    except Exception as e:      # noqa: any failure of save is a failed save
        return type(e).__name__


def _uri(path):
    from pyecore.resources import URI
    return URI(path)


def read(p):
    if not os.path.exists(p):
        return None
    with open(p, 'rb') as f:
        return f.read()


def sig(clause, fmt, fault=None):
    return {'property': PID, 'clause': clause, 'format': fmt, 'fault': fault}


def check_success(out, model, spec, fmt, opts, stats, scratch):
    """purity + idempotence (+ model: a fault-free save is Done and the target holds the bytes)."""
    case = {'spec': spec, 'format': fmt, 'options': opts, 'fault': None}
    with tempfile.TemporaryDirectory(dir=scratch) as d:
        b = build(spec, d, fmt, opts['use_uuid'], opts.get('indent'))
        target = b.path if opts['target'] == 'uri' else os.path.join(d, 'elsewhere.' + fmt)
        # output=: ONE URI object, kept alive and reused for every save of this case (an export target)
        outp = None if opts['target'] == 'uri' else _uri(target)
        with open(target, 'wb') as f:
            f.write(b'PREVIOUS')
        d0, i0 = dump(b), ids_of(b)
        book0 = id_book(b)
        shared = save_options(fmt, opts)          # one options object reused by the three saves
        shared0 = dict(shared) if shared is not None else None
        e1 = do_save(b, fmt, opts, outp, options_obj=shared)
        bytes1 = read(target)
        e2 = do_save(b, fmt, opts, outp, options_obj=shared)
        bytes2 = read(target)
        d2, i2 = dump(b), ids_of(b)
        other = os.path.join(d, 'third.' + fmt)
        e3 = do_save(b, fmt, opts, other, options_obj=shared)
        bytes3 = read(other)
        stats['saves'] += 3
        if shared0 is not None and dict(shared) != shared0:
            out.fail(sig('options-consumed', fmt), f'save() modified the options mapping it was given: '
                     f'{sorted(map(str, shared0))} -> {sorted(map(str, shared))}', case)
        if e1 or e2 or e3:
            # a generated model that cannot be saved as it is (e.g. None in a date attribute under
            # SERIALIZE_DEFAULT_VALUES in JSON) belongs to the failure half: the target must survive
            stats['unsavable'] += 1
            stats['unsavable_examples'].append({'case': case, 'exc': e1 or e2 or e3})
            if e1 and bytes1 != b'PREVIOUS':
                out.fail(sig('failsafe', fmt, 'generated-value'),
                         f'save raised {e1} and the previous content of the target is gone', case)
            if d0 != d2:
                out.fail(sig('purity', fmt, 'generated-value'), 'observable model state changed by a failing save: '
                         + first_difference(d0, d2), case)
            return
        stats['ok_saves_checked'] += 1
        if d0 != d2:
            out.fail(sig('purity', fmt), 'observable model state changed by save: ' + first_difference(d0, d2), case)
        lost = id_book_lost(book0, id_book(b))
        if lost:
            out.fail(sig('purity', fmt), 'id bookkeeping changed by save: ' + lost, case)
        for k, (a, c) in enumerate(zip(i0, i2)):
            if a is not None and a != c:
                out.fail(sig('purity', fmt), f'internal id of object {k} replaced by save: {a!r} -> {c!r}', case)
                break
        if not opts['use_uuid'] and spec['kind'] == 'ecore' and i0 != i2:
            out.fail(sig('purity', fmt), 'ids assigned although use_uuid is off', case)
        if bytes1 != bytes2 or bytes1 != bytes3:
            out.fail(sig('idempotence', fmt), 'consecutive saves wrote different bytes: '
                     f'{_firstdiff(bytes1, bytes2 if bytes1 != bytes2 else bytes3)}', case)
        # correspondence: no fault -> Done, the target holds exactly the document
        got = [0] + _content_tokens(bytes1)
        want = model.ask('savefs', _tokens(fmt, -1, len(b.positions), b'PREVIOUS', bytes3, opts['target'] == 'uri'))
        stats['model_calls'] += 1
        if got != want:
            out.diff(f'savefs model vs impl on a fault-free {fmt} save: model {want[:8]}.. impl {got[:8]}..', case)
        stats['distinct'].add(_h(case))


def _firstdiff(a, b):
    a, b = a or b'', b or b''
    n = next((i for i, (x, y) in enumerate(zip(a, b)) if x != y), min(len(a), len(b)))
    return f'at byte {n}: {a[max(0, n - 30):n + 30]!r} vs {b[max(0, n - 30):n + 30]!r}'


def _content_tokens(c):
    return [0, 0] if c is None else [1, len(c)] + list(c)


def _tokens(fmt, fault, npos, old, new, own=True):
    """fmt ; fault ; nbuild ; nenc ; nns ; nbytes ; own ; has_old ; |old| ; old.. ; |new| ; new..
    XMI: lxml serialises an accepted tree without raising (premise j_nenc = 0 of C16_failsafe); one
    position for the namespace step"""
    return ([FMT_CODE[fmt], fault, npos, npos if fmt == 'json' else 0, 1, npos if fmt == 'json' else 0, 1 if own else 0,
             0 if old is None else 1, len(old or b'')] + list(old or b'')
            + [len(new or b'')] + list(new or b''))


def _fault_number(fmt, phase, pos, npos):
    if phase is None:
        return -1
    if phase == 'build':
        return pos
    if phase == 'encode':
        return npos + pos
    if phase == 'ns':
        return npos + (npos if fmt == 'json' else 0)   # the single namespace position
    return npos + (npos if fmt == 'json' else 0) + 1 + pos     # 'bytes'


def _h(x):
    return hashlib.sha1(json.dumps(x, sort_keys=True, default=str).encode()).hexdigest()


def check_fault(out, model, spec, fmt, opts, kind, pos, old, stats, scratch):
    """Plant the fault, pre-fill the target, save, look at the target."""
    case = {'spec': spec, 'format': fmt, 'options': opts, 'fault': {'kind': kind, 'position': pos},
            'old': None if old is None else list(old)}
    with tempfile.TemporaryDirectory(dir=scratch) as d:
        b = build(spec, d, fmt, opts['use_uuid'], opts.get('indent'))
        npos = len(b.positions)
        if opts['use_uuid'] and pos % 2 == 0:
            # ids already assigned and registered when the failing save starts (saved to a side file)
            do_save(b, fmt, opts, os.path.join(d, 'presave.' + fmt))
            stats['saves'] += 1
        plant(b, spec, kind, b.positions[pos] if spec['kind'] == 'instance' else pos)
        target = b.path if opts['target'] == 'uri' else os.path.join(d, 'elsewhere.' + fmt)
        # output=: ONE URI object, kept alive and reused for every save of this case (an export target)
        outp = None if opts['target'] == 'uri' else _uri(target)
        if old is not None:
            with open(target, 'wb') as f:
                f.write(old)
        d0, book0 = dump(b), id_book(b)
        exc = do_save(b, fmt, opts, outp)
        after = read(target)
        d1 = dump(b)
        lost = id_book_lost(book0, id_book(b))
        if lost:
            out.fail(sig('purity', fmt, kind), ('a failing' if exc else 'a') + ' save changed the id bookkeeping: ' + lost, case)
        stats['saves'] += 1
        stats['faults'][kind] = stats['faults'].get(kind, 0) + 1
        stats['fault_outcomes'][f'{fmt}/{kind}/' + ('raised' if exc else 'saved')] = \
            stats['fault_outcomes'].get(f'{fmt}/{kind}/' + ('raised' if exc else 'saved'), 0) + 1
        phase = PHASE[(fmt, kind)]
        if exc:
            stats['failing_saves_checked'] += 1
            if old is not None and after != old:
                out.fail(sig('failsafe', fmt, kind),
                         f'save raised {exc} and the previous content of the target is gone: '
                         f'{len(old)} bytes before, {"no file" if after is None else str(len(after)) + " bytes"} after',
                         case)
            if d0 != d1:
                out.fail(sig('purity', fmt, kind), 'observable model state changed by a failing save: '
                         + first_difference(d0, d1), case)
            new = b''
        else:
            # the element was serialisable after all: this is a successful save
            other = os.path.join(d, 'third.' + fmt)
            do_save(b, fmt, opts, other)
            new = read(other)
            stats['saves'] += 1
        # correspondence with the order-of-effects model
        if kind in OBSERVED_OUTCOME and (kind in NS_FAULTS or phase is None):
            # whether the namespace map is refused depends on the model (several roots: no prefix is registered
            # unless an xsi:type needs one), whether a lone surrogate reaches .encode depends on the encoder's
            # settings: the outcome is taken as observed, the CONTENT is what is compared
            phase = OBSERVED_OUTCOME[kind] if exc else None
        fault = _fault_number(fmt, phase, pos, npos)
        want = model.ask('savefs', _tokens(fmt, fault, npos, old, new, opts['target'] == 'uri'))
        got = [1 if exc else 0] + _content_tokens(after)
        stats['model_calls'] += 1
        if got != want:
            out.diff(f'savefs model vs impl, {fmt} {kind}@{pos}: model outcome/content {want[:6]}.. '
                     f'impl {got[:6]}.. (raised={exc})', case)
        stats['distinct'].add(_h(case))
        if len(stats['samples']) < 4 and pos > 0:
            stats['samples'].append({k: case[k] for k in ('format', 'options', 'fault')} |
                                    {'n_objects': len(b.universe), 'raised': exc,
                                     'target_after': None if after is None else len(after)})


def check_histories(out, spec, fmt, opts, rng, stats, scratch):
    """Idempotence on resources with a HISTORY (the bytes of a save must depend on the model only):
      after-failed-save:<kind>  a save that raised, the model repaired, then two saves; compared with each
                                other and with a twin model (same planting and repair, no failed save)
      after-load[+extra-ns]     two resources loaded from the same document (optionally declaring a
                                namespace the saver does not need): save, save again, save the other one
      after-output-save         a save to another output=, then two saves to the resource's own URI"""
    from pyecore.resources import ResourceSet, URI
    from pyecore.resources.json import JsonResource
    # fresh random ids (own resource or the cross-referenced one in uuid mode) make two equal models differ
    uu = opts['use_uuid'] or (spec['kind'] == 'instance' and spec['ext_uuid'])
    own_uu = opts['use_uuid']

    def record(name, ok):
        stats['history'][name] = stats['history'].get(name, 0) + 1
        if not ok:
            stats['history_skipped'][name] = stats['history_skipped'].get(name, 0) + 1

    def fail(fault, what, extra):
        out.fail(sig('idempotence', fmt, fault), what,
                 {'spec': spec, 'format': fmt, 'options': opts, 'history': extra})
    # --- (i) failed save, repair, save, save
    with tempfile.TemporaryDirectory(dir=scratch) as d:
        b0 = build(spec, d, fmt, False)
        npos, roots = len(b0.positions), [b0.positions.index(r) for r in b0.root_positions]
    kinds = INSTANCE_FAULTS if spec['kind'] == 'instance' else ECORE_FAULTS
    for kind in kinds:
        cands = roots if kind == 'orphan-root' else [0] if kind in NS_FAULTS else list(range(npos))
        if not cands or PHASE[(fmt, kind)] is None:
            continue
        pos = rng.choice(cands)
        upos = (lambda b: b.positions[pos]) if spec['kind'] == 'instance' else (lambda b: pos)
        name = 'after-failed-save:' + kind
        extra = {'scenario': 'failed-save-then-repair', 'kind': kind, 'position': pos}
        with tempfile.TemporaryDirectory(dir=scratch) as da, tempfile.TemporaryDirectory(dir=scratch) as db:
            a = build(spec, da, fmt, own_uu, opts.get('indent'))
            plant(a, spec, kind, upos(a))()
            ea = do_save(a, fmt, opts)
            ref = read(a.path)
            b = build(spec, db, fmt, own_uu, opts.get('indent'))
            undo = plant(b, spec, kind, upos(b))
            e0 = do_save(b, fmt, opts)
            undo()
            e1 = do_save(b, fmt, opts)
            b1 = read(b.path)
            e2 = do_save(b, fmt, opts)
            b2 = read(b.path)
            stats['saves'] += 4
            ok = e0 is not None and not (ea or e1 or e2)
            record(name, ok)
            if not ok:
                continue
            stats['distinct'].add(_h([spec, fmt, opts, extra]))
            if b1 != b2:
                fail(name, f'after a save that raised ({e0}) and the repair of the model, two consecutive saves '
                     f'wrote different bytes: {_firstdiff(b1, b2)}', extra)
            elif not uu and b1 != ref:
                fail(name, f'after a save that raised ({e0}) and the repair of the model, save wrote other bytes than '
                     f'the same model without the failed save: {_firstdiff(b1, ref)}', extra)
    # --- (ii) loaded resources
    with tempfile.TemporaryDirectory(dir=scratch) as d:
        f = build(spec, d, fmt, own_uu, opts.get('indent'))
        if spec['kind'] == 'instance' and f.ext.contents:
            try:
                f.ext.save()
            except Exception:       # noqa: the cross-referenced document is only there for completeness
                pass
        e = do_save(f, fmt, opts)
        doc = read(f.path)
        stats['saves'] += 1
        variants = [('after-load', doc)] if not e else []
        if not e and fmt == 'xmi':
            k = doc.find(b' xmlns:')
            if k > 0:
                variants.append(('after-load+extra-ns',
                                 doc[:k] + b' xmlns:notes="http://verif/c16/notes" xmlns:xsi="http://www.w3.org/2001/'
                                           b'XMLSchema-instance"' + (doc[k:].replace(b' xmlns:xsi="http://www.w3.org/2001/'
                                                                                     b'XMLSchema-instance"', b'', 1))))
        for name, data in variants:
            path = os.path.join(d, 'loaded.' + fmt)
            with open(path, 'wb') as fh:
                fh.write(data)
            loaded = []
            try:
                for _ in range(2):
                    rs = ResourceSet()
                    rs.resource_factory['json'] = lambda uri, **kw: JsonResource(uri, indent=opts.get('indent'), **kw)
                    if spec['kind'] == 'instance':
                        rs.metamodel_registry[f.mm['pk'].nsURI] = f.mm['pk']
                    loaded.append(rs.get_resource(URI(path)))
            except Exception:
                record(name, False)         # loading is C08/C09/C18's business
                continue
            outs = []
            errs = []
            for r in (loaded[0], loaded[0], loaded[1]):
                try:
                    r.save(options=save_options(fmt, opts))
                    errs.append(None)
                except Exception as ex:     # noqa
                    errs.append(type(ex).__name__)
                outs.append(read(path))
            stats['saves'] += 3
            ok = not any(errs)
            record(name, ok)
            if not ok:
                continue
            extra = {'scenario': name, 'document': data.decode('utf-8', 'replace')}
            stats['distinct'].add(_h([spec, fmt, opts, name]))
            if outs[0] != outs[1]:
                fail(name, 'two consecutive saves of a resource obtained by load() wrote different bytes: '
                     + _firstdiff(outs[0], outs[1]), extra)
            elif not uu and outs[0] != outs[2]:
                # (in uuid mode objects without id get fresh random ids: two resources legitimately differ)
                fail(name, 'two resources loaded from the same document saved different bytes (the second one after '
                     'the first had been saved twice): ' + _firstdiff(outs[0], outs[2]), extra)
    # --- (iii) a save elsewhere first
    with tempfile.TemporaryDirectory(dir=scratch) as d:
        b = build(spec, d, fmt, own_uu, opts.get('indent'))
        other = os.path.join(d, 'elsewhere.' + fmt)
        export = _uri(other)                # one URI object kept by the caller and used twice
        e0 = do_save(b, fmt, opts, export) or do_save(b, fmt, opts, export)
        bo = read(other)                    # read while the URI object is still alive
        e1 = do_save(b, fmt, opts)
        b1 = read(b.path)
        e2 = do_save(b, fmt, opts)
        b2 = read(b.path)
        stats['saves'] += 3
        ok = not (e0 or e1 or e2)
        record('after-output-save', ok)
        if ok:
            extra = {'scenario': 'after-output-save'}
            stats['distinct'].add(_h([spec, fmt, opts, 'after-output-save']))
            if b1 != b2 or b1 != bo:
                fail('after-output-save', 'a save to another output= followed by two saves to the own URI wrote '
                     'different bytes: ' + _firstdiff(b1, b2 if b1 != b2 else bo), extra)


# ----------------------------------------------------------------------------
# scenario families with their own PRNG streams (implementation only; replay = common.scenario_replay)

def _env(rset, resources):
    from pyecore.resources import global_registry
    return {'resource uris': [os.path.basename(r.uri.plain) for r in resources],
            'rset.resources': [(os.path.basename(k), next((i for i, r in enumerate(resources) if r is v), 'other'))
                               for k, v in rset.resources.items()],
            'rset.metamodel_registry': sorted(map(str, rset.metamodel_registry.maps[0])),
            'global_registry': sorted(map(str, global_registry))}


def _env_diff(a, b):
    return next((f'{k}: {a[k]} -> {b[k]}' for k in a if a[k] != b[k]), None)


def metaref_scenarios(ctx, out):
    """Models that refer to METAMODEL ELEMENTS (an EClass, an EDataType) of a dynamic package that is in no
    resource and registered nowhere, next to instances of that package (written with an explicit type):
    two saves in a row write the same bytes and leave model, resource and resource set as they were."""
    common.use_repo()
    from pyecore.ecore import EPackage, EClass, EReference, EAttribute, EString, EDataType
    from pyecore.resources import ResourceSet, URI
    from pyecore.resources.json import JsonResource
    rng = common.rng_for(ctx.seed, 'C16:metaref')
    scratch = os.path.join(common.BUILD, 'scratch')
    os.makedirs(scratch, exist_ok=True)
    n = 0
    for k in range(8 if ctx.tier == 'quick' else 40):
        hist = {'n_entries': rng.randint(0, 3), 'special': [rng.random() < 0.6 for _ in range(3)],
                'kind': rng.choice(['Special', 'Special', 'Entry', None]), 'dtype': rng.choice(['Code', None]),
                'kind_first': rng.random() < 0.5, 'registered': rng.random() < 0.7, 'format': rng.choice(['xmi', 'json']),
                'use_uuid': rng.random() < 0.3}
        fmt = hist['format']
        M = EPackage('catalog', nsURI='http://verif/c16/catalog', nsPrefix='cat')
        Entry = EClass('Entry')
        Entry.eStructuralFeatures.append(EAttribute('label', EString))
        Catalog = EClass('Catalog')
        feats = [EReference('kind', EClass.eClass), EReference('dtype', EDataType.eClass)]
        cont = EReference('entries', Entry, upper=-1, containment=True)
        Catalog.eStructuralFeatures.extend(feats + [cont] if hist['kind_first'] else [cont] + feats)
        M.eClassifiers.extend([Entry, Catalog])
        Q = EPackage('ext', nsURI='http://verif/c16/ext', nsPrefix='ext')     # dynamic, registered nowhere
        Special = EClass('Special', superclass=(Entry,))
        Code = EDataType('Code', str)
        Q.eClassifiers.extend([Special, Code])
        with tempfile.TemporaryDirectory(dir=scratch) as d:
            rset = ResourceSet()
            rset.resource_factory['json'] = lambda uri, **kw: JsonResource(uri, **kw)
            if hist['registered']:
                rset.metamodel_registry[M.nsURI] = M
            path = os.path.join(d, 'catalog.' + fmt)
            res = rset.create_resource(URI(path), use_uuid=hist['use_uuid'])
            root = Catalog()
            if hist['kind']:
                root.kind = Special if hist['kind'] == 'Special' else Entry
            if hist['dtype']:
                root.dtype = Code
            for i in range(hist['n_entries']):
                root.entries.append((Special if hist['special'][i] else Entry)(label=f'e{i}'))
            res.append(root)
            case = {'scenario': 'metaref', 'seed': ctx.seed, 'tier': ctx.tier, 'history': hist}
            e0 = _env(rset, [res])
            obs0 = (root.kind, root.dtype, [(type(x).__name__, x.label) for x in root.entries])
            outs = []
            for _ in range(2):
                try:
                    res.save()
                    outs.append(read(path))
                except Exception as e:      # noqa: a model pyecore cannot save is not this scenario's business
                    outs.append(('raised', type(e).__name__))
            n += 1
            e1 = _env(rset, [res])
            obs1 = (root.kind, root.dtype, [(type(x).__name__, x.label) for x in root.entries])
            if _env_diff(e0, e1) or obs0 != obs1:
                out.fail(sig('purity', fmt, 'metamodel-reference'),
                         'save changed ' + (_env_diff(e0, e1) or 'the model'), case)
            if all(isinstance(o, bytes) for o in outs) and outs[0] != outs[1]:
                out.fail(sig('idempotence', fmt, 'metamodel-reference'),
                         'two saves in a row of a model that refers to elements of an unregistered dynamic package '
                         'wrote different bytes: ' + _firstdiff(outs[0], outs[1]), case)
    out.coverage['metamodel_reference_scenarios'] = n


def export_scenarios(ctx, out):
    """A resource lives in its own file and is exported with save(output=<URI>); an export FAILS on a planted
    fault.  Afterwards: the export target holds the previous export, the resource still has its uri and is still
    found under it; once the model is repaired a plain save() writes the resource's OWN file, not the export."""
    common.use_repo()
    rng = common.rng_for(ctx.seed, 'C16:export')
    scratch = os.path.join(common.BUILD, 'scratch')
    os.makedirs(scratch, exist_ok=True)
    n = 0
    for k in range(10 if ctx.tier == 'quick' else 60):
        spec = gen_instance_spec(rng, 4)
        fmt = rng.choice(['xmi', 'json'])
        kind = rng.choice(['tostring-raises', 'tostring-nonstring', 'orphan-child', 'orphan-ref'])
        opts = {'use_uuid': False, 'serialize_default': rng.random() < 0.3, 'target': 'output',
                'xmi_type': False, 'indent': None}
        with tempfile.TemporaryDirectory(dir=scratch) as d:
            b = build(spec, d, fmt, False)
            pos = rng.randrange(len(b.positions))
            hist = {'spec': spec, 'format': fmt, 'kind': kind, 'position': pos, 'options': opts}
            case = {'scenario': 'export', 'seed': ctx.seed, 'tier': ctx.tier, 'history': hist}
            export_path = os.path.join(d, 'backup.' + fmt)
            export = _uri(export_path)
            if do_save(b, fmt, opts) or do_save(b, fmt, opts, export):
                continue                    # not savable as generated: the main enumeration deals with it
            own_v1, export_v1 = read(b.path), read(export_path)
            env0 = _env(b.rset, b.resources)
            undo = plant(b, spec, kind, b.positions[pos])
            exc = do_save(b, fmt, opts, export)
            if not exc:
                continue
            n += 1
            env1 = _env(b.rset, b.resources)
            if read(export_path) != export_v1:
                out.fail(sig('failsafe', fmt, 'export:' + kind), f'save(output=...) raised {exc} and the previous export '
                         'is gone', case)
            if _env_diff(env0, env1):
                out.fail(sig('purity', fmt, 'export:' + kind), f'save(output=...) raised {exc} and changed '
                         + _env_diff(env0, env1), case)
            if b.rset.resources.get(b.res.uri.normalize()) is not b.res:
                out.fail(sig('purity', fmt, 'export:' + kind), 'after the failed export the resource set no longer finds '
                         'the resource under its uri', case)
            undo()
            # the repair itself may leave a trace in the document (an attribute that is now explicitly None):
            # the plain save is compared with what it writes the second time, and must not be the old document
            # only when the repair changed nothing
            if do_save(b, fmt, opts):
                continue
            own_v2 = read(b.path)
            if read(export_path) != export_v1:
                out.fail(sig('failsafe', fmt, 'export:' + kind), 'a plain save() after a failed save(output=...) wrote '
                         'to the export target', case)
            if not own_v2:
                out.fail(sig('failsafe', fmt, 'export:' + kind), 'a plain save() after a failed export did not write '
                         'the resource\'s own file', case)
            if not do_save(b, fmt, opts) and read(b.path) != own_v2:
                out.fail(sig('idempotence', fmt, 'export:' + kind), 'two plain saves after a failed export differ: '
                         + _firstdiff(own_v2, read(b.path)), case)
    out.coverage['failed_export_scenarios'] = n


def prefixless_scenarios(ctx, out):
    """Models with objects whose class lives in a package created WITHOUT nsPrefix (contained objects that need an
    explicit type, roots): a save - successful or failing - leaves model, metamodel (name / nsURI / nsPrefix of
    every reachable package, features) and id bookkeeping as they were; two saves write the same bytes.  What the
    document looks like for such a package is not judged here."""
    common.use_repo()
    rng = common.rng_for(ctx.seed, 'C16:prefixless')
    scratch = os.path.join(common.BUILD, 'scratch')
    os.makedirs(scratch, exist_ok=True)
    n = 0
    for k in range(10 if ctx.tier == 'quick' else 60):
        spec = gen_instance_spec(rng, 5)
        marked = [i for i in range(len(spec['objs'])) if rng.random() < 0.5] or [len(spec['objs']) - 1]
        for i in marked:
            spec['objs'][i]['cls'] = 'Extra'
            spec['objs'][i]['attrs'].pop('extra', None)
        fmt = rng.choice(['xmi', 'xmi', 'json'])
        opts = {'use_uuid': rng.random() < 0.4, 'serialize_default': rng.random() < 0.3, 'target': 'uri',
                'xmi_type': rng.random() < 0.3, 'indent': None}
        fault = rng.choice([None, 'tostring-raises', 'orphan-child'])
        hist = {'spec': spec, 'format': fmt, 'options': opts, 'fault': fault}
        case = {'scenario': 'prefixless', 'seed': ctx.seed, 'tier': ctx.tier, 'history': hist}
        with tempfile.TemporaryDirectory(dir=scratch) as d:
            b = build(spec, d, fmt, opts['use_uuid'])
            if fault:
                plant(b, spec, fault, b.positions[rng.randrange(len(b.positions))])
            d0, book0 = dump(b), id_book(b)
            e1 = do_save(b, fmt, opts)
            b1 = read(b.path)
            e2 = do_save(b, fmt, opts)
            b2 = read(b.path)
            d2 = dump(b)
            n += 1
            how = 'a failing save' if (e1 or e2) else 'save'
            if d0 != d2:
                out.fail(sig('purity', fmt, 'prefixless-package'), f'{how} changed ' + first_difference(d0, d2), case)
            lost = id_book_lost(book0, id_book(b))
            if lost:
                out.fail(sig('purity', fmt, 'prefixless-package'), f'{how} changed the id bookkeeping: ' + lost, case)
            if not e1 and not e2 and b1 != b2:
                out.fail(sig('idempotence', fmt, 'prefixless-package'), 'two saves in a row wrote different bytes: '
                         + _firstdiff(b1, b2), case)
    out.coverage['prefixless_package_scenarios'] = n


def _twores_mm():
    from pyecore.ecore import EPackage, EClass, EAttribute, EReference, EString
    pk = EPackage('lib2', nsURI='http://verif/c16/lib2', nsPrefix='lib2')
    Catalogue, Storage, Book, Shelf = EClass('Catalogue'), EClass('Storage'), EClass('Book'), EClass('Shelf')
    Book.eStructuralFeatures.append(EAttribute('name', EString))
    Shelf.eStructuralFeatures.append(EAttribute('name', EString))
    Shelf.eStructuralFeatures.append(EAttribute('code', EString, iD=True))     # references to it are written by id
    Catalogue.eStructuralFeatures.append(EReference('books', Book, upper=-1, containment=True))
    Storage.eStructuralFeatures.append(EReference('shelves', Shelf, upper=-1, containment=True))
    shelf = EReference('shelf', Shelf)                               # single <-> many, across the two files
    books = EReference('books', Book, upper=-1, eOpposite=shelf)
    star = EReference('star', Book)                                  # single <-> single
    starOf = EReference('starOf', Shelf, eOpposite=star)
    Book.eStructuralFeatures.extend([shelf, starOf, EReference('near', Shelf),           # single, no opposite
                                     EReference('alts', Shelf, upper=-1)])               # many, no opposite
    Shelf.eStructuralFeatures.extend([books, star])
    pk.eClassifiers.extend([Catalogue, Storage, Book, Shelf])
    return {'pk': pk, 'Catalogue': Catalogue, 'Storage': Storage, 'Book': Book, 'Shelf': Shelf}


def _twores_objects(rset):
    """Every object of every resource the resource set holds now (containment only; proxies are not followed)."""
    from pyecore.ecore import EProxy
    out, seen = [], set()
    for r in list(rset.resources.values()):
        stack = list(r.contents)
        while stack:
            o = stack.pop()
            if type(o) is EProxy or id(o) in seen:
                continue
            seen.add(id(o))
            out.append(o)
            for f in o.eClass.eAllReferences():
                if f.containment:
                    v = o.eGet(f)
                    stack.extend(list(v) if f.many else ([v] if v is not None else []))
    return out


def _twores_state(objs):
    """Per object and feature: attribute values; for references the RAW values held (identity and order: a proxy
    object stays that proxy object, whether a save resolved it or not), the container, the resource."""
    st = []
    for o in objs:
        feats = []
        for f in sorted(o.eClass.eAllStructuralFeatures(), key=lambda f: f.name):
            v = o.eGet(f)
            if f.is_reference:
                feats.append((f.name, [id(x) for x in v] if f.many else id(v) if v is not None else None))
            else:
                feats.append((f.name, repr(list(v)) if f.many else repr(v)))
        st.append((o.eClass.name, feats, id(o.eContainer()) if o.eContainer() is not None else None, id(o.eResource)))
    return st


def twores_scenarios(ctx, out):
    """Two resources in two files (same or different directories) with cross references single/many, with and
    without opposite.  States: built in memory; loaded (one file asked for, the other reached through proxies);
    loaded and partly resolved; loaded and edited.  Then a sequence of plain saves and exports (other directory,
    same directory) of the first resource with NO edit in between: no save sends a notification or changes a
    value, the identity or the order of what a feature holds; all saves to one target write the same bytes, the
    bytes a twin writes that only ever did that one save."""
    common.use_repo()
    from pyecore.resources import ResourceSet, URI
    from pyecore.resources.json import JsonResource
    from pyecore.notification import EObserver
    rng = common.rng_for(ctx.seed, 'C16:twores')
    scratch = os.path.join(common.BUILD, 'scratch')
    os.makedirs(scratch, exist_ok=True)
    n_saves = 0

    def new_rset(mm):
        rs = ResourceSet()
        rs.resource_factory['json'] = lambda uri, **kw: JsonResource(uri, **kw)
        rs.metamodel_registry[mm['pk'].nsURI] = mm['pk']
        return rs

    def prepare(hist, d, mm):
        """-> (rset, resource to save) in the state the history describes; files live under d."""
        fmt = hist['format']
        f_cat = os.path.join(d, 'a', 'catalogue.' + fmt)
        f_store = os.path.join(d, 'a' if hist['same_dir'] else 'b', 'store.' + fmt)
        for sub in ('a', 'b', 'x'):
            os.makedirs(os.path.join(d, sub), exist_ok=True)
        rs = new_rset(mm)
        r_cat = rs.create_resource(URI(f_cat), use_uuid=hist['use_uuid'])
        r_store = rs.create_resource(URI(f_store), use_uuid=hist['use_uuid'])
        cat, store = mm['Catalogue'](), mm['Storage']()
        r_cat.append(cat)
        r_store.append(store)
        shelves = [mm['Shelf'](name=f's{i}') for i in range(hist['n_shelves'])]
        for i, sh in enumerate(shelves):
            if i % 2 == 0:
                sh.code = f'c{i}'           # every second shelf has an id
        store.shelves.extend(shelves)
        for i, bk in enumerate(hist['books']):
            b = mm['Book'](name=f'a{i}')
            cat.books.append(b)
            if bk['shelf'] is not None:
                b.shelf = shelves[bk['shelf']]
            if bk['near'] is not None:
                b.near = shelves[bk['near']]
            for j in bk['alts']:
                b.alts.append(shelves[j])
            if bk['star'] is not None and shelves[bk['star']].star is None:
                b.starOf = shelves[bk['star']]
        if hist['state'] == 'memory':
            return rs, r_cat
        r_store.save()
        r_cat.save()
        r_store.save()
        rs = new_rset(mm)
        r_cat = rs.get_resource(URI(f_cat))
        cat = r_cat.contents[0]
        if hist['state'] in ('partly', 'edited'):
            for b in list(cat.books)[::2]:
                for fn in ('shelf', 'near'):
                    v = b.eGet(fn)
                    if v is not None:
                        v.name          # following the reference resolves the proxy
        if hist['state'] == 'edited' and len(cat.books):
            some = next((b.eGet(fn) for b in cat.books for fn in ('shelf', 'near') if b.eGet(fn) is not None), None)
            nb = mm['Book'](name='new')
            cat.books.append(nb)
            if some is not None:
                nb.shelf = some
        return rs, r_cat

    def target_of(op, d, fmt):
        return {'plain': None, 'other-dir': os.path.join(d, 'x', 'export.' + fmt),
                'same-dir': os.path.join(d, 'a', 'export.' + fmt)}[op]

    for k in range(12 if ctx.tier == 'quick' else 80):
        nsh = rng.randint(1, 3)
        hist = {'format': rng.choice(['xmi', 'xmi', 'json']), 'use_uuid': rng.random() < 0.2,
                'same_dir': rng.random() < 0.4, 'state': rng.choice(['memory', 'loaded', 'partly', 'edited']),
                'n_shelves': nsh,
                'books': [{'shelf': rng.choice([None] + list(range(nsh))), 'near': rng.choice([None] + list(range(nsh))),
                           'alts': [rng.randrange(nsh) for _ in range(rng.choice([0, 0, 1, 2]))],
                           'star': rng.choice([None, None] + list(range(nsh)))} for _ in range(rng.randint(1, 4))]}
        ops = [rng.choice(['plain', 'other-dir', 'same-dir']) for _ in range(rng.randint(2, 4))]
        hist['ops'] = ops + sorted(set(ops))        # every target is written at least twice
        fmt = hist['format']
        case = {'scenario': 'twores', 'seed': ctx.seed, 'tier': ctx.tier, 'history': hist}
        with tempfile.TemporaryDirectory(dir=scratch) as d:
            try:
                rs, res = prepare(hist, d, _twores_mm())
            except Exception:       # noqa: building / loading the two documents is not C16's business
                continue
            written = {}
            for oi, op in enumerate(hist['ops']):
                tgt = target_of(op, d, fmt)
                objs = _twores_objects(rs)
                count = [0]
                observers = [EObserver(o, notifyChanged=lambda n, c=count: c.__setitem__(0, c[0] + 1)) for o in objs]
                st0 = _twores_state(objs)
                tables0 = [(r, set(map(str, r.uuid_dict))) for r in set(rs.resources.values()) if not r.use_uuid]
                try:
                    res.save() if tgt is None else res.save(output=URI(tgt))
                    err = None
                except Exception as e:      # noqa
                    err = type(e).__name__
                st1 = _twores_state(objs)
                for ob, o in zip(observers, objs):
                    if ob in o.listeners:
                        o.listeners.remove(ob)
                n_saves += 1
                if err:
                    break                   # a model pyecore cannot save: the fault enumeration deals with those
                if count[0]:
                    out.fail(sig('purity', fmt, 'two-resources'), f'save #{oi} ({op}, state {hist["state"]}) sent '
                             f'{count[0]} notification(s)', case)
                for r, k0 in tables0:
                    if not r.use_uuid and set(map(str, r.uuid_dict)) != k0:
                        out.fail(sig('purity', fmt, 'two-resources'), f'save #{oi} ({op}, state {hist["state"]}) changed '
                                 f'the id table of {os.path.basename(r.uri.plain)} (not in uuid mode): '
                                 f'{sorted(k0)} -> {sorted(map(str, r.uuid_dict))}', case)
                if st0 != st1:
                    x = next((a, b) for a, b in zip(st0, st1) if a != b)
                    fx = next(((p, q) for p, q in zip(x[0][1], x[1][1]) if p != q), ('container/resource', ''))
                    out.fail(sig('purity', fmt, 'two-resources'), f'save #{oi} ({op}, state {hist["state"]}) changed '
                             f'what {x[0][0]}.{fx[0][0]} holds (value, identity or order)', case)
                data = read(tgt or res.uri.plain)
                key = tgt or 'own'
                if key in written and written[key][1] != data:
                    out.fail(sig('idempotence', fmt, 'two-resources'), f'save #{oi} ({op}) wrote other bytes than save '
                             f'#{written[key][0]} to the same target, the model unchanged in between (sequence '
                             f'{hist["ops"][:oi + 1]}): ' + _firstdiff(written[key][1], data), case)
                written.setdefault(key, (oi, data))
            # twin: the same state, ONE save to that target
            if hist['use_uuid'] or err:
                continue
            for key, (oi, data) in written.items():
                with tempfile.TemporaryDirectory(dir=scratch) as d2:
                    try:
                        rs2, res2 = prepare(hist, d2, _twores_mm())
                        tgt2 = None if key == 'own' else key.replace(d, d2)
                        res2.save() if tgt2 is None else res2.save(output=URI(tgt2))
                        twin = read(tgt2 or res2.uri.plain)
                    except Exception:       # noqa
                        continue
                    if twin != data:
                        out.fail(sig('idempotence', fmt, 'two-resources'), f'the first save to {hist["ops"][oi]} (save '
                                 f'#{oi} of {hist["ops"]}) wrote other bytes than the same model saved there at once: '
                                 + _firstdiff(twin, data), case)
    out.coverage['two_resource_scenarios_saves'] = n_saves


def interleave_scenarios(ctx, out):
    """Two saves of an untouched resource with a save of ANOTHER resource in between - another resource set,
    another metamodel whose namespace no save of this process has seen yet: the second save writes the bytes of
    the first, and so does a brand-new resource holding an equal model."""
    common.use_repo()
    from pyecore.ecore import EPackage, EClass, EAttribute, EString
    from pyecore.resources import ResourceSet, URI
    from pyecore.resources.json import JsonResource
    rng = common.rng_for(ctx.seed, 'C16:interleave')
    scratch = os.path.join(common.BUILD, 'scratch')
    os.makedirs(scratch, exist_ok=True)
    n = 0
    for k in range(6 if ctx.tier == 'quick' else 30):
        spec = gen_instance_spec(rng, 4)
        spec['ext_uuid'] = False
        spec['preset_ids'] = []
        fmt = rng.choice(['xmi', 'xmi', 'json'])
        other_fmt = rng.choice(['xmi', 'xmi', 'json'])
        opts = {'use_uuid': False, 'serialize_default': rng.random() < 0.3, 'target': 'uri', 'xmi_type': False,
                'indent': None}
        tag = f'{ctx.seed}x{k}x{os.getpid()}'
        hist = {'spec': spec, 'format': fmt, 'other_format': other_fmt, 'options': opts, 'k': k}
        case = {'scenario': 'interleave', 'seed': ctx.seed, 'tier': ctx.tier, 'history': hist}
        with tempfile.TemporaryDirectory(dir=scratch) as d, tempfile.TemporaryDirectory(dir=scratch) as d2:
            a = build(spec, d, fmt, False)
            if do_save(a, fmt, opts):
                continue
            a1 = read(a.path)
            # the unrelated resource: its own resource set, its own metamodel, a namespace nobody has used yet
            Q = EPackage('other' + tag, nsURI='http://verif/c16/other/' + tag, nsPrefix='o' + tag)
            T = EClass('T')
            T.eStructuralFeatures.append(EAttribute('name', EString))
            Q.eClassifiers.append(T)
            rs = ResourceSet()
            rs.resource_factory['json'] = lambda uri, **kw: JsonResource(uri, **kw)
            other = rs.create_resource(URI(os.path.join(d2, 'unrelated.' + other_fmt)))
            other.append(T(name='t'))
            try:
                other.save()
            except Exception:       # noqa: not this scenario's business
                continue
            n += 1
            if do_save(a, fmt, opts):
                continue
            a2 = read(a.path)
            if a1 != a2:
                out.fail(sig('idempotence', fmt, 'other-resource-saved-in-between'), 'two saves of an untouched resource '
                         f'differ after an unrelated {other_fmt} resource of another metamodel was saved in between: '
                         + _firstdiff(a1, a2), case)
            with tempfile.TemporaryDirectory(dir=scratch) as d3:
                twin = build(spec, d3, fmt, False)
                if not do_save(twin, fmt, opts) and read(twin.path) != a1:
                    out.fail(sig('idempotence', fmt, 'other-resource-saved-in-between'), 'a brand-new resource holding '
                             'an equal model wrote other bytes than the first save, an unrelated resource having been '
                             'saved in between: ' + _firstdiff(a1, read(twin.path)), case)
    out.coverage['interleaved_save_scenarios'] = n


SCENARIOS = {'metaref': metaref_scenarios, 'export': export_scenarios, 'prefixless': prefixless_scenarios,
             'twores': twores_scenarios, 'interleave': interleave_scenarios}


def option_grid(fmt, thorough):
    grid = []
    for uu in (False, True):
        for sd in (False, True):
            o = {'use_uuid': uu, 'serialize_default': sd, 'target': 'uri'}
            if fmt == 'xmi':
                grid.append(dict(o, xmi_type=False))
                if thorough or (uu != sd):
                    grid.append(dict(o, xmi_type=True))
            else:
                grid.append(dict(o, indent=None))
                if thorough or (uu == sd):
                    grid.append(dict(o, indent=2))
    grid.append(dict(grid[0], target='output'))
    grid.append(dict(grid[-2], target='output'))
    return grid


def run(ctx, out):
    common.use_repo()
    thorough = ctx.tier == 'thorough'
    rng = ctx.rng
    scratch = os.path.join(common.BUILD, 'scratch')
    os.makedirs(scratch, exist_ok=True)
    interleave_scenarios(ctx, out)      # first: before any other save of this process
    model = common.Model()
    stats = {'saves': 0, 'ok_saves_checked': 0, 'failing_saves_checked': 0, 'unsavable': 0, 'unsavable_examples': [],
             'faults': {}, 'fault_outcomes': {}, 'model_calls': 0, 'distinct': set(), 'samples': [],
             'sizes': {}, 'kinds': {'instance': 0, 'ecore': 0}, 'history': {}, 'history_skipped': {}}
    n_inst, n_ecore, nmax = (12, 5, 7) if not thorough else (50, 16, 9)
    budget = time.time() + (40 if not thorough else 480)
    specs = [gen_instance_spec(rng, nmax) for _ in range(n_inst)] + [gen_ecore_spec(rng, nmax) for _ in range(n_ecore)]
    # smallest models first: the first failure reported is a small one
    specs.sort(key=lambda s: len(s.get('objs', s.get('classes'))))
    cut = False
    # first the successful half on every model (purity, idempotence, idempotence on resources with a
    # history), then the time-boxed fault enumeration
    for si, spec in enumerate(specs):
        stats['kinds'][spec['kind']] += 1
        size = len(spec['objs']) if spec['kind'] == 'instance' else count_annots(spec)
        stats['sizes'][size] = stats['sizes'].get(size, 0) + 1
        for fmt in ('xmi', 'json'):
            grid = option_grid(fmt, thorough)
            for opts in grid:
                check_success(out, model, spec, fmt, opts, stats, scratch)
            for opts in (grid if thorough else [grid[si % 4], grid[(si + 2) % 4]]):
                if opts['target'] == 'uri':
                    check_histories(out, spec, fmt, opts, rng, stats, scratch)
    for si, spec in enumerate(specs):
        for fmt in ('xmi', 'json'):
            grid = option_grid(fmt, thorough)
            # failure half: every position x every fault kind; options rotate over the grid
            # (thorough: the whole grid at every position)
            with tempfile.TemporaryDirectory(dir=scratch) as d:
                b = build(spec, d, fmt, False)
                npos, roots = len(b.positions), [b.positions.index(r) for r in b.root_positions]
            kinds = INSTANCE_FAULTS if spec['kind'] == 'instance' else ECORE_FAULTS
            k = 0
            for pos in range(npos):
                for kind in kinds:
                    if kind == 'orphan-root' and pos not in roots:
                        continue
                    if kind in NS_FAULTS and pos != 0:
                        continue
                    optsl = grid if thorough else [grid[(k + si) % len(grid)]]
                    k += 1
                    for opts in optsl:
                        old = bytes([79, 76, 68]) + bytes(rng.randrange(256) for _ in range(rng.randint(0, 12)))
                        if rng.random() < 0.1:
                            old = None      # no previous file: only the model comparison applies
                        check_fault(out, model, spec, fmt, opts, kind, pos, old, stats, scratch)
                if time.time() > budget:
                    cut = True
                    break
            if cut:
                break
        if cut:
            break
    model.close()
    metaref_scenarios(ctx, out)
    export_scenarios(ctx, out)
    prefixless_scenarios(ctx, out)
    twores_scenarios(ctx, out)
    out.coverage.update({
        'evaluations': stats['saves'],
        'distinct_nontrivial': len(stats['distinct']),
        'rule': 'a case = (model spec, format, options, planted fault or none); distinct_nontrivial counts distinct '
                'cases (hash of the whole case) on which a save really ran and its effect on the target/model was '
                'compared; every object position of every generated model x every fault kind is enumerated',
        'traces_validated_against_impl': stats['model_calls'],
        'successful_saves_compared(purity,idempotence)': stats['ok_saves_checked'],
        'failing_saves_compared(failsafe)': stats['failing_saves_checked'],
        'faults_by_kind': stats['faults'], 'fault_outcomes': stats['fault_outcomes'],
        'models_by_kind': stats['kinds'], 'model_sizes(objects or annotations)': stats['sizes'],
        'history_scenarios(idempotence on resources with a past)': stats['history'],
        'history_scenarios_not_comparable(load or repaired save raised)': stats['history_skipped'],
        'generated_models_not_savable': stats['unsavable'],
        'generated_models_not_savable_examples': stats['unsavable_examples'][:3],
        'cut_by_time_budget': cut,
        'samples': stats['samples'],
    })
    out.assumptions += [
        'file system = the single target file observed through open()/read() (A-fs); the stream of a failed save '
        'is not closed by pyecore (no try/finally) and is left to the garbage collector',
        'lxml.etree / json.dumps are outside the model: the bytes of a successful save are taken from an '
        'independent save of the same model to another target',
        '_internal_id assigned by a uuid-mode save is not part of the observable state (property text)',
        'empty resources are not generated (JsonResource.save raises IndexError on them)',
    ]
    if stats['unsavable']:
        out.notes.append(f"{stats['unsavable']} fault-free generated model/option combinations could not be saved "
                         '(listed in coverage); they are not C16 failures')


def replay(ctx, rep):
    common.use_repo()
    case = rep['case']
    if case.get('scenario') in SCENARIOS:
        return common.scenario_replay(ctx, rep, SCENARIOS)
    spec, fmt, opts = case['spec'], case['format'], case['options']
    scratch = os.path.join(common.BUILD, 'scratch')
    os.makedirs(scratch, exist_ok=True)
    clause = rep.get('signature', {}).get('clause')
    if 'history' in case:
        # idempotence on a resource with a history: re-run the history scenarios of this model/options
        class Collect:
            fails = []

            def fail(self, signature, what, case):
                self.fails.append((signature, what))
        col = Collect()
        stats = {'saves': 0, 'history': {}, 'history_skipped': {}, 'distinct': set()}
        for _ in range(8):      # the planted position is drawn at random
            check_histories(col, spec, fmt, opts, ctx.rng, stats, scratch)
        want = rep.get('signature', {}).get('fault')
        hits = [w for sg, w in col.fails if sg.get('fault') == want]
        for w in hits[:2]:
            print(w)
        print('REPRODUCED' if hits else 'not reproduced', f'(clause {clause}, {want})')
        return 1 if hits else 0
    with tempfile.TemporaryDirectory(dir=scratch) as d:
        b = build(spec, d, fmt, opts['use_uuid'], opts.get('indent'))
        target = b.path if opts['target'] == 'uri' else os.path.join(d, 'elsewhere.' + fmt)
        # output=: ONE URI object, kept alive and reused for every save of this case (an export target)
        outp = None if opts['target'] == 'uri' else _uri(target)
        fault = case.get('fault')
        if fault:
            if opts['use_uuid'] and fault['position'] % 2 == 0:
                do_save(b, fmt, opts, os.path.join(d, 'presave.' + fmt))    # as in check_fault: ids assigned first
            plant(b, spec, fault['kind'], b.positions[fault['position']] if spec['kind'] == 'instance'
                  else fault['position'])
            old = bytes(case['old']) if case.get('old') is not None else b'OLD'
            with open(target, 'wb') as f:
                f.write(old)
            d0, book0 = dump(b), id_book(b)
            exc = do_save(b, fmt, opts, outp)
            after = read(target)
            lost = id_book_lost(book0, id_book(b))
            print(f'planted {fault} ; target pre-filled with {old!r}')
            print(f'save raised: {exc} ; target afterwards: {after!r}')
            if lost:
                print('id bookkeeping: ' + lost)
            bad = (exc is not None and after != old) or (exc is not None and dump(b) != d0) or bool(lost)
        else:
            d0 = dump(b)
            e1 = do_save(b, fmt, opts, outp)
            b1 = read(target)
            e2 = do_save(b, fmt, opts, outp)
            b2 = read(target)
            d2 = dump(b)
            print(f'save 1 -> {e1}, {len(b1 or b"")} bytes; save 2 -> {e2}, {len(b2 or b"")} bytes; '
                  f'bytes equal: {b1 == b2}; observations equal: {d0 == d2}')
            if d0 != d2:
                print(first_difference(d0, d2))
            if b1 != b2:
                print(_firstdiff(b1, b2))
            bad = (b1 != b2) or (d0 != d2)
    print('REPRODUCED' if bad else 'not reproduced', f'(clause {clause})')
    return 1 if bad else 0
