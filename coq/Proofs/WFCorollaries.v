(* What the global invariant WF (Proofs/WFBase.v), preserved by every kernel operation
   (Proofs/OwnAll.v: WF_step, WF_history), gives in every reachable state: the statements used by
   Props/C01 C02 C07 C11 C19.  Nothing here unfolds a kernel procedure. *)
From Coq Require Import ZArith List Bool Arith Lia.
From PyecoreV Require Import Lib.PyBase Lib.PyList Model.Kernel Proofs.KernelFacts Proofs.C01Proofs
  Proofs.C01Full Proofs.C02Proofs Proofs.WFBase Proofs.SymLink Proofs.OwnAll Proofs.C11Proofs Proofs.C19Once.
Import ListNotations.
Open Scope nat_scope.

Definition reach (m : mm) (ops : list op) : state := fold_left (next m) ops (init_state m).

(* ---------- consequences of WF in one state ---------- *)
Section OneState.
Variable m : mm.
Variable s : state.
Hypothesis H : WF m s.

Lemma WF_Inv : Inv m s.
Proof. split; [apply (wf_sym m s H) | apply shape2_shape; apply (wf_shape m s H)]. Qed.

(* the container back-pointer names exactly the containment slot that holds the object *)
Lemma container_iff_held (c p : oid) (f : fid) :
  cont s c = Some (p, f) <-> (f_cont (fd m f) = true /\ In (VObj c) (vals s (p, f))).
Proof. apply (wf_own m s H). Qed.

(* at most one containment slot of one container holds an object ... *)
Lemma one_owner_slot (c p p' : oid) (f f' : fid) :
  f_cont (fd m f) = true -> f_cont (fd m f') = true ->
  In (VObj c) (vals s (p, f)) -> In (VObj c) (vals s (p', f')) -> p = p' /\ f = f'.
Proof.
  intros Hf Hf' Hi Hi'.
  assert (E : cont s c = Some (p, f)) by (apply container_iff_held; split; assumption).
  assert (E' : cont s c = Some (p', f')) by (apply container_iff_held; split; assumption).
  rewrite E in E'. inversion E'. split; reflexivity.
Qed.

(* ... and holds it once *)
Lemma once_in_owner_slot (p : oid) (f : fid) :
  f_cont (fd m f) = true -> NoDup (objs_of (vals s (p, f))).
Proof. intros Hf. apply (proj2 (wf_shape m s H p f)). right. exact Hf. Qed.

(* no container exactly when no containment slot holds the object *)
Lemma no_container_iff_unheld (c : oid) :
  cont s c = None <-> (forall p f, f_cont (fd m f) = true -> ~ In (VObj c) (vals s (p, f))).
Proof.
  split.
  - intros E p f Hf Hi.
    assert (E' : cont s c = Some (p, f)) by (apply container_iff_held; split; assumption).
    rewrite E in E'. discriminate.
  - intros Hn. destruct (cont s c) as [[p f]|] eqn:E; [|reflexivity].
    apply container_iff_held in E. destruct E as [Hf Hi]. exfalso. exact (Hn p f Hf Hi).
Qed.

(* roots: once, in one resource, exactly where eResource says, and never contained *)
Lemma root_once (r : rid) : NoDup (rcont s r).
Proof. apply (proj1 (wf_res m s H)). Qed.

Lemma root_iff_eresource (c : oid) (r : rid) : In c (rcont s r) <-> eres s c = Some r.
Proof. apply (proj2 (wf_res m s H)). Qed.

Lemma root_one_resource (c : oid) (r r' : rid) : In c (rcont s r) -> In c (rcont s r') -> r = r'.
Proof.
  intros Hr Hr'. apply root_iff_eresource in Hr. apply root_iff_eresource in Hr'.
  rewrite Hr in Hr'. inversion Hr'. reflexivity.
Qed.

Lemma root_has_no_container (c : oid) (r : rid) : In c (rcont s r) -> cont s c = None.
Proof. apply (wf_roots m s H). Qed.

Lemma root_unheld (c : oid) (r : rid) (p : oid) (f : fid) :
  In c (rcont s r) -> f_cont (fd m f) = true -> ~ In (VObj c) (vals s (p, f)).
Proof. intros Hr. apply no_container_iff_unheld. eapply root_has_no_container. exact Hr. Qed.

(* an object is owned by a slot or by a root position, never by both *)
Lemma contained_is_no_root (c p : oid) (f : fid) (r : rid) :
  cont s c = Some (p, f) -> ~ In c (rcont s r).
Proof. intros E Hr. rewrite (root_has_no_container c r Hr) in E. discriminate. Qed.

(* every object reports the resource of the root its container chain ends at *)
Lemma WF_eresource_is_roots (o : oid) (r : rid) :
  eresource_of m s o = Some r <-> In (root_of (S (length (ocls m))) s o) (rcont s r).
Proof. unfold eresource_of. symmetry. apply root_iff_eresource. Qed.

(* the part of the ownership invariant C11's fragment theorem needs *)
Lemma WF_single_slots_ok : single_slots_ok m s.
Proof.
  intros c p f E Hm. apply container_iff_held in E. destruct E as [_ Hi].
  destruct (proj1 (wf_shape m s H p f) Hm) as [v Ev].
  unfold single. rewrite Ev in *. simpl in Hi. destruct Hi as [Hi|[]]. exact Hi.
Qed.

(* C19: children and descendants once (acyclicity of the chain is the caller's premise) *)
Lemma WF_econtents_NoDup (o : oid) : NoDup (econtents m s o).
Proof. apply econtents_NoDup; [apply (wf_own m s H) | apply (wf_shape m s H)]. Qed.

Lemma WF_eallcontents_NoDup (fuel : nat) (o : oid) :
  acyclic_cont s -> NoDup (eallcontents fuel m s o).
Proof. intros Ha. apply eallcontents_NoDup; [apply (wf_own m s H) | apply (wf_shape m s H) | exact Ha]. Qed.
End OneState.

(* ---------- every reachable state ---------- *)
Section Reachable.
Variable m : mm.
Hypothesis W : wf_mm m.
Hypothesis Dn : ref_defaults_none m.
Variable ops : list op.
Hypothesis Hops : Forall (op_many m) ops.

Lemma reach_WF : WF m (reach m ops).
Proof. unfold reach. apply WF_history; assumption. Qed.

Theorem reach_sym : sym m (reach m ops).
Proof. apply (wf_sym _ _ reach_WF). Qed.

Theorem reach_Inv : Inv m (reach m ops).
Proof. apply WF_Inv. apply reach_WF. Qed.

Theorem reach_container_iff_held c p f :
  cont (reach m ops) c = Some (p, f) <-> (f_cont (fd m f) = true /\ In (VObj c) (vals (reach m ops) (p, f))).
Proof. apply container_iff_held. apply reach_WF. Qed.

Theorem reach_one_owner_slot c p p' f f' :
  f_cont (fd m f) = true -> f_cont (fd m f') = true ->
  In (VObj c) (vals (reach m ops) (p, f)) -> In (VObj c) (vals (reach m ops) (p', f')) -> p = p' /\ f = f'.
Proof. apply one_owner_slot. apply reach_WF. Qed.

Theorem reach_once_in_owner_slot p f :
  f_cont (fd m f) = true -> NoDup (objs_of (vals (reach m ops) (p, f))).
Proof. apply once_in_owner_slot. apply reach_WF. Qed.

Theorem reach_no_container_iff_unheld c :
  cont (reach m ops) c = None <->
  (forall p f, f_cont (fd m f) = true -> ~ In (VObj c) (vals (reach m ops) (p, f))).
Proof. apply no_container_iff_unheld. apply reach_WF. Qed.

Theorem reach_roots c r r' :
  NoDup (rcont (reach m ops) r) /\
  (In c (rcont (reach m ops) r) <-> eres (reach m ops) c = Some r) /\
  (In c (rcont (reach m ops) r) -> In c (rcont (reach m ops) r') -> r = r') /\
  (In c (rcont (reach m ops) r) -> cont (reach m ops) c = None).
Proof.
  pose proof reach_WF as H. repeat split.
  - apply (root_once m _ H).
  - apply (root_iff_eresource m _ H).
  - apply (root_iff_eresource m _ H).
  - apply (root_one_resource m _ H).
  - apply (root_has_no_container m _ H).
Qed.

Theorem reach_eresource_is_roots o r :
  eresource_of m (reach m ops) o = Some r <->
  In (root_of (S (length (ocls m))) (reach m ops) o) (rcont (reach m ops) r).
Proof. apply WF_eresource_is_roots. apply reach_WF. Qed.

Theorem reach_single_slots_ok : single_slots_ok m (reach m ops).
Proof. apply WF_single_slots_ok. apply reach_WF. Qed.

Theorem reach_econtents_NoDup o : NoDup (econtents m (reach m ops) o).
Proof. apply WF_econtents_NoDup. apply reach_WF. Qed.

Theorem reach_eallcontents_NoDup fuel o :
  acyclic_cont (reach m ops) -> NoDup (eallcontents fuel m (reach m ops) o).
Proof. apply WF_eallcontents_NoDup. apply reach_WF. Qed.
End Reachable.
