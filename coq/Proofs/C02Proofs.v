(* C02: ownership — facts proved over Model/Kernel.v. *)
From Coq Require Import ZArith List Bool Arith Lia.
From PyecoreV Require Import Lib.PyBase Lib.PyList Model.Kernel Proofs.PyListFacts Proofs.KernelFacts Proofs.C03Proofs.
Import ListNotations.
Open Scope nat_scope.

(* An operation that fails leaves the whole state as it was (hence ownership).
   The one exception in the code is item assignment on a list-based (non
   unique) collection, whose IndexError comes after the inverse-reference
   bookkeeping of the new element; such collections are never containments
   in a well-formed metamodel. *)
Definition atomic_op (m : mm) (o : op) : Prop :=
  match o with OSetItem _ f _ _ => f_unique (fd m f) = true | _ => True end.

Theorem failed_op_changes_nothing m s o e s' r :
  atomic_op m o -> step m s o = ((Some e, s'), r) -> s' = s.
Proof.
  intros Ha. unfold step.
  destruct o as [x f v|x f|x f|x f vs|x f v|x f i v|x f v|x f i|x f|x f vs|x f i v|x f i|x rc|rr o|rr o|rr os|x f].
  - destruct (f_many (fd m f)); [intros H; inversion H; reflexivity|].
    unfold set_full. destruct (check_single m f v); cbn [negb]; [|intros H; inversion H; reflexivity].
    destruct (f_isref (fd m f)); cbn [negb]; [|intros H; inversion H].
    destruct (f_opp (fd m f)); [|intros H; inversion H].
    destruct (obj_of v); [|intros H; inversion H]. destruct (f_many (fd m f0)); intros H; inversion H.
  - destruct (f_many (fd m f)); [intros H; inversion H; reflexivity|].
    unfold set_full. cbn [check_single conforms negb].
    destruct (f_isref (fd m f)); cbn [negb]; [|intros H; inversion H].
    destruct (f_opp (fd m f)); intros H; inversion H.
  - unfold del_full. cbn [snd]. destruct (f_many (fd m f)); [intros H; inversion H|].
    unfold set_full. destruct (check_single m f (f_default (fd m f))); cbn [negb]; [|intros H; inversion H; reflexivity].
    destruct (f_isref (fd m f)); cbn [negb]; [|intros H; inversion H].
    destruct (f_opp (fd m f)); [|intros H; inversion H].
    destruct (obj_of (f_default (fd m f))); [|intros H; inversion H].
    destruct (f_many (fd m f0)); intros H; inversion H.
  - destruct (f_many (fd m f)); [|intros H; inversion H; reflexivity].
    unfold assign_full. cbn [snd]. destruct (forallb (check_elem m f) vs) eqn:Ec; cbn [negb];
      [|intros H; inversion H; reflexivity].
    unfold coll_extend_full. rewrite Ec. cbn [negb]. intros H; inversion H.
  - unfold coll_add_full. destruct (check_elem m f v); cbn [negb]; intros H; inversion H; reflexivity.
  - unfold coll_add_full. destruct (check_elem m f v); cbn [negb]; intros H; inversion H; reflexivity.
  - unfold coll_remove_top. destruct (vmem v (vals s (x, f))); intros H; inversion H; reflexivity.
  - unfold coll_pop_full. destruct (vals s (x, f)) as [|a l]; [intros H; inversion H; reflexivity|].
    destruct (py_pop i (a :: l)) as [[w l']|]; intros H; inversion H; reflexivity.
  - intros H; inversion H.
  - unfold coll_extend_full. destruct (forallb (check_elem m f) vs); cbn [negb]; intros H; inversion H; reflexivity.
  - cbn [atomic_op] in Ha. unfold coll_setitem_full. rewrite Ha.
    destruct (check_elem m f v) eqn:Ec; cbn [negb]; [|intros H; inversion H; reflexivity].
    destruct ((i <? 0)%Z && ((if (i <? 0)%Z then (zlen (vals s (x, f)) + i)%Z else i) <? 0)%Z);
      [intros H; inversion H; reflexivity|].
    unfold seq_outcome.
    set (j := if (i <? 0)%Z then (zlen (vals s (x, f)) + i)%Z else i).
    unfold coll_pop_full. destruct (vals s (x, f)) as [|a l]; cbn [fst]; [intros H; inversion H; reflexivity|].
    destruct (py_pop j (a :: l)) as [[w l']|]; cbn [fst]; [|intros H; inversion H; reflexivity].
    unfold coll_add_full. rewrite Ec. cbn [negb]. intros H; inversion H.
  - unfold coll_delitem_full. cbn [snd]. destruct (f_unique (fd m f)).
    + unfold coll_pop_full. destruct (vals s (x, f)) as [|a l]; cbn [fst]; [intros H; inversion H; reflexivity|].
      destruct (py_pop i (a :: l)) as [[w l']|]; cbn [fst]; intros H; inversion H; reflexivity.
    + destruct (py_pop i (vals s (x, f))) as [[w l']|]; intros H; inversion H; reflexivity.
  - intros H; inversion H.
  - intros H; inversion H.
  - unfold res_remove. destruct (nmem o (rcont s rr)); intros H; inversion H; reflexivity.
  - intros H; inversion H.
  - intros H; inversion H.
Qed.

(* ---------- the root lists and the _eresource back-pointers agree, always ---------- *)
Definition res_ok (s : state) : Prop :=
  (forall r, NoDup (rcont s r)) /\
  (forall c r, In c (rcont s r) <-> eres s c = Some r).

(* procedures that touch neither root lists nor _eresource *)
Definition rframe (s s' : state) : Prop := rcont s' = rcont s /\ eres s' = eres s.

Lemma rframe_refl s : rframe s s.
Proof. split; reflexivity. Qed.

Lemma rframe_trans s1 s2 s3 : rframe s1 s2 -> rframe s2 s3 -> rframe s1 s3.
Proof. intros [A1 A2] [B1 B2]. split; congruence. Qed.

Lemma res_ok_frame s s' : rframe s s' -> res_ok s -> res_ok s'.
Proof. intros [E1 E2] [H1 H2]. split; intros; rewrite ?E1, ?E2; auto. Qed.

Lemma remove_nat_In o x l : NoDup l -> (In x (remove_nat o l) <-> In x l /\ x <> o).
Proof.
  induction l as [|y ys IH]; intros ND; simpl; [tauto|].
  inversion ND as [|? ? Hy ND']; subst.
  destruct (Nat.eqb_spec y o) as [E|N].
  - subst y. split; [intros H; split; [right; exact H | intros ->; contradiction]|].
    intros [[H|H] Hn]; [congruence | exact H].
  - simpl. rewrite (IH ND'). split.
    + intros [H|[H Hn]]; [subst; tauto | tauto].
    + intros [[H|H] Hn]; tauto.
Qed.

Lemma remove_nat_NoDup o l : NoDup l -> NoDup (remove_nat o l).
Proof.
  induction l as [|y ys IH]; intros ND; simpl; [constructor|].
  inversion ND as [|? ? Hy ND']; subst. destruct (y =? o); [exact ND'|].
  constructor; [|apply IH; exact ND']. intros H. apply (remove_nat_In o y ys ND') in H. tauto.
Qed.

Lemma nmem_In o l : nmem o l = true <-> In o l.
Proof.
  unfold nmem. rewrite existsb_exists. split.
  - intros [x [Hx E]]. apply Nat.eqb_eq in E. subst. exact Hx.
  - intros H. exists o. split; [exact H | apply Nat.eqb_refl].
Qed.

Lemma res_ok_remove_raw s r o : res_ok s -> In o (rcont s r) -> res_ok (res_remove_raw s r o).
Proof.
  intros [H1 H2] Hin. pose proof (proj1 (H2 o r) Hin) as Ho.
  unfold res_remove_raw. split; cbn [rcont eres set_eres set_rcont].
  - intros r'. unfold updn. destruct (r =? r'); [apply remove_nat_NoDup|]; apply H1.
  - intros c r'. unfold updn.
    destruct (Nat.eqb_spec r r') as [Er|Nr]; destruct (Nat.eqb_spec o c) as [Eo|No].
    + subst. rewrite (remove_nat_In c c (rcont s r') (H1 r')). split; [intros [_ H]; congruence | discriminate].
    + subst. rewrite (remove_nat_In o c (rcont s r') (H1 r')). rewrite H2.
      split; [tauto | intros H; split; [exact H | congruence]].
    + subst c. split; [|discriminate]. intros H. apply H2 in H. congruence.
    + apply H2.
Qed.

Section ResOk.
Variable m : mm.

Lemma rframe_uc_clear s f p : rframe s (uc_clear m s f p).
Proof. unfold uc_clear. destruct (f_cont (fd m f)); [destruct p|]; split; reflexivity. Qed.

Lemma rframe_set_store s k v : rframe s (set_store m s k v).
Proof. split; reflexivity. Qed.

Lemma rframe_set_none_raw s k : rframe s (set_none_raw m s k).
Proof.
  unfold set_none_raw. destruct (f_isref (fd m (snd k))); [|apply rframe_set_store].
  eapply rframe_trans; [apply rframe_set_store | apply rframe_uc_clear].
Qed.

Lemma rframe_coll_remove_raw s k x : rframe s (coll_remove_raw m s k x).
Proof.
  unfold coll_remove_raw. destruct (vmem (VObj x) (vals s k)); [|apply rframe_refl].
  pose proof (rframe_uc_clear s (snd k) (Some x)) as [A B]. split; cbn [rcont eres notify push_log set_vals]; assumption.
Qed.

Lemma rframe_inv_add s o c : rframe s (inv_add s o c).
Proof. unfold inv_add. destruct (cmem c (inv s o)); split; reflexivity. Qed.

Lemma rframe_update_opposite_remove s x f y : rframe s (update_opposite_remove m s x f y).
Proof.
  unfold update_opposite_remove. destruct (f_opp (fd m f)) as [g|].
  - destruct (f_many (fd m g)).
    + destruct (cell_eqb (y, g) (x, f)); [apply rframe_refl | apply rframe_coll_remove_raw].
    + apply rframe_set_none_raw.
  - destruct (cmem (x, f) (inv s y)); [split; reflexivity | apply rframe_inv_add].
Qed.

Lemma rframe_unlink_elem s x f v : rframe s (unlink_elem m s x f v).
Proof.
  unfold unlink_elem. destruct (f_isref (fd m f)); [|apply rframe_refl]. destruct (obj_of v); [|apply rframe_refl].
  eapply rframe_trans; [apply rframe_uc_clear | apply rframe_update_opposite_remove].
Qed.

Lemma rframe_coll_remove_full s k v : rframe s (coll_remove_full m s k v).
Proof.
  destruct k as [x f]. unfold coll_remove_full.
  set (s1 := if f_isref (fd m f) then
               match obj_of v with
               | Some y => update_opposite_remove m (uc_clear m s f (Some y)) x f y
               | None => s end else s).
  assert (H1 : rframe s s1).
  { unfold s1. destruct (f_isref (fd m f)); [|apply rframe_refl]. destruct (obj_of v); [|apply rframe_refl].
    eapply rframe_trans; [apply rframe_uc_clear | apply rframe_update_opposite_remove]. }
  destruct H1 as [A B]. split; cbn [rcont eres notify push_log set_vals]; assumption.
Qed.

Lemma rframe_set_none_full s k : rframe s (set_none_full m s k).
Proof.
  destruct k as [x f]. unfold set_none_full.
  destruct (f_isref (fd m f)); cbn [negb]; [|apply rframe_set_store].
  set (s2 := uc_clear m (set_store m s (x, f) VNone) f (obj_of (single s (x, f)))).
  assert (H2 : rframe s s2) by (eapply rframe_trans; [apply rframe_set_store | apply rframe_uc_clear]).
  destruct (f_opp (fd m f)) as [g|].
  - destruct (obj_of (single s (x, f))) as [q|]; [|exact H2].
    destruct (f_many (fd m g)).
    + eapply rframe_trans; [exact H2 | apply rframe_coll_remove_raw].
    + destruct (cell_eqb (q, g) (x, f)); [exact H2|].
      eapply rframe_trans; [exact H2 | apply rframe_set_none_raw].
  - destruct (obj_of (single s (x, f))); [|exact H2].
    eapply rframe_trans; [exact H2 | split; reflexivity].
Qed.

Lemma rframe_remove_or_unset s k y : rframe s (remove_or_unset m s k y).
Proof.
  unfold remove_or_unset. destruct (f_many (fd m (snd k))).
  - destruct (vmem (VObj y) (vals s k)); [apply rframe_coll_remove_full | apply rframe_refl].
  - apply rframe_set_none_full.
Qed.

(* the container update may take the new child out of the resource it was a root of *)
Lemma res_ok_update_container s x f v p : res_ok s -> res_ok (update_container m s x f v p).
Proof.
  intros H. unfold update_container. destruct (f_cont (fd m f)); cbn [negb]; [|exact H].
  assert (H1 : res_ok match v with
    | Some y =>
      let sa := match eresource_of m s y with
                | Some r => if nmem y (rcont s r) then res_remove_raw s r y else s
                | None => s end in
      let sb := match cont sa y with
                | Some (p0, pf) => if negb ((p0 =? x) && (pf =? f)) then remove_or_unset m sa (p0, pf) y else sa
                | None => sa end in
      set_cont sb y (Some (x, f))
    | None => s end).
  { destruct v as [y|]; [|exact H]. cbv zeta.
    set (sa := match eresource_of m s y with
               | Some r => if nmem y (rcont s r) then res_remove_raw s r y else s
               | None => s end).
    assert (Ha : res_ok sa).
    { unfold sa. destruct (eresource_of m s y) as [r|]; [|exact H].
      destruct (nmem y (rcont s r)) eqn:En; [|exact H]. apply res_ok_remove_raw; [exact H | apply nmem_In; exact En]. }
    destruct (cont sa y) as [[p0 pf]|]; [|exact Ha].
    destruct (negb ((p0 =? x) && (pf =? f))); [|exact Ha].
    apply (res_ok_frame (remove_or_unset m sa (p0, pf) y)); [split; reflexivity|].
    apply (res_ok_frame sa); [apply rframe_remove_or_unset | exact Ha]. }
  destruct p as [p|]; [|exact H1]. destruct v as [y|]; [destruct (y =? p)|]; exact H1.
Qed.

Lemma res_ok_set_obj_raw s k x : res_ok s -> res_ok (set_obj_raw m s k x).
Proof.
  intros H. unfold set_obj_raw.
  assert (H1 : res_ok (set_store m s k (VObj x))) by exact H.
  destruct (f_isref (fd m (snd k))); [apply res_ok_update_container|]; exact H1.
Qed.

Lemma res_ok_coll_append_raw s k x : res_ok s -> res_ok (coll_append_raw m s k x).
Proof.
  intros H. unfold coll_append_raw.
  pose proof (res_ok_update_container s (fst k) (snd k) (Some x) None H) as H1. exact H1.
Qed.

Lemma res_ok_update_opposite_add s x f y : res_ok s -> res_ok (update_opposite_add m s x f y).
Proof.
  intros H. unfold update_opposite_add. destruct (f_opp (fd m f)) as [g|].
  - destruct (f_many (fd m g)).
    + destruct (cell_eqb (y, g) (x, f)); [exact H | apply res_ok_coll_append_raw; exact H].
    + apply res_ok_set_obj_raw.
      destruct (obj_of (single s (y, g))) as [c|]; [|exact H].
      destruct (c =? x); [exact H|]. apply (res_ok_frame s); [apply rframe_coll_remove_raw | exact H].
  - apply (res_ok_frame s); [apply rframe_inv_add | exact H].
Qed.

Lemma res_ok_link_elem s x f v : res_ok s -> res_ok (link_elem m s x f v).
Proof.
  intros H. unfold link_elem. destruct (f_isref (fd m f)); [|exact H]. destruct (obj_of v) as [y|]; [|exact H].
  apply res_ok_update_opposite_add. apply res_ok_update_container. exact H.
Qed.

Lemma res_ok_set_full s k v : res_ok s -> res_ok (snd (set_full m s k v)).
Proof.
  intros H. destruct k as [x f]. unfold set_full.
  destruct (check_single m f v); cbn [negb]; [|exact H].
  assert (H1 : res_ok (set_store m s (x, f) v)) by exact H.
  destruct (f_isref (fd m f)); cbn [negb]; [|exact H1].
  set (s2 := update_container m (set_store m s (x, f) v) x f (obj_of v) (obj_of (single s (x, f)))).
  assert (H2 : res_ok s2) by (apply res_ok_update_container; exact H1).
  destruct (f_opp (fd m f)) as [g|].
  - set (s3 := match obj_of (single s (x, f)) with
               | Some q =>
                 if match obj_of v with Some y => y =? q | None => false end then s2
                 else if f_many (fd m g) then coll_remove_raw m s2 (q, g) x
                 else if cell_eqb (q, g) (x, f) then s2 else set_none_raw m s2 (q, g)
               | None => s2 end).
    assert (H3 : res_ok s3).
    { unfold s3. destruct (obj_of (single s (x, f))) as [q|]; [|exact H2].
      destruct (match obj_of v with Some y => y =? q | None => false end); [exact H2|].
      destruct (f_many (fd m g)); [apply (res_ok_frame s2); [apply rframe_coll_remove_raw | exact H2]|].
      destruct (cell_eqb (q, g) (x, f)); [exact H2|]. apply (res_ok_frame s2); [apply rframe_set_none_raw | exact H2]. }
    destruct (obj_of v) as [y|]; [|exact H3].
    destruct (f_many (fd m g)); cbn [snd].
    + apply res_ok_coll_append_raw; exact H3.
    + apply res_ok_set_obj_raw.
      destruct (obj_of (single s3 (y, g))) as [c|]; [|exact H3].
      destruct (c =? x); [exact H3|]. apply (res_ok_frame s3); [apply rframe_set_none_raw | exact H3].
  - cbn [snd]. destruct (obj_of v) as [y|].
    + apply (res_ok_frame (match obj_of (single s (x, f)) with Some q => inv_del s2 q (x, f) | None => s2 end));
        [apply rframe_inv_add|]. destruct (obj_of (single s (x, f))); exact H2.
    + destruct (obj_of (single s (x, f))); exact H2.
Qed.

Lemma res_ok_coll_add_full s k pos v : res_ok s -> res_ok (snd (coll_add_full m s k pos v)).
Proof.
  intros H. destruct k as [x f]. unfold coll_add_full. destruct (check_elem m f v); cbn [negb snd]; [|exact H].
  pose proof (res_ok_link_elem s x f v H) as H1. exact H1.
Qed.

Lemma res_ok_coll_pop_full s k i : res_ok s -> res_ok (snd (fst (coll_pop_full m s k i))).
Proof.
  intros H. destruct k as [x f]. unfold coll_pop_full. destruct (vals s (x, f)) as [|a l]; [exact H|].
  destruct (py_pop i (a :: l)) as [[v l']|]; [|exact H]. cbn [fst snd].
  apply (res_ok_frame (set_vals s (x, f) l')); [|exact H].
  pose proof (rframe_unlink_elem (set_vals s (x, f) l') x f v) as [A B]. split; cbn [rcont eres notify push_log]; assumption.
Qed.

Lemma rframe_fold_unlink s x f l : rframe s (fold_left (fun acc v => unlink_elem m acc x f v) l s).
Proof.
  revert s; induction l as [|v l IH]; intros s; simpl; [apply rframe_refl|].
  eapply rframe_trans; [apply rframe_unlink_elem | apply IH].
Qed.

Lemma rframe_coll_clear_full s k : rframe s (coll_clear_full m s k).
Proof.
  destruct k as [x f]. unfold coll_clear_full. destruct (vals s (x, f)) as [|a l]; [apply rframe_refl|].
  pose proof (rframe_fold_unlink s x f (a :: l)) as [A B]. split; cbn [rcont eres notify push_log set_vals]; assumption.
Qed.

Lemma res_ok_coll_extend_full s k vs : res_ok s -> res_ok (snd (coll_extend_full m s k vs)).
Proof.
  intros H. destruct k as [x f]. unfold coll_extend_full.
  destruct (forallb (check_elem m f) vs); cbn [negb snd]; [|exact H].
  match goal with |- res_ok (set_isset (notify m ?S _ _ _ _ _) _) => set (s1 := S) end.
  apply (res_ok_frame s1); [split; reflexivity|]. unfold s1. clear s1.
  destruct (f_unique (fd m f)).
  - revert s H. induction vs as [|v vs IH]; intros s H; simpl; [exact H|].
    apply IH. apply res_ok_link_elem. exact H.
  - assert (Ha : res_ok (fold_left (fun acc v => link_elem m acc x f v) vs s)).
    { revert s H. induction vs as [|v vs IH]; intros s H; simpl; [exact H|]. apply IH. apply res_ok_link_elem. exact H. }
    exact Ha.
Qed.

Lemma res_ok_delete_step x s k : res_ok s -> res_ok (delete_step m x s k).
Proof.
  intros H. destruct k as [owner f]. unfold delete_step. destruct (f_many (fd m f)).
  - destruct (owner =? x); [apply (res_ok_frame s); [apply rframe_coll_clear_full | exact H]|].
    destruct (vmem (VObj x) (vals s (owner, f))); [apply (res_ok_frame s); [apply rframe_coll_remove_full | exact H] | exact H].
  - destruct ((match single s (owner, f) with VObj y => y =? x | _ => false end) || (owner =? x)); [|exact H].
    apply res_ok_set_full. exact H.
Qed.

Lemma res_ok_delete_obj fuel s x r : res_ok s -> res_ok (delete_obj fuel m s x r).
Proof.
  revert s x r; induction fuel as [|fu IH]; intros s x r H; simpl; [exact H|].
  assert (G : forall l s0, res_ok s0 -> res_ok (fold_left (delete_step m x) l s0)).
  { induction l as [|k l IHl]; intros s0 H0; simpl; [exact H0|]. apply IHl. apply res_ok_delete_step. exact H0. }
  apply G. destruct r; [|exact H].
  generalize (econtents m s x). intros l. revert s H.
  induction l as [|c l IHl]; intros s H; simpl; [exact H|]. apply IHl. apply IH. exact H.
Qed.

Lemma res_ok_res_append s r o : res_ok s -> res_ok (res_append m s r o).
Proof.
  intros H. unfold res_append.
  (* appending o, which is currently a root of no resource *)
  assert (G : forall s0, res_ok s0 -> (forall r', ~ In o (rcont s0 r')) ->
     res_ok (let s1 := set_eres (set_rcont s0 r (rcont s0 r ++ [o])) o (Some r) in
             match cont s1 o with
             | Some (p, pf) =>
               if f_many (fd m pf)
               then (if vmem (VObj o) (vals s1 (p, pf)) then coll_remove_full m s1 (p, pf) (VObj o) else s1)
               else snd (set_full m s1 (p, pf) VNone)
             | None => s1 end)).
  { intros s0 [A B] Hno. cbv zeta.
    set (s1 := set_eres (set_rcont s0 r (rcont s0 r ++ [o])) o (Some r)).
    assert (H1 : res_ok s1).
    { split; cbn [rcont eres set_eres set_rcont s1]; unfold updn.
      - intros r'. destruct (Nat.eqb_spec r r') as [E|N]; [|apply A].
        subst r'. clear - A Hno. specialize (A r). specialize (Hno r).
        induction (rcont s0 r) as [|y ys IH]; simpl; [constructor; [tauto | constructor]|].
        inversion A; subst. constructor.
        + rewrite in_app_iff. simpl. intros [Hy|[Hy|[]]]; [tauto | subst; apply Hno; left; reflexivity].
        + apply IH; [assumption | intros Hy; apply Hno; right; exact Hy].
      - intros c r'. destruct (Nat.eqb_spec r r') as [E|N]; destruct (Nat.eqb_spec o c) as [Eo|No].
        + subst. rewrite in_app_iff. simpl. tauto.
        + subst. rewrite in_app_iff. simpl. rewrite B. split; [intros [Hc|[Hc|[]]]; [exact Hc | congruence] | tauto].
        + subst c. split; [intros Hc; exfalso; exact (Hno r' Hc) | intros Hc; congruence].
        + apply B. }
    destruct (cont s1 o) as [[p pf]|]; [|exact H1].
    destruct (f_many (fd m pf)).
    - destruct (vmem (VObj o) (vals s1 (p, pf))); [apply (res_ok_frame s1); [apply rframe_coll_remove_full | exact H1] | exact H1].
    - apply res_ok_set_full. exact H1. }
  pose proof H as [A B].
  destruct (eres s o) as [p|] eqn:Ep.
  - destruct (nmem o (rcont s p)) eqn:En.
    + destruct (p =? r); [exact H|].
      apply G; [apply res_ok_remove_raw; [exact H | apply nmem_In; exact En]|].
      intros r' Hin. pose proof (res_ok_remove_raw s p o H (proj1 (nmem_In o _) En)) as [_ B'].
      apply B' in Hin. cbn [eres res_remove_raw set_eres set_rcont] in Hin. unfold updn in Hin.
      rewrite Nat.eqb_refl in Hin. discriminate.
    + (* eres says p but o is not listed there: contradicts res_ok *)
      exfalso. apply (proj2 (B o p)) in Ep. apply nmem_In in Ep. congruence.
  - apply G; [exact H|]. intros r' Hin. apply B in Hin. congruence.
Qed.

Theorem res_ok_step s o : res_ok s -> res_ok (next m s o).
Proof.
  intros H. unfold next, step.
  destruct o as [x f v|x f|x f|x f vs|x f v|x f i v|x f v|x f i|x f|x f vs|x f i v|x f i|x r|r o|r o|r os|x f];
    cbn [fst snd].
  - destruct (f_many (fd m f)); [exact H | apply res_ok_set_full; exact H].
  - destruct (f_many (fd m f)); [exact H | apply res_ok_set_full; exact H].
  - unfold del_full. cbn [snd]. destruct (f_many (fd m f)); cbn [snd].
    + apply (res_ok_frame s); [apply rframe_coll_clear_full | exact H].
    + apply res_ok_set_full; exact H.
  - destruct (f_many (fd m f)); [|exact H]. unfold assign_full. cbn [snd].
    destruct (forallb (check_elem m f) vs); cbn [negb]; [|exact H].
    apply res_ok_coll_extend_full. apply (res_ok_frame s); [apply rframe_coll_clear_full | exact H].
  - apply res_ok_coll_add_full; exact H.
  - apply res_ok_coll_add_full; exact H.
  - unfold coll_remove_top. destruct (vmem v (vals s (x, f))); cbn [snd]; [|exact H].
    apply (res_ok_frame s); [apply rframe_coll_remove_full | exact H].
  - apply res_ok_coll_pop_full; exact H.
  - apply (res_ok_frame s); [apply rframe_coll_clear_full | exact H].
  - apply res_ok_coll_extend_full; exact H.
  - unfold coll_setitem_full. destruct (check_elem m f v) eqn:Ec; cbn [negb]; [|exact H].
    destruct (f_unique (fd m f)).
    + destruct ((i <? 0)%Z && ((if (i <? 0)%Z then (zlen (vals s (x, f)) + i)%Z else i) <? 0)%Z); [exact H|].
      unfold seq_outcome.
      pose proof (res_ok_coll_pop_full s (x, f) (if (i <? 0)%Z then (zlen (vals s (x, f)) + i)%Z else i) H) as Hp.
      destruct (fst (coll_pop_full m s (x, f) (if (i <? 0)%Z then (zlen (vals s (x, f)) + i)%Z else i))) as [[e|] s1];
        cbn [snd] in *; [exact Hp|]. apply res_ok_coll_add_full; exact Hp.
    + pose proof (res_ok_link_elem s x f v H) as H1.
      destruct (norm_index (zlen (vals (link_elem m s x f v) (x, f))) i); cbn [snd]; exact H1.
  - unfold coll_delitem_full. cbn [snd]. destruct (f_unique (fd m f)).
    + apply res_ok_coll_pop_full; exact H.
    + destruct (py_pop i (vals s (x, f))) as [[w l']|]; exact H.
  - apply res_ok_delete_obj; exact H.
  - apply res_ok_res_append; exact H.
  - unfold res_remove. destruct (nmem o (rcont s r)) eqn:En; cbn [snd]; [|exact H].
    apply res_ok_remove_raw; [exact H | apply nmem_In; exact En].
  - generalize dependent s. induction os as [|o os IH]; intros s H; simpl; [exact H|].
    apply IH. apply res_ok_res_append. exact H.
  - exact H.
Qed.

Theorem res_ok_history ops : res_ok (fold_left (next m) ops (init_state m)).
Proof.
  assert (G : forall s, res_ok s -> res_ok (fold_left (next m) ops s)).
  { induction ops as [|o ops IH]; intros s H; simpl; [exact H|]. apply IH. apply res_ok_step. exact H. }
  apply G. split; [intros r; constructor | intros c r; simpl; split; [tauto | discriminate]].
Qed.

End ResOk.
