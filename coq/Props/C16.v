(* C16 — save() only observes the model and never destroys the previous file.
   Statements only; proofs are in Proofs/SaveFsProofs.v.

   The order of effects (save_order_xmi / save_order_json) is NOT written by
   hand: Gen/SaveOrder.v is translated from the bodies of XMIResource.save and
   JsonResource.save at every check.  The `order_kind ... = n` side conditions
   below are proved by computation on the generated lists: if the source opens
   the target before the tree/dict exists again, they stop compiling.

   C16_pure / C16_idempotent are about the bookkeeping model of a save (ids from
   the uuid stream + an encoder that is a function of ids and payloads); that the
   real encoders (lxml, json.dumps over _go_across / to_dict) are such functions
   is what the byte-comparison oracle of harness/props/c16.py checks. *)
From Coq Require Import ZArith List Bool.
From PyecoreV Require Import Model.SaveFs Gen.SaveOrder Proofs.SaveFsProofs.
Import ListNotations.
Open Scope Z_scope.

(* whatever the model, the fault position and the previous content: a save that
   raises leaves the target as it was (absent stays absent).  JSON: bytes exist
   before the target is opened.  XMI: the tree exists before the target is opened
   and lxml serialises it while writing; `j_nenc j = 0` says that serialising a
   tree that lxml accepted element by element does not raise (A-lxml). *)
Theorem C16_failsafe :
  forall j fault old c,
    (j_nenc j = 0%nat -> run_save j save_order_xmi fault old = (Raised, c) -> c = old) /\
    (run_save j save_order_json fault old = (Raised, c) -> c = old).
Proof.
  intros j fault old c. split.
  - apply kind2_failsafe. reflexivity.
  - apply kind1_failsafe. reflexivity.
Qed.
Print Assumptions C16_failsafe.

(* complete behaviour of the translated orders, whether the target is the resource's own URI or
   an `output=` URI object the caller keeps: a planted fault that is hit (in the traversal, in the
   namespace step, in the encoder) raises with the target untouched, otherwise the save terminates
   normally and a reader finds the whole document in the target as soon as save returns (the
   written stream is flushed, not merely left to uri.close_stream()); never Stuck *)
Theorem C16_save_behaviour :
  forall j fault old,
    run_save j save_order_xmi fault old =
      (if hits_build j fault then (Raised, old)
       else if hits_ns j fault then (Raised, old)
       else if hits_encode j fault then (Raised, Some [])
       else (Done, Some (j_new j))) /\
    run_save j save_order_json fault old =
      (if hits_build j fault || hits_encode j fault || hits_bytes j fault then (Raised, old)
       else (Done, Some (j_new j))).
Proof.
  intros j fault old. split.
  - apply kind2_behaviour. reflexivity.
  - apply kind1_behaviour. reflexivity.
Qed.
Print Assumptions C16_save_behaviour.

(* a successful save changes nothing observable; without uuid mode it changes
   nothing at all; an id that exists is never replaced *)
Theorem C16_pure :
  forall use_uuid uu n os,
    let '(os', _, _) := save_model use_uuid uu n os in
    observation os' = observation os /\
    (use_uuid = false -> os' = os) /\
    (forall k o i, nth_error os k = Some o -> so_id o = Some i -> nth_error os' k = Some o).
Proof. exact save_pure. Qed.
Print Assumptions C16_pure.

(* two saves in a row: same bytes, and the second one neither changes the model
   nor reads the uuid stream *)
Theorem C16_idempotent :
  forall use_uuid uu n os,
    let '(os1, n1, bytes1) := save_model use_uuid uu n os in
    let '(os2, n2, bytes2) := save_model use_uuid uu n1 os1 in
    bytes2 = bytes1 /\ os2 = os1 /\ n2 = n1.
Proof. exact save_idempotent. Qed.
Print Assumptions C16_idempotent.

(* recorded witness: the order of the code before the first repair (open, then build)
   empties the target on the first unserialisable element *)
Example C16_legacy_order_truncates :
  run_save {| j_nbuild := 1; j_nenc := 0; j_nns := 0; j_nbytes := 0; j_own := true; j_new := [9] |}
           legacy_order (Some 0%nat) (Some [1; 2; 3])
  = (Raised, Some []).
Proof. vm_compute. reflexivity. Qed.

(* recorded witnesses of two near-misses: the target opened before the namespace step; the written
   stream not flushed when the target is an `output=` URI kept by the caller *)
Example C16_open_before_namespace_step_truncates :
  run_save {| j_nbuild := 2; j_nenc := 0; j_nns := 1; j_nbytes := 0; j_own := true; j_new := [9] |}
           [SBuild; SOpen; SNs; SBuild; SWrite; SFlush; SClose] (Some 2%nat) (Some [1; 2; 3])
  = (Raised, Some []).
Proof. vm_compute. reflexivity. Qed.

Example C16_unflushed_output_is_empty :
  run_save {| j_nbuild := 2; j_nenc := 2; j_nns := 0; j_nbytes := 0; j_own := false; j_new := [9] |}
           [SBuild; SEncode; SBytes; SOpen; SWrite; SClose] None (Some [1; 2; 3])
  = (Done, Some []).
Proof. vm_compute. reflexivity. Qed.

(* text turned into bytes only inside stream.write(...), i.e. after the target was opened *)
Example C16_bytes_after_open_truncates :
  run_save {| j_nbuild := 2; j_nenc := 2; j_nns := 0; j_nbytes := 2; j_own := true; j_new := [9] |}
           [SBuild; SEncode; SOpen; SBytes; SWrite; SFlush; SClose] (Some 5%nat) (Some [1; 2; 3])
  = (Raised, Some []).
Proof. vm_compute. reflexivity. Qed.

(* non-vacuity: faults that raise (encoder; namespace step; absent target), a fault-free save to a
   kept output URI, a uuid-mode save that assigns one id *)
Example C16_witness :
  run_save {| j_nbuild := 3; j_nenc := 3; j_nns := 0; j_nbytes := 0; j_own := true; j_new := [7; 7] |}
           save_order_json (Some 4%nat) (Some [1; 2; 3])
    = (Raised, Some [1; 2; 3]) /\
  run_save {| j_nbuild := 3; j_nenc := 0; j_nns := 1; j_nbytes := 0; j_own := true; j_new := [7; 7] |}
           save_order_xmi (Some 3%nat) (Some [1; 2; 3])
    = (Raised, Some [1; 2; 3]) /\
  run_save {| j_nbuild := 3; j_nenc := 0; j_nns := 1; j_nbytes := 0; j_own := true; j_new := [7; 7] |}
           save_order_xmi (Some 2%nat) None
    = (Raised, None) /\
  run_save {| j_nbuild := 3; j_nenc := 0; j_nns := 1; j_nbytes := 0; j_own := false; j_new := [7; 7] |}
           save_order_xmi None (Some [1; 2; 3])
    = (Done, Some [7; 7]) /\
  save_model true (fun n => 100 + Z.of_nat n) 0
    [ {| so_id := Some 5; so_obs := [1] |}; {| so_id := None; so_obs := [2; 3] |} ]
  = ([ {| so_id := Some 5; so_obs := [1] |}; {| so_id := Some 100; so_obs := [2; 3] |} ], 1%nat,
     [1; 5; 1; 1; 1; 100; 2; 2; 3]).
Proof. vm_compute. repeat split; reflexivity. Qed.
