"""C01 — kernel property: see DESIGN.md section 5 and harness/kprop.py."""
from harness import kgen, kprop

PID = 'C01'


def run(ctx, out):
    kprop.run(ctx, out, PID, ['C01'], {'outcome','refs-as-sets','values'}, 2000, 40000, pool=kgen.REF_TEMPLATES, weights=None, p_wrong=0.05)
    # bidirectional references whose ends are typed asymmetrically (far end typed by a subclass): the ends must
    # agree after every call, accepted or refused (oracle on the implementation only; shared with C03)
    from harness.props import c03
    c03.asym_scenarios(ctx, out, pid=PID)


def replay(ctx, rep):
    from harness import krun, common
    case = rep['case']
    if case.get('scenario') == 'asym':
        from harness.props import c03
        return common.scenario_replay(ctx, rep, {'asym': lambda c, o: c03.asym_scenarios(c, o, pid=PID)})
    r = krun.Run(case, ['C01']).run()
    for s in r.steps:
        print(s['op'], '->', s['outcome'])
    if r.failure:
        print('REPRODUCED', r.failure['property'], r.failure['clause'], r.failure['detail'])
        return 1
    print('not reproduced')
    return 0
