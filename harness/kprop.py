"""Common runner of the kernel-based properties (C01 C02 C03 C05 C07 C11 C19):
generated histories -> implementation (kimpl) + extracted Coq model (kmodel),
correspondence on the property's projection, property oracle on the
implementation, shrinking, coverage statistics."""
import collections
import copy
import json
import os

from harness import common, kgen, kmodel, krun


def clean_case(case, props, need_views):
    """drop calls that would create a containment cycle (outside every property's scope)"""
    r = krun.Run(case, props, observe_views=need_views).run(stop_on_failure=False)
    if r.skipped:
        case = copy.deepcopy(case)
        case['history'] = [op for j, op in enumerate(case['history']) if j not in r.skipped]
        r = krun.Run(case, props, observe_views=need_views).run(stop_on_failure=False)
    return case, r


def corpus_cases(pid):
    d = os.path.join(common.VERIF, 'corpus', pid)
    out = []
    if os.path.isdir(d):
        for fn in sorted(os.listdir(d)):
            if fn.endswith('.json'):
                c = json.load(open(os.path.join(d, fn)))
                out.append(c.get('case', c))
    return out


PREMISES = ['wf_mm', 'ref_defaults_none', 'wf_typed', 'no_containment', 'op_many (every call)', 'op_appl (every call)']


def run(ctx, out, pid, props, projection, n_quick, n_thorough, pool=None, weights=None, p_wrong=0.06,
        nops=12, extra_cases=(), nres=2, fixed_templates=None):
    thorough = ctx.tier == 'thorough'
    n = n_thorough if thorough else n_quick
    rng = ctx.rng
    model = common.Model()
    need_views = 'views' in projection
    st = collections.Counter()
    ops_by_kind = collections.Counter()
    outcomes = collections.Counter()
    tmpl_count = collections.Counter()
    hist_len = collections.Counter()
    distinct = set()
    samples = []
    first_fail_cases = {}
    cases = list(corpus_cases(pid)) + list(extra_cases)
    st['corpus_cases'] = len(cases)
    focus_pool = [t for t in (pool or list(kgen.TEMPLATES))
                  if any(fdesc[4] for fdesc in kgen.TEMPLATES[t])]
    for i in range(n // 5 if focus_pool else 0):
        cases.append(kgen.gen_focus_case(rng, rng.choice(focus_pool), nops=rng.randrange(4, nops + 2),
                                         nres=rng.choice([0, 1])))
    st['focus_cases'] = n // 5 if focus_pool else 0
    for i in range(n):
        t = None
        if fixed_templates:
            t = fixed_templates[i % len(fixed_templates)]
        cases.append(kgen.gen_case(rng, templates=t, nops=nops if not thorough else nops + 4, nres=nres,
                                   p_wrong=p_wrong, weights=weights, pool=pool))
    premise_count = collections.Counter()
    for ci, case in enumerate(cases):
        if ci % 9 == 4 and 'render' not in case and not case.get('uuid'):
            # the same description rendered as STATIC classes whose instances are falsy (define __bool__): the kernel
            # may not take the truth value of a model object for 'is not None'
            case['render'] = 'static-falsy'
            st['falsy_static_cases'] += 1
        if ci % 7 == 3 and 'render' not in case and not case.get('render_mixed') and not need_views \
                and 'late' not in case and case.get('templates'):
            # the metamodel GROWS at run time: the reference features of one template are attached to their classes
            # only right before the first call that addresses one of them (the objects exist and were used by then);
            # the model runs the final metamodel from the start
            cands = [t for t in case['templates'] if t in kgen.REF_TEMPLATES]
            if cands:
                t = cands[ci % len(cands)]
                case['late'] = [fdesc[0] for fdesc in kgen.TEMPLATES[t]]
                st['late_feature_cases'] += 1
        if ci % 6 == 1 and 'render' not in case and 'bounded' not in case:
            case['bounded'] = True        # many-valued features declared 0..2: bounds are not enforced at run time
            st['bounded_cases'] += 1
        if ci % 5 == 2 and 'hold' not in case:
            case['hold'] = True           # collection objects obtained once and kept across the whole history
            st['held_collection_cases'] += 1
        if ci % 11 == 6 and 'render' not in case and not case.get('render_mixed') and 'late' not in case \
                and case.get('templates'):
            # the two ends of a bidirectional pair are declared each other's opposite only AFTER every object has
            # read every feature once (a metamodel completed at run time); the model has the pair from the start
            cands = [t for t in case['templates'] if t in kgen.OPP_TEMPLATES and len(kgen.TEMPLATES[t]) == 2]
            if cands:
                t = cands[ci % len(cands)]
                case['late_opposite'] = [kgen.TEMPLATES[t][0][0], kgen.TEMPLATES[t][1][0]]
                st['late_opposite_cases'] += 1
        case['history'] = [op for op in case['history'] if op[0] in kmodel.MODELLED]
        case, r = clean_case(case, props, need_views)
        st['cases'] += 1
        hist_len[len(case['history'])] += 1
        for t in case.get('templates', []):
            tmpl_count[t] += 1
        key = json.dumps([case.get('templates'), case['history']], sort_keys=True)
        if len(case['history']) >= 2:
            distinct.add(hash(key))
        for s in r.steps:
            ops_by_kind[s['op'][0]] += 1
            outcomes[s['outcome'][0]] += 1
            st['calls'] += 1
        # --- correspondence with the Coq model ---
        try:
            ms = kmodel.run_model(model, case)
        except Exception as e:  # noqa
            out.diff(f'model run failed: {e!r}', case)
            ms = []
        for j, (s, mst) in enumerate(zip(r.steps, ms)):
            d = kmodel.compare_step(case, s['op'], s, mst, projection)
            if d:
                cut = copy.deepcopy(case)
                cut['history'] = cut['history'][:j + 1]
                out.diff(f'step {j} {s["op"]}: ' + '; '.join(d[:3]), cut)
                st['cases_with_diff'] += 1
                break
        st['traces_validated'] += 1
        # --- is the case inside the domain the theorems quantify over?  (boolean deciders of Model/Premises.v,
        #     reflected into the Prop premises by Proofs/PremisesProofs.v) ---
        try:
            toks = kmodel.encode_mm(case)
            for op in case['history']:
                toks += kmodel.encode_op(op)
            fl = model.ask('premises', toks)
            for name, v in zip(PREMISES, fl):
                premise_count[name] += int(v)
            premise_count['all of wf_mm, ref_defaults_none, op_many (WF_history applies)'] += int(fl[0] and fl[1] and fl[4])
            fits = model.ask('fits', toks)[0]
            premise_count['fits_b (op_fits, no cycle created, objects in the universe: acyclic_history applies)'] += int(fits)
            if not fits and len(out.notes) < 5:
                out.notes.append(f'case outside fits_b although no call was dropped by creates_cycle: {case["history"][:6]}')
        except Exception as e:  # noqa
            out.notes.append(f'premise evaluation failed: {e!r}')
        # --- property oracle on the implementation ---
        if r.failure:
            f = krun.find_failure(case, props)
            if f:
                k = common.sig_key(f['signature'])
                if k not in first_fail_cases:
                    first_fail_cases[k] = f
                    out.fail(f['signature'], f['what'], f['case'])
                st['cases_failing_oracle'] += 1
        if len(samples) < 3 and len(case['history']) >= 4:
            samples.append({'templates': case.get('templates'), 'objs': case['objs'], 'history': case['history']})
    model.close()
    out.coverage.update({
        'evaluations': st['cases'],
        'distinct_nontrivial': len(distinct),
        'rule': 'a case = (metamodel drawn from the feature templates of harness/kgen.py, 7 objects, 2 resources, '
                'history of public calls); calls that would create a containment cycle are dropped; '
                'non-trivial = history of >= 2 calls; distinct = distinct (templates, history)',
        'calls_executed': st['calls'],
        'traces_validated_against_impl': st['traces_validated'],
        'cases_with_correspondence_difference': st['cases_with_diff'],
        'cases_failing_oracle': st['cases_failing_oracle'],
        'corpus_cases': st['corpus_cases'], 'focus_cases': st['focus_cases'],
        'cases_on_falsy_static_rendering': st['falsy_static_cases'],
        'cases_with_features_attached_at_run_time': st['late_feature_cases'],
        'cases_with_opposites_declared_at_run_time': st['late_opposite_cases'],
        'cases_with_collection_objects_held_across_calls': st['held_collection_cases'],
        'cases_with_many_valued_features_declared_0_2': st['bounded_cases'],
        'ops_by_kind': dict(ops_by_kind), 'outcomes_by_code': dict(outcomes),
        'templates_used': dict(tmpl_count), 'history_lengths': dict(hist_len),
        'projection_compared': sorted(projection), 'oracles': sorted(props),
        'samples': samples,
        'cases_meeting_theorem_premises': dict(premise_count),
    })
    out.assumptions += [
        'wf metamodels only (templates: opposite ends typed by each other\'s owner class, multi-valued ends of '
        'bidirectional/containment references unique, a container end single); acyclic containment',
        'delete() iterates a Python set: notification order of delete is compared as a multiset of individual changes',
        'EList.__setitem__/__delitem__/slices: see known findings; slices are not modelled (implementation oracle only)',
    ]
    return st
