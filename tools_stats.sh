#!/bin/bash
# numbers quoted in DESIGN.md section 0
cd /verif
echo "coq lines: $(cat coq/Lib/*.v coq/Model/*.v coq/Gen/*.v coq/Proofs/*.v coq/Props/*.v coq/Extract/*.v | wc -l)  files: Lib $(ls coq/Lib/*.v | wc -l) Model $(ls coq/Model/*.v | wc -l) Gen $(ls coq/Gen/*.v | wc -l) Proofs $(ls coq/Proofs/*.v | wc -l) Props $(ls coq/Props/*.v | wc -l)"
echo "props theorems: $(grep -h '^Theorem' coq/Props/*.v | wc -l)  examples: $(grep -h '^Example' coq/Props/*.v | wc -l)  print-assumptions: $(grep -h '^Print Assumptions' coq/Props/*.v | wc -l)"
echo "proof-file lemmas+theorems: $(grep -hE '^(Lemma|Theorem|Corollary)' coq/Proofs/*.v | wc -l)"
echo "python lines: $(cat harness/*.py harness/props/*.py translator/*.py | wc -l)"
echo "fix commits: $(git -C /repo log --oneline | grep -c 'fix:')  diff: $(git -C /repo diff --shortstat 833a4eb HEAD)"
/venv/bin/python -c "
import json; d=json.load(open('/verif/known_findings.json')); print('known findings:', len(d['findings']), 'fixed entries:', len(d['fixed']))"
echo "seeded changes: $(ls -d seeded/C*_* | wc -l)"
