"""C07 — kernel property: see DESIGN.md section 5 and harness/kprop.py."""
from harness import kgen, kprop

PID = 'C07'


def run(ctx, out):
    deep = [kgen.gen_delete_case(ctx.rng, nres=ctx.rng.choice([0, 1])) for _ in range(400 if ctx.tier != 'thorough' else 8000)]
    kprop.run(ctx, out, PID, ['C07'], {'outcome','values','ownership'}, 2000, 40000, pool=kgen.REF_TEMPLATES, weights={'delete':0.12,'res':0.06}, p_wrong=0.03, extra_cases=deep)


def replay(ctx, rep):
    from harness import krun
    case = rep['case']
    r = krun.Run(case, ['C07']).run()
    for s in r.steps:
        print(s['op'], '->', s['outcome'])
    if r.failure:
        print('REPRODUCED', r.failure['property'], r.failure['clause'], r.failure['detail'])
        return 1
    print('not reproduced')
    return 0
