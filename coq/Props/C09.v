(* C09 -- JSON save then load reproduces the model.   Statements only.

   What is proved here:
     * the value mapping of attributes (to_dict / process_inst): None <-> null,
       int/float/bool/str typed values travel as JSON-native values and come
       back through from_string unchanged, every other type travels as the
       string to_string(v) and comes back by from_string -- under the C17-style
       premise  from_string (to_string o) = Some o  for those types;
     * C09_no_dup: a unique many-valued reference filled during load -- from
       its own list and by the opposite handshakes, in any interleaving --
       never holds an element twice, the loader resolving the references that
       stay inside the resource before it stores them (json.py after 246ae15);
     * the order of such an end is the order of its own list.
   DESIGN expected C09_no_dup refuted.  It was on the code as found: the
   loader stored unresolved proxies, which are set members by identity
   (C09_lazy_proxies_refuted below keeps that witness on the identity-keyed
   model).  The repair was small (resolve local references when every object
   exists) and is applied in /repo, so the model follows the fixed code.
   Proofs: Proofs/JsonValProofs.v, Proofs/RefLoadProofs.v.

   WHOLE DOCUMENTS (Model/JsonDoc.v, Proofs/JsonDocProofs.v): the theorem of the property,
          decode_jdoc mm (encode_jdoc mm sd F) = Some (map forget F)        (C09_document_round_trip)
   for every metamodel mm of one package with distinct feature ids per class (wf_mm), both values of
   SERIALIZE_DEFAULT_VALUES and EVERY forest F that is a state pyecore can hold (XmiDoc.wf_forest, the
   premise of C08_document_round_trip: concrete classes, one slot per feature, single-valued features
   hold at most one value, targets exist in the resource and conform, children conform, unique references
   hold no target twice, a feature outside `_isset` reads as unset) whose attribute values are values of
   their data types and whose children are listed per containment feature in the order of the class
   (jwf_forest: the normal form of an observation; both clauses are needed, see the two Examples at the
   end): any number of roots (0 included: a JSON array unless there is exactly one), any depth and width,
   subclass instances ("eClass" in the nested object), single / many attributes with null iff None and
   JSON-native numbers / booleans / strings, single / many cross references as {"eClass", "$ref"} in order
   (duplicates kept in non-unique ones), single / many containments, null for a single reference /
   containment that is set to None under SERIALIZE_DEFAULT_VALUES.  `forget` drops `_isset`.
   encode_jdoc mirrors JsonResource.save / to_dict / to_dict_from_obj / _to_ref_from_obj, decode_jdoc
   mirrors load / to_obj / process_inst in its two phases (C09_document_phase1, C09_document_phase2);
   the attribute values go through JsonVal's to_json / from_json (C09_value_roundtrip_partial is a
   building block), the "$ref" fragments through XmiDoc's render_path / resolve_frag
   (C08_fragment_resolves).  The same abstract metamodels and forests as C08 are used.
   Modelled fragment and abstractions (names are numbers, a value is named by a text, floats by numbers,
   no order between the entries of different features): header of Model/JsonDoc.v.
   One clause was false of the code as found: a resource WITHOUT root could not be saved (IndexError);
   C09_empty_resource_as_found_refuted keeps that witness, the repair is in /repo (3dec3c1) and the model
   follows the fixed code.
   NOT covered by the document theorem: uuid mode and id attributes as "$ref", references into other
   resources (they stay lazy proxies: C14), derived / transient features, custom mappers / encoders /
   decoders, EClass / EStringToStringMapEntry special cases, the opposite handshakes of load (per end:
   C09_no_dup, C09_reference_order_partial; the document lists both ends of a symmetric state),
   from_string . to_string = id on the non-native data types (C17; here an object is named by its
   text), json.dumps / json.loads (A-json).  Tie: harness/jsondoc.py -- json.loads of the bytes the real
   save wrote = run_jsondoc_enc (entries of an object compared as sorted by key), the observation of the
   real load of those bytes = run_jsondoc_dec, on generated metamodels / models (with opposites), and
   every generated state satisfies wf_forest and jwf_forest.  The `_partial` names of the value theorems
   are kept from the time they were all there was. *)
From Coq Require Import ZArith List Bool.
From PyecoreV Require Import Lib.PyBase Lib.PyList Model.OSet Model.XmiAttr Model.JsonVal Model.RefLoad Model.XmiDoc Model.JsonDoc Proofs.OSetProofs Proofs.JsonValProofs Proofs.RefLoadProofs Proofs.JsonDocProofs.
Import ListNotations.
Open Scope Z_scope.

Theorem C09_value_roundtrip_partial :
  forall (O : Type) (to_string : O -> str) (from_string : str -> option O),
  (forall o, from_string (to_string o) = Some o) ->
  forall (t : etag) (v : pyv O),
  well_typed t v -> from_json from_string t (to_json to_string t v) = v.
Proof. exact json_value_roundtrip. Qed.
Print Assumptions C09_value_roundtrip_partial.

Theorem C09_values_roundtrip_partial :
  forall (O : Type) (to_string : O -> str) (from_string : str -> option O),
  (forall o, from_string (to_string o) = Some o) ->
  forall (t : etag) (vs : list (pyv O)),
  Forall (well_typed t) vs ->
  map (from_json from_string t) (map (to_json to_string t) vs) = vs.
Proof. exact json_values_roundtrip. Qed.
Print Assumptions C09_values_roundtrip_partial.

(* the entry of a single-valued attribute: left out when equal to get_default_value() and
   SERIALIZE_DEFAULT_VALUES is off; an absent entry reads as that same default *)
Theorem C09_entry_roundtrip_partial :
  forall (O : Type) (to_string : O -> str) (from_string : str -> option O),
  (forall o, from_string (to_string o) = Some o) ->
  forall veq : pyv O -> pyv O -> bool,
  (forall a b, veq a b = true -> a = b) ->
  forall (sd : bool) (t : etag) (dflt v : pyv O),
  well_typed t v ->
  read_entry from_string t dflt (write_entry to_string veq sd t dflt v) = v.
Proof. exact json_entry_roundtrip. Qed.
Print Assumptions C09_entry_roundtrip_partial.

(* attribute values keep their JSON-native type *)
Theorem C09_native_kind_partial :
  forall (O : Type) (to_string : O -> str) (t : etag) (v : pyv O),
  well_typed t v -> v <> PNone -> kind_of (to_json to_string t v) = kind_of_tag t.
Proof. exact json_native_kind. Qed.
Print Assumptions C09_native_kind_partial.

Theorem C09_null_iff_none :
  forall (O : Type) (to_string : O -> str) (t : etag) (v : pyv O),
  well_typed t v -> (to_json to_string t v = JNull <-> v = PNone).
Proof. exact json_null_iff_none. Qed.
Print Assumptions C09_null_iff_none.

(* no collection under a unique feature holds an element twice: any sequence of
   handshake links and own-list placements, from the empty collection *)
Theorem C09_no_dup :
  forall evs : list lev, NoDup (items (fold_left os_lev evs os_empty)).
Proof. exact events_no_dup. Qed.
Print Assumptions C09_no_dup.

(* with the references resolved before they are stored, each target is held once *)
Theorem C09_no_dup_resolved_targets :
  forall es : list elt,
  NoDup (items (eager_collection es)) /\
  forall y, In y (items (eager_collection es)) <-> In y (map target es).
Proof. intros es. split; [exact (eager_no_dup es) | exact (eager_holds_targets es)]. Qed.
Print Assumptions C09_no_dup_resolved_targets.

Theorem C09_reference_order_partial :
  forall pre own post : list Z,
  NoDup own -> incl pre own -> incl post own ->
  items (load_end pre own post) = own.
Proof. intros pre own post H1 H2 H3. exact (proj2 (load_end_order pre own post H1 H2 H3)). Qed.
Print Assumptions C09_reference_order_partial.

(* the loader as found: an object and an unresolved proxy of it are two members *)
Example C09_lazy_proxies_refuted :
  exists es, ~ NoDup (lazy_collection es).
Proof. exists [Obj 5; Proxy 1 5]. exact (proj2 lazy_proxies_duplicate). Qed.

(* non-vacuity of the value theorems: the extracted instance (objects named by their text) *)
Example C09_witness_values :
  to_json (fun s : str => s) TInt (PInt (-5)) = JInt (-5) /\
  to_json (fun s : str => s) TBool (PBool true) = JBool true /\
  to_json (fun s : str => s) TOther (PObj [49; 46; 49; 48]) = JStr [49; 46; 49; 48] /\
  to_json (fun s : str => s) TFloat (@PNone str) = JNull /\
  from_json (fun s : str => Some s) TBool (JStr [116; 114; 117; 101]) = PBool true /\
  from_json (fun s : str => Some s) TInt JNull = PNone.
Proof. vm_compute. repeat split; reflexivity. Qed.

(* ================================================================ whole documents *)

(* save then load: every state of the modelled fragment comes back -- classes, attribute values (null iff
   None, JSON-native numbers / booleans / strings), reference targets in order, nesting; no bound on depth,
   width or number of roots *)
Theorem C09_document_round_trip :
  forall (mm : mmodel) (sd : bool) (F : list (tree (list path))),
  wf_mm mm = true -> wf_forest mm F = true -> jwf_forest mm F = true ->
  decode_jdoc mm (encode_jdoc mm sd F) = Some (map forget F).
Proof. exact jdocument_round_trip. Qed.
Print Assumptions C09_document_round_trip.

(* read literally: an observation G (no `_isset`) is exactly what the document of the state in which
   every feature was assigned loads as *)
Theorem C09_document_round_trip_literal :
  forall (mm : mmodel) (sd : bool) (G : list (tree (list path))),
  wf_mm mm = true -> map forget G = G ->
  wf_forest mm (map (set_all (all_ids mm)) G) = true -> jwf_forest mm (map (set_all (all_ids mm)) G) = true ->
  decode_jdoc mm (encode_jdoc mm sd (map (set_all (all_ids mm)) G)) = Some G.
Proof. exact jdocument_round_trip_literal. Qed.
Print Assumptions C09_document_round_trip_literal.

(* the two phases of load, separately: (1) to_obj reads the object of a tree back as the tree with its
   attribute values and children, the JSON values of the references kept aside (`_load_href`);
   (2) process_inst(resolve_local=True) resolves them against the tree built in phase 1 *)
Theorem C09_document_phase1 :
  forall (mm : mmodel) (sd : bool) (S : list sk), wf_mm mm = true ->
  forall t, wf_tree mm S t = true -> jwf_tree mm t = true ->
  forall decl, jdec_obj mm (t_cls t) (jenc_tree mm sd S decl t) = Some (jpre mm sd S t).
Proof. exact jphase1. Qed.
Print Assumptions C09_document_phase1.

Theorem C09_document_phase2 :
  forall (mm : mmodel) (sd : bool) (S : list sk), wf_mm mm = true ->
  forall t, wf_tree mm S t = true -> jlink_tree mm S (jpre mm sd S t) = Some (forget t).
Proof. exact jphase2. Qed.
Print Assumptions C09_document_phase2.

(* one attribute value through to_dict / json / process_inst, on the names of the values; and the premise
   `canon` holds of the name of every int, float, bool, str, object and of None *)
Theorem C09_document_value :
  forall (t : etag) (v : ostr), canon t v = true -> dec_val t (enc_val t v) = Some v.
Proof. exact val_roundtrip. Qed.
Print Assumptions C09_document_value.

Theorem C09_document_value_premise :
  (forall z, canon TInt (Some (Text.str_of_Z z)) = true) /\ (forall z, canon TFloat (Some (Text.str_of_Z z)) = true) /\
  (forall b : bool, canon TBool (Some (if b then str_true else str_false)) = true) /\
  (forall s, canon TStr (Some s) = true) /\ (forall s, canon TOther (Some s) = true) /\
  (forall t, canon t None = true).
Proof.
  exact (conj canon_int (conj canon_float (conj canon_bool (conj canon_str (conj canon_other canon_none))))).
Qed.
Print Assumptions C09_document_value_premise.

(* the normal form of the children: keys grouped per containment feature <-> the list is its regrouping *)
Theorem C09_document_children_normal_form :
  forall (A : Type) (L : list feat), NoDup (map f_id L) -> forall kids : list (Z * A),
  map fst kids = flat_map (fun d => map fst (filter (fun p => fst p =? f_id d) kids)) L ->
  kids = flat_map (fun d => filter (fun p => fst p =? f_id d) kids) L.
Proof. exact @grouped_ok. Qed.
Print Assumptions C09_document_children_normal_form.

(* non-vacuity: two roots (a JSON array), a many attribute ['a b', None, 'c'] (null inside the array), an int
   written as the JSON number -5, a subclass instance under a containment declared with the superclass
   ("eClass" in the nested object) whose many bool attribute is [true, None, false], two cross references in
   order, a reference to the second root, an empty string, a single containment; every premise holds and
   the round trip is computed for both values of SERIALIZE_DEFAULT_VALUES *)
Example C09_document_witness :
  wf_mm jx_mm = true /\ wf_forest jx_mm jx_forest = true /\ jwf_forest jx_mm jx_forest = true /\
  encode_jdoc jx_mm false jx_forest =
    JArr
      [JObj
         [(-1, JAtom (JInt 0));
          (0, JArr [JAtom (JStr [97; 32; 98]); JAtom JNull; JAtom (JStr [99])]);
          (6, JAtom (JInt (-5)));
          (2, JArr [JObj [(-1, JAtom (JInt 2)); (-2, JAtom (JStr [47; 48; 47; 64; 1114115; 46; 49]))];     (* '/0/@parts.1' *)
                    JObj [(-1, JAtom (JInt 1)); (-2, JAtom (JStr [47; 48; 47; 64; 1114115; 46; 48]))]]);
          (3, JArr [JObj [];
                    JObj [(-1, JAtom (JInt 2)); (4, JAtom (JStr []));
                          (7, JArr [JAtom (JBool true); JAtom JNull; JAtom (JBool false)]);
                          (5, JObj [(-1, JAtom (JInt 0)); (-2, JAtom (JStr [47; 49]))])]]);                   (* '/1' *)
          (8, JObj [])];
       JObj [(-1, JAtom (JInt 0)); (1, JAtom (JStr [120]))]] /\
  decode_jdoc jx_mm (encode_jdoc jx_mm false jx_forest) = Some (map forget jx_forest) /\
  decode_jdoc jx_mm (encode_jdoc jx_mm true jx_forest) = Some (map forget jx_forest).
Proof. vm_compute. repeat split; reflexivity. Qed.

(* the clause "any number of roots" was false of the code as found: `dict_list[0]` on a resource without
   root raised IndexError (fixed in /repo by 3dec3c1; encode_jdoc follows the fixed code) *)
Example C09_empty_resource_as_found_refuted :
  wf_forest jx_mm [] = true /\ jwf_forest jx_mm [] = true /\
  encode_jdoc_as_found jx_mm false [] = None /\
  encode_jdoc jx_mm false [] = JArr [] /\ decode_jdoc jx_mm (encode_jdoc jx_mm false []) = Some [].
Proof. vm_compute. repeat split; reflexivity. Qed.

(* the premise jwf_forest is needed, clause 1: the document lists the children per feature, so a forest that
   lists the child under `main` (8) before the one under `parts` (3) is read back in the order of the class *)
Example C09_document_children_come_back_grouped :
  let B := Node 1 [] [(4, [None]); (7, [])] [(5, @nil path)] [] in
  let F : list (tree (list path)) :=
    [Node 0 [3; 8] [(0, []); (1, [Some [100]]); (6, [Some [48]])] [(2, [])] [(8, B); (3, B)]] in
  wf_forest jx_mm F = true /\ jwf_forest jx_mm F = false /\
  decode_jdoc jx_mm (encode_jdoc jx_mm false F)
  = Some [Node 0 [] [(0, []); (1, [Some [100]]); (6, [Some [48]])] [(2, [])] [(3, B); (8, B)]].
Proof. vm_compute. repeat split; reflexivity. Qed.

(* ... clause 2: a text that is not the name of a value of the type ('05' for an int) is not a state; the
   JSON number 5 is read back under its name '5' *)
Example C09_document_values_are_named_canonically :
  let F : list (tree (list path)) := [Node 0 [6] [(0, []); (1, [Some [100]]); (6, [Some [48; 53]])] [(2, [])] []] in
  wf_forest jx_mm F = true /\ jwf_forest jx_mm F = false /\
  decode_jdoc jx_mm (encode_jdoc jx_mm false F)
  = Some [Node 0 [] [(0, []); (1, [Some [100]]); (6, [Some [53]])] [(2, [])] []].
Proof. vm_compute. repeat split; reflexivity. Qed.
