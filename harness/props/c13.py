"""C13 — static and dynamic definitions of a metamodel are interchangeable.
One description (harness/kgen.py) is rendered three ways — dynamic EClass API,
static classes with MetaEClass, static classes with @EMetaclass (generated
source, as pyecoregen would write it) — and the same history is run on each.
Oracle: the three traces (outcome class, full dump, notifications, reflective
views) coincide call by call, the reflective descriptions coincide, and a
document saved by one rendering loads into an isomorphic model with another.
Correspondence: every rendering against the one kernel model run.
First half of the property (the same reflective description): for every kernel
metamodel description, for generated richer descriptions (harness/staticdecl.py:
abstract classes, diamonds, bounds, defaults, symmetric opposites, operations)
and for arbitrary class bodies, the description reflected from the REAL static
module (both styles) and from the REAL dynamic construction equals
run_staticdecl (Model/StaticDecl.v) on the same abstract description; the
oracle there: static and dynamic reflect the same ORDERED description.
Behaviour scenarios on instances of both renderings driven through the SAME
calls (own PRNG streams, replayable cases with 'scenario','seed','tier',
'history'): `clash` -- multiple inheritance over branches of different depth
whose classes declare attributes / operations of the same name with other
types / parameters (default read, values of every candidate type, eIsSet,
unset, calls with every declared arity, final state, Python MRO, cross-load of
the saved document) -- and `keyword-ops` -- operations named after soft
keywords (plain method names), hard keywords (trailing underscore) and plain
names, overridden in subclasses; results, exception classes and notifications
are compared rendering against rendering (never find-vs-getattr);
`population` -- several objects (roots, contained, in two resources, in none):
allInstances with / without resources= on the class handle and on its EClass,
eResource, eContents, eAllContents, eRoot, eContainer, answered as object
indices; `rerender` -- the description rendered again (same or revised) INTO
THE SAME module / rebuilt: documents saved before and after must load through
the module / package into the CURRENT classes on every rendering;
`nonmembers` -- things that carry an eClass without being instances (class
handle, Python class, EClass, namesake instance, resolved / unresolved proxy)
as reference values and isinstance arguments; `breadth` -- same operation names
in several classes, dynamic metamodel built operations-first / parameters
afterwards: inspect.signature and calls; `ctor-keywords` -- instances made
through constructor keywords (explicit None, lists / tuples, wrong values):
value, eIsSet, saved document; `construction` -- the dynamic metamodel put
together in other ways per class (super types by constructor / append / extend
/ += / assignment / insert, features and operations by append / extend) under
the clash and population histories (these four replayed by scenario_replay)."""
import copy
import os
import tempfile

from harness import common, kgen, kmodel, kprop, krun
from harness import staticdecl as sd

PID = 'C13'
RENDERINGS = ['dynamic', 'static-meta', 'static-decorator', 'mixed']
OPS_A = [{'name': 'describe', 'params': []}, {'name': 'scale', 'params': [{'name': 'k', 'required': True}, {'name': 'unit', 'required': False}]}]
OPS_A2 = [{'name': 'describe', 'params': [{'name': 'verbose', 'required': False}]}]
OPS_B = [{'name': 'ping', 'params': []}]
PROJ = {'outcome', 'values', 'isset', 'ownership', 'log', 'views'}


def set_render(case, render):
    if render == 'mixed':
        case['render'] = 'dynamic'
        case['render_mixed'] = True
    else:
        case['render'] = render


def canon_step(case, step):
    op = step['op']
    log = [(n, f, k, old, new) for (who, n, f, k, old, new) in step['log'] if who[0] == 'o']
    rlog = sorted((who[1], n, f, k, repr(old), repr(new)) for (who, n, f, k, old, new) in step['log'] if who[0] == 'r')
    if op[0] in kmodel.UNORDERED_LOG_OPS:
        log = sorted(map(repr, kmodel.flatten_log(log)))
        rlog = []
    views = [{'econtents': sorted(v['econtents']), 'eallcontents': sorted(v['eallcontents']), 'eroot': v['eroot']}
             for v in step.get('views', [])]
    return {'outcome': step['outcome'], 'dump': step['dump'], 'log': log, 'rlog': rlog, 'views': views}


def description(world):
    """reflective description of every class of a rendering"""
    d = {}
    for name, c in world.classes.items():
        ec = c.eClass if not hasattr(c, 'eStructuralFeatures') else c
        feats = []
        for f in ec.eStructuralFeatures:
            opp = getattr(f, 'eOpposite', None)
            tn = None if f.eType is None else (f.eType.eClass.name if isinstance(f.eType, type) else f.eType.name)
            feats.append((f.name, type(f).__name__, tn, f.many,
                          f.ordered, f.unique, getattr(f, 'containment', None),
                          (opp.eContainingClass.name, opp.name) if opp is not None else None, f.lowerBound, f.upperBound))
        def sig(op):
            ps = [(p.name, bool(p.required)) for p in op.eParameters]
            if ps and ps[0][0] == 'self':
                ps = ps[1:]          # static reflection lists the receiver; the declaration does not
            return (op.name, tuple(ps))
        fd_ = ec.findEOperation('describe')
        d[name] = {'name': ec.name, 'abstract': bool(ec.abstract), 'supers': [s.name for s in ec.eSuperTypes],
                   'operations': sorted(sig(o) for o in ec.eOperations),
                   'all_operations': sorted(sig(o) for o in ec.eAllOperations()),
                   'find_describe': sig(fd_) if fd_ is not None else None,
                   'all_supers': sorted(s.name for s in ec.eAllSuperTypes()),
                   'features': sorted(feats),
                   'all_features': sorted(f.name for f in ec.eAllStructuralFeatures())}
    return d


def model_dump_of(world):
    return world.dump()


def cross_load(case, src_render, dst_render):
    """save the final model of one rendering, load it against another rendering's package; compare dumps"""
    common.use_repo()
    from pyecore.resources import ResourceSet, URI
    from harness import kimpl
    c1 = copy.deepcopy(case)
    c1['render'] = src_render
    w1 = kimpl.World(c1, observers=False)
    for op in case['history']:
        w1.apply(op)
    roots = [o for o in w1.objs if o.eContainer() is None]
    with tempfile.TemporaryDirectory() as td:
        rs = ResourceSet()
        r = rs.create_resource(URI(os.path.join(td, 'm.xmi')))
        for o in roots:
            r.append(o)
        r.save()
        def reload(render):
            c2 = copy.deepcopy(case)
            c2['render'] = render
            c2['history'] = []
            w2 = kimpl.World(c2, observers=False)
            rs2 = ResourceSet()
            rs2.metamodel_registry['http://p'] = w2.pkg
            try:
                return rs2.get_resource(URI(os.path.join(td, 'm.xmi')))
            except Exception as e:  # noqa
                return 'raised ' + type(e).__name__

        def canon(res):
            out = []

            def walk(o):
                ec = o.eClass
                item = {'cls': ec.name, 'attrs': {}, 'refs': {}, 'kids': {}}
                for f in sorted(ec.eAllStructuralFeatures(), key=lambda f: f.name):
                    v = o.eGet(f)
                    if f.is_attribute:
                        item['attrs'][f.name] = [repr(x) for x in v] if f.many else repr(v)
                    elif f.containment:
                        ch = list(v) if f.many else ([v] if v is not None else [])
                        item['kids'][f.name] = [walk(c) for c in ch]
                    else:
                        ts = list(v) if f.many else ([v] if v is not None else [])
                        item['refs'][f.name] = [t.eURIFragment() if t.eResource is res else 'external' for t in ts]
                return item
            if isinstance(res, str):
                return res
            for root in res.contents:
                out.append(walk(root))
            return out
        # the document is loaded against the saving rendering's own package and against the other one
        return canon(reload(src_render)), canon(reload(dst_render))


# ---------------------------------------------------------------- first half: the same reflective description
NAMING = [('__x', 'private-feature-name'), ('__secret_1', 'private-feature-name'), ('eClass', 'reserved-feature-name'),
          ('dyn_inst', 'reserved-feature-name'), ('_staticEClass', 'reserved-feature-name'),
          ('__x__', None), ('_y', None), ('class_', None)]


def new_sdstats():
    return {'cases': 0, 'by_source': {}, 'by_style': {'static-meta': 0, 'static-decorator': 0, 'dynamic': 0},
            'classes_per_case': {}, 'features_per_class': {}, 'cases_meeting_theorem_premises': 0,
            'with_opposites': 0, 'with_defaults': 0, 'with_diamond': 0, 'with_abstract': 0, 'class_flags': {},
            'body_cases': 0, 'body_python_raised': 0, 'body_entries': {}, 'naming_cases': 0, 'model_calls': 0,
            'behaviour_cases': 0, 'behaviour_calls': 0, 'behaviour_outcomes': {}, 'rerender_cases': 0,
            'construction_super_styles': {}}


def eclasses_of(world, mm):
    out = []
    for c in mm['classes']:
        x = world.classes[c['name']]
        out.append(x.eClass if not hasattr(x, 'eStructuralFeatures') else x)
    return out


def sd_real(D, deco, intern):
    """(description reflected from the real static module, from the real dynamic construction);
    a string instead of a description when the construction raises"""
    try:
        mod = sd.execute(sd.source(D, deco), 'd' if deco else 'm')
        try:
            rs = sd.reflect([mod.__dict__[c['name']].eClass for c in D['classes']], intern, flags=True)
        finally:
            sd.forget(mod)
    except Exception as e:  # noqa
        rs = 'raised ' + type(e).__name__
    try:
        rd = sd.reflect(sd.build_dynamic(D), intern, flags=True)
    except Exception as e:  # noqa
        rd = 'raised ' + type(e).__name__
    return rs, rd


def sd_count(st, D, source, wf):
    st['cases'] += 1
    st['by_source'][source] = st['by_source'].get(source, 0) + 1
    st['cases_meeting_theorem_premises'] += int(wf)
    k = str(len(D['classes']))
    st['classes_per_case'][k] = st['classes_per_case'].get(k, 0) + 1
    for c in D['classes']:
        k = str(len(c['features']))
        st['features_per_class'][k] = st['features_per_class'].get(k, 0) + 1
    st['with_opposites'] += any(fd.get('opposite') for c in D['classes'] for fd in c['features'])
    st['with_defaults'] += any(fd.get('default') is not None for c in D['classes'] for fd in c['features'])
    st['with_diamond'] += any(len(c['supers']) > 1 for c in D['classes'])
    st['with_abstract'] += any(c['abstract'] for c in D['classes'])
    for c in D['classes']:
        k = ('abstract' if c['abstract'] else 'concrete') + ('+interface' if c.get('interface') else '')
        st['class_flags'][k] = st['class_flags'].get(k, 0) + 1


def sd_compare(out, what, real, modelled, case):
    real = sd.strip_flags(real)            # the model does not carry `interface`
    if real != modelled:
        bad = next((f'class {a["name"]}: real {a} vs model {b}' for a, b in zip(real, modelled or []) if a != b), None) \
            if isinstance(real, list) and isinstance(modelled, list) else None
        out.diff(f'{what}: ' + (bad or f'real {str(real)[:300]} vs model {str(modelled)[:300]}'), case)
        return False
    return True


def staticdecl_kernel_case(out, model, case, worlds, st):
    """the kernel case's metamodel: real worlds of harness/kimpl.py + harness/kstatic.py against the model"""
    D = sd.from_kgen(case['mm'])
    for render, deco in (('static-meta', False), ('static-decorator', True)):
        it = sd.Interner()
        real_s = sd.reflect(eclasses_of(worlds[render], case['mm']), it)
        real_d = sd.reflect(eclasses_of(worlds['dynamic'], case['mm']), it)
        wf, ms, md, ca = sd.ask_descr(model, D, deco, it)
        st['model_calls'] += 1
        rep = {'staticdecl': D, 'deco': deco}
        if not wf:
            out.diff('a kernel metamodel description does not meet wf_descr (the theorem premise)', rep)
        sd_compare(out, f'reflective description, {render} (kstatic) vs model', real_s, ms, rep)
        sd_compare(out, 'reflective description, dynamic (kimpl) vs model', real_d, md, rep)
        if wf and (ms != ca or md != ca):
            out.diff('model: description read back differs from the canonical description (theorem contradicted)', rep)
        st['by_style'][render] += 1
        st['by_style']['dynamic'] += 1
        sd_count(st, D, 'kernel-metamodel', wf)


def sd_check_descr(out, model, st, D, source):
    """one description, both static styles: real static / real dynamic against the model, and against each other"""
    for render, deco in (('static-meta', False), ('static-decorator', True)):
        it = sd.Interner()
        rs, rd = sd_real(D, deco, it)
        wf, ms, md, ca = sd.ask_descr(model, D, deco, it)
        st['model_calls'] += 1
        rep = {'staticdecl': D, 'deco': deco}
        if not wf:
            out.diff('a generated description does not meet wf_descr (the theorem premise)', rep)
        sd_compare(out, f'reflective description, {render} vs model', rs, ms, rep)
        sd_compare(out, 'reflective description, dynamic vs model', rd, md, rep)
        if wf and (ms != ca or md != ca):
            out.diff('model: description read back differs from the canonical description (theorem contradicted)', rep)
        if rs != rd:
            cn = next((a['name'] for a, b in zip(rs, rd) if a != b), '?') if isinstance(rs, list) and isinstance(rd, list) else '?'
            out.fail({'property': PID, 'clause': 'reflective-description', 'render': render},
                     f'class {cn}: {render} and dynamic reflect different descriptions: {str(rs)[:200]} vs {str(rd)[:200]}', rep)
        st['by_style'][render] += 1
        st['by_style']['dynamic'] += 1
        sd_count(st, D, source, wf)


def staticdecl_generated(ctx, out, model, st, n):
    """generated descriptions (abstract classes, diamonds, bounds, defaults, opposites, operations), both styles"""
    for _ in range(n):
        sd_check_descr(out, model, st, sd.gen_descr(ctx.rng), 'generated')


# ---------------------------------------------------------------- instances of both renderings, the same calls
BEHAVE_RENDERS = ['dynamic', 'static-meta', 'static-decorator']


def behave_traces(D, history, driver=None):
    """{rendering: trace | 'construction raised X'}"""
    tr = {}
    for render in BEHAVE_RENDERS:
        try:
            b = (driver or sd.Behaviour)(D, render)
        except Exception as e:  # noqa
            tr[render] = 'construction raised ' + type(e).__name__
            continue
        try:
            tr[render] = b.run(history)
        finally:
            b.close()
    return tr


def behave_first_difference(tr):
    """(rendering, step index | None, dynamic side, static side) of the first difference with the dynamic rendering"""
    best = None
    for render in BEHAVE_RENDERS[1:]:
        a, b = tr['dynamic'], tr[render]
        if isinstance(a, str) or isinstance(b, str):
            if a != b:
                return render, None, a if isinstance(a, str) else 'constructed', b if isinstance(b, str) else 'constructed'
            continue
        j = next((j for j, (x, y) in enumerate(zip(a, b)) if x != y), None)
        if j is not None and (best is None or j < best[1]):
            best = (render, j, a[j], b[j])
    return best


def behave_case(ctx, out, st, scenario, D, history, driver=None):
    tr = behave_traces(D, history, driver)
    st['behaviour_cases'] += 1
    if not isinstance(tr['dynamic'], str):
        st['behaviour_calls'] += 3 * len(history)
        for h, r in zip(history, tr['dynamic']):
            k = h[0] + ':' + (r['result'][0] if r['result'][0] == 'ok' else r['result'][1])
            st['behaviour_outcomes'][k] = st['behaviour_outcomes'].get(k, 0) + 1
    for render in BEHAVE_RENDERS:
        if isinstance(tr[render], str):
            continue
        for j, (h, r) in enumerate(zip(history, tr[render])):
            if h[0] == 'xload' and r['result'][0] == 'ok' and r['result'][1][0] != r['result'][1][1]:
                out.fail({'property': PID, 'clause': 'behaviour', 'scenario': scenario, 'culprit': 'cross-load', 'render': render},
                         f'{scenario}: the document of a {D["classes"][h[1]]["name"]} saved by {render} loads differently: '
                         f'static {str(r["result"][1][0])[:150]} vs dynamic {str(r["result"][1][1])[:150]}',
                         {'scenario': scenario, 'seed': ctx.seed, 'tier': ctx.tier, 'behave': D,
                          'history': [x for x in history[:j + 1] if x[1] == h[1]]})
                break
    d = behave_first_difference(tr)
    if d is None:
        return
    render, j, a, b = d
    cut = history
    if j is not None and driver in (None, sd.BreadthBehaviour, sd.CtorBehaviour):
        # the steps on the same instance up to the differing one are enough when they still differ
        small = [h for h in history[:j + 1] if h[1] == history[j][1]]
        d2 = behave_first_difference(behave_traces(D, small, driver))
        cut = small if d2 is not None and d2[1] == len(small) - 1 else history[:j + 1]
    elif j is not None:
        # a population: the objects and links made so far, then the differing query alone
        small = [h for h in history[:j] if h[0] in ('make', 'offer', 'contain', 'uncontain', 'rappend', 'rremove')] + [history[j]]
        d2 = behave_first_difference(behave_traces(D, small, driver))
        cut = small if d2 is not None and d2[1] == len(small) - 1 else history[:j + 1]
    step = history[j] if j is not None else ['construct']
    who = '-' if j is None else (D['classes'][step[1]]['name'] if driver in (None, sd.BreadthBehaviour, sd.CtorBehaviour) or step[0] in ('make', 'all', 'eall')
                                 else f'{step[1]}')
    out.fail({'property': PID, 'clause': 'behaviour', 'scenario': scenario, 'culprit': step[0], 'render': render},
             f'{scenario}: step {step} on {who}: '
             f'dynamic {str(a)[:160]} vs {render} {str(b)[:160]}',
             {'scenario': scenario, 'seed': ctx.seed, 'tier': ctx.tier, 'behave': D, 'history': cut})


def clash_scenarios(ctx, out, model=None, st=None):
    """multiple inheritance, branches of different depth declaring members of the same name"""
    st = st if st is not None else new_sdstats()
    rng = common.rng_for(ctx.seed, 'C13:clash')
    for _ in range(45 if ctx.tier != 'thorough' else 350):
        D = sd.gen_clash_descr(rng)
        if model is not None:
            sd_check_descr(out, model, st, D, 'clash')
        behave_case(ctx, out, st, 'clash', D, sd.behave_history(D, rng))


def population_scenarios(ctx, out, model=None, st=None):
    """several objects (roots, contained, in two resources, in none): allInstances with and without resources= on
    the class handle and on its EClass, eResource, eContents, eAllContents, eRoot, eContainer"""
    st = st if st is not None else new_sdstats()
    rng = common.rng_for(ctx.seed, 'C13:population')
    for _ in range(25 if ctx.tier != 'thorough' else 120):
        D = sd.gen_population_descr(rng)
        behave_case(ctx, out, st, 'population', D, sd.population_history(D, rng), sd.Population)


def rerender_difference(D1, D2):
    tr = {r: sd.rerender_trace(D1, D2, r) for r in BEHAVE_RENDERS}
    for render in BEHAVE_RENDERS[1:]:
        for a, b in zip(tr['dynamic'], tr[render]):
            if a != b:
                return render, a, b
        if len(tr['dynamic']) != len(tr[render]):
            return render, f'{len(tr["dynamic"])} observations', f'{len(tr[render])} observations'
    return None


def rerender_scenarios(ctx, out, model=None, st=None):
    """a description rendered, then rendered again (the same or revised) INTO THE SAME module / built again:
    documents saved before and after load through the module / package into the CURRENT classes"""
    st = st if st is not None else new_sdstats()
    rng = common.rng_for(ctx.seed, 'C13:rerender')
    for _ in range(12 if ctx.tier != 'thorough' else 100):
        D1 = sd.gen_population_descr(rng)
        D2 = sd.revise_descr(D1, rng) if rng.random() < 0.6 else D1
        st['rerender_cases'] += 1
        d = rerender_difference(D1, D2)
        if d is not None:
            render, a, b = d
            out.fail({'property': PID, 'clause': 'behaviour', 'scenario': 'rerender', 'culprit': 'load-after-redefinition',
                      'render': render},
                     f'rerender: dynamic {str(a)[:160]} vs {render} {str(b)[:160]}',
                     {'scenario': 'rerender', 'seed': ctx.seed, 'tier': ctx.tier, 'behave': D1, 'revised': D2, 'history': []})


def offers_scenarios(ctx, out, model=None, st=None):
    """values that carry an eClass without being instances (the class handle, the Python class, the EClass, an
    instance of a namesake class, proxies resolved and unresolved) offered as reference values and asked to
    isinstance, on every rendering"""
    st = st if st is not None else new_sdstats()
    rng = common.rng_for(ctx.seed, 'C13:nonmembers')
    for _ in range(20 if ctx.tier != 'thorough' else 150):
        D = sd.gen_population_descr(rng)
        behave_case(ctx, out, st, 'nonmembers', D, sd.offers_history(D, rng), sd.Offers)


def ctor_scenarios(ctx, out, model=None, st=None):
    """instances made through constructor keywords on every rendering (every static style with the __init__(**kwargs)
    generated code writes): subsets of the features, explicit None for attributes with non-None defaults and for
    references, lists / tuples / empty for many-valued features, some wrong values; value, eIsSet, saved document"""
    st = st if st is not None else new_sdstats()
    rng = common.rng_for(ctx.seed, 'C13:ctor-keywords')
    for _ in range(20 if ctx.tier != 'thorough' else 150):
        D = sd.gen_ctor_descr(rng)
        behave_case(ctx, out, st, 'ctor-keywords', D, sd.ctor_history(D, rng), sd.CtorBehaviour)


def construction_scenarios(ctx, out, model=None, st=None):
    """the dynamic metamodel put together in other ways, drawn per class (super types: constructor argument, append,
    extend, +=, whole-list assignment, insert(0, ..); features and operations: append / extend): the instance
    histories of `clash` (inherited members, MRO) and of `population` (containment typed by super types,
    allInstances of super types) on every rendering"""
    st = st if st is not None else new_sdstats()
    rng = common.rng_for(ctx.seed, 'C13:construction')
    for i in range(20 if ctx.tier != 'thorough' else 120):
        if i % 2:
            D = sd.draw_build_styles(sd.gen_population_descr(rng), rng)
            behave_case(ctx, out, st, 'construction', D, sd.population_history(D, rng), sd.Population)
        else:
            D = sd.draw_build_styles(sd.gen_clash_descr(rng), rng)
            behave_case(ctx, out, st, 'construction', D, sd.behave_history(D, rng), None)
        for c in D['classes']:
            if c['supers']:
                k = c['build']['supers']
                st['construction_super_styles'][k] = st['construction_super_styles'].get(k, 0) + 1


def breadth_scenarios(ctx, out, model=None, st=None):
    """operations of the same names in several classes; the dynamic metamodel is built breadth-first (operations
    first, parameters described afterwards): inspect.signature and call outcomes against the static renderings"""
    st = st if st is not None else new_sdstats()
    rng = common.rng_for(ctx.seed, 'C13:breadth')
    for _ in range(25 if ctx.tier != 'thorough' else 200):
        D = sd.gen_breadth_descr(rng)
        behave_case(ctx, out, st, 'breadth', D, sd.behave_history(D, rng, xload=False), sd.BreadthBehaviour)


def keyword_scenarios(ctx, out, model=None, st=None):
    """operations named after soft keywords, hard keywords and plain names, called on both renderings"""
    st = st if st is not None else new_sdstats()
    rng = common.rng_for(ctx.seed, 'C13:keyword-ops')
    for _ in range(25 if ctx.tier != 'thorough' else 120):
        D = sd.gen_keyword_descr(rng)
        behave_case(ctx, out, st, 'keyword-ops', D, sd.behave_history(D, rng, xload=False))


def staticdecl_naming(out, model, st):
    """feature names at the border of wf_descr: the two known findings, and names that must be fine"""
    def feat(n):
        return {'name': n, 'kind': 'attr', 'type': 'EString', 'lower': 0, 'upper': 1, 'ordered': True, 'unique': True,
                'containment': False, 'opposite': None, 'default': None}
    for nm, qualifier in NAMING:
        D = {'enums': [], 'classes': [{'name': 'A', 'abstract': False, 'supers': [], 'operations': [],
                                       'features': [feat('a'), feat(nm), feat('b')]}]}
        for render, deco in (('static-meta', False), ('static-decorator', True)):
            it = sd.Interner()
            rs, rd = sd_real(D, deco, it)
            wf, ms, md, ca = sd.ask_descr(model, D, deco, it)
            st['model_calls'] += 1
            st['naming_cases'] += 1
            rep = {'staticdecl': D, 'deco': deco}
            sd_compare(out, f'reflective description of a feature named {nm!r}, {render} vs model', rs, ms, rep)
            sd_compare(out, f'reflective description of a feature named {nm!r}, dynamic vs model', rd, md, rep)
            if wf != (qualifier is None and not nm.startswith('__')):
                out.diff(f'wf_descr says {wf} for a feature named {nm!r}', rep)
            if rs != rd:
                sig = {'property': PID, 'clause': 'reflective-description', 'render': render}
                if qualifier:
                    sig = {'property': PID, 'clause': 'reflective-description', 'qualifiers': [qualifier]}
                out.fail(sig, f'feature {nm!r}: {render} reflects {[f[0] for f in rs[0]["features"]]}, '
                              f'dynamic {[f[0] for f in rd[0]["features"]]}', rep)


def staticdecl_bodies(ctx, out, model, st, n):
    """arbitrary class bodies (explicit names, private and dunder keys, overwritten keys, names _promote assigns,
    methods, static methods, other values; eType / eOpposite statements in any order): what _promote takes and
    what it never takes, real module against the model"""
    for _ in range(n):
        M = sd.gen_module(ctx.rng)
        it = sd.Interner()
        try:
            mod = sd.execute(sd.module_source(M), 'b')
            try:
                real = sd.reflect([mod.__dict__[c['name']].eClass for c in M['classes']], it)
            finally:
                sd.forget(mod)
        except Exception:  # noqa
            real = None
            st['body_python_raised'] += 1
        mo = sd.ask_module(model, M, it)
        st['model_calls'] += 1
        st['body_cases'] += 1
        for c in M['classes']:
            for e in c['body']:
                st['body_entries'][e['kind']] = st['body_entries'].get(e['kind'], 0) + 1
        sd_compare(out, 'class bodies: promoted description (None = the module raises) vs model', real, mo, {'module': M})


def run(ctx, out):
    thorough = ctx.tier == 'thorough'
    n = 250 if not thorough else 4000
    model = common.Model()
    stats = {'cases': 0, 'calls': 0, 'cross_loads': 0, 'ops': {}}
    sdstats = new_sdstats()
    # first: allInstances walks EVERY live EObject of the process (EObject._instances), cheap only while few exist
    population_scenarios(ctx, out, model, sdstats)
    construction_scenarios(ctx, out, model, sdstats)
    samples = []
    distinct = set()
    from harness import kimpl
    for i in range(n):
        case = kgen.gen_case(ctx.rng, nops=10 if not thorough else 14)
        case['history'] = [op for op in case['history'] if op[0] in kmodel.MODELLED]
        for c in case['mm']['classes']:
            c['operations'] = {'A': OPS_A, 'A2': OPS_A2, 'B': OPS_B}.get(c['name'], [])
        case, r0 = kprop.clean_case(case, [], True)
        stats['cases'] += 1
        distinct.add(repr((case['templates'], case['history'])))
        runs = {'dynamic': r0}
        for render in RENDERINGS[1:]:
            c2 = copy.deepcopy(case)
            set_render(c2, render)
            try:
                runs[render] = krun.Run(c2, [], observe_views=True).run()
            except Exception as e:  # noqa
                out.fail({'property': PID, 'clause': 'static-rendering-raised', 'render': render},
                         f'{render}: {type(e).__name__}: {e}', case)
                runs[render] = None
        try:
            ms = kmodel.run_model(model, case)
        except Exception as e:  # noqa
            out.diff(f'model run failed: {e!r}', case)
            ms = []
        for render, r in runs.items():
            if r is None:
                continue
            # correspondence: each rendering against the common model
            for j, (s, mst) in enumerate(zip(r.steps, ms)):
                d = kmodel.compare_step(case, s['op'], s, mst, PROJ)
                if d:
                    cut = copy.deepcopy(case)
                    cut['history'] = cut['history'][:j + 1]
                    cut['render'] = render
                    out.diff(f'{render} step {j} {s["op"]}: ' + '; '.join(d[:2]), cut)
                    break
        # oracle: traces coincide
        base = [canon_step(case, s) for s in r0.steps]
        for render in RENDERINGS[1:]:
            r = runs.get(render)
            if r is None:
                continue
            other = [canon_step(case, s) for s in r.steps]
            for j, (a, b) in enumerate(zip(base, other)):
                if a != b:
                    what = next(k for k in a if a[k] != b[k])
                    cut = copy.deepcopy(case)
                    cut['history'] = cut['history'][:j + 1]
                    out.fail({'property': PID, 'clause': 'trace-' + what, 'render': render,
                              'culprit': case['history'][j][0]},
                             f'{render} differs from dynamic at step {j} {case["history"][j]} in {what}: '
                             f'{str(a[what])[:200]} vs {str(b[what])[:200]}', cut)
                    break
        for s in r0.steps:
            stats['calls'] += 3
            stats['ops'][s['op'][0]] = stats['ops'].get(s['op'][0], 0) + 1
        # reflective descriptions
        descs, worlds = {}, {}
        for render in RENDERINGS:
            c2 = copy.deepcopy(case)
            set_render(c2, render)
            c2['history'] = []
            worlds[render] = kimpl.World(c2, observers=False)
            descs[render] = description(worlds[render])
        staticdecl_kernel_case(out, model, case, worlds, sdstats)
        for render in RENDERINGS[1:]:
            if descs[render] != descs['dynamic']:
                cn = next(k for k in descs['dynamic'] if descs['dynamic'][k] != descs[render].get(k))
                out.fail({'property': PID, 'clause': 'reflective-description', 'render': render},
                         f'class {cn}: dynamic {descs["dynamic"][cn]} vs {render} {descs[render].get(cn)}', case)
        # cross loading (a fraction of the cases: it touches the file system)
        if i % (5 if not thorough else 3) == 0:
            for src, dst in (('dynamic', 'static-meta'), ('static-meta', 'dynamic'), ('static-decorator', 'dynamic')):
                try:
                    a, b = cross_load(case, src, dst)
                    stats['cross_loads'] += 1
                    if a != b:
                        out.fail({'property': PID, 'clause': 'cross-load', 'render': f'{src}->{dst}'},
                                 f'document saved by {src} loads differently against {dst}: {str(a)[:200]} vs {str(b)[:200]}', case)
                except Exception as e:  # noqa
                    out.fail({'property': PID, 'clause': 'cross-load-raised', 'render': f'{src}->{dst}',
                              'exception': type(e).__name__},
                             f'{src}->{dst}: {type(e).__name__}: {e}', case)
        if len(samples) < 3 and len(case['history']) > 3:
            samples.append({'templates': case['templates'], 'history': case['history']})
    staticdecl_generated(ctx, out, model, sdstats, 120 if not thorough else 1500)
    staticdecl_naming(out, model, sdstats)
    clash_scenarios(ctx, out, model, sdstats)
    keyword_scenarios(ctx, out, model, sdstats)
    rerender_scenarios(ctx, out, model, sdstats)
    offers_scenarios(ctx, out, model, sdstats)
    breadth_scenarios(ctx, out, model, sdstats)
    ctor_scenarios(ctx, out, model, sdstats)
    staticdecl_bodies(ctx, out, model, sdstats, 150 if not thorough else 3000)
    model.close()
    out.coverage.update({'staticdecl_' + k: v for k, v in sdstats.items()})
    out.coverage.update({
        'evaluations': stats['cases'] * 3, 'distinct_nontrivial': len(distinct),
        'rule': 'a case = generated metamodel description + history, rendered 3 ways (dynamic, MetaEClass, '
                '@EMetaclass); evaluations = cases x renderings; distinct = distinct (templates, history)',
        'traces_validated_against_impl': stats['cases'] * 3, 'calls_executed': stats['calls'],
        'cross_loads': stats['cross_loads'], 'ops_by_kind': stats['ops'], 'samples': samples,
    })
    out.assumptions += ['reflective description: Python accepts the bases of every generated class statement (C3 is asked to '
                        'Python beforehand); feature objects are not aliased between class bodies',
                        'static classes are generated source text executed in a fresh module (pyecoregen layout)',
                        'delete(): notification order compared as a multiset of individual changes']


def replay(ctx, rep):
    case = rep['case']
    if case.get('scenario') in ('nonmembers', 'breadth', 'ctor-keywords', 'construction'):
        return common.scenario_replay(ctx, rep, {'nonmembers': offers_scenarios, 'breadth': breadth_scenarios,
                                                 'ctor-keywords': ctor_scenarios, 'construction': construction_scenarios})
    if case.get('scenario') == 'rerender':
        d = rerender_difference(case['behave'], case['revised'])
        print('REPRODUCED ' + str(d)[:400] if d is not None else 'not reproduced')
        return 1 if d is not None else 0
    if 'behave' in case:
        tr = behave_traces(case['behave'], case['history'], sd.Population if case.get('scenario') == 'population' else None)
        d = behave_first_difference(tr)
        for render in BEHAVE_RENDERS:
            t = tr[render]
            print(render, t if isinstance(t, str) else [r['result'] for r in t][-3:])
        for render in BEHAVE_RENDERS:
            for h, r in zip(case['history'], tr[render] if not isinstance(tr[render], str) else []):
                if h[0] == 'xload' and r['result'][0] == 'ok' and r['result'][1][0] != r['result'][1][1]:
                    print('REPRODUCED cross-load', render, h, str(r['result'][1])[:300])
                    return 1
        if d is not None:
            print('REPRODUCED', d[0], 'step', case['history'][d[1]] if d[1] is not None else 'construct', ':', str(d[2])[:200], 'vs', str(d[3])[:200])
            return 1
        print('not reproduced')
        return 0
    if 'staticdecl' in case:
        D, deco = case['staticdecl'], case['deco']
        it = sd.Interner()
        rs, rd = sd_real(D, deco, it)
        print('static :', [(c['name'], [f[0] for f in c['features']]) for c in rs] if not isinstance(rs, str) else rs)
        print('dynamic:', [(c['name'], [f[0] for f in c['features']]) for c in rd] if not isinstance(rd, str) else rd)
        print('REPRODUCED' if rs != rd else 'not reproduced')
        return 1 if rs != rd else 0
    res = {}
    for render in RENDERINGS:
        c2 = copy.deepcopy(case)
        set_render(c2, render)
        r = krun.Run(c2, [], observe_views=True).run()
        res[render] = [canon_step(case, s) for s in r.steps]
        print(render, [s['outcome'] for s in r.steps])
    bad = any(res[r] != res['dynamic'] for r in RENDERINGS[1:])
    print('REPRODUCED' if bad else 'not reproduced')
    return 1 if bad else 0
