(* Outcome classes shared by all models.  An exception keeps whatever state
   the procedure had reached (the models thread state explicitly). *)
From Coq Require Import ZArith List Bool.
Import ListNotations.

Inductive exn : Type :=
| KeyErr        (* KeyError *)
| IndexErr      (* IndexError *)
| ValueErr      (* ValueError *)
| BadValue      (* pyecore BadValueError (a TypeError) *)
| AttrErr       (* AttributeError *)
| TypeErr       (* TypeError other than BadValueError *)
| NotImpl       (* NotImplementedError *)
| OutOfFuel.    (* model artefact: never produced under the theorems' hypotheses *)

Inductive res (A : Type) : Type :=
| Ok (a : A)
| Err (e : exn).
Arguments Ok {A} a.
Arguments Err {A} e.

Definition exn_code (e : exn) : Z :=
  match e with
  | KeyErr => 1 | IndexErr => 2 | ValueErr => 3 | BadValue => 4
  | AttrErr => 5 | TypeErr => 6 | NotImpl => 7 | OutOfFuel => 99
  end%Z.

Definition bindr {A B} (r : res A) (f : A -> res B) : res B :=
  match r with Ok a => f a | Err e => Err e end.
