"""Whole-document tie for C08: Model/XmiDoc.v (encode_doc / decode_doc) against the real
XMIResource.save / load.

For a generated metamodel (restricted to the modelled fragment: one package, positional fragments,
no uuid) and a generated model:
  (a) the infoset of the bytes the REAL save wrote (lxml, canonicalised: tag, attributes sorted,
      child elements stably sorted by feature, text) equals run_xmidoc_enc on the abstract forest
      read from the real objects through the public API;
  (b) the observation of the REAL load of those bytes (fresh resource set) equals run_xmidoc_dec
      applied to that same infoset.
Names travel as numbers (class = index in the metamodel description, feature = index in the table
of feature names); a feature name inside a fragment is the code point 0x110000 + id.
"""
import copy
import os
import re
import tempfile

from harness import common
from harness import ser_gen as G
from harness import ser_rt as R

XMI_URL = 'http://www.omg.org/XMI'
XSI_URL = 'http://www.w3.org/2001/XMLSchema-instance'
NB = 0x110000


class Unmodelled(Exception):
    """the real document uses something outside Model/XmiDoc.v"""


# ---------------------------------------------------------------- restriction to the modelled fragment
def restrict_mm(mm):
    """positional fragments only: no attribute is an id attribute (it stays as a plain attribute)"""
    mm = copy.deepcopy(mm)
    for c in mm['classes']:
        for f in c['features']:
            if f['kind'] == 'attr':
                f['iD'] = False
    return mm


class Tables:
    """numbers for names, and the model's view of the metamodel"""

    def __init__(self, mm, built):
        self.mm, self.built = mm, built
        self.cid = {c['name']: i for i, c in enumerate(mm['classes'])}
        self.cname = {i: n for n, i in self.cid.items()}
        names = []
        for c in mm['classes']:
            for f in c['features']:
                if f['name'] not in names:
                    names.append(f['name'])
        self.fid = {n: i for i, n in enumerate(names)}
        self.fname = {i: n for n, i in self.fid.items()}
        self.sup = G.supers_closure(mm)
        self.per_class = {}
        for c in mm['classes']:
            attrs, refs, conts = [], [], []
            for f in G.all_features(mm, c['name']):
                if f['kind'] == 'attr':
                    attrs.append(f)
                elif f['containment']:
                    conts.append(f)
                elif f['opposite'] and G.find_feature(mm, f['type'], f['opposite'])['containment']:
                    continue        # container end: a function of the nesting
                else:
                    refs.append(f)
            self.per_class[c['name']] = (attrs, refs, conts)

    def default_text(self, f):
        feat = self.built.features[f['name']]
        if f['many']:
            return None
        d = feat.get_default_value()
        return None if d is None else feat.eType.to_string(d)

    def feat_tokens(self, f):
        ty = self.cid[f['type']] if f['kind'] == 'ref' else 0
        dv = self.default_text(f) if f['kind'] == 'attr' else None
        return [self.fid[f['name']], int(f['many']), int(bool(f['unique'])), ty] + put_ostr(dv)

    def mm_tokens(self):
        t = [len(self.mm['classes'])]
        for c in self.mm['classes']:
            attrs, refs, conts = self.per_class[c['name']]
            sup = sorted(self.cid[s] for s in self.sup[c['name']])
            t += [self.cid[c['name']], int(c['abstract']), len(sup)] + sup
            for fl in (attrs, refs, conts):
                t.append(len(fl))
                for f in fl:
                    t += self.feat_tokens(f)
        return t


def put_ostr(s):
    if s is None:
        return [-1]
    return [len(s)] + [ord(c) for c in s]


# ---------------------------------------------------------------- abstract forest of a real resource (public API only)
def paths_of(resource):
    paths = {}
    for p, o in G.walk(resource):
        paths.setdefault(o, p)
    return paths


def forest_of(tb, resource, opts, with_isset=True):
    """[(node)] with node = {'cls','iss','attrs':[(fid,[text|None])],'refs':[(fid,[path])],'kids':[(fid,node)]};
    path = (root, ((fid, pos), ...)).  Values are the to_string'ed texts; a value that equals the default under
    Python's == carries the default's text unless it is written because of SERIALIZE_DEFAULT_VALUES."""
    paths = paths_of(resource)
    sd = bool(opts.get('serialize_default'))

    def one(o):
        cname = o.eClass.name
        attrs, refs, conts = tb.per_class[cname]
        node = {'cls': tb.cid[cname], 'iss': [], 'attrs': [], 'refs': [], 'kids': []}
        for f in attrs + refs + conts:
            if with_isset and o.eIsSet(f['name']):
                node['iss'].append(tb.fid[f['name']])
        for f in attrs:
            feat = tb.built.features[f['name']]
            et = feat.eType
            v = o.eGet(f['name'])
            if f['many']:
                vals = [None if x is None else et.to_string(x) for x in v]
            else:
                if v is None:
                    vals = [None]
                else:
                    d = feat.get_default_value()
                    isset = o.eIsSet(f['name'])
                    if d is not None and v == d and not (sd and isset):
                        vals = [et.to_string(d)]
                    else:
                        vals = [et.to_string(v)]
            node['attrs'].append((tb.fid[f['name']], vals))
        for f in refs:
            v = o.eGet(f['name'])
            tg = list(v) if f['many'] else ([] if v is None else [v])
            ps = []
            for t in tg:
                p = paths.get(t)
                if p is None:
                    raise Unmodelled('reference target outside the resource')
                ps.append((p[0], tuple((tb.fid[s[0]], s[1]) for s in p[1:])))
            node['refs'].append((tb.fid[f['name']], ps))
        for f in sorted(conts, key=lambda f: tb.fid[f['name']]):
            v = o.eGet(f['name'])
            ch = list(v) if f['many'] else ([] if v is None else [v])
            for c in ch:
                node['kids'].append((tb.fid[f['name']], one(c)))
        return node
    return [one(r) for r in resource.contents]


def forest_tokens(F):
    def path_t(p):
        t = [p[0], len(p[1])]
        for f, i in p[1]:
            t += [f, i]
        return t

    def tree_t(n):
        t = [n['cls'], len(n['iss'])] + list(n['iss'])
        t.append(len(n['attrs']))
        for f, vals in n['attrs']:
            t += [f, len(vals)]
            for v in vals:
                t += put_ostr(v)
        t.append(len(n['refs']))
        for f, ps in n['refs']:
            t += [f, len(ps)]
            for p in ps:
                t += path_t(p)
        t.append(len(n['kids']))
        for f, k in n['kids']:
            t += [f] + tree_t(k)
        return t
    out = [len(F)]
    for n in F:
        out += tree_t(n)
    return out


class Toks:
    def __init__(self, t):
        self.t, self.i = t, 0

    def z(self):
        v = self.t[self.i]
        self.i += 1
        return v

    def ostr(self):
        n = self.z()
        if n < 0:
            return None
        s = self.t[self.i:self.i + n]
        self.i += n
        return s            # code points (fragments hold symbols outside Unicode)

    def xml(self):
        k, v = self.z(), self.z()
        tag = ('xmi',) if k == 0 else (('root', v) if k == 1 else ('feat', v))
        tk, tv = self.z(), self.z()
        xtype = None if tk < 0 else (tk == 1, tv)
        nil = self.z() == 1
        attrs = []
        for _ in range(self.z()):
            f = self.z()
            attrs.append((f, tuple(self.ostr())))
        text = self.ostr()
        text = None if text is None else tuple(text)
        kids = [self.xml() for _ in range(self.z())]
        return canon_elem(tag, xtype, nil, attrs, kids, text)

    def path(self):
        r = self.z()
        return (r, tuple((self.z(), self.z()) for _ in range(self.z())))

    def tree(self):
        n = {'cls': self.z()}
        n['iss'] = [self.z() for _ in range(self.z())]
        n['attrs'] = []
        for _ in range(self.z()):
            f = self.z()
            vals = []
            for _ in range(self.z()):
                o = self.ostr()
                vals.append(None if o is None else ''.join(chr(c) for c in o))
            n['attrs'].append((f, vals))
        n['refs'] = []
        for _ in range(self.z()):
            f = self.z()
            n['refs'].append((f, [self.path() for _ in range(self.z())]))
        n['kids'] = []
        for _ in range(self.z()):
            f = self.z()
            n['kids'].append((f, self.tree()))
        return n


# ---------------------------------------------------------------- infoset
def canon_elem(tag, xtype, nil, attrs, kids, text):
    """attributes sorted by feature; child elements stably sorted by feature (the order between different features is
    the insertion order of _isset, which is not modelled)"""
    if tag != ('xmi',):
        kids = sorted(kids, key=lambda k: k['tag'][1] if k['tag'][0] == 'feat' else -1)
    return {'tag': tag, 'xtype': xtype, 'nil': nil, 'attrs': sorted(attrs), 'kids': kids, 'text': text}


FRAG_STEP = re.compile(r'@([A-Za-z_][A-Za-z_0-9]*)')


def ref_text_to_symbols(tb, s):
    """a reference attribute text with every '@name' replaced by '@' + the symbol of the name"""
    out = []
    pos = 0
    for m in FRAG_STEP.finditer(s):
        out += [ord(c) for c in s[pos:m.start()]]
        name = m.group(1)
        if name not in tb.fid:
            raise Unmodelled(f'fragment names the unknown feature {name!r}')
        out += [64, NB + tb.fid[name]]
        pos = m.end()
    out += [ord(c) for c in s[pos:]]
    return tuple(out)


def infoset_of_bytes(tb, data, st=None):
    """the canonical infoset of a document written by pyecore, in the vocabulary of Model/XmiDoc.v"""
    from lxml import etree
    root = etree.fromstring(data)
    nsuri = tb.mm['nsURI']
    ref_fids = {tb.fid[f['name']] for c in tb.mm['classes'] for f in c['features'] if f['kind'] == 'ref'}
    uses_type = [False]

    def conv(e, top):
        q = etree.QName(e)
        if q.namespace == XMI_URL and q.localname == 'XMI':
            tag = ('xmi',)
        elif q.namespace == nsuri and q.localname in tb.cid:
            tag = ('root', tb.cid[q.localname])
        elif q.namespace is None and q.localname in tb.fid:
            tag = ('feat', tb.fid[q.localname])
        else:
            raise Unmodelled(f'element {e.tag!r}')
        xtype, nil, attrs = None, False, []
        for key, val in e.attrib.items():
            k = etree.QName(key)
            if k.namespace in (XSI_URL, XMI_URL) and k.localname == 'type':
                prefix, _, cname = val.partition(':')
                if cname not in tb.cid:
                    raise Unmodelled(f'type {val!r}')
                # the assumption made by the model: the document root binds the prefixes the reader needs
                if root.nsmap.get(prefix) != nsuri or root.nsmap.get('xsi') != XSI_URL:
                    raise Unmodelled(f'type attribute {val!r} with prefix map {root.nsmap!r}')
                uses_type[0] = True
                cand = (k.namespace == XMI_URL, tb.cid[cname])
                if xtype is None or not cand[0]:          # xsi:type is looked up first
                    xtype = cand
            elif k.namespace == XSI_URL and k.localname == 'nil':
                nil = True
            elif k.namespace == XMI_URL and k.localname == 'version' and top:
                if val != '2.0':
                    raise Unmodelled(f'xmi:version {val!r}')
            elif k.namespace is None and k.localname in tb.fid:
                f = tb.fid[k.localname]
                txt = ref_text_to_symbols(tb, val) if f in ref_fids else tuple(ord(c) for c in val)
                attrs.append((f, txt))
            else:
                raise Unmodelled(f'attribute {key!r}')
        kids = [conv(c, False) for c in e if isinstance(c.tag, str)]
        text = None
        if not kids and e.text:
            text = tuple(ord(c) for c in e.text)
        return canon_elem(tag, xtype, nil, attrs, kids, text)
    x = conv(root, True)
    if st is not None and uses_type[0]:
        st['type_attribute_documents'] = st.get('type_attribute_documents', 0) + 1
    return x


def xml_tokens(x):
    tag = x['tag']
    t = [0, 0] if tag[0] == 'xmi' else ([1, tag[1]] if tag[0] == 'root' else [2, tag[1]])
    t += [-1, 0] if x['xtype'] is None else [1 if x['xtype'][0] else 0, x['xtype'][1]]
    t.append(1 if x['nil'] else 0)
    t.append(len(x['attrs']))
    for f, s in x['attrs']:
        t += [f, len(s)] + list(s)
    t += [-1] if x['text'] is None else [len(x['text'])] + list(x['text'])
    t.append(len(x['kids']))
    for k in x['kids']:
        t += xml_tokens(k)
    return t


def first_xml_diff(a, b, where='/'):
    for key in ('tag', 'xtype', 'nil', 'attrs', 'text'):
        if a[key] != b[key]:
            return f'{where}: {key}: model {a[key]!r} pyecore {b[key]!r}'
    if len(a['kids']) != len(b['kids']):
        return f'{where}: {len(a["kids"])} child elements in the model, {len(b["kids"])} written ' \
               f'(model tags {[k["tag"] for k in a["kids"]]}, written {[k["tag"] for k in b["kids"]]})'
    for i, (x, y) in enumerate(zip(a['kids'], b['kids'])):
        d = first_xml_diff(x, y, f'{where}{i}/')
        if d:
            return d
    return None


# ---------------------------------------------------------------- observation of a forest
def observe(tb, F):
    """forest (texts) -> comparable observation: values through from_string and ser_gen.tag_value"""
    def val(f, t):
        if t is None:
            return ['n']
        feat = tb.built.features[tb.fname[f]]
        return G._enum(G.tag_value(feat.eType.from_string(t)), feat, True)

    def one(n):
        return {'cls': n['cls'],
                'attrs': [(f, [val(f, t) for t in vals]) for f, vals in n['attrs']],
                'refs': [(f, list(ps)) for f, ps in n['refs']],
                'kids': [(f, one(k)) for f, k in n['kids']]}
    return [one(n) for n in F]


def first_obs_diff(a, b, where=''):
    if len(a) != len(b):
        return f'{where}: {len(a)} objects in the model, {len(b)} loaded'
    for i, (x, y) in enumerate(zip(a, b)):
        w = f'{where}/{i}'
        if x['cls'] != y['cls']:
            return f'{w}: class: model {x["cls"]} pyecore {y["cls"]}'
        for key in ('attrs', 'refs'):
            if x[key] != y[key]:
                bad = next(((u, v) for u, v in zip(x[key], y[key]) if u != v), (x[key], y[key]))
                return f'{w}: {key}: model {bad[0]!r} pyecore {bad[1]!r}'
        if [f for f, _ in x['kids']] != [f for f, _ in y['kids']]:
            return f'{w}: children: model {[f for f, _ in x["kids"]]} pyecore {[f for f, _ in y["kids"]]}'
        d = first_obs_diff([k for _, k in x['kids']], [k for _, k in y['kids']], w)
        if d:
            return d
    return None


# ---------------------------------------------------------------- one case
def depth_width(F):
    def go(n):
        if not n['kids']:
            return 1, 0
        ds = [go(k) for _, k in n['kids']]
        return 1 + max(d for d, _ in ds), max([len(n['kids'])] + [w for _, w in ds])
    if not F:
        return 0, 0
    r = [go(n) for n in F]
    return max(d for d, _ in r), max(w for _, w in r)


def _hist(d, k):
    d[k] = d.get(k, 0) + 1


def has_ws_value(F):
    def go(n):
        for _, vals in n['attrs']:
            if any(v is not None and (v == '' or any(c.isspace() for c in v)) for v in vals):
                return True
        return any(go(k) for _, k in n['kids'])
    return any(go(n) for n in F)


def count_nodes(x, pred):
    return (1 if pred(x) else 0) + sum(count_nodes(k, pred) for k in x['kids'])


def run_case(out, ask, st, mm, md, opts, built=None):
    """ask(name, tokens) -> tokens.  Returns True when the case was compared (a) and (b)."""
    URI = R._resource_classes()[0]
    built = built or G.Built(mm)
    tb = Tables(mm, built)
    case = {'mm': mm, 'md': md, 'format': 'xmi', 'options': opts, 'tie': 'xmidoc'}
    with tempfile.TemporaryDirectory(prefix='verif_xmidoc_') as d:
        path = os.path.join(d, 'model.xmi')
        rset = R.new_rset(built, 'xmi')
        res = rset.create_resource(URI(path), use_uuid=False)
        G.build_model(built, md, res)
        F = forest_of(tb, res, opts)
        try:
            res.save(options=R.save_options('xmi', opts))
        except Exception as e:          # noqa
            out.diff(f'xmidoc: save raised {type(e).__name__}: {e} (the model predicts a document)', case)
            return False
        data = open(path, 'rb').read()
        rset2 = R.new_rset(built, 'xmi')
        loaded, load_exc = None, None
        try:
            loaded = rset2.get_resource(URI(path))
        except Exception as e:          # noqa
            load_exc = e
    # ---- (a) the document
    mmt = tb.mm_tokens()
    ans = ask('xmidoc_enc', mmt + [int(bool(opts.get('serialize_default'))), int(bool(opts.get('xmi_type')))]
              + forest_tokens(F))
    if not ans or ans[0] != 1:
        out.diff('xmidoc: the model could not read the request', case)
        return False
    wf_mm, wf_forest = ans[1], ans[2]
    if not (wf_mm and wf_forest):
        st['not_wf'] = st.get('not_wf', 0) + 1
        out.diff(f'xmidoc: a state built through the API is outside the premise of the theorem '
                 f'(wf_mm={wf_mm}, wf_forest={wf_forest})', case)
        return False
    model_x = Toks(ans[3:]).xml()
    try:
        real_x = infoset_of_bytes(tb, data, st)
    except Unmodelled as e:
        out.diff(f'xmidoc: the document pyecore wrote is outside the modelled infoset: {e}', case)
        return False
    d = first_xml_diff(model_x, real_x)
    if d:
        out.diff(f'xmidoc (a) infoset: {d}', case)
        return False
    # ---- (b) the load
    ans = ask('xmidoc_dec', mmt + xml_tokens(real_x))
    if not ans or ans[0] != 1:
        out.diff('xmidoc: the model could not read the infoset', case)
        return False
    if ans[1] == 0:
        if load_exc is None:
            out.diff('xmidoc (b): decode_doc = None, pyecore loads the document', case)
            return False
        model_obs = None
    else:
        t = Toks(ans[2:])
        model_F = [t.tree() for _ in range(t.z())]
        model_obs = observe(tb, model_F)
    if load_exc is not None:
        if model_obs is not None:
            out.diff(f'xmidoc (b): pyecore load raised {type(load_exc).__name__}: {load_exc}; decode_doc gives a model', case)
        return False
    real_obs = observe(tb, forest_of(tb, loaded, {}, with_isset=False))
    d = first_obs_diff(model_obs, real_obs)
    if d:
        out.diff(f'xmidoc (b) loaded model: {d}', case)
        return False
    # ---- the theorem's instance, evaluated (no part of the tie: the oracle's statement on this case)
    src_obs = observe(tb, [dict(n) for n in F])
    st['round_trip_equal'] = st.get('round_trip_equal', 0) + (1 if first_obs_diff(src_obs, real_obs) is None else 0)
    # ---- distribution
    st['cases'] = st.get('cases', 0) + 1
    dpt, wid = depth_width(F)
    _hist(st.setdefault('depth', {}), dpt)
    _hist(st.setdefault('width', {}), min(wid, 8))
    _hist(st.setdefault('roots', {}), len(F))
    _hist(st.setdefault('options', {}), ','.join(k for k in ('serialize_default', 'xmi_type') if opts.get(k)) or 'none')
    if len(F) != 1:
        st['multi_root'] = st.get('multi_root', 0) + 1
    nt = count_nodes(real_x, lambda x: x['xtype'] is not None)
    if nt:
        st['with_xsi_type'] = st.get('with_xsi_type', 0) + 1
    if count_nodes(real_x, lambda x: x['nil']):
        st['with_nil'] = st.get('with_nil', 0) + 1
    if has_ws_value(F):
        st['with_whitespace_values'] = st.get('with_whitespace_values', 0) + 1
    refs = sum(1 for _ in iter_refs(F))
    if refs:
        st['with_cross_references'] = st.get('with_cross_references', 0) + 1
    st['objects'] = st.get('objects', 0) + sum(1 for _ in iter_nodes(F))
    st['reference_targets'] = st.get('reference_targets', 0) + refs
    return True


def iter_nodes(F):
    for n in F:
        yield n
        yield from iter_nodes([k for _, k in n['kids']])


def iter_refs(F):
    for n in iter_nodes(F):
        for _, ps in n['refs']:
            yield from ps


def gen_case(rng, serial):
    mm = restrict_mm(G.gen_metamodel(rng, serial))
    return mm


def restrict_md(mm, md):
    """the model works on to_string'ed texts and decides "is it the default?" on texts: an enumeration value given
    by its name (a str, which pyecore accepts) is replaced by the literal of that name"""
    enums = {e['name'] for e in mm['enums']}
    md = copy.deepcopy(md)
    for o in md['objs'].values():
        for s in o['sets']:
            f = G.find_feature(mm, o['cls'], s[0])
            if f and f['kind'] == 'attr' and f['type'] in enums:
                if f['many']:
                    s[1] = [['e', v[1]] if v[0] == 's' else v for v in s[1]]
                elif s[1][0] == 's':
                    s[1] = ['e', s[1][1]]
    return md


def gen_options(rng):
    return {'uuid': False, 'serialize_default': rng.random() < 0.35, 'xmi_type': rng.random() < 0.2}
