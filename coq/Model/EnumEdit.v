(* Enumerations edited at run time (pyecore/ecore.py, class EEnum) and what conforms to them.
   EEnum.__contains__ (the type check of every EEnum-typed attribute, reached through
   EcoreUtils.isinstance -> EEnum.__instancecheck__):
       if isinstance(key, EEnumLiteral): return key in self.eLiterals
       return any(lit for lit in self.eLiterals if lit.name == key)
   i.e. a literal object conforms iff the enumeration CURRENTLY holds it, a name conforms iff some literal the
   enumeration currently holds CURRENTLY carries that name.  The enumeration also keeps an index by name in its
   __dict__ (EEnum.notifyChanged: ADD -> setattr(self, literal.name, literal); REMOVE -> del self.__dict__[name])
   used for the attribute syntax `En.RED`; that index is NOT refreshed when a literal is renamed in place, which is
   why conformance must not be decided from it ([index_conformance_refuted]). *)
From Coq Require Import ZArith List Bool Arith Lia.
Import ListNotations.
Local Open Scope Z_scope.

Definition lit := nat.            (* identity of an EEnumLiteral object *)
Definition name := Z.             (* interned name text *)

Record enum : Type := {
  lits : list (lit * name);       (* eLiterals, in order: an ordered SET of literal objects *)
  index : list (name * lit)       (* the __dict__ entries written by notifyChanged, latest binding first *)
}.

Inductive eop : Type :=
| ERename (l : lit) (n : name)    (* l.name = n   (in place; the enumeration is not notified) *)
| EAppend (l : lit) (n : name)    (* eLiterals.append(l) with l.name = n; ignored if l is already a member *)
| ERemove (l : lit)               (* eLiterals.remove(l) *)
| EClear.                         (* eLiterals.clear() *)

Definition has_lit (e : enum) (l : lit) : bool := existsb (fun p => Nat.eqb (fst p) l) (lits e).
Definition has_name (e : enum) (n : name) : bool := existsb (fun p => Z.eqb (snd p) n) (lits e).

(* what EEnum.__contains__ answers *)
Definition conf_lit (e : enum) (l : lit) : bool := has_lit e l.
Definition conf_name (e : enum) (n : name) : bool := has_name e n.

Definition name_of (e : enum) (l : lit) : option name :=
  match find (fun p => Nat.eqb (fst p) l) (lits e) with Some p => Some (snd p) | None => None end.

Fixpoint del_index (n : name) (ix : list (name * lit)) : list (name * lit) :=
  match ix with
  | [] => []
  | (m, l) :: r => if Z.eqb m n then r else (m, l) :: del_index n r
  end.

Definition set_index (n : name) (l : lit) (ix : list (name * lit)) : list (name * lit) :=
  (n, l) :: del_index n ix.

(* the step; [false] = the call raised (KeyError of OrderedSet.remove for an absent literal): nothing changed *)
Definition estep (e : enum) (o : eop) : enum * bool :=
  match o with
  | ERename l n =>
      ({| lits := map (fun p => if Nat.eqb (fst p) l then (fst p, n) else p) (lits e); index := index e |}, true)
  | EAppend l n =>
      if has_lit e l then (e, true)
      else ({| lits := lits e ++ [(l, n)]; index := set_index n l (index e) |}, true)
  | ERemove l =>
      match name_of e l with
      | None => (e, false)
      | Some n => ({| lits := filter (fun p => negb (Nat.eqb (fst p) l)) (lits e);
                      index := del_index n (index e) |}, true)
      end
  | EClear => ({| lits := []; index := fold_left (fun ix p => del_index (snd p) ix) (lits e) (index e) |}, true)
  end.

Definition enext (e : enum) (o : eop) : enum := fst (estep e o).

Definition init_enum (names : list name) : enum :=
  fold_left (fun e p => enext e (EAppend (fst p) (snd p)))
            (combine (seq 0 (length names)) names) {| lits := []; index := [] |}.

(* conformance as the stale index would decide it (the seeded regression; not what the code does) *)
Definition conf_name_by_index (e : enum) (n : name) : bool := existsb (fun p => Z.eqb (fst p) n) (index e).

(* ---- I/O for the correspondence: [n; name_0 .. name_{n-1}; items...] where an item is
   1 l n (rename) | 2 l n (append) | 3 l (remove) | 4 (clear) | 5 n (does the name conform?) | 6 l (does the
   literal conform?); output: one 0/1 per query, and for remove 1 = done / 0 = raised ---- *)
Fixpoint take_names (k : nat) (t : list Z) : list name * list Z :=
  match k, t with
  | S k', x :: r => let (a, b) := take_names k' r in (x :: a, b)
  | _, _ => ([], t)
  end.

Fixpoint run_items (fuel : nat) (e : enum) (t : list Z) : list Z :=
  match fuel with
  | O => []
  | S fuel' =>
    match t with
    | 1 :: l :: n :: r => run_items fuel' (enext e (ERename (Z.to_nat l) n)) r
    | 2 :: l :: n :: r => run_items fuel' (enext e (EAppend (Z.to_nat l) n)) r
    | 3 :: l :: r => let (e', ok) := estep e (ERemove (Z.to_nat l)) in (if ok then 1 else 0) :: run_items fuel' e' r
    | 4 :: r => run_items fuel' (enext e EClear) r
    | 5 :: n :: r => (if conf_name e n then 1 else 0) :: run_items fuel' e r
    | 6 :: l :: r => (if conf_lit e (Z.to_nat l) then 1 else 0) :: run_items fuel' e r
    | _ => []
    end
  end.

Definition run_enum (t : list Z) : list Z :=
  match t with
  | n :: r => let (ns, items) := take_names (Z.to_nat n) r in run_items (length items) (init_enum ns) items
  | [] => []
  end.
