(* C11 at any point of any editing history: the premise of Proofs/C11Proofs.v is a consequence of the
   global ownership invariant (Proofs/OwnAll.v, Proofs/WFCorollaries.v). *)
From Coq Require Import ZArith List Bool Arith.
From PyecoreV Require Import Lib.PyBase Lib.PyList Model.Kernel Model.Fragment Proofs.C01Full Proofs.C11Proofs
  Proofs.WFBase Proofs.OwnAll Proofs.WFCorollaries.
Import ListNotations.

Section Hist.
Variable m : mm.
Hypothesis W : wf_mm m.
Hypothesis Dn : ref_defaults_none m.
Variable ops : list op.
Hypothesis Hops : Forall (op_many m) ops.

Theorem reach_resolve_fragment fuel o root segs r pre :
  frag_segs fuel m (reach m ops) o = Some (root, segs) ->
  root_prefix (reach m ops) (Some r) root = Some pre ->
  In root (rcont (reach m ops) r) ->
  resolve (reach m ops) r pre segs = Some o.
Proof. apply resolve_fragment. apply reach_single_slots_ok; assumption. Qed.

Theorem reach_fragments_distinct fuel o1 o2 root1 root2 segs r pre :
  frag_segs fuel m (reach m ops) o1 = Some (root1, segs) ->
  frag_segs fuel m (reach m ops) o2 = Some (root2, segs) ->
  root_prefix (reach m ops) (Some r) root1 = Some pre -> root_prefix (reach m ops) (Some r) root2 = Some pre ->
  In root1 (rcont (reach m ops) r) -> In root2 (rcont (reach m ops) r) ->
  o1 = o2.
Proof. apply fragments_distinct. apply reach_single_slots_ok; assumption. Qed.
End Hist.
