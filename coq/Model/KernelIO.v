(* Token codec between the harness and the kernel model (decode metamodel,
   universe and history; encode outcome, observation and notification log).
   Pure plumbing, exercised on every correspondence run. *)
From Coq Require Import ZArith List Bool Arith.
From PyecoreV Require Import Lib.PyBase Lib.PyList Model.Coll Model.Kernel.
Import ListNotations.
Open Scope Z_scope.

Definition NONE : Z := -99999.
Definition zn (z : Z) : nat := Z.to_nat z.
Definition nz (n : nat) : Z := Z.of_nat n.

Definition dec_value (tag p : Z) : value :=
  match tag with
  | 1 => VObj (zn p)
  | 2 => VInt p
  | 3 => VStr p
  | 4 => VBool (negb (p =? 0))
  | 5 => VLit (zn (p / 100)) (zn (p mod 100))
  | 6 => VFlt p
  | _ => VNone
  end.

Definition enc_value (v : value) : list Z :=
  match v with
  | VNone => [0; 0]
  | VObj o => [1; nz o]
  | VInt z => [2; z]
  | VStr s => [3; s]
  | VBool b => [4; if b then 1 else 0]
  | VLit e l => [5; nz e * 100 + nz l]
  | VFlt h => [6; h]
  end.

Definition dec_type (tag p : Z) : ftype :=
  match tag with
  | 0 => TClass (zn p) | 1 => TInt | 2 => TStr | 3 => TBool | 4 => TDbl | 5 => TAny
  | _ => TEnum (zn p)
  end.

(* 10 tokens per feature *)
Fixpoint dec_feats (n : nat) (t : list Z) : list fdecl * list Z :=
  match n with
  | O => ([], t)
  | S n' =>
    match t with
    | ow :: isr :: many :: uniq :: cont :: opp :: tyt :: tp :: dt :: dp :: rest =>
      let f := {| f_owner := zn ow; f_isref := negb (isr =? 0); f_many := negb (many =? 0);
                  f_unique := negb (uniq =? 0); f_cont := negb (cont =? 0);
                  f_opp := if opp <? 0 then None else Some (zn opp);
                  f_type := dec_type tyt tp; f_default := dec_value dt dp |} in
      let '(fs, r) := dec_feats n' rest in (f :: fs, r)
    | _ => ([], [])
    end
  end.

Fixpoint dec_pairs (n : nat) (t : list Z) : list (nat * nat) * list Z :=
  match n with
  | O => ([], t)
  | S n' => match t with
            | a :: b :: rest => let '(ps, r) := dec_pairs n' rest in ((zn a, zn b) :: ps, r)
            | _ => ([], [])
            end
  end.

Fixpoint dec_lists (n : nat) (t : list Z) : list (list Z) * list Z :=
  match n with
  | O => ([], t)
  | S n' => match t with
            | k :: rest => let '(ls, r) := dec_lists n' (drop (zn k) rest) in (take (zn k) rest :: ls, r)
            | _ => ([], [])
            end
  end.

Definition dec_mm (t : list Z) : mm * list Z :=
  match t with
  | nf :: t1 =>
    let '(fs, t2) := dec_feats (zn nf) t1 in
    match t2 with
    | nc :: t3 =>
      let '(cf, t4) := dec_pairs (zn nc) t3 in
      match t4 with
      | no :: t5 =>
        let oc := map zn (take (zn no) t5) in
        match drop (zn no) t5 with
        | ne :: t6 =>
          let '(en, t7) := dec_lists (zn ne) t6 in
          match t7 with
          | nr :: t8 =>
            ({| feats := fs; conf := cf; ocls := oc; enames := en; nres := zn nr |}, t8)
          | _ => ({| feats := fs; conf := cf; ocls := oc; enames := en; nres := 0 |}, [])
          end
        | _ => ({| feats := fs; conf := cf; ocls := oc; enames := []; nres := 0 |}, [])
        end
      | _ => ({| feats := fs; conf := cf; ocls := []; enames := []; nres := 0 |}, [])
      end
    | _ => ({| feats := fs; conf := []; ocls := []; enames := []; nres := 0 |}, [])
    end
  | _ => ({| feats := []; conf := []; ocls := []; enames := []; nres := 0 |}, [])
  end.

Fixpoint dec_values (n : nat) (t : list Z) : list value :=
  match n with
  | O => []
  | S n' => match t with tag :: p :: rest => dec_value tag p :: dec_values n' rest | _ => [] end
  end.

Definition hdv (l : list value) : value := match l with v :: _ => v | [] => VNone end.

(* one op = code a b c d n (tag payload)*n *)
Fixpoint dec_ops (fuel : nat) (t : list Z) : list op :=
  match fuel with
  | O => []
  | S fu =>
    match t with
    | code :: a :: b :: c :: d :: n :: rest =>
      let vs := dec_values (zn n) rest in
      let rest' := drop (2 * zn n) rest in
      let o :=
        match code with
        | 1 => OSet (zn a) (zn b) (hdv vs)
        | 2 => OUnset (zn a) (zn b)
        | 3 => ODel (zn a) (zn b)
        | 4 => OAssign (zn a) (zn b) vs
        | 5 => OAppend (zn a) (zn b) (hdv vs)
        | 6 => OInsert (zn a) (zn b) c (hdv vs)
        | 7 => ORemove (zn a) (zn b) (hdv vs)
        | 8 => OPop (zn a) (zn b) c
        | 9 => OClear (zn a) (zn b)
        | 10 => OExtend (zn a) (zn b) vs
        | 11 => OSetItem (zn a) (zn b) c (hdv vs)
        | 12 => ODelItem (zn a) (zn b) c
        | 13 => ODelete (zn a) (negb (b =? 0))
        | 14 => ORAppend (zn a) (zn b)
        | 15 => ORRemove (zn a) (zn b)
        | 16 => ORExtend (zn a) (objs_of vs)
        | _ => ORead (zn a) (zn b)
        end in
      o :: dec_ops fu rest'
    | _ => []
    end
  end.

(* ---------- encoding ---------- *)
Definition enc_opt (o : option nat) : Z := match o with Some n => nz n | None => NONE end.

Definition enc_payload (p : payload) : list Z :=
  match p with
  | POne v => 0 :: enc_value v
  | PMany vs => 1 :: nz (length vs) :: flat_map enc_value vs
  end.

Definition kind_code (k : nkind) : Z :=
  match k with KAdd => 0 | KAddMany => 1 | KMove => 2 | KRemove => 3 | KRemoveMany => 4 | KSet => 5 | KUnset => 6 end.

Definition enc_notif (n : notif) : list Z :=
  [nz (n_obj n); nz (n_feat n); kind_code (n_kind n)] ++ enc_payload (n_old n) ++ enc_payload (n_new n)
  ++ [enc_opt (n_res n)].

Definition enc_obj (m : mm) (s : state) (o : oid) : list Z :=
  flat_map (fun f => let l := vals s (o, f) in
                     [nz f; if isset s (o, f) then 1 else 0; nz (length l)] ++ flat_map enc_value l)
           (all_feats m o)
  ++ [match cont s o with Some (p, _) => nz p | None => NONE end;
      match cont s o with Some (_, f) => nz f | None => NONE end;
      enc_opt (eresource_of m s o)].

Definition enc_state (m : mm) (s : state) : list Z :=
  flat_map (enc_obj m s) (seqn (length (ocls m)))
  ++ flat_map (fun r => nz (length (rcont s r)) :: map nz (rcont s r)) (seqn (nres m)).

Definition enc_views (m : mm) (s : state) : list Z :=
  flat_map (fun o =>
              let ec := econtents m s o in
              let ea := eallcontents (S (length (ocls m))) m s o in
              [nz (length ec)] ++ map nz ec ++ [nz (length ea)] ++ map nz ea ++ [nz (eroot m s o)])
           (seqn (length (ocls m))).

Definition enc_step (m : mm) (s_before : state) (r : outcome * option value) : list Z :=
  let '((e, s), ret) := r in
  let newlog := rev (firstn (length (log s) - length (log s_before)) (log s)) in
  [match e with Some x => exn_code x | None => 0 end]
  ++ match ret with Some v => 1 :: enc_value v | None => [0; 0; 0] end
  ++ [nz (length newlog)] ++ flat_map enc_notif newlog
  ++ enc_state m s ++ enc_views m s.

Fixpoint run_hist (m : mm) (s : state) (ops : list op) : list Z :=
  match ops with
  | [] => []
  | o :: rest =>
    let r := step m s o in
    enc_step m s r ++ run_hist m (snd (fst r)) rest
  end.

Definition run_kernel (t : list Z) : list Z :=
  let '(m, rest) := dec_mm t in
  run_hist m (init_state m) (dec_ops (length rest) rest).
