(* C01: opposite references stay symmetric — proofs over Model/Kernel.v. *)
From Coq Require Import ZArith List Bool Arith Lia.
From PyecoreV Require Import Lib.PyBase Lib.PyList Model.Kernel Proofs.PyListFacts Proofs.KernelFacts.
Import ListNotations.
Open Scope nat_scope.

Definition R (s : state) (f : fid) (a b : oid) : Prop := In (VObj b) (vals s (a, f)).

Definition sym (m : mm) (s : state) : Prop :=
  forall f g, f_opp (fd m f) = Some g -> forall a b, R s f a b <-> R s g b a.

(* single-valued slots hold exactly one value; bidirectional ends hold an object at most once *)
Definition shape (m : mm) (s : state) : Prop :=
  forall a f,
    (f_many (fd m f) = false -> exists v, vals s (a, f) = [v]) /\
    (f_opp (fd m f) <> None -> nodup_objs (vals s (a, f))).

(* well-formed Ecore: eOpposite is an involution between references; a
   multi-valued end of a bidirectional reference is unique *)
Definition wf_opp (m : mm) : Prop :=
  forall f g, f_opp (fd m f) = Some g ->
    f_opp (fd m g) = Some f /\ f_isref (fd m f) = true /\
    (f_many (fd m f) = true -> f_unique (fd m f) = true).

Definition no_containment (m : mm) : Prop := forall f, f_cont (fd m f) = false.

(* ---- symmetry is decided on the cells that changed ---- *)
Lemma sym_by_cells m s s' (D : list cell) :
  wf_opp m -> sym m s ->
  (forall k, ~ In k D -> vals s' k = vals s k) ->
  (forall a f g, In (a, f) D -> f_opp (fd m f) = Some g -> forall b, R s' f a b <-> R s' g b a) ->
  sym m s'.
Proof.
  intros Hwf Hsym Hframe Hd f g Hfg a b.
  destruct (in_dec (fun k k' => sumbool_of_bool_cell k k') (a, f) D) as [Hi|Hn].
  - exact (Hd a f g Hi Hfg b).
  - destruct (in_dec (fun k k' => sumbool_of_bool_cell k k') (b, g) D) as [Hi2|Hn2].
    + destruct (Hwf f g Hfg) as [Hgf _]. symmetry. exact (Hd b g f Hi2 Hgf a).
    + unfold R. rewrite (Hframe _ Hn), (Hframe _ Hn2). exact (Hsym f g Hfg a b).
Qed.

(* ---- effect of the primitives on the value store, without containment ---- *)
Section NoCont.
Variable m : mm.
Hypothesis Hnc : no_containment m.

Lemma uc_clear_id s f p : uc_clear m s f p = s.
Proof. unfold uc_clear. rewrite Hnc. reflexivity. Qed.

Lemma update_container_id s x f v p : update_container m s x f v p = s.
Proof. unfold update_container. rewrite Hnc. reflexivity. Qed.

Lemma vals_set_store s k v : vals (set_store m s k v) = upd (vals s) k [v].
Proof. reflexivity. Qed.

Lemma vals_set_none_raw s k : vals (set_none_raw m s k) = upd (vals s) k [VNone].
Proof.
  unfold set_none_raw. destruct (f_isref (fd m (snd k))); [rewrite uc_clear_id|]; reflexivity.
Qed.

Lemma vals_set_obj_raw s k x : vals (set_obj_raw m s k x) = upd (vals s) k [VObj x].
Proof.
  unfold set_obj_raw. destruct (f_isref (fd m (snd k))); [rewrite update_container_id|]; reflexivity.
Qed.

Lemma vals_coll_remove_raw s k x :
  vals (coll_remove_raw m s k x) =
  if vmem (VObj x) (vals s k) then upd (vals s) k (raw_remove (VObj x) (vals s k)) else vals s.
Proof.
  unfold coll_remove_raw. destruct (vmem (VObj x) (vals s k)); [|reflexivity].
  rewrite uc_clear_id. reflexivity.
Qed.

Lemma vals_coll_append_raw s k x :
  vals (coll_append_raw m s k x) =
  upd (vals s) k (raw_append (f_unique (fd m (snd k))) (VObj x) (vals s k)).
Proof. unfold coll_append_raw. rewrite update_container_id. reflexivity. Qed.

End NoCont.

Lemma R_single m s a f b :
  shape m s -> f_many (fd m f) = false -> (R s f a b <-> single s (a, f) = VObj b).
Proof.
  intros Hsh Hs. destruct (proj1 (Hsh a f) Hs) as [v Hv]. unfold R, single. rewrite Hv. simpl.
  split; [intros [H|[]]; exact H | intros H; left; exact H].
Qed.

Lemma obj_of_Some v q : obj_of v = Some q <-> v = VObj q.
Proof. destruct v; simpl; split; intros H; try discriminate; congruence. Qed.

Lemma obj_of_None_notin v b : obj_of v = None -> v <> VObj b.
Proof. destruct v; simpl; intros H; congruence. Qed.

(* ---- unset: x.f = None, for a single-valued f with opposite g of any multiplicity ---- *)
Section Unset.
Variable m : mm.
Hypothesis Hnc : no_containment m.
Hypothesis Hwf : wf_opp m.

Lemma unset_vals s x f g :
  shape m s ->
  f_opp (fd m f) = Some g -> f_many (fd m f) = false ->
  vals (snd (set_full m s (x, f) VNone)) =
    let V1 := upd (vals s) (x, f) [VNone] in
    match obj_of (single s (x, f)) with
    | Some q =>
      if f_many (fd m g) then
        (if vmem (VObj x) (V1 (q, g)) then upd V1 (q, g) (raw_remove (VObj x) (V1 (q, g))) else V1)
      else if cell_eqb (q, g) (x, f) then V1 else upd V1 (q, g) [VNone]
    | None => V1
    end.
Proof.
  intros Hsh Hfg Hsingle. destruct (Hwf f g Hfg) as [Hgf [Href _]].
  unfold set_full. cbn [check_single conforms negb]. rewrite Href. cbn [negb].
  rewrite (update_container_id m Hnc). rewrite Hfg. cbn [obj_of snd].
  destruct (obj_of (single s (x, f))) as [q|]; [|reflexivity].
  destruct (f_many (fd m g)).
  - rewrite (vals_coll_remove_raw m Hnc). reflexivity.
  - destruct (cell_eqb (q, g) (x, f)); [reflexivity|].
    rewrite (vals_set_none_raw m Hnc). reflexivity.
Qed.

Theorem unset_preserves_sym s x f g :
  sym m s -> shape m s ->
  f_opp (fd m f) = Some g -> f_many (fd m f) = false ->
  sym m (snd (set_full m s (x, f) VNone)).
Proof.
  intros Hsym Hsh Hfg Hsingle. destruct (Hwf f g Hfg) as [Hgf [Href _]].
  pose proof (unset_vals s x f g Hsh Hfg Hsingle) as HV.
  set (s' := snd (set_full m s (x, f) VNone)) in *.
  destruct (proj1 (Hsh x f) Hsingle) as [pv Hpv].
  assert (Hsg : single s (x, f) = pv) by (unfold single; rewrite Hpv; reflexivity).
  rewrite Hsg in HV. cbv zeta in HV.
  destruct (obj_of pv) as [q|] eqn:Eq.
  - apply obj_of_Some in Eq. subst pv.
    (* x -f-> q, hence q -g-> x *)
    assert (Hqx : R s g q x). { apply (Hsym f g Hfg x q). unfold R. rewrite Hpv. left; reflexivity. }
    destruct (f_many (fd m g)) eqn:Hmg.
    + (* the opposite end is a collection: x is removed from it *)
      assert (Hne : (q, g) <> (x, f)).
      { intros E. inversion E; subst. congruence. }
      rewrite (upd_other _ _ _ _ (fun E => Hne (eq_sym E))) in HV.
      pose proof Hqx as Hmem. unfold R in Hmem. apply vmem_obj in Hmem. rewrite Hmem in HV.
      assert (Hnd : nodup_objs (vals s (q, g))) by (apply (proj2 (Hsh q g)); congruence).
      destruct (raw_remove_obj_In x (vals s (q, g)) Hnd Hqx) as [Hrm _].
      apply (sym_by_cells m s s' [(x, f); (q, g)] Hwf Hsym).
      * intros k Hk. rewrite HV. rewrite !upd_other; [reflexivity | |];
          intros E; apply Hk; subst k; simpl; tauto.
      * intros a f' g' Hin Hfg' b. unfold R. rewrite !HV.
        destruct Hin as [E|[E|[]]]; inversion E; subst a f'; clear E.
        -- rewrite Hfg in Hfg'. inversion Hfg'; subst g'.
           rewrite (upd_other _ (q, g) (x, f)) by exact Hne. rewrite upd_same.
           split; [intros [H|[]]; discriminate|].
           destruct (cell_eqb_spec (q, g) (b, g)) as [E|N].
           ++ inversion E; subst b. rewrite upd_same. intros H. apply Hrm in H. tauto.
           ++ rewrite upd_other by exact N.
              destruct (cell_eqb_spec (x, f) (b, g)) as [E2|N2].
              ** rewrite <- E2, upd_same. intros [H|[]]; discriminate.
              ** rewrite upd_other by exact N2. intros H.
                 (* b -g-> x in s, so x -f-> b, so b = q *)
                 apply (Hsym g f Hgf b x) in H. unfold R in H. rewrite Hpv in H.
                 destruct H as [H|[]]. inversion H; subst b. exfalso; apply N; reflexivity.
        -- rewrite Hgf in Hfg'. inversion Hfg'; subst g'. rewrite upd_same.
           split.
           ++ intros H. apply Hrm in H. destruct H as [Hb Hbx].
              destruct (cell_eqb_spec (q, g) (b, f)) as [E|N].
              ** exfalso. inversion E; subst. congruence.
              ** rewrite upd_other by exact N.
                 rewrite upd_other by (intros E; inversion E; congruence).
                 apply (Hsym g f Hgf q b). exact Hb.
           ++ destruct (cell_eqb_spec (q, g) (b, f)) as [E|N].
              ** exfalso. inversion E; subst. congruence.
              ** rewrite upd_other by exact N.
                 destruct (cell_eqb_spec (x, f) (b, f)) as [E2|N2].
                 --- inversion E2; subst b. rewrite upd_same. intros [H|[]]; discriminate.
                 --- rewrite upd_other by exact N2. intros H. apply Hrm. split.
                     +++ apply (Hsym f g Hfg b q). exact H.
                     +++ intros ->. apply N2; reflexivity.
    + (* the opposite end is single-valued: it is unset, unless it is this very slot *)
      assert (Hqg : vals s (q, g) = [VObj x]).
      { destruct (proj1 (Hsh q g) Hmg) as [w Hw]. unfold R in Hqx. rewrite Hw in Hqx.
        destruct Hqx as [H|[]]. congruence. }
      destruct (cell_eqb_spec (q, g) (x, f)) as [E|Hne].
      * inversion E; subst q g. clear E.
        apply (sym_by_cells m s s' [(x, f)] Hwf Hsym).
        -- intros k Hk. rewrite HV. apply upd_other. intros E; apply Hk; subst k; simpl; tauto.
        -- intros a f' g' Hin Hfg' b. unfold R. rewrite !HV.
           destruct Hin as [E|[]]; inversion E; subst a f'; clear E.
           rewrite Hfg in Hfg'. inversion Hfg'; subst g'. rewrite upd_same.
           split; [intros [H|[]]; discriminate|].
           destruct (cell_eqb_spec (x, f) (b, f)) as [E2|N2].
           ++ rewrite <- E2, upd_same. intros [H|[]]; discriminate.
           ++ rewrite upd_other by exact N2. intros H.
              apply (Hsym f f Hfg b x) in H. unfold R in H. rewrite Hpv in H.
              destruct H as [H|[]]. inversion H; subst b. exfalso; apply N2; reflexivity.
      * apply (sym_by_cells m s s' [(x, f); (q, g)] Hwf Hsym).
        -- intros k Hk. rewrite HV. rewrite !upd_other; [reflexivity | |];
             intros E; apply Hk; subst k; simpl; tauto.
        -- intros a f' g' Hin Hfg' b. unfold R. rewrite !HV.
           destruct Hin as [E|[E|[]]]; inversion E; subst a f'; clear E.
           ++ rewrite Hfg in Hfg'. inversion Hfg'; subst g'.
              rewrite (upd_other _ (q, g) (x, f)) by exact Hne. rewrite upd_same.
              split; [intros [H|[]]; discriminate|].
              destruct (cell_eqb_spec (q, g) (b, g)) as [E|N].
              ** rewrite <- E, upd_same. intros [H|[]]; discriminate.
              ** rewrite upd_other by exact N.
                 destruct (cell_eqb_spec (x, f) (b, g)) as [E2|N2].
                 --- rewrite <- E2, upd_same. intros [H|[]]; discriminate.
                 --- rewrite upd_other by exact N2. intros H.
                     apply (Hsym g f Hgf b x) in H. unfold R in H. rewrite Hpv in H.
                     destruct H as [H|[]]. inversion H; subst b. exfalso; apply N; reflexivity.
           ++ rewrite Hgf in Hfg'. inversion Hfg'; subst g'. rewrite upd_same.
              split; [intros [H|[]]; discriminate|].
              destruct (cell_eqb_spec (q, g) (b, f)) as [E|N].
              ** rewrite <- E, upd_same. intros [H|[]]; discriminate.
              ** rewrite upd_other by exact N.
                 destruct (cell_eqb_spec (x, f) (b, f)) as [E2|N2].
                 --- rewrite <- E2, upd_same. intros [H|[]]; discriminate.
                 --- rewrite upd_other by exact N2. intros H.
                     apply (Hsym f g Hfg b q) in H. unfold R in H. rewrite Hqg in H.
                     destruct H as [H|[]]. inversion H; subst b. exfalso; apply N2; reflexivity.
  - (* the slot held no object: only the slot itself changes *)
    apply (sym_by_cells m s s' [(x, f)] Hwf Hsym).
    + intros k Hk. rewrite HV. apply upd_other. intros E; apply Hk; subst k; simpl; tauto.
    + intros a f' g' Hin Hfg' b. unfold R. rewrite !HV.
      destruct Hin as [E|[]]; inversion E; subst a f'; clear E.
      rewrite Hfg in Hfg'. inversion Hfg'; subst g'. rewrite upd_same.
      split; [intros [H|[]]; discriminate|].
      destruct (cell_eqb_spec (x, f) (b, g)) as [E2|N2].
      * rewrite <- E2, upd_same. intros [H|[]]; discriminate.
      * rewrite upd_other by exact N2. intros H.
        apply (Hsym g f Hgf b x) in H. unfold R in H. rewrite Hpv in H.
        destruct H as [H|[]]. apply (obj_of_None_notin pv b) in Eq. congruence.
Qed.
End Unset.

Lemma sym_ext m s s' : (forall k, vals s' k = vals s k) -> sym m s -> sym m s'.
Proof. intros E H f g Hfg a b. unfold R. rewrite !E. exact (H f g Hfg a b). Qed.

Lemma shape_ext m s s' : (forall k, vals s' k = vals s k) -> shape m s -> shape m s'.
Proof. intros E H a f. rewrite E. exact (H a f). Qed.

(* ---- remove: x.f.remove(y) for a many-valued f with opposite g ---- *)
Section Remove.
Variable m : mm.
Hypothesis Hnc : no_containment m.
Hypothesis Hwf : wf_opp m.

Lemma remove_vals s x f g y :
  f_opp (fd m f) = Some g -> f_isref (fd m f) = true ->
  vals (coll_remove_full m s (x, f) (VObj y)) =
    let V1 :=
      if f_many (fd m g) then
        (if cell_eqb (y, g) (x, f) then vals s
         else if vmem (VObj x) (vals s (y, g)) then upd (vals s) (y, g) (raw_remove (VObj x) (vals s (y, g)))
         else vals s)
      else upd (vals s) (y, g) [VNone] in
    upd V1 (x, f) (raw_remove (VObj y) (V1 (x, f))).
Proof.
  intros Hfg Href. unfold coll_remove_full. rewrite Href. cbn [obj_of].
  rewrite (uc_clear_id m Hnc). unfold update_opposite_remove. rewrite Hfg.
  destruct (f_many (fd m g)).
  - destruct (cell_eqb (y, g) (x, f)); [reflexivity|].
    cbn [vals notify push_log set_vals]. rewrite (vals_coll_remove_raw m Hnc).
    destruct (vmem (VObj x) (vals s (y, g))); reflexivity.
  - cbn [vals notify push_log set_vals]. rewrite (vals_set_none_raw m Hnc). reflexivity.
Qed.

(* opposite end single-valued: the same store as unsetting that end *)
Lemma remove_is_unset_of_opposite s x f g y :
  shape m s -> sym m s ->
  f_opp (fd m f) = Some g -> f_many (fd m f) = true -> f_many (fd m g) = false ->
  R s f x y ->
  forall k, vals (coll_remove_full m s (x, f) (VObj y)) k = vals (snd (set_full m s (y, g) VNone)) k.
Proof.
  intros Hsh Hsym Hfg Hmf Hmg Hxy k. destruct (Hwf f g Hfg) as [Hgf [Href _]].
  rewrite (remove_vals s x f g y Hfg Href). rewrite Hmg.
  rewrite (unset_vals m Hnc Hwf s y g f Hsh Hgf Hmg).
  assert (Hyx : R s g y x) by (apply (Hsym f g Hfg x y); exact Hxy).
  assert (Hyg : single s (y, g) = VObj x).
  { apply (R_single m s y g x Hsh Hmg). exact Hyx. }
  rewrite Hyg. cbn [obj_of]. rewrite Hmf. cbv zeta.
  assert (Hne : (y, g) <> (x, f)) by (intros E; inversion E; subst; congruence).
  rewrite (upd_other _ (y, g) (x, f)) by exact Hne.
  pose proof Hxy as Hmem. unfold R in Hmem. apply vmem_obj in Hmem. rewrite Hmem. reflexivity.
Qed.

Theorem remove_preserves_sym s x f g y :
  sym m s -> shape m s ->
  f_opp (fd m f) = Some g -> f_many (fd m f) = true -> R s f x y ->
  sym m (coll_remove_full m s (x, f) (VObj y)).
Proof.
  intros Hsym Hsh Hfg Hmf Hxy. destruct (Hwf f g Hfg) as [Hgf [Href _]].
  destruct (f_many (fd m g)) eqn:Hmg.
  2:{ apply (sym_ext m (snd (set_full m s (y, g) VNone))).
      - exact (remove_is_unset_of_opposite s x f g y Hsh Hsym Hfg Hmf Hmg Hxy).
      - apply (unset_preserves_sym m Hnc Hwf s y g f Hsym Hsh Hgf Hmg). }
  pose proof (remove_vals s x f g y Hfg Href) as HV. rewrite Hmg in HV. cbv zeta in HV.
  set (s' := coll_remove_full m s (x, f) (VObj y)) in *.
  assert (Hyx : R s g y x) by (apply (Hsym f g Hfg x y); exact Hxy).
  assert (Hndx : nodup_objs (vals s (x, f))) by (apply (proj2 (Hsh x f)); congruence).
  assert (Hndy : nodup_objs (vals s (y, g))) by (apply (proj2 (Hsh y g)); congruence).
  destruct (raw_remove_obj_In y (vals s (x, f)) Hndx Hxy) as [Hrx _].
  destruct (raw_remove_obj_In x (vals s (y, g)) Hndy Hyx) as [Hry _].
  destruct (cell_eqb_spec (y, g) (x, f)) as [E|Hne].
  - (* self-opposite collection holding its own owner *)
    inversion E; subst y g. clear E.
    apply (sym_by_cells m s s' [(x, f)] Hwf Hsym).
    + intros k Hk. rewrite HV. apply upd_other. intros E; apply Hk; subst k; simpl; tauto.
    + intros a f' g' Hin Hfg' b. unfold R. rewrite !HV.
      destruct Hin as [E|[]]; inversion E; subst a f'; clear E.
      rewrite Hfg in Hfg'. inversion Hfg'; subst g'. rewrite upd_same.
      destruct (cell_eqb_spec (x, f) (b, f)) as [E2|N2].
      * inversion E2; subst b. rewrite upd_same. tauto.
      * rewrite upd_other by exact N2. rewrite Hrx.
        split.
        -- intros [Hb _]. apply (Hsym f f Hfg x b). exact Hb.
        -- intros Hb. split; [apply (Hsym f f Hfg b x); exact Hb|].
           intros ->. apply N2; reflexivity.
  - pose proof Hyx as Hmem. unfold R in Hmem. apply vmem_obj in Hmem. rewrite Hmem in HV.
    rewrite (upd_other _ (y, g) (x, f)) in HV by exact Hne.
    apply (sym_by_cells m s s' [(x, f); (y, g)] Hwf Hsym).
    + intros k Hk. rewrite HV. rewrite !upd_other; [reflexivity | |];
        intros E; apply Hk; subst k; simpl; tauto.
    + intros a f' g' Hin Hfg' b. unfold R. rewrite !HV.
      destruct Hin as [E|[E|[]]]; inversion E; subst a f'; clear E.
      * rewrite Hfg in Hfg'. inversion Hfg'; subst g'. rewrite upd_same. rewrite Hrx.
        destruct (cell_eqb_spec (x, f) (b, g)) as [E2|N2].
        -- (* f = g and b = x *)
           inversion E2; subst b g. rewrite upd_same. rewrite Hrx. tauto.
        -- rewrite upd_other by exact N2.
           destruct (cell_eqb_spec (y, g) (b, g)) as [E3|N3].
           ++ inversion E3; subst b. rewrite upd_same. rewrite Hry. split; [tauto|].
              intros [_ Hxx]. exfalso. apply Hxx; reflexivity.
           ++ rewrite upd_other by exact N3. split.
              ** intros [Hb _]. apply (Hsym f g Hfg x b). exact Hb.
              ** intros Hb. split; [apply (Hsym f g Hfg x b); exact Hb|].
                 intros ->. apply N3; reflexivity.
      * rewrite Hgf in Hfg'. inversion Hfg'; subst g'.
        rewrite (upd_other _ (x, f) (y, g)) by (intros E; apply Hne; symmetry; exact E).
        rewrite upd_same. rewrite Hry.
        destruct (cell_eqb_spec (x, f) (b, f)) as [E2|N2].
        -- inversion E2; subst b. rewrite upd_same. rewrite Hrx. split; [|tauto].
           intros [_ Hxx]. exfalso. apply Hxx; reflexivity.
        -- rewrite upd_other by exact N2.
           destruct (cell_eqb_spec (y, g) (b, f)) as [E3|N3].
           ++ inversion E3; subst b g. rewrite upd_same. rewrite Hry. tauto.
           ++ rewrite upd_other by exact N3. split.
              ** intros [Hb _]. apply (Hsym g f Hgf y b). exact Hb.
              ** intros Hb. split; [apply (Hsym g f Hgf y b); exact Hb|].
                 intros ->. apply N2; reflexivity.
Qed.
End Remove.

(* ---- re-pointing a 1-1 reference: x.f = y with partner release and stealing ---- *)
Ltac upd_cases :=
  repeat match goal with
  | |- context [upd _ ?k _ ?k'] =>
      let E := fresh "E" in let N := fresh "N" in
      destruct (cell_eqb_spec k k') as [E|N];
      [ inversion E; subst; clear E; rewrite ?upd_same | rewrite (upd_other _ k k' _ N) ]
  end.

Definition hdv (l : list value) : value := match l with v :: _ => v | [] => VNone end.

Section Store11.
Variable V : cell -> list value.
Variables x y : oid.
Variables f g : fid.
Hypothesis Hfg : f <> g.
Hypothesis HsymV : forall a b : oid, hdv (V (a, f)) = VObj b <-> hdv (V (b, g)) = VObj a.

(* the final store of x.f = y for single-valued f and g: own slot, released
   previous partner (pq), detached previous partner of y (pc), new back-reference *)
Definition F11 (pq pc : option oid) : cell -> list value :=
  let V1 := upd V (x, f) [VObj y] in
  let V3 := match pq with Some q => upd V1 (q, g) [VNone] | None => V1 end in
  let V4 := match pc with Some c => upd V3 (c, f) [VNone] | None => V3 end in
  upd V4 (y, g) [VObj x].

Lemma set11_store pq pc :
  (match pq with Some q => hdv (V (x, f)) = VObj q /\ q <> y
               | None => (forall q, hdv (V (x, f)) = VObj q -> q = y) end) ->
  (match pc with Some c => hdv (V (y, g)) = VObj c /\ c <> x
               | None => (forall c, hdv (V (y, g)) = VObj c -> c = x) end) ->
  forall a b : oid, hdv (F11 pq pc (a, f)) = VObj b <-> hdv (F11 pq pc (b, g)) = VObj a.
Proof.
  intros Hq Hc a b. unfold F11.
  pose proof (HsymV a b) as S1. pose proof (HsymV x y) as S2. pose proof (HsymV a y) as S4. pose proof (HsymV x b) as S5.
  destruct pq as [q|]; destruct pc as [c|]; cbv zeta.
  - destruct Hq as [Hq Hqy]. destruct Hc as [Hc Hcx].
    pose proof (HsymV x q) as T1. pose proof (HsymV c y) as T2. pose proof (HsymV c b) as T3. pose proof (HsymV a q) as T4.
    assert (U1 : hdv (V (b, g)) = VObj x -> b = q).
    { intros H. apply (proj2 (HsymV x b)) in H. rewrite Hq in H. inversion H. reflexivity. }
    assert (U2 : hdv (V (a, f)) = VObj y -> a = c).
    { intros H. apply (proj1 (HsymV a y)) in H. rewrite Hc in H. inversion H. reflexivity. }
    assert (U3 : hdv (V (b, g)) = VObj c -> b = y).
    { intros H. apply (proj2 (HsymV c b)) in H. pose proof (proj2 (HsymV c y) Hc) as Hc'. rewrite Hc' in H. inversion H. reflexivity. }
    assert (U4 : hdv (V (a, f)) = VObj q -> a = x).
    { intros H. apply (proj1 (HsymV a q)) in H. pose proof (proj1 (HsymV x q) Hq) as Hq'. rewrite Hq' in H. inversion H. reflexivity. }
    upd_cases; cbn [hdv] in *; try solve [intuition congruence | timeout 20 firstorder congruence].
  - destruct Hq as [Hq Hqy].
    pose proof (HsymV x q) as T1. pose proof (HsymV a q) as T4. pose proof (Hc a) as T5. pose proof (Hc x) as T6.
    upd_cases; cbn [hdv] in *; try solve [intuition congruence | timeout 20 firstorder congruence].
  - destruct Hc as [Hc Hcx].
    pose proof (HsymV c y) as T2. pose proof (HsymV c b) as T3. pose proof (Hq b) as T5. pose proof (Hq y) as T6.
    upd_cases; cbn [hdv] in *; try solve [intuition congruence | timeout 20 firstorder congruence].
  - pose proof (Hc a) as T5. pose proof (Hc x) as T6. pose proof (Hq b) as T7. pose proof (Hq y) as T8.
    upd_cases; cbn [hdv] in *; try solve [intuition congruence | timeout 20 firstorder congruence].
Qed.

(* F11 only writes f- and g-slots, and each written slot holds one value *)
Lemma F11_other pq pc (a : oid) (h : fid) : h <> f -> h <> g -> F11 pq pc (a, h) = V (a, h).
Proof.
  intros Hf Hg. unfold F11. destruct pq, pc; cbv zeta; repeat rewrite upd_other; try reflexivity;
    intros E; inversion E; congruence.
Qed.

Lemma F11_singleton pq pc (a : oid) (h : fid) :
  (exists v, V (a, h) = [v]) -> exists v, F11 pq pc (a, h) = [v].
Proof.
  intros HV. unfold F11. destruct pq, pc; cbv zeta; upd_cases; eauto.
Qed.
End Store11.

Section Set11.
Variable m : mm.
Hypothesis Hnc : no_containment m.
Hypothesis Hwf : wf_opp m.

Lemma single_hdv s k : single s k = hdv (vals s k).
Proof. reflexivity. Qed.

Lemma R_hdv s a f b :
  (exists v, vals s (a, f) = [v]) -> (R s f a b <-> hdv (vals s (a, f)) = VObj b).
Proof.
  intros [v Hv]. unfold R. rewrite Hv. simpl. split; [intros [H|[]]; exact H | intros H; left; exact H].
Qed.

(* the value store after x.f = y, for single-valued f and g with f <> g *)
Lemma set11_vals s x f g y :
  f_opp (fd m f) = Some g -> f <> g ->
  f_many (fd m f) = false -> f_many (fd m g) = false ->
  check_single m f (VObj y) = true ->
  exists pq pc,
    (forall k, vals (snd (set_full m s (x, f) (VObj y))) k = F11 (vals s) x y f g pq pc k) /\
    (match pq with Some q => hdv (vals s (x, f)) = VObj q /\ q <> y
                 | None => (forall q, hdv (vals s (x, f)) = VObj q -> q = y) end) /\
    (match pc with Some c => hdv (vals s (y, g)) = VObj c /\ c <> x
                 | None => (forall c, hdv (vals s (y, g)) = VObj c -> c = x) end).
Proof.
  intros Hfg Hne Hsf Hsg Hchk. destruct (Hwf f g Hfg) as [Hgf [Href _]].
  unfold set_full. rewrite Hchk, Href. cbn [negb]. rewrite (update_container_id m Hnc). rewrite Hfg.
  cbn [obj_of]. rewrite Hsg.
  assert (Hcell : forall q, cell_eqb (q, g) (x, f) = false).
  { intros q. destruct (cell_eqb_spec (q, g) (x, f)) as [E|N]; [inversion E; congruence | reflexivity]. }
  set (pv := single s (x, f)).
  set (s1 := set_store m s (x, f) (VObj y)).
  (* release of the previous partner *)
  set (s3 := match obj_of pv with
             | Some q => if y =? q then s1 else if cell_eqb (q, g) (x, f) then s1 else set_none_raw m s1 (q, g)
             | None => s1 end).
  set (pq := match obj_of pv with Some q => if y =? q then None else Some q | None => None end).
  assert (H3 : forall k, vals s3 k =
            match pq with Some q => upd (upd (vals s) (x, f) [VObj y]) (q, g) [VNone]
                        | None => upd (vals s) (x, f) [VObj y] end k).
  { intros k. unfold s3, pq. destruct (obj_of pv) as [q|]; [|reflexivity].
    destruct (y =? q); [reflexivity|]. rewrite Hcell. rewrite (vals_set_none_raw m Hnc). reflexivity. }
  assert (Hpq : match pq with Some q => hdv (vals s (x, f)) = VObj q /\ q <> y
                            | None => (forall q, hdv (vals s (x, f)) = VObj q -> q = y) end).
  { unfold pq. destruct (obj_of pv) as [q|] eqn:Eq.
    - apply obj_of_Some' in Eq. destruct (Nat.eqb_spec y q) as [E|N].
      + intros q' Hq'. unfold pv in Eq. rewrite single_hdv in Eq. congruence.
      + split; [unfold pv in Eq; rewrite single_hdv in Eq; exact Eq | congruence].
    - intros q' Hq'. unfold pv in Eq. rewrite single_hdv in Eq. rewrite Hq' in Eq. discriminate. }
  (* the current partner of y is read in s3: its g-slot is untouched so far *)
  assert (Hyg : single s3 (y, g) = hdv (vals s (y, g))).
  { rewrite single_hdv, H3. destruct pq as [q|].
    - destruct Hpq as [_ Hqy]. rewrite upd_other by (intros E; inversion E; congruence).
      rewrite upd_other by (intros E; inversion E; congruence). reflexivity.
    - rewrite upd_other by (intros E; inversion E; congruence). reflexivity. }
  set (pc := match obj_of (hdv (vals s (y, g))) with Some c => if c =? x then None else Some c | None => None end).
  exists pq, pc. split; [|split; [exact Hpq|]].
  - assert (UE : forall (g1 g2 : cell -> list value) c0 v0,
               (forall k0, g1 k0 = g2 k0) -> forall k0, upd g1 c0 v0 k0 = upd g2 c0 v0 k0).
    { intros g1 g2 c0 v0 E k0. unfold upd. destruct (cell_eqb c0 k0); [reflexivity | apply E]. }
    assert (H3' : forall k0, vals s3 k0 =
              match pq with Some q => upd (upd (vals s) (x, f) [VObj y]) (q, g) [VNone] k0
                          | None => upd (vals s) (x, f) [VObj y] k0 end).
    { intros k0. rewrite H3. destruct pq; reflexivity. }
    intros k. fold s1. fold pv. fold s3. rewrite Hyg. unfold pc, F11. cbv zeta.
    destruct (obj_of (hdv (vals s (y, g)))) as [c|].
    + destruct (c =? x); cbn [snd].
      * rewrite (vals_set_obj_raw m Hnc). apply UE. intros k0. rewrite H3'. destruct pq; reflexivity.
      * rewrite (vals_set_obj_raw m Hnc). apply UE. intros k0.
        rewrite (vals_set_none_raw m Hnc). apply UE. intros k1. rewrite H3'. destruct pq; reflexivity.
    + cbn [snd]. rewrite (vals_set_obj_raw m Hnc). apply UE. intros k0. rewrite H3'. destruct pq; reflexivity.
  - unfold pc. destruct (obj_of (hdv (vals s (y, g)))) as [c|] eqn:Ec.
    + apply obj_of_Some' in Ec. destruct (Nat.eqb_spec c x) as [E|N].
      * intros c' Hc'. congruence.
      * split; [exact Ec | exact N].
    + intros c' Hc'. rewrite Hc' in Ec. discriminate.
Qed.

Theorem set11_preserves_sym s x f g y :
  sym m s -> shape m s ->
  f_opp (fd m f) = Some g -> f <> g ->
  f_many (fd m f) = false -> f_many (fd m g) = false ->
  check_single m f (VObj y) = true ->
  sym m (snd (set_full m s (x, f) (VObj y))).
Proof.
  intros Hsym Hsh Hfg Hne Hsf Hsg Hchk. destruct (Hwf f g Hfg) as [Hgf _].
  destruct (set11_vals s x f g y Hfg Hne Hsf Hsg Hchk) as [pq [pc [HV [Hpq Hpc]]]].
  set (s' := snd (set_full m s (x, f) (VObj y))) in *.
  assert (HsymV : forall a b : oid, hdv (vals s (a, f)) = VObj b <-> hdv (vals s (b, g)) = VObj a).
  { intros a b. rewrite <- (R_hdv s a f b) by (apply (proj1 (Hsh a f)); exact Hsf).
    rewrite <- (R_hdv s b g a) by (apply (proj1 (Hsh b g)); exact Hsg). apply Hsym. exact Hfg. }
  pose proof (set11_store (vals s) x y f g Hne HsymV pq pc Hpq Hpc) as Hfin.
  assert (Hsing : forall a h, f_many (fd m h) = false -> exists v, vals s' (a, h) = [v]).
  { intros a h Hh. rewrite HV. apply (F11_singleton (vals s) x y f g Hne HsymV). apply (proj1 (Hsh a h)). exact Hh. }
  intros f' g' Hfg' a b.
  destruct (Nat.eq_dec f' f) as [Ef|Nf].
  - subst f'. rewrite Hfg in Hfg'. inversion Hfg'; subst g'.
    rewrite (R_hdv s' a f b) by (apply Hsing; exact Hsf).
    rewrite (R_hdv s' b g a) by (apply Hsing; exact Hsg).
    rewrite !HV. apply Hfin.
  - destruct (Nat.eq_dec f' g) as [Eg|Ng].
    + subst f'. rewrite Hgf in Hfg'. inversion Hfg'; subst g'.
      rewrite (R_hdv s' a g b) by (apply Hsing; exact Hsg).
      rewrite (R_hdv s' b f a) by (apply Hsing; exact Hsf).
      rewrite !HV. symmetry. apply Hfin.
    + (* an unrelated pair: neither f' nor g' is f or g *)
      assert (Ng' : g' <> f /\ g' <> g).
      { destruct (Hwf f' g' Hfg') as [Hg'f' _]. split; intros E; subst g'; congruence. }
      unfold R. rewrite !HV. rewrite (F11_other (vals s) x y f g pq pc a f' Nf Ng).
      rewrite (F11_other (vals s) x y f g pq pc b g' (proj1 Ng') (proj2 Ng')).
      exact (Hsym f' g' Hfg' a b).
Qed.
End Set11.

(* ---- symmetric change of the two edge relations of a pair (f, g) ---- *)
Lemma sym_by_delta m s s' f g
      (Dl Ad : oid -> oid -> Prop) :
  wf_opp m -> sym m s -> f_opp (fd m f) = Some g -> f <> g ->
  (forall a b, R s' f a b <-> (R s f a b /\ ~ Dl a b) \/ Ad a b) ->
  (forall a b, R s' g b a <-> (R s g b a /\ ~ Dl a b) \/ Ad a b) ->
  (forall h a, h <> f -> h <> g -> vals s' (a, h) = vals s (a, h)) ->
  sym m s'.
Proof.
  intros Hwf Hsym Hfg Hne Hf Hg Hother f' g' Hfg' a b.
  destruct (Hwf f g Hfg) as [Hgf _].
  destruct (Nat.eq_dec f' f) as [Ef|Nf].
  - subst f'. rewrite Hfg in Hfg'. inversion Hfg'; subst g'.
    rewrite Hf, Hg. rewrite (Hsym f g Hfg a b). tauto.
  - destruct (Nat.eq_dec f' g) as [Eg|Ng].
    + subst f'. rewrite Hgf in Hfg'. inversion Hfg'; subst g'.
      rewrite Hf, Hg. rewrite (Hsym f g Hfg b a). tauto.
    + assert (Ng' : g' <> f /\ g' <> g).
      { destruct (Hwf f' g' Hfg') as [Hg'f' _]. split; intros E; subst g'; congruence. }
      unfold R. rewrite (Hother f' a Nf Ng), (Hother g' b (proj1 Ng') (proj2 Ng')).
      exact (Hsym f' g' Hfg' a b).
Qed.

Lemma In_raw_insert_obj x b i l :
  In (VObj b) (raw_insert true i (VObj x) l) <-> In (VObj b) l \/ b = x.
Proof.
  unfold raw_insert. simpl. destruct (vmem (VObj x) l) eqn:E.
  - apply vmem_obj in E. split; [tauto|]. intros [H|H]; [assumption | subst b; assumption].
  - unfold py_insert. rewrite insert_at_In. split.
    + intros [H|H]; [right; congruence | tauto].
    + intros [H|H]; [tauto | left; congruence].
Qed.

(* ---- appending / inserting into an n-n reference: x.f.append(y), both ends many-valued ---- *)
Section AddNN.
Variable m : mm.
Hypothesis Hnc : no_containment m.
Hypothesis Hwf : wf_opp m.

Theorem add_nn_preserves_sym s x f g pos y :
  sym m s ->
  f_opp (fd m f) = Some g -> f <> g ->
  f_many (fd m f) = true -> f_many (fd m g) = true ->
  check_elem m f (VObj y) = true ->
  sym m (snd (coll_add_full m s (x, f) pos (VObj y))).
Proof.
  intros Hsym Hfg Hne Hmf Hmg Hchk.
  destruct (Hwf f g Hfg) as [Hgf [Href Huf]]. destruct (Hwf g f Hgf) as [_ [_ Hug]].
  specialize (Huf Hmf). specialize (Hug Hmg).
  assert (HV : forall k, vals (snd (coll_add_full m s (x, f) pos (VObj y))) k =
     let V1 := upd (vals s) (y, g) (raw_append true (VObj x) (vals s (y, g))) in
     upd V1 (x, f) (match pos with Some i => raw_insert true i (VObj y) (V1 (x, f))
                                 | None => raw_append true (VObj y) (V1 (x, f)) end) k).
  { intros k. unfold coll_add_full. rewrite Hchk. cbn [negb snd]. unfold link_elem. rewrite Href. cbn [obj_of].
    rewrite (update_container_id m Hnc). unfold update_opposite_add. rewrite Hfg, Hmg.
    assert (Hc : cell_eqb (y, g) (x, f) = false).
    { destruct (cell_eqb_spec (y, g) (x, f)) as [E|N]; [inversion E; congruence | reflexivity]. }
    rewrite Hc. cbn [vals set_isset notify push_log set_vals].
    rewrite (vals_coll_append_raw m Hnc). cbn [snd]. rewrite Huf, Hug. reflexivity. }
  set (s' := snd (coll_add_full m s (x, f) pos (VObj y))) in *.
  apply (sym_by_delta m s s' f g (fun _ _ => False) (fun a b => a = x /\ b = y) Hwf Hsym Hfg Hne).
  - intros a b. unfold R. rewrite HV. cbv zeta.
    destruct (cell_eqb_spec (x, f) (a, f)) as [E|N].
    + inversion E; subst a. rewrite upd_same.
      rewrite (upd_other _ (y, g) (x, f)) by (intros E2; inversion E2; congruence).
      destruct pos as [i|]; [rewrite In_raw_insert_obj | rewrite raw_append_obj_In]; intuition congruence.
    + rewrite upd_other by exact N. rewrite upd_other by (intros E2; inversion E2; congruence).
      split; [intros H; left; tauto|]. intros [[H _]|[E1 _]]; [exact H | subst a; exfalso; apply N; reflexivity].
  - intros a b. unfold R. rewrite HV. cbv zeta.
    rewrite (upd_other _ (x, f) (b, g)) by (intros E2; inversion E2; congruence).
    destruct (cell_eqb_spec (y, g) (b, g)) as [E|N].
    + inversion E; subst b. rewrite upd_same. rewrite raw_append_obj_In. intuition congruence.
    + rewrite upd_other by exact N.
      split; [intros H; left; tauto|]. intros [[H _]|[_ E1]]; [exact H | subst b; exfalso; apply N; reflexivity].
  - intros h a Hhf Hhg. rewrite HV. cbv zeta. rewrite !upd_other; [reflexivity | |];
      intros E; inversion E; congruence.
Qed.
End AddNN.

(* ---- 1-n: x.f = y with f single-valued and the opposite g many-valued ---- *)
Section Set1N.
Variable m : mm.
Hypothesis Hnc : no_containment m.
Hypothesis Hwf : wf_opp m.

Theorem set_1n_preserves_sym s x f g y :
  sym m s -> shape m s ->
  f_opp (fd m f) = Some g -> f <> g ->
  f_many (fd m f) = false -> f_many (fd m g) = true ->
  check_single m f (VObj y) = true ->
  sym m (snd (set_full m s (x, f) (VObj y))).
Proof.
  intros Hsym Hsh Hfg Hne Hsf Hmg Hchk.
  destruct (Hwf f g Hfg) as [Hgf [Href _]]. destruct (Hwf g f Hgf) as [_ [_ Hug]]. specialize (Hug Hmg).
  destruct (proj1 (Hsh x f) Hsf) as [pv Hpv].
  assert (Hsg : single s (x, f) = pv) by (unfold single; rewrite Hpv; reflexivity).
  (* the value store afterwards *)
  assert (HV : forall k, vals (snd (set_full m s (x, f) (VObj y))) k =
     let V1 := upd (vals s) (x, f) [VObj y] in
     let V3 := match obj_of pv with
               | Some q => if y =? q then V1
                           else if vmem (VObj x) (V1 (q, g)) then upd V1 (q, g) (raw_remove (VObj x) (V1 (q, g))) else V1
               | None => V1 end in
     upd V3 (y, g) (raw_append true (VObj x) (V3 (y, g))) k).
  { intros k. unfold set_full. rewrite Hchk, Href. cbn [negb]. rewrite (update_container_id m Hnc). rewrite Hfg.
    cbn [obj_of]. rewrite Hmg, Hsg. cbn [snd]. rewrite (vals_coll_append_raw m Hnc). cbn [snd]. rewrite Hug.
    destruct (obj_of pv) as [q|]; [|reflexivity].
    destruct (y =? q); [reflexivity|]. rewrite (vals_coll_remove_raw m Hnc).
    cbn [vals set_store notify push_log set_isset set_vals].
    destruct (vmem (VObj x) (upd (vals s) (x, f) [VObj y] (q, g))); reflexivity. }
  set (s' := snd (set_full m s (x, f) (VObj y))) in *. clear Hsg.
  assert (Hgcell : forall a : oid, ((x, f) : cell) <> (a, g)) by (intros a E; inversion E; congruence).
  apply (sym_by_delta m s s' f g (fun a _ => a = x) (fun a b => a = x /\ b = y) Hwf Hsym Hfg Hne).
  - (* f-side: only the slot (x, f) changes *)
    intros a b. unfold R. rewrite HV. cbv zeta.
    rewrite (upd_other _ (y, g) (a, f)) by (intros E; inversion E; congruence).
    assert (H3 : forall k, (forall q0, k <> (q0, g)) ->
       (match obj_of pv with
        | Some q => if y =? q then upd (vals s) (x, f) [VObj y]
                    else if vmem (VObj x) (upd (vals s) (x, f) [VObj y] (q, g))
                         then upd (upd (vals s) (x, f) [VObj y]) (q, g)
                                  (raw_remove (VObj x) (upd (vals s) (x, f) [VObj y] (q, g)))
                         else upd (vals s) (x, f) [VObj y]
        | None => upd (vals s) (x, f) [VObj y] end) k = upd (vals s) (x, f) [VObj y] k).
    { intros k Hk. destruct (obj_of pv) as [q|]; [|reflexivity]. destruct (y =? q); [reflexivity|].
      destruct (vmem (VObj x) (upd (vals s) (x, f) [VObj y] (q, g))); [|reflexivity].
      apply upd_other. intros E. apply (Hk q). symmetry. exact E. }
    rewrite H3 by (intros q0 E; inversion E; congruence).
    destruct (cell_eqb_spec (x, f) (a, f)) as [E|N].
    + inversion E; subst a. rewrite upd_same. simpl. intuition congruence.
    + rewrite upd_other by exact N. split; [intros H; left; split; [exact H | intros ->; apply N; reflexivity]|].
      intros [[H _]|[E1 _]]; [exact H | subst a; exfalso; apply N; reflexivity].
  - (* g-side: x leaves its previous partner's collection and enters y's *)
    intros a b. unfold R. rewrite HV. cbv zeta.
    destruct (obj_of pv) as [q|] eqn:Eq.
    + apply obj_of_Some' in Eq. rewrite Eq in Hpv.
      assert (Hqx : In (VObj x) (vals s (q, g))).
      { apply (Hsym f g Hfg x q). unfold R. rewrite Hpv. left; reflexivity. }
      assert (Honly : forall b0, In (VObj x) (vals s (b0, g)) -> b0 = q).
      { intros b0 H. apply (Hsym g f Hgf b0 x) in H. unfold R in H. rewrite Hpv in H.
        destruct H as [H|[]]. congruence. }
      destruct (Nat.eqb_spec y q) as [Eyq|Nyq].
      * subst q. destruct (cell_eqb_spec (y, g) (b, g)) as [E|N].
        -- inversion E; subst b. rewrite upd_same. rewrite upd_other by (apply Hgcell).
           rewrite raw_append_obj_In.
           destruct (Nat.eq_dec a x) as [->|Na]; [split; intros _; [right; split; reflexivity | right; reflexivity]|].
           split; [intros [H|H]; [left; split; assumption | contradiction]|].
           intros [[H _]|[H _]]; [left; exact H | contradiction].
        -- rewrite upd_other by exact N. rewrite upd_other by (apply Hgcell).
           split.
           ++ intros H. left. split; [exact H|]. intros ->. apply N. rewrite (Honly b H). reflexivity.
           ++ intros [[H _]|[_ E1]]; [exact H | subst b; exfalso; apply N; reflexivity].
      * rewrite (upd_other _ (x, f) (q, g)) by (apply Hgcell).
        pose proof Hqx as Hmem. apply vmem_obj in Hmem. rewrite Hmem.
        assert (Hnd : nodup_objs (vals s (q, g))) by (apply (proj2 (Hsh q g)); congruence).
        destruct (raw_remove_obj_In x (vals s (q, g)) Hnd Hqx) as [Hrm _].
        destruct (cell_eqb_spec (y, g) (b, g)) as [E|N].
        -- inversion E; subst b. rewrite upd_same.
           rewrite (upd_other _ (q, g) (y, g)) by (intros E2; inversion E2; congruence).
           rewrite upd_other by (apply Hgcell). rewrite raw_append_obj_In.
           split.
           ++ intros [H|H]; [|right; split; [exact H | reflexivity]].
              destruct (Nat.eq_dec a x) as [->|Na]; [right; split; reflexivity | left; split; [exact H | exact Na]].
           ++ intros [[H _]|[H _]]; [left; exact H | right; exact H].
        -- rewrite upd_other by exact N.
           destruct (cell_eqb_spec (q, g) (b, g)) as [E2|N2].
           ++ inversion E2; subst b. rewrite upd_same. rewrite Hrm.
              split; [intros [H Hn]; left; split; assumption|].
              intros [[H Hn]|[_ E1]]; [split; assumption | subst q; exfalso; apply N; reflexivity].
           ++ rewrite upd_other by exact N2. rewrite upd_other by (apply Hgcell).
              split.
              ** intros H. left. split; [exact H|]. intros ->. apply N2. rewrite (Honly b H). reflexivity.
              ** intros [[H _]|[_ E1]]; [exact H | subst b; exfalso; apply N; reflexivity].
    + (* x had no partner *)
      assert (Hnone : forall b0, ~ In (VObj x) (vals s (b0, g))).
      { intros b0 H. apply (Hsym g f Hgf b0 x) in H. unfold R in H. rewrite Hpv in H.
        destruct H as [H|[]]. rewrite H in Eq. discriminate. }
      destruct (cell_eqb_spec (y, g) (b, g)) as [E|N].
      * inversion E; subst b. rewrite upd_same. rewrite upd_other by (apply Hgcell).
        rewrite raw_append_obj_In. split.
        -- intros [H|H]; [|right; split; [exact H | reflexivity]].
           destruct (Nat.eq_dec a x) as [->|Na]; [right; split; reflexivity | left; split; [exact H | exact Na]].
        -- intros [[H _]|[H _]]; [left; exact H | right; exact H].
      * rewrite upd_other by exact N. rewrite upd_other by (apply Hgcell).
        split.
        -- intros H. left. split; [exact H|]. intros ->. exact (Hnone b H).
        -- intros [[H _]|[_ E1]]; [exact H | subst b; exfalso; apply N; reflexivity].
  - intros h a Hhf Hhg. rewrite HV. cbv zeta.
    rewrite upd_other by (intros E; inversion E; congruence).
    destruct (obj_of pv) as [q|].
    + destruct (y =? q); [apply upd_other; intros E; inversion E; congruence|].
      destruct (vmem (VObj x) (upd (vals s) (x, f) [VObj y] (q, g))).
      * rewrite upd_other by (intros E; inversion E; congruence). apply upd_other. intros E; inversion E; congruence.
      * apply upd_other. intros E; inversion E; congruence.
    + apply upd_other. intros E; inversion E; congruence.
Qed.
End Set1N.

(* ---- n-1: x.f.append(y) / insert with f many-valued and the opposite g single-valued ---- *)
Section AddN1.
Variable m : mm.
Hypothesis Hnc : no_containment m.
Hypothesis Hwf : wf_opp m.

Theorem add_n1_preserves_sym s x f g pos y :
  sym m s -> shape m s ->
  f_opp (fd m f) = Some g -> f <> g ->
  f_many (fd m f) = true -> f_many (fd m g) = false ->
  check_elem m f (VObj y) = true ->
  sym m (snd (coll_add_full m s (x, f) pos (VObj y))).
Proof.
  intros Hsym Hsh Hfg Hne Hmf Hsg Hchk.
  destruct (Hwf f g Hfg) as [Hgf [Href Huf]]. specialize (Huf Hmf).
  destruct (proj1 (Hsh y g) Hsg) as [cv Hcv].
  assert (Hsc : single s (y, g) = cv) by (unfold single; rewrite Hcv; reflexivity).
  assert (HV : forall k, vals (snd (coll_add_full m s (x, f) pos (VObj y))) k =
     let V1 := match obj_of cv with
               | Some c => if c =? x then vals s
                           else if vmem (VObj y) (vals s (c, f)) then upd (vals s) (c, f) (raw_remove (VObj y) (vals s (c, f)))
                           else vals s
               | None => vals s end in
     let V2 := upd V1 (y, g) [VObj x] in
     upd V2 (x, f) (match pos with Some i => raw_insert true i (VObj y) (V2 (x, f))
                                 | None => raw_append true (VObj y) (V2 (x, f)) end) k).
  { intros k. unfold coll_add_full. rewrite Hchk. cbn [negb snd]. unfold link_elem. rewrite Href. cbn [obj_of].
    rewrite (update_container_id m Hnc). unfold update_opposite_add. rewrite Hfg, Hsg, Hsc.
    cbn [vals set_isset notify push_log set_vals]. rewrite (vals_set_obj_raw m Hnc). rewrite Huf.
    destruct (obj_of cv) as [c|]; [|reflexivity].
    destruct (c =? x); [reflexivity|]. rewrite (vals_coll_remove_raw m Hnc).
    destruct (vmem (VObj y) (vals s (c, f))); reflexivity. }
  set (s' := snd (coll_add_full m s (x, f) pos (VObj y))) in *. clear Hsc.
  assert (Hfcell : forall a b0 : oid, ((a, f) : cell) <> (b0, g)) by (intros a b0 E; inversion E; congruence).
  (* who holds y through f, before *)
  assert (Hholder : forall a, In (VObj y) (vals s (a, f)) <-> cv = VObj a).
  { intros a. rewrite (Hsym f g Hfg a y). unfold R. rewrite Hcv. simpl. intuition congruence. }
  apply (sym_by_delta m s s' f g (fun _ b => b = y) (fun a b => a = x /\ b = y) Hwf Hsym Hfg Hne).
  - (* f-side *)
    intros a b. unfold R. rewrite HV. cbv zeta.
    destruct (obj_of cv) as [c|] eqn:Ec.
    + apply obj_of_Some' in Ec.
      assert (Hcy : In (VObj y) (vals s (c, f))) by (apply Hholder; exact Ec).
      destruct (Nat.eqb_spec c x) as [Ecx|Ncx].
      * (* y is already linked to x: nothing moves *)
        subst c.
        destruct (cell_eqb_spec (x, f) (a, f)) as [E|N].
        -- inversion E; subst a. rewrite upd_same. rewrite upd_other by (intros E2; inversion E2; congruence).
           destruct (Nat.eq_dec b y) as [->|Nb].
           ++ split; [intros _; right; split; reflexivity|]. intros _.
              destruct pos as [i|]; [apply In_raw_insert_obj | apply raw_append_obj_In]; right; reflexivity.
           ++ destruct pos as [i|]; [rewrite In_raw_insert_obj | rewrite raw_append_obj_In]; intuition congruence.
        -- rewrite upd_other by exact N. rewrite upd_other by (intros E2; inversion E2; congruence).
           split.
           ++ intros H. left. split; [exact H|]. intros ->. apply Hholder in H. apply N. congruence.
           ++ intros [[H _]|[E1 _]]; [exact H | subst a; exfalso; apply N; reflexivity].
      * pose proof Hcy as Hmem. apply vmem_obj in Hmem. rewrite Hmem.
        assert (Hnd : nodup_objs (vals s (c, f))) by (apply (proj2 (Hsh c f)); congruence).
        destruct (raw_remove_obj_In y (vals s (c, f)) Hnd Hcy) as [Hrm _].
        destruct (cell_eqb_spec (x, f) (a, f)) as [E|N].
        -- inversion E; subst a. rewrite upd_same. rewrite upd_other by (intros E2; inversion E2; congruence).
           rewrite (upd_other _ (c, f) (x, f)) by (intros E2; inversion E2; congruence).
           assert (Hxy : ~ In (VObj y) (vals s (x, f))).
           { intros H. apply Hholder in H. congruence. }
           destruct pos as [i|]; [rewrite In_raw_insert_obj | rewrite raw_append_obj_In].
           ++ split; [intros [H|H]; [left; split; [exact H | intros ->; exact (Hxy H)] | right; split; [reflexivity | exact H]]|].
              intros [[H _]|[_ H]]; [left; exact H | right; exact H].
           ++ split; [intros [H|H]; [left; split; [exact H | intros ->; exact (Hxy H)] | right; split; [reflexivity | exact H]]|].
              intros [[H _]|[_ H]]; [left; exact H | right; exact H].
        -- rewrite upd_other by exact N. rewrite upd_other by (intros E2; inversion E2; congruence).
           destruct (cell_eqb_spec (c, f) (a, f)) as [E2|N2].
           ++ inversion E2; subst a. rewrite upd_same. rewrite Hrm.
              split; [intros [H Hn]; left; split; assumption|].
              intros [[H Hn]|[E1 _]]; [split; assumption | subst c; exfalso; apply N; reflexivity].
           ++ rewrite upd_other by exact N2. split.
              ** intros H. left. split; [exact H|]. intros ->. apply Hholder in H. apply N2. congruence.
              ** intros [[H _]|[E1 _]]; [exact H | subst a; exfalso; apply N; reflexivity].
    + (* y had no partner *)
      assert (Hnone : forall a0, ~ In (VObj y) (vals s (a0, f))).
      { intros a0 H. apply Hholder in H. rewrite H in Ec. discriminate. }
      destruct (cell_eqb_spec (x, f) (a, f)) as [E|N].
      * inversion E; subst a. rewrite upd_same. rewrite upd_other by (intros E2; inversion E2; congruence).
        destruct pos as [i|]; [rewrite In_raw_insert_obj | rewrite raw_append_obj_In].
        -- split; [intros [H|H]; [left; split; [exact H | intros ->; exact (Hnone x H)] | right; split; [reflexivity | exact H]]|].
           intros [[H _]|[_ H]]; [left; exact H | right; exact H].
        -- split; [intros [H|H]; [left; split; [exact H | intros ->; exact (Hnone x H)] | right; split; [reflexivity | exact H]]|].
           intros [[H _]|[_ H]]; [left; exact H | right; exact H].
      * rewrite upd_other by exact N. rewrite upd_other by (intros E2; inversion E2; congruence).
        split.
        -- intros H. left. split; [exact H|]. intros ->. exact (Hnone a H).
        -- intros [[H _]|[E1 _]]; [exact H | subst a; exfalso; apply N; reflexivity].
  - (* g-side: only the slot (y, g) changes, to x *)
    intros a b. unfold R. rewrite HV. cbv zeta.
    rewrite (upd_other _ (x, f) (b, g)) by (apply Hfcell).
    assert (H1 : forall k, (forall a0, k <> (a0, f)) ->
       (match obj_of cv with
        | Some c => if c =? x then vals s
                    else if vmem (VObj y) (vals s (c, f)) then upd (vals s) (c, f) (raw_remove (VObj y) (vals s (c, f)))
                    else vals s
        | None => vals s end) k = vals s k).
    { intros k Hk. destruct (obj_of cv) as [c|]; [|reflexivity]. destruct (c =? x); [reflexivity|].
      destruct (vmem (VObj y) (vals s (c, f))); [|reflexivity]. apply upd_other. intros E. apply (Hk c). symmetry; exact E. }
    destruct (cell_eqb_spec (y, g) (b, g)) as [E|N].
    + inversion E; subst b. rewrite upd_same. simpl. intuition congruence.
    + rewrite upd_other by exact N. rewrite H1 by (intros a0 E; inversion E; congruence).
      split; [intros H; left; split; [exact H | intros ->; apply N; reflexivity]|].
      intros [[H _]|[_ E1]]; [exact H | subst b; exfalso; apply N; reflexivity].
  - intros h a Hhf Hhg. rewrite HV. cbv zeta.
    rewrite upd_other by (intros E; inversion E; congruence).
    rewrite upd_other by (intros E; inversion E; congruence).
    destruct (obj_of cv) as [c|]; [|reflexivity]. destruct (c =? x); [reflexivity|].
    destruct (vmem (VObj y) (vals s (c, f))); [|reflexivity].
    apply upd_other. intros E; inversion E; congruence.
Qed.
End AddN1.
