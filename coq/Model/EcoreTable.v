(* The Ecore self-description as a finite table (the table itself is generated:
   Gen/EcoreMM.v) and the decidable well-formedness checks run on it.
   Mirrors pyecore/ecore.py: `Cls.pyattr = EAttribute/EReference('name', Type, kw...)`,
   the class statements (supertypes) and, for features whose Python attribute is
   not called like the feature, how the hand-written Python property of that name
   reaches the feature slot (f_access).  No proofs here. *)
From Coq Require Import String List Bool ZArith.
Import ListNotations.
Open Scope string_scope.

Inductive fkind : Type := KAttr | KRef.

(* how `obj.<feature name> = v` reaches the feature slot (and therefore `_isset`,
   which is what the serialisers walk) *)
Inductive faccess : Type :=
| ADirect          (* the descriptor itself is stored under the feature's name *)
| AViaDescriptor   (* a Python property whose setter assigns the descriptor attribute *)
| AMarksIsset      (* a Python property whose setter keeps the value elsewhere but records the feature in _isset *)
| ANoSetter        (* read-only Python property (derived features) *)
| ABypassed.       (* a Python property whose setter never touches the feature slot nor _isset *)

Record mfeature : Type := mkF {
  f_owner : string;
  f_pyattr : string;
  f_name : string;
  f_kind : fkind;
  f_type : string;
  f_lower : Z;
  f_upper : Z;
  f_ordered : bool;
  f_unique : bool;
  f_containment : bool;
  f_iD : bool;
  f_derived : bool;
  f_transient : bool;
  f_volatile : bool;
  f_unsettable : bool;
  f_changeable : bool;
  f_opposite : option (string * string);   (* (class, pyattr) as written: eOpposite=Class.pyattr *)
  f_default : option string;
  f_access : faccess
}.

Definition f_many (f : mfeature) : bool := (f_upper f <? 0)%Z || (1 <? f_upper f)%Z.

Definition key (f : mfeature) : string * string := (f_owner f, f_pyattr f).
Definition key_eqb (a b : string * string) : bool :=
  String.eqb (fst a) (fst b) && String.eqb (snd a) (snd b).

Definition find_key (tbl : list mfeature) (k : string * string) : option mfeature :=
  find (fun g => key_eqb (key g) k) tbl.

(* The eOpposite setter also sets the other end: the effective partner of f is
   the declared one, or the feature that declares f as its opposite. *)
Definition declared_by (tbl : list mfeature) (f : mfeature) : option mfeature :=
  find (fun g => match f_opposite g with Some k => key_eqb k (key f) | None => false end) tbl.

Definition eff_opp (tbl : list mfeature) (f : mfeature) : option mfeature :=
  match f_opposite f with
  | Some k => find_key tbl k
  | None => declared_by tbl f
  end.

Definition is_ref (f : mfeature) : bool := match f_kind f with KRef => true | KAttr => false end.

Definition same_feature (f g : mfeature) : bool := key_eqb (key f) (key g).

(* --- checks (each one decides a statement of Props/C10.v on the table) --- *)

(* eOpposite is an involution between references *)
Definition chk_involutive (tbl : list mfeature) : bool :=
  forallb (fun f =>
    match eff_opp tbl f with
    | None => match f_opposite f with None => true | Some _ => false end   (* a declared partner must exist *)
    | Some g =>
      is_ref f && is_ref g &&
      match eff_opp tbl g with Some f' => same_feature f' f | None => false end
    end) tbl.

(* nobody is claimed as opposite twice, and a claimed feature claims nobody else *)
Definition count_claims (tbl : list mfeature) (k : string * string) : nat :=
  length (filter (fun g => match f_opposite g with Some k' => key_eqb k' k | None => false end) tbl).

Definition chk_claims_functional (tbl : list mfeature) : bool :=
  forallb (fun f =>
    match count_claims tbl (key f) with
    | O => true
    | S O => match f_opposite f with
             | None => true
             | Some k => match declared_by tbl f with Some g => key_eqb (key g) k | None => false end
             end
    | _ => false
    end) tbl.

(* the type of each end is the owner of the other *)
Definition chk_opposite_types (tbl : list mfeature) : bool :=
  forallb (fun f =>
    match eff_opp tbl f with
    | Some g => String.eqb (f_type f) (f_owner g) && String.eqb (f_type g) (f_owner f)
    | None => true
    end) tbl.

(* the end opposite to a containment is single-valued and not a containment *)
Definition chk_container_single (tbl : list mfeature) : bool :=
  forallb (fun f =>
    match eff_opp tbl f with
    | Some g => if f_containment g then negb (f_many f) && negb (f_containment f) else true
    | None => true
    end) tbl.

(* a many-valued end of a bidirectional reference is unique *)
Definition chk_many_bidir_unique (tbl : list mfeature) : bool :=
  forallb (fun f =>
    match eff_opp tbl f with
    | Some _ => if f_many f then f_unique f else true
    | None => true
    end) tbl.

(* references are typed by classes, attributes by data types; owners are classes *)
Definition mem_str (x : string) (l : list string) : bool := existsb (String.eqb x) l.

Definition chk_typed (classes : list (string * list string)) (dts : list string) (tbl : list mfeature) : bool :=
  forallb (fun f =>
    mem_str (f_owner f) (map fst classes) &&
    match f_kind f with
    | KRef => mem_str (f_type f) (map fst classes)
    | KAttr => mem_str (f_type f) dts && negb (f_containment f)
    end) tbl.

(* one class never declares two features with one name, nor two under one Python attribute *)
Definition chk_own_names_unique (tbl : list mfeature) : bool :=
  forallb (fun f =>
    Nat.eqb (length (filter (fun g => String.eqb (f_owner g) (f_owner f) && String.eqb (f_name g) (f_name f)) tbl)) 1 &&
    Nat.eqb (length (filter (fun g => same_feature g f) tbl)) 1) tbl.

(* --- inheritance --- *)
Fixpoint supers_fuel (fuel : nat) (classes : list (string * list string)) (c : string) : list string :=
  match fuel with
  | O => [c]
  | S n =>
    c :: match find (fun p => String.eqb (fst p) c) classes with
         | Some (_, bs) => flat_map (supers_fuel n classes) bs
         | None => []
         end
  end.

Definition all_supers (classes : list (string * list string)) (c : string) : list string :=
  supers_fuel (length classes) classes c.

(* the feature called n that an instance of class c has (own first, then supertypes in order) *)
Definition lookup_feature (classes : list (string * list string)) (tbl : list mfeature) (c n : string)
  : option mfeature :=
  let sup := all_supers classes c in
  find (fun f => mem_str (f_owner f) sup && String.eqb (f_name f) n)
       (flat_map (fun s => filter (fun f => String.eqb (f_owner f) s) tbl) sup).

(* --- what a generic serialiser that walks `_isset` can reach --- *)

(* value assigned through the feature's name ends up recorded in _isset *)
Definition reaches_isset (f : mfeature) : bool :=
  match f_access f with
  | ADirect | AViaDescriptor | AMarksIsset => true
  | ANoSetter | ABypassed => false
  end.

(* xmi.py:_go_across / json.py:to_dict_from_obj skip derived and transient features *)
Definition written (f : mfeature) : bool :=
  reaches_isset f && negb (f_derived f) && negb (f_transient f).

(* The meta-features the structural signature of a metamodel is made of
   (harness/props/c10.py reads this list and compares it with the one its
   `signature` function uses): (metaclass, feature name). *)
Definition signature_features : list (string * string) := [
  ("EPackage", "name"); ("EPackage", "nsURI"); ("EPackage", "nsPrefix");
  ("EPackage", "eClassifiers"); ("EPackage", "eSubpackages"); ("EPackage", "eAnnotations");
  ("EClass", "name"); ("EClass", "abstract"); ("EClass", "eSuperTypes");
  ("EClass", "eStructuralFeatures"); ("EClass", "eOperations"); ("EClass", "eAnnotations");
  ("EAttribute", "name"); ("EAttribute", "eType"); ("EAttribute", "lowerBound"); ("EAttribute", "upperBound");
  ("EAttribute", "ordered"); ("EAttribute", "unique"); ("EAttribute", "iD"); ("EAttribute", "derived");
  ("EAttribute", "transient"); ("EAttribute", "changeable"); ("EAttribute", "volatile");
  ("EAttribute", "unsettable"); ("EAttribute", "defaultValueLiteral"); ("EAttribute", "eAnnotations");
  ("EReference", "name"); ("EReference", "eType"); ("EReference", "lowerBound"); ("EReference", "upperBound");
  ("EReference", "ordered"); ("EReference", "unique"); ("EReference", "containment"); ("EReference", "derived");
  ("EReference", "transient"); ("EReference", "changeable"); ("EReference", "volatile");
  ("EReference", "unsettable"); ("EReference", "eOpposite"); ("EReference", "eAnnotations");
  ("EEnum", "name"); ("EEnum", "eLiterals"); ("EEnum", "eAnnotations");
  ("EEnumLiteral", "name"); ("EEnumLiteral", "value"); ("EEnumLiteral", "literal");
  ("EDataType", "name"); ("EDataType", "instanceClassName"); ("EDataType", "eAnnotations");
  ("EOperation", "name"); ("EOperation", "eType"); ("EOperation", "lowerBound"); ("EOperation", "upperBound");
  ("EOperation", "ordered"); ("EOperation", "unique"); ("EOperation", "eParameters"); ("EOperation", "eExceptions");
  ("EParameter", "name"); ("EParameter", "eType"); ("EParameter", "lowerBound"); ("EParameter", "upperBound");
  ("EParameter", "ordered"); ("EParameter", "unique"); ("EParameter", "required");
  ("EAnnotation", "source"); ("EAnnotation", "details")
].

Definition chk_written (classes : list (string * list string)) (tbl : list mfeature)
           (except : list (string * string)) (need : list (string * string)) : bool :=
  forallb (fun cn =>
    existsb (key_eqb cn) except ||
    match lookup_feature classes tbl (fst cn) (snd cn) with
    | Some f => written f
    | None => false
    end) need.

(* the needed meta-features that are NOT reachable (the finding list) *)
Definition not_written (classes : list (string * list string)) (tbl : list mfeature)
           (need : list (string * string)) : list (string * string) :=
  filter (fun cn => match lookup_feature classes tbl (fst cn) (snd cn) with
                    | Some f => negb (written f)
                    | None => true
                    end) need.
