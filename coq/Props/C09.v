(* C09 -- JSON save then load reproduces the model.   Statements only.

   What is proved here:
     * the value mapping of attributes (to_dict / process_inst): None <-> null,
       int/float/bool/str typed values travel as JSON-native values and come
       back through from_string unchanged, every other type travels as the
       string to_string(v) and comes back by from_string -- under the C17-style
       premise  from_string (to_string o) = Some o  for those types;
     * C09_no_dup: a unique many-valued reference filled during load -- from
       its own list and by the opposite handshakes, in any interleaving --
       never holds an element twice, the loader resolving the references that
       stay inside the resource before it stores them (json.py after 246ae15);
     * the order of such an end is the order of its own list.
   DESIGN expected C09_no_dup refuted.  It was on the code as found: the
   loader stored unresolved proxies, which are set members by identity
   (C09_lazy_proxies_refuted below keeps that witness on the identity-keyed
   model).  The repair was small (resolve local references when every object
   exists) and is applied in /repo, so the model follows the fixed code.
   Proofs: Proofs/JsonValProofs.v, Proofs/RefLoadProofs.v.

   What is NOT proved (hence `_partial`): the semantic round trip over whole
   models (objects, eClass entries, containment nesting, `$ref` resolution,
   uuid mode); json.dumps/json.loads are assumed (A-json).  Cross-resource
   references stay lazy proxies (C14's subject).  Those parts rest on the
   correspondence and the oracle of harness/props/c09.py. *)
From Coq Require Import ZArith List Bool.
From PyecoreV Require Import Lib.PyBase Lib.PyList Model.OSet Model.XmiAttr Model.JsonVal Model.RefLoad Proofs.OSetProofs Proofs.JsonValProofs Proofs.RefLoadProofs.
Import ListNotations.
Open Scope Z_scope.

Theorem C09_value_roundtrip_partial :
  forall (O : Type) (to_string : O -> str) (from_string : str -> option O),
  (forall o, from_string (to_string o) = Some o) ->
  forall (t : etag) (v : pyv O),
  well_typed t v -> from_json from_string t (to_json to_string t v) = v.
Proof. exact json_value_roundtrip. Qed.
Print Assumptions C09_value_roundtrip_partial.

Theorem C09_values_roundtrip_partial :
  forall (O : Type) (to_string : O -> str) (from_string : str -> option O),
  (forall o, from_string (to_string o) = Some o) ->
  forall (t : etag) (vs : list (pyv O)),
  Forall (well_typed t) vs ->
  map (from_json from_string t) (map (to_json to_string t) vs) = vs.
Proof. exact json_values_roundtrip. Qed.
Print Assumptions C09_values_roundtrip_partial.

(* the entry of a single-valued attribute: left out when equal to get_default_value() and
   SERIALIZE_DEFAULT_VALUES is off; an absent entry reads as that same default *)
Theorem C09_entry_roundtrip_partial :
  forall (O : Type) (to_string : O -> str) (from_string : str -> option O),
  (forall o, from_string (to_string o) = Some o) ->
  forall veq : pyv O -> pyv O -> bool,
  (forall a b, veq a b = true -> a = b) ->
  forall (sd : bool) (t : etag) (dflt v : pyv O),
  well_typed t v ->
  read_entry from_string t dflt (write_entry to_string veq sd t dflt v) = v.
Proof. exact json_entry_roundtrip. Qed.
Print Assumptions C09_entry_roundtrip_partial.

(* attribute values keep their JSON-native type *)
Theorem C09_native_kind_partial :
  forall (O : Type) (to_string : O -> str) (t : etag) (v : pyv O),
  well_typed t v -> v <> PNone -> kind_of (to_json to_string t v) = kind_of_tag t.
Proof. exact json_native_kind. Qed.
Print Assumptions C09_native_kind_partial.

Theorem C09_null_iff_none :
  forall (O : Type) (to_string : O -> str) (t : etag) (v : pyv O),
  well_typed t v -> (to_json to_string t v = JNull <-> v = PNone).
Proof. exact json_null_iff_none. Qed.
Print Assumptions C09_null_iff_none.

(* no collection under a unique feature holds an element twice: any sequence of
   handshake links and own-list placements, from the empty collection *)
Theorem C09_no_dup :
  forall evs : list lev, NoDup (items (fold_left os_lev evs os_empty)).
Proof. exact events_no_dup. Qed.
Print Assumptions C09_no_dup.

(* with the references resolved before they are stored, each target is held once *)
Theorem C09_no_dup_resolved_targets :
  forall es : list elt,
  NoDup (items (eager_collection es)) /\
  forall y, In y (items (eager_collection es)) <-> In y (map target es).
Proof. intros es. split; [exact (eager_no_dup es) | exact (eager_holds_targets es)]. Qed.
Print Assumptions C09_no_dup_resolved_targets.

Theorem C09_reference_order_partial :
  forall pre own post : list Z,
  NoDup own -> incl pre own -> incl post own ->
  items (load_end pre own post) = own.
Proof. intros pre own post H1 H2 H3. exact (proj2 (load_end_order pre own post H1 H2 H3)). Qed.
Print Assumptions C09_reference_order_partial.

(* the loader as found: an object and an unresolved proxy of it are two members *)
Example C09_lazy_proxies_refuted :
  exists es, ~ NoDup (lazy_collection es).
Proof. exists [Obj 5; Proxy 1 5]. exact (proj2 lazy_proxies_duplicate). Qed.

(* non-vacuity of the value theorems: the extracted instance (objects named by their text) *)
Example C09_witness_values :
  to_json (fun s : str => s) TInt (PInt (-5)) = JInt (-5) /\
  to_json (fun s : str => s) TBool (PBool true) = JBool true /\
  to_json (fun s : str => s) TOther (PObj [49; 46; 49; 48]) = JStr [49; 46; 49; 48] /\
  to_json (fun s : str => s) TFloat (@PNone str) = JNull /\
  from_json (fun s : str => Some s) TBool (JStr [116; 114; 117; 101]) = PBool true /\
  from_json (fun s : str => Some s) TInt JNull = PNone.
Proof. vm_compute. repeat split; reflexivity. Qed.
