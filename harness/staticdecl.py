"""Static and dynamic DECLARATION of one metamodel description, on the real
pyecore, and the encoding of the same description for Model/StaticDecl.v
(`run_staticdecl`).  Used by harness/props/c13.py.

description D = {'types': [{'name', 'default': python value}],          data types bound in the module
                 'classes': [{'name', 'abstract', 'supers': [names], 'features': [fd], 'operations': [od]}]}
fd = {'name','kind': 'attr'|'ref','type','lower','upper','ordered','unique','containment','opposite': [c,f]|None,
      'default': python value|None}
od = {'name', 'params': [{'name','required'}]}
Classes come with their supertypes declared first (the renderers write a
class once its supertypes are written: then the order is the description's).
A reflected description is the list, in class order, of
  {'name','abstract','supers','features': [feature tuples IN ORDER],'operations': [(name, ((p, required)..))]}."""
import sys
import types as pytypes

from harness import common

_counter = [0]
BUILTIN_TYPES = ['EInt', 'EString', 'EBoolean', 'EDouble', 'EJavaObject']
ENUMS = [{'name': 'Color', 'literals': ['red', 'green', 'blue']}]


class Interner:
    """python values <-> tokens (by repr: True and 1 are different defaults)"""

    def __init__(self):
        self.t = {}

    def tok(self, v):
        if v is None:
            return None
        return self.t.setdefault(repr(v), len(self.t) + 1)


def cps(s):
    return [len(s)] + [ord(c) for c in s]


def opt(x):
    return [0] if x is None else [1, x]


# ------------------------------------------------------------------ static source
PRELUDE = ['from functools import partial',
           'import pyecore.ecore as Ecore',
           'from pyecore.ecore import *',
           "name = 'p'", "nsURI = 'http://p'", "nsPrefix = 'p'",
           'eClass = EPackage(name=name, nsURI=nsURI, nsPrefix=nsPrefix)',
           'eClassifiers = {}',
           'getEClassifier = partial(Ecore.getEClassifier, searchspace=eClassifiers)']


def feature_source(fd):
    if fd['kind'] == 'attr':
        s = (f"EAttribute(eType={fd['type']}, lower={fd['lower']}, upper={fd['upper']}, "
             f"ordered={fd['ordered']}, unique={fd['unique']}")
        if fd.get('default') is not None:
            s += f", default_value={fd['default']!r}"
        return s + ')'
    return (f"EReference(lower={fd['lower']}, upper={fd['upper']}, ordered={fd['ordered']}, "
            f"unique={fd['unique']}, containment={fd['containment']})")


def def_source(od):
    ps = ', '.join(['self'] + [p['name'] if p['required'] else p['name'] + '=None' for p in od['params']])
    return [f"    def {od['name']}({ps}):", '        return None']


def source(D, deco):
    """the module text: same layout as harness/kstatic.py (nameless features, reference types and opposites
    assigned after the classes), @abstract outermost"""
    L = list(PRELUDE)
    for en in D.get('enums', []):
        L.append(f"{en['name']} = EEnum({en['name']!r}, literals={list(en['literals'])!r})")
    done = []
    for c in D['classes']:
        assert all(s in done for s in c['supers']), 'supertypes must be declared first'
        if c['abstract']:
            L.append('@abstract')
        bases = ', '.join(c['supers'])
        if not bases and deco:
            L.append('@EMetaclass')
            L.append(f"class {c['name']}(object):")
        elif not bases:
            L.append(f"class {c['name']}(EObject, metaclass=MetaEClass):")
        else:
            L.append(f"class {c['name']}({bases}):")
        body = [f"    {fd['name']} = {feature_source(fd)}" for fd in c['features']]
        for od in c['operations']:
            body += def_source(od)
        if not deco:
            body += ['    def __init__(self, **kwargs):', '        super().__init__()',
                     '        for k, v in kwargs.items():', '            setattr(self, k, v)']
        L += body or ['    pass']
        done.append(c['name'])
    for c in D['classes']:
        for fd in c['features']:
            if fd['kind'] == 'ref':
                L.append(f"{c['name']}.{fd['name']}.eType = {fd['type']}")
    seen = set()
    for c in D['classes']:
        for fd in c['features']:
            if fd.get('opposite'):
                oc, on = fd['opposite']
                key = tuple(sorted([(c['name'], fd['name']), (oc, on)]))
                if key in seen:
                    continue
                seen.add(key)
                L.append(f"{c['name']}.{fd['name']}.eOpposite = {oc}.{on}")
    return '\n'.join(L) + '\n'


def execute(src, tag):
    """run a module text in a fresh module registered in sys.modules -> module (caller: forget(mod))"""
    common.use_repo()
    _counter[0] += 1
    modname = f'verif_sd_{tag}_{_counter[0]}'
    mod = pytypes.ModuleType(modname)
    sys.modules[modname] = mod
    try:
        exec(compile(src, modname, 'exec'), mod.__dict__)
    except BaseException:
        sys.modules.pop(modname, None)
        raise
    return mod


def forget(mod):
    sys.modules.pop(mod.__name__, None)


# ------------------------------------------------------------------ dynamic construction
def build_dynamic(D):
    """-> list of EClass in class order (the construction of harness/kimpl.py, plus lower/default)"""
    common.use_repo()
    from pyecore import ecore as E
    enums = {en['name']: E.EEnum(en['name'], literals=list(en['literals'])) for en in D.get('enums', [])}
    classes = {}
    order = []
    for c in D['classes']:
        classes[c['name']] = E.EClass(c['name'], abstract=c['abstract'])
        order.append(classes[c['name']])
    for c in D['classes']:
        for s in c['supers']:
            classes[c['name']].eSuperTypes.append(classes[s])
    byname = {}
    for c in D['classes']:
        for fd in c['features']:
            if fd['kind'] == 'attr':
                et = enums[fd['type']] if fd['type'] in enums else getattr(E, fd['type'])
                kw = {} if fd.get('default') is None else {'default_value': fd['default']}
                f = E.EAttribute(fd['name'], et, lower=fd['lower'], upper=fd['upper'], ordered=fd['ordered'],
                                 unique=fd['unique'], **kw)
            else:
                f = E.EReference(fd['name'], classes[fd['type']], lower=fd['lower'], upper=fd['upper'],
                                 ordered=fd['ordered'], unique=fd['unique'], containment=fd['containment'])
            classes[c['name']].eStructuralFeatures.append(f)
            byname[(c['name'], fd['name'])] = f
    for c in D['classes']:
        for fd in c['features']:
            if fd.get('opposite'):
                byname[(c['name'], fd['name'])].eOpposite = byname[tuple(fd['opposite'])]
    for c in D['classes']:
        for od in c['operations']:
            classes[c['name']].eOperations.append(
                E.EOperation(od['name'], params=[E.EParameter(p['name'], eType=E.ENativeType, required=p['required'])
                                                 for p in od['params']]))
    pkg = E.EPackage('p', nsURI='http://p', nsPrefix='p')
    pkg.eClassifiers.extend(order)
    pkg.eClassifiers.extend(enums.values())
    return order


# ------------------------------------------------------------------ reflection (public API only)
def reflect(eclasses, intern):
    """the ordered normal form compared with the model (harness/props/c13.py's description keeps the same
    fields, sorted)"""
    common.use_repo()
    from pyecore import ecore as E
    out = []
    for ec in eclasses:
        feats = []
        for f in ec.eStructuralFeatures:
            is_ref = isinstance(f, E.EReference)
            opp = getattr(f, 'eOpposite', None) if is_ref else None
            t = f.eType
            tn = '' if t is None else (t.eClass.name if isinstance(t, type) else t.name)
            feats.append((f.name or '', is_ref, tn, f.lowerBound, f.upperBound, bool(f.many), bool(f.ordered),
                          bool(f.unique), bool(getattr(f, 'containment', False)),
                          (opp.eContainingClass.name if opp.eContainingClass is not None else '', opp.name or '')
                          if opp is not None else None,
                          None if is_ref else intern.tok(f.default_value)))
        ops = []
        for op in ec.eOperations:
            ps = [(p.name, bool(p.required)) for p in op.eParameters]
            if ps and ps[0][0] == 'self':
                ps = ps[1:]          # static reflection lists the receiver; the declaration does not
            ops.append((op.name, tuple(ps)))
        out.append({'name': ec.name, 'abstract': bool(ec.abstract), 'supers': [s.name for s in ec.eSuperTypes],
                    'features': feats, 'operations': ops})
    return out


def type_table(D, intern):
    """[(name, token of the data type's default_value)] for every data type the module binds"""
    common.use_repo()
    from pyecore import ecore as E
    tab = [(n, intern.tok(getattr(E, n).default_value)) for n in BUILTIN_TYPES]
    for en in D.get('enums', []):
        tab.append((en['name'], intern.tok(E.EEnum(en['name'], literals=list(en['literals'])).default_value)))
    return tab


# ------------------------------------------------------------------ codec (Model/StaticDecl.v)
def enc_feature(fd, intern):
    t = cps(fd['name']) + [int(fd['kind'] == 'ref')] + cps(fd['type']) + [fd['lower'], fd['upper'], int(fd['ordered']),
                                                                        int(fd['unique']), int(fd['containment'])]
    t += [0] if not fd.get('opposite') else [1] + cps(fd['opposite'][0]) + cps(fd['opposite'][1])
    return t + opt(intern.tok(fd.get('default')))


def enc_descr(D, intern):
    tab = type_table(D, intern)
    t = [len(tab)]
    for n, d in tab:
        t += cps(n) + opt(d)
    t.append(len(D['classes']))
    for c in D['classes']:
        t += cps(c['name']) + [int(c['abstract']), len(c['supers'])]
        for s in c['supers']:
            t += cps(s)
        t.append(len(c['features']))
        for fd in c['features']:
            t += enc_feature(fd, intern)
        t.append(len(c['operations']))
        for od in c['operations']:
            t += cps(od['name']) + [len(od['params'])]
            for p in od['params']:
                t += cps(p['name']) + [int(p['required'])]
    return t


class Reader:
    def __init__(self, toks):
        self.t = toks
        self.i = 0

    def z(self):
        v = self.t[self.i]
        self.i += 1
        return v

    def name(self):
        n = self.z()
        s = ''.join(chr(c) for c in self.t[self.i:self.i + n])
        self.i += n
        return s

    def classes(self):
        out = []
        for _ in range(self.z()):
            c = {'name': self.name(), 'abstract': bool(self.z()), 'supers': [self.name() for _ in range(self.z())]}
            feats = []
            for _ in range(self.z()):
                nm, ref, tn = self.name(), bool(self.z()), self.name()
                lo, up, many, od, un, ct = self.z(), self.z(), bool(self.z()), bool(self.z()), bool(self.z()), bool(self.z())
                opp = (self.name(), self.name()) if self.z() else None
                df = self.z() if self.z() else None
                feats.append((nm, ref, tn, lo, up, many, od, un, ct, opp, df))
            c['features'] = feats
            ops = []
            for _ in range(self.z()):
                on = self.name()
                ops.append((on, tuple((self.name(), bool(self.z())) for _ in range(self.z()))))
            c['operations'] = ops
            out.append(c)
        return out

    def result(self):
        return self.classes() if self.z() else None


def ask_descr(model, D, deco, intern):
    """-> (wf, static description | None, dynamic description | None, canonical description)"""
    r = Reader(model.ask('staticdecl', [0, int(deco)] + enc_descr(D, intern)))
    wf = bool(r.z())
    st, dy, ca = r.result(), r.result(), r.classes()
    assert r.i == len(r.t), 'trailing tokens'
    return wf, st, dy, ca


# ------------------------------------------------------------------ generators
def from_kgen(mm):
    """a kernel metamodel description (harness/kgen.py, with 'operations') as a description D"""
    classes = []
    for c in mm['classes']:
        feats = [{'name': fd['name'], 'kind': fd['kind'], 'type': fd['type'], 'lower': 0,
                  'upper': -1 if fd['many'] else 1, 'ordered': fd.get('ordered', True), 'unique': fd.get('unique', True),
                  'containment': bool(fd.get('containment', False)) and fd['kind'] == 'ref',
                  'opposite': list(fd['opposite']) if fd.get('opposite') else None, 'default': None}
                 for fd in c['features']]
        classes.append({'name': c['name'], 'abstract': bool(c.get('abstract', False)), 'supers': list(c.get('supers', [])),
                        'features': feats, 'operations': [dict(o) for o in c.get('operations', [])]})
    return {'enums': [dict(e) for e in mm.get('enums', [])], 'classes': classes}


ATTR_DEFAULTS = {'EInt': [None, None, 5, 0, -3], 'EString': [None, None, 'a', ''], 'EBoolean': [None, True, False],
                 'EDouble': [None, 1.5], 'EJavaObject': [None, None, 7, 'j'], 'Color': [None]}
FNAMES = ['x', 'y', 'n', 'name', 'kids', 'parent', 'items', 'owner', 'val', 'flag', 'left', 'right', 'a1', 'b_2', '_p', 'z9']
ONAMES = ['describe', 'scale', 'ping', 'run', 'check_it']
PNAMES = ['k', 'unit', 'v', 'w', 'flag2']
CNAMES = ['A', 'B', 'C', 'D', 'Ee', 'F1', 'G', 'H']


def mro_ok(supers_of, name, supers):
    """would Python accept `class name(*supers)`?  (asked to Python itself, on plain classes)"""
    made = {}

    def mk(n):
        if n not in made:
            made[n] = type(n, tuple(mk(s) for s in supers_of[n]) or (object,), {})
        return made[n]
    try:
        type(name, tuple(mk(s) for s in supers), {})
        return True
    except TypeError:
        return False


def gen_descr(rng, max_classes=6):
    """a random well-formed description: distinct names, supertypes declared first (diamonds allowed, only bases
    Python's C3 accepts), attributes with defaults and bounds, references with symmetric opposites, containment,
    abstract classes, operations (required parameters first)"""
    ncls = rng.randrange(1, max_classes + 1)
    names = rng.sample(CNAMES, ncls)
    supers_of = {}
    classes = []
    for i, n in enumerate(names):
        sup = []
        if i and rng.random() < 0.6:
            sup = rng.sample(names[:i], min(i, rng.choice([1, 1, 2, 2, 3])))
            if not mro_ok(supers_of, n, sup):
                sup = sup[:1]
        supers_of[n] = sup
        classes.append({'name': n, 'abstract': rng.random() < 0.3, 'supers': sup, 'features': [], 'operations': []})
    for c in classes:
        pool = rng.sample(FNAMES, rng.choice([0, 1, 2, 3, 4, 6]))
        nops = rng.choice([0, 0, 1, 2])
        for on in rng.sample(ONAMES, nops):
            ps = rng.sample(PNAMES, rng.randrange(0, 4))
            nreq = rng.randrange(0, len(ps) + 1)
            c['operations'].append({'name': on, 'params': [{'name': p, 'required': j < nreq} for j, p in enumerate(ps)]})
        for fn in pool:
            if rng.random() < 0.5:
                t = rng.choice(BUILTIN_TYPES + ['Color'])
                up = rng.choice([1, 1, -1, -1, 3, 0, -2])
                c['features'].append({'name': fn, 'kind': 'attr', 'type': t, 'lower': rng.choice([0, 0, 1]), 'upper': up,
                                      'ordered': rng.random() < 0.8, 'unique': rng.random() < 0.7, 'containment': False,
                                      'opposite': None, 'default': rng.choice(ATTR_DEFAULTS[t])})
            else:
                c['features'].append({'name': fn, 'kind': 'ref', 'type': rng.choice(names), 'lower': rng.choice([0, 0, 1]),
                                      'upper': rng.choice([1, 1, -1, -1, 2]), 'ordered': rng.random() < 0.8,
                                      'unique': rng.random() < 0.8, 'containment': rng.random() < 0.3,
                                      'opposite': None, 'default': None})
    # symmetric opposites between references still free (a feature may be its own opposite)
    refs = [(c, fd) for c in classes for fd in c['features'] if fd['kind'] == 'ref']
    rng.shuffle(refs)
    while len(refs) >= 1 and rng.random() < 0.7:
        c1, f1 = refs.pop()
        if refs and rng.random() < 0.85:
            c2, f2 = refs.pop()
        else:
            c2, f2 = c1, f1
        if f1['containment'] and f2['containment']:
            f2['containment'] = False
        f1['opposite'] = [c2['name'], f2['name']]
        f2['opposite'] = [c1['name'], f1['name']]
    return {'enums': [dict(e) for e in ENUMS], 'classes': classes}


# ------------------------------------------------------------------ arbitrary class bodies (mode 1 of run_staticdecl)
# module = {'classes': [{'name','style': 'meta'|'deco'|'inherit','abstract','bases': [names], 'body': [entry]}],
#           'post': [['type', c, k, t] | ['opp', c, k, c2, k2]]}
# entry = {'key', 'kind': 'feat', 'ename': None|str, 'ref', 'type': None|name, 'lower','upper','ordered','unique','cont','default'}
#       | {'key', 'kind': 'func', 'args': [names], 'ndefaults': n} | {'key', 'kind': 'static'} | {'key', 'kind': 'other'}
BODY_KEYS = ['x', 'y', 'n', 'kids', 'owner', '_p', '__priv', '__du__', 'eClass', 'dyn_inst', '_staticEClass', 'm', 'run', 'z9']
FUNC_ARGS = [['self'], ['self', 'a'], ['self', 'a', 'b'], [], ['this'], ['this', 'self'], ['self', 'k', 'unit', 'w']]


def mangled(cname, key):
    if key.startswith('__') and not key.endswith('__') and cname.strip('_'):
        return '_' + cname.lstrip('_') + key
    return key


def gen_module(rng, max_classes=4):
    ncls = rng.randrange(1, max_classes + 1)
    names = rng.sample(CNAMES, ncls)
    supers_of, classes = {}, []
    for i, n in enumerate(names):
        sup = []
        if i and rng.random() < 0.5:
            sup = rng.sample(names[:i], min(i, rng.choice([1, 1, 2])))
            if not mro_ok(supers_of, n, sup):
                sup = sup[:1]
        supers_of[n] = sup
        body = []
        for _ in range(rng.choice([0, 1, 2, 3, 5, 7])):
            key = rng.choice(BODY_KEYS)
            r = rng.random()
            if r < 0.55:
                ref = rng.random() < 0.45
                t = None if ref or rng.random() < 0.15 else rng.choice(BUILTIN_TYPES)
                body.append({'key': key, 'kind': 'feat', 'ename': rng.choice([None, None, None, '', 'given', 'x', key]),
                             'ref': ref, 'type': t, 'lower': rng.choice([0, 1]), 'upper': rng.choice([1, -1, 2]),
                             'ordered': rng.random() < 0.8, 'unique': rng.random() < 0.8,
                             'cont': ref and rng.random() < 0.3,
                             'default': None if ref else rng.choice(ATTR_DEFAULTS[t or 'EJavaObject'])})
            elif r < 0.8:
                args = rng.choice(FUNC_ARGS)
                body.append({'key': key, 'kind': 'func', 'args': list(args), 'ndefaults': rng.randrange(0, len(args) + 1)})
            else:
                body.append({'key': key, 'kind': rng.choice(['static', 'other'])})
        style = 'inherit' if sup else rng.choice(['meta', 'deco'])
        classes.append({'name': n, 'style': style, 'abstract': rng.random() < 0.25, 'bases': sup, 'body': body})
    # what each key of a class finally holds
    final = {}
    for c in classes:
        ns = {}
        for e in c['body']:
            ns[mangled(c['name'], e['key'])] = e
        final[c['name']] = ns
    feats = [(c['name'], k, e) for c in classes for k, e in final[c['name']].items()
             if e['kind'] == 'feat' and k not in ('eClass', 'dyn_inst', '_staticEClass')]
    refs = [(cn, k) for cn, k, e in feats if e['ref']]
    post = []
    for cn, k, e in feats:
        if e['ref'] and rng.random() < 0.85:
            post.append(['type', cn, k, rng.choice(names)])
        elif rng.random() < 0.1:
            post.append(['type', cn, k, rng.choice(names + ['EInt'])])
    for _ in range(rng.choice([0, 0, 1, 2, 3])):
        if refs:
            a, b = rng.choice(refs), rng.choice(refs)
            post.append(['opp', a[0], a[1], b[0], b[1]])
    if rng.random() < 0.08:
        post.insert(rng.randrange(len(post) + 1), ['type', rng.choice(names), rng.choice(['zz_unknown', '__priv']), names[0]])
    return {'classes': classes, 'post': post}


def entry_source(e):
    k = e['key']
    if e['kind'] == 'feat':
        args = [] if e['ename'] is None else [f"name={e['ename']!r}"]
        if e['type'] is not None:
            args.append(f"eType={e['type']}")
        args += [f"lower={e['lower']}", f"upper={e['upper']}", f"ordered={e['ordered']}", f"unique={e['unique']}"]
        if e['ref']:
            args.append(f"containment={e['cont']}")
        elif e['default'] is not None:
            args.append(f"default_value={e['default']!r}")
        return [f"    {k} = {'EReference' if e['ref'] else 'EAttribute'}({', '.join(args)})"]
    if e['kind'] == 'func':
        n = len(e['args'])
        ps = [a if j < n - e['ndefaults'] else a + '=None' for j, a in enumerate(e['args'])]
        return [f"    def {k}({', '.join(ps)}):", '        return None']
    if e['kind'] == 'static':
        return [f"    {k} = staticmethod(_plain)"]
    return [f"    {k} = 3"]


def module_source(m):
    L = list(PRELUDE) + ['def _plain(a=None):', '    return None']
    for c in m['classes']:
        if c['abstract']:
            L.append('@abstract')
        if c['style'] == 'deco':
            L += ['@EMetaclass', f"class {c['name']}(object):"]
        elif c['style'] == 'meta':
            L.append(f"class {c['name']}(EObject, metaclass=MetaEClass):")
        else:
            L.append(f"class {c['name']}({', '.join(c['bases'])}):")
        body = []
        for e in c['body']:
            body += entry_source(e)
        L += body or ['    pass']
    for s in m['post']:
        if s[0] == 'type':
            L.append(f"{s[1]}.{s[2]}.eType = {s[3]}")
        else:
            L.append(f"{s[1]}.{s[2]}.eOpposite = {s[3]}.{s[4]}")
    return '\n'.join(L) + '\n'


def enc_module(m, intern):
    common.use_repo()
    from pyecore import ecore as E
    tab = [(n, intern.tok(getattr(E, n).default_value)) for n in BUILTIN_TYPES]
    t = [len(tab)]
    for n, d in tab:
        t += cps(n) + opt(d)
    t.append(len(m['classes']))
    for c in m['classes']:
        t += cps(c['name']) + [{'meta': 0, 'deco': 1, 'inherit': 2}[c['style']], int(c['abstract'])]
        bases = c['bases'] if c['style'] == 'inherit' else (['object'] if c['style'] == 'deco' else ['EObject'])
        t.append(len(bases))
        for b in bases:
            t += [0] if b == 'EObject' else [1] if b == 'object' else [2] + cps(b)
        t.append(len(c['body']))
        for e in c['body']:
            t += cps(e['key'])
            if e['kind'] == 'feat':
                t += [0] + ([0] if e['ename'] is None else [1] + cps(e['ename'])) + [int(e['ref'])]
                t += ([0] if e['type'] is None else [1] + cps(e['type']))
                t += [e['lower'], e['upper'], int(e['ordered']), int(e['unique']), int(e['cont'])] + opt(intern.tok(e['default']))
            elif e['kind'] == 'func':
                t += [1, len(e['args']), e['ndefaults']]
                for a in e['args']:
                    t += cps(a)
            else:
                t += [2 if e['kind'] == 'static' else 3]
    t.append(len(m['post']))
    for s in m['post']:
        t += ([0] + cps(s[1]) + cps(s[2]) + cps(s[3])) if s[0] == 'type' else ([1] + cps(s[1]) + cps(s[2]) + cps(s[3]) + cps(s[4]))
    return t


def ask_module(model, m, intern):
    r = Reader(model.ask('staticdecl', [1] + enc_module(m, intern)))
    res = r.result()
    assert r.i == len(r.t), 'trailing tokens'
    return res
