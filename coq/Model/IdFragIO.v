(* Token codec for Model/IdFrag.v (no proofs).  run_idfrag : list Z -> list Z
   input : variant (0 head | 1 old_json | 2 before_330f52e) :: n0 (first uuid4 draw) :: operations
     0            Save            1 n (o u? t?)*n   Load   (an option is two tokens: 0 0 = None, 1 z = Some z)
     2            Reload          3 o               Add
     4 o          Remove          5 o t?            SetIdAttr
     6 o          Ref             7 b               SetUuid
   output: after every operation: use_uuid, number of members, then per member (tree order) seven tokens
     o, has _internal_id (0/1), its value (0 if none), has usable id attribute, its value,
     fragment kind (1 id / 0 positional), resolve(fragment) is the object itself (0/1) *)
From Coq Require Import ZArith List Bool.
From PyecoreV Require Import Model.IdFrag.
Import ListNotations.
Local Open Scope Z_scope.

Definition dec_opt (a b : Z) : option Z := if Z.eqb a 0 then None else Some b.

Fixpoint dec_entries (n : nat) (t : list Z) : doc * list Z :=
  match n, t with
  | S k, o :: a :: b :: c :: d :: r =>
    let (es, r') := dec_entries k r in
    ((Z.to_nat o, dec_opt a b, dec_opt c d) :: es, r')
  | _, _ => ([], t)
  end.

Fixpoint dec_ops (fuel : nat) (t : list Z) : list op :=
  match fuel with
  | O => []
  | S k =>
    match t with
    | 0 :: r => Save :: dec_ops k r
    | 1 :: n :: r => let (d, r') := dec_entries (Z.to_nat n) r in Load d :: dec_ops k r'
    | 2 :: r => Reload :: dec_ops k r
    | 3 :: o :: r => Add (Z.to_nat o) :: dec_ops k r
    | 4 :: o :: r => Remove (Z.to_nat o) :: dec_ops k r
    | 5 :: o :: a :: b :: r => SetIdAttr (Z.to_nat o) (dec_opt a b) :: dec_ops k r
    | 6 :: o :: r => Ref (Z.to_nat o) :: dec_ops k r
    | 7 :: b :: r => SetUuid (negb (Z.eqb b 0)) :: dec_ops k r
    | _ => []
    end
  end.

Definition enc_opt (x : option Z) : list Z := match x with Some z => [1; z] | None => [0; 0] end.
Definition enc_bool (b : bool) : Z := if b then 1 else 0.

Definition observe (s : state) : list Z :=
  enc_bool (use_uuid s) :: Z.of_nat (length (members s)) ::
  flat_map (fun o => Z.of_nat o :: enc_opt (internal s o) ++ enc_opt (idattr s o) ++
                     [match fragment_of s o with FId _ => 1 | FPos _ => 0 end; enc_bool (resolves_back s o)])
           (members s).

Fixpoint run_obs (v : variant) (s : state) (h : list op) : list Z :=
  match h with
  | [] => []
  | a :: r => let s' := step v s a in observe s' ++ run_obs v s' r
  end.

Definition dec_variant (z : Z) : variant :=
  if Z.eqb z 1 then old_json else if Z.eqb z 2 then before_330f52e else head.

Definition run_idfrag (t : list Z) : list Z :=
  match t with
  | v :: n0 :: r => run_obs (dec_variant v) (init n0) (dec_ops (length r) r)
  | _ => []
  end.
