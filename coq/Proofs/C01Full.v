(* C01 completed for metamodels without containment: self-opposite linking,
   shape preservation, the composite operations of `step`, and the assembled
   step / history theorems.  Builds on Proofs/C01Proofs.v. *)
From Coq Require Import ZArith List Bool Arith Lia.
From PyecoreV Require Import Lib.PyBase Lib.PyList Model.Kernel Proofs.PyListFacts Proofs.KernelFacts Proofs.C01Proofs.
Import ListNotations.
Open Scope nat_scope.

Definition Inv (m : mm) (s : state) : Prop := sym m s /\ shape m s.

(* ---------- small facts on values and lists ---------- *)
Lemma veqb_refl v : veqb v v = true.
Proof.
  destruct v; unfold veqb; simpl; rewrite ?Z.eqb_refl, ?Nat.eqb_refl; try reflexivity.
Qed.

Lemma In_vmem v l : In v l -> vmem v l = true.
Proof.
  unfold vmem. induction l as [|w l IH]; simpl; intros H; [contradiction|].
  destruct H as [H|H]; [subst w; rewrite veqb_refl; reflexivity | rewrite (IH H); apply orb_true_r].
Qed.

Lemma veqb_nonobj w v : obj_of v = None -> veqb w v = true -> obj_of w = None.
Proof. destruct w, v; simpl; intros H1 H2; try reflexivity; try discriminate. Qed.

Lemma objs_of_cons_nonobj v l : obj_of v = None -> objs_of (v :: l) = objs_of l.
Proof. destruct v; simpl; intros H; try reflexivity; discriminate. Qed.

Lemma objs_of_cons_obj y l : objs_of (VObj y :: l) = y :: objs_of l.
Proof. reflexivity. Qed.

Lemma objs_of_cons_cases v l :
  (exists y, v = VObj y /\ objs_of (v :: l) = y :: objs_of l) \/ (obj_of v = None /\ objs_of (v :: l) = objs_of l).
Proof. destruct v; simpl; try (right; split; reflexivity). left. exists o. split; reflexivity. Qed.

Lemma remove_first_objs_nonobj v l l' :
  obj_of v = None -> remove_first veqb v l = Some l' -> objs_of l' = objs_of l.
Proof.
  intros Hv. revert l'. induction l as [|a r IH]; cbn [remove_first]; intros l' H; [discriminate|].
  destruct (veqb a v) eqn:E.
  - inversion H; subst l'. symmetry. apply objs_of_cons_nonobj. exact (veqb_nonobj a v Hv E).
  - destruct (remove_first veqb v r) as [r'|]; [|discriminate]. inversion H; subst l'.
    specialize (IH r' eq_refl).
    destruct (objs_of_cons_cases a r) as [[y [Ea E1]]|[Ea E1]].
    + subst a. simpl. rewrite IH. reflexivity.
    + rewrite E1. rewrite (objs_of_cons_nonobj a r' Ea). exact IH.
Qed.

Lemma raw_remove_objs_nonobj v l : obj_of v = None -> objs_of (raw_remove v l) = objs_of l.
Proof.
  intros Hv. unfold raw_remove. destruct (remove_first veqb v l) as [l'|] eqn:E; [|reflexivity].
  exact (remove_first_objs_nonobj v l l' Hv E).
Qed.

Lemma remove_first_objs_sub v l l' :
  remove_first veqb v l = Some l' ->
  (forall o, In o (objs_of l') -> In o (objs_of l)) /\ (NoDup (objs_of l) -> NoDup (objs_of l')).
Proof.
  revert l'. induction l as [|a r IH]; cbn [remove_first]; intros l' H; [discriminate|].
  destruct (veqb a v) eqn:E.
  - inversion H; subst l'.
    destruct (objs_of_cons_cases a r) as [[y [Ea E1]]|[Ea E1]]; rewrite E1.
    + split; [intros o Ho; right; exact Ho | intros ND; inversion ND; assumption].
    + split; [intros o Ho; exact Ho | intros ND; exact ND].
  - destruct (remove_first veqb v r) as [r'|]; [|discriminate]. inversion H; subst l'.
    destruct (IH r' eq_refl) as [Hsub Hnd].
    destruct (objs_of_cons_cases a r) as [[y [Ea E1]]|[Ea E1]].
    + subst a. simpl. split.
      * intros o [Ho|Ho]; [left; exact Ho | right; apply Hsub; exact Ho].
      * intros ND. inversion ND as [|? ? Hn ND']; subst. constructor; [|apply Hnd; exact ND'].
        intros Ho. apply Hn. apply Hsub. exact Ho.
    + rewrite E1. rewrite (objs_of_cons_nonobj a r' Ea). split; assumption.
Qed.

Lemma nodup_raw_remove v l : nodup_objs l -> nodup_objs (raw_remove v l).
Proof.
  unfold nodup_objs, raw_remove. intros ND.
  destruct (remove_first veqb v l) as [l'|] eqn:E; [|exact ND].
  exact (proj2 (remove_first_objs_sub v l l' E) ND).
Qed.

Lemma remove_first_is_remove_at y l n :
  nodup_objs l -> nth_error l n = Some (VObj y) ->
  remove_first veqb (VObj y) l = Some (remove_at n l).
Proof.
  unfold nodup_objs. revert n. induction l as [|a r IH]; intros n ND H; [destruct n; discriminate|].
  destruct n as [|n]; cbn [nth_error remove_first remove_at] in *.
  - inversion H; subst a. rewrite veqb_refl. reflexivity.
  - destruct (veqb a (VObj y)) eqn:E.
    + apply veqb_obj_r in E. subst a. simpl in ND. inversion ND as [|? ? Hn ND']; subst.
      exfalso. apply Hn. apply objs_of_In. eapply nth_error_In; eauto.
    + assert (ND' : NoDup (objs_of r)).
      { destruct (objs_of_cons_cases a r) as [[z [Ea E1]]|[Ea E1]]; rewrite E1 in ND;
          [inversion ND; assumption | exact ND]. }
      rewrite (IH n ND' H). reflexivity.
Qed.

Lemma remove_at_objs_nonobj {v} l n :
  nth_error l n = Some v -> obj_of v = None -> objs_of (remove_at n l) = objs_of l.
Proof.
  revert n. induction l as [|a r IH]; intros n H Hv; [destruct n; discriminate|].
  destruct n as [|n]; cbn [nth_error remove_at] in *.
  - inversion H; subst a. symmetry. apply objs_of_cons_nonobj. exact Hv.
  - specialize (IH n H Hv).
    destruct (objs_of_cons_cases a r) as [[z [Ea E1]]|[Ea E1]].
    + subst a. simpl. rewrite IH. reflexivity.
    + rewrite E1. rewrite (objs_of_cons_nonobj a _ Ea). exact IH.
Qed.

Lemma py_pop_nth {A} i (l l' : list A) v :
  py_pop i l = Some (v, l') -> exists n, nth_error l n = Some v /\ l' = remove_at n l.
Proof.
  unfold py_pop. destruct (norm_index (zlen l) i) as [k|]; [|discriminate].
  destruct (nth_error l (Z.to_nat k)) eqn:E; [|discriminate]. intros H; inversion H; subst.
  exists (Z.to_nat k). split; [exact E | reflexivity].
Qed.

Lemma objs_of_app_nonobj v l : obj_of v = None -> objs_of (l ++ [v]) = objs_of l.
Proof.
  intros Hv. rewrite objs_of_app. rewrite (objs_of_cons_nonobj v [] Hv). simpl. apply app_nil_r.
Qed.

Lemma objs_of_insert_at_nonobj v n l : obj_of v = None -> objs_of (insert_at n v l) = objs_of l.
Proof.
  intros Hv. revert n. induction l as [|a r IH]; intros n.
  { destruct n; cbn [insert_at]; apply (objs_of_cons_nonobj v _ Hv). }
  destruct n as [|n]; cbn [insert_at]; [apply (objs_of_cons_nonobj v _ Hv)|].
  destruct (objs_of_cons_cases a r) as [[z [Ea E1]]|[Ea E1]].
  - subst a. simpl. rewrite IH. reflexivity.
  - rewrite E1. rewrite (objs_of_cons_nonobj a _ Ea). apply IH.
Qed.

Lemma raw_append_objs_nonobj u v l : obj_of v = None -> objs_of (raw_append u v l) = objs_of l.
Proof.
  intros Hv. unfold raw_append. destruct (u && vmem v l); [reflexivity | apply objs_of_app_nonobj; exact Hv].
Qed.

Lemma raw_insert_objs_nonobj u i v l : obj_of v = None -> objs_of (raw_insert u i v l) = objs_of l.
Proof.
  intros Hv. unfold raw_insert. destruct (u && vmem v l); [reflexivity|].
  unfold py_insert. apply objs_of_insert_at_nonobj. exact Hv.
Qed.

Lemma nodup_insert_at_obj y n l :
  nodup_objs l -> ~ In (VObj y) l -> nodup_objs (insert_at n (VObj y) l).
Proof.
  unfold nodup_objs. intros ND Hn. revert n ND Hn. induction l as [|a r IH]; intros n ND Hn.
  - destruct n; simpl; (constructor; [intros [] | constructor]).
  - destruct n as [|n]; cbn [insert_at].
    + rewrite objs_of_cons_obj. constructor; [rewrite objs_of_In; exact Hn | exact ND].
    + assert (Hn' : ~ In (VObj y) r) by (intros H; apply Hn; right; exact H).
      destruct (objs_of_cons_cases a r) as [[z [Ea E1]]|[Ea E1]].
      * subst a. rewrite objs_of_cons_obj in *. inversion ND as [|? ? Hz ND']; subst.
        constructor; [|apply IH; assumption].
        rewrite objs_of_In. intros H. apply insert_at_In in H. destruct H as [H|H].
        -- apply Hn. left. exact H.
        -- apply Hz. apply objs_of_In. exact H.
      * rewrite E1 in ND. rewrite (objs_of_cons_nonobj a _ Ea). apply IH; assumption.
Qed.

Lemma nodup_raw_insert i v l : nodup_objs l -> nodup_objs (raw_insert true i v l).
Proof.
  intros ND. destruct (obj_of v) as [y|] eqn:Ev.
  - apply obj_of_Some' in Ev. subst v. unfold raw_insert. simpl.
    destruct (vmem (VObj y) l) eqn:E; [exact ND|]. apply vmem_obj_false in E.
    unfold py_insert. apply nodup_insert_at_obj; assumption.
  - unfold nodup_objs. rewrite (raw_insert_objs_nonobj true i v l Ev). exact ND.
Qed.

Lemma nodup_raw_append v l : nodup_objs l -> nodup_objs (raw_append true v l).
Proof.
  intros ND. destruct (obj_of v) as [y|] eqn:Ev.
  - apply obj_of_Some' in Ev. subst v. apply raw_append_nodup. exact ND.
  - unfold nodup_objs. rewrite (raw_append_objs_nonobj true v l Ev). exact ND.
Qed.

Lemma nodup_single v : nodup_objs [v].
Proof. unfold nodup_objs. destruct v; simpl; repeat constructor; intros []. Qed.

Lemma upd_comm {A} (V : cell -> A) k1 k2 a b k :
  k1 <> k2 -> upd (upd V k1 a) k2 b k = upd (upd V k2 b) k1 a k.
Proof.
  intros N. unfold upd. destruct (cell_eqb_spec k2 k), (cell_eqb_spec k1 k); try reflexivity. congruence.
Qed.

Lemma upd_upd {A} (V : cell -> A) k1 a b k : upd (upd V k1 a) k1 b k = upd V k1 b k.
Proof. unfold upd. destruct (cell_eqb k1 k); reflexivity. Qed.

Lemma upd_ext {A} (V W : cell -> A) k1 a : (forall k, V k = W k) -> forall k, upd V k1 a k = upd W k1 a k.
Proof. intros E k. unfold upd. destruct (cell_eqb k1 k); [reflexivity | apply E]. Qed.

(* ---------- symmetry / shape only depend on the objects held ---------- *)
Lemma sym_objs_ext m s s' :
  (forall k, objs_of (vals s' k) = objs_of (vals s k)) -> sym m s -> sym m s'.
Proof.
  intros E H f g Hfg a b. unfold R. rewrite <- !objs_of_In. rewrite !E. rewrite !objs_of_In.
  exact (H f g Hfg a b).
Qed.

Lemma Inv_ext m s s' : (forall k, vals s' k = vals s k) -> Inv m s -> Inv m s'.
Proof. intros E [H1 H2]. split; [exact (sym_ext m s s' E H1) | exact (shape_ext m s s' E H2)]. Qed.

Lemma Inv_objs_ext_cell m s s' x f :
  f_many (fd m f) = true ->
  (forall k, k <> (x, f) -> vals s' k = vals s k) ->
  objs_of (vals s' (x, f)) = objs_of (vals s (x, f)) ->
  Inv m s -> Inv m s'.
Proof.
  intros Hm Hfr Hobj [Hs Hsh]. split.
  - apply (sym_objs_ext m s s'); [|exact Hs]. intros k.
    destruct (cell_eqb_spec k (x, f)) as [E|N]; [subst k; exact Hobj | rewrite (Hfr k N); reflexivity].
  - intros a h. destruct (cell_eqb_spec (a, h) (x, f)) as [E|N].
    + inversion E; subst a h. split; [intros C; congruence|].
      intros Ho. unfold nodup_objs. rewrite Hobj. exact (proj2 (Hsh x f) Ho).
    + rewrite (Hfr _ N). exact (Hsh a h).
Qed.

(* a feature without opposite is nobody's opposite: only the frame matters *)
Lemma Inv_frame_noopp m s s' x f :
  wf_opp m -> f_opp (fd m f) = None ->
  (forall k, k <> (x, f) -> vals s' k = vals s k) ->
  (f_many (fd m f) = false -> exists v, vals s' (x, f) = [v]) ->
  Inv m s -> Inv m s'.
Proof.
  intros Hwf Hno Hfr Hsing [Hs Hsh]. split.
  - intros f' g' Hfg a b. destruct (Hwf f' g' Hfg) as [Hgf _]. unfold R.
    rewrite (Hfr (a, f')) by (intros E; inversion E; congruence).
    rewrite (Hfr (b, g')) by (intros E; inversion E; congruence).
    exact (Hs f' g' Hfg a b).
  - intros a h. destruct (cell_eqb_spec (a, h) (x, f)) as [E|N].
    + inversion E; subst a h. split; [exact Hsing | intros C; congruence].
    + rewrite (Hfr _ N). exact (Hsh a h).
Qed.

(* ---------- SHAPE: one lemma per kernel procedure (no containment) ---------- *)
Section Shape.
Variable m : mm.
Hypothesis Hnc : no_containment m.
Hypothesis Hwf : wf_opp m.

Lemma wf_unique f : f_opp (fd m f) <> None -> f_many (fd m f) = true -> f_unique (fd m f) = true.
Proof.
  intros Ho Hm. destruct (f_opp (fd m f)) as [g|] eqn:E; [|congruence].
  destruct (Hwf f g E) as [_ [_ Hu]]. exact (Hu Hm).
Qed.

Lemma shape_set_vals s k l :
  shape m s ->
  (f_many (fd m (snd k)) = false -> exists v, l = [v]) ->
  (f_opp (fd m (snd k)) <> None -> nodup_objs l) ->
  shape m (set_vals s k l).
Proof.
  intros H H1 H2 a f. cbn [vals set_vals]. unfold upd.
  destruct (cell_eqb_spec k (a, f)) as [E|N]; [subst k; split; assumption | exact (H a f)].
Qed.

Lemma shape_write1 s k v : shape m s -> shape m (set_vals s k [v]).
Proof.
  intros H. apply shape_set_vals; [exact H | intros _; exists v; reflexivity | intros _; apply nodup_single].
Qed.

Lemma shape_set_store s k v : shape m s -> shape m (set_store m s k v).
Proof. intros H. exact (shape_write1 s k v H). Qed.

Lemma shape_set_none_raw s k : shape m s -> shape m (set_none_raw m s k).
Proof.
  intros H. apply (shape_ext m (set_vals s k [VNone])); [|exact (shape_write1 s k VNone H)].
  intros k'. rewrite (vals_set_none_raw m Hnc). reflexivity.
Qed.

Lemma shape_set_obj_raw s k x : shape m s -> shape m (set_obj_raw m s k x).
Proof.
  intros H. apply (shape_ext m (set_vals s k [VObj x])); [|exact (shape_write1 s k (VObj x) H)].
  intros k'. rewrite (vals_set_obj_raw m Hnc). reflexivity.
Qed.

Lemma shape_coll_remove_raw s k x :
  shape m s -> f_many (fd m (snd k)) = true -> shape m (coll_remove_raw m s k x).
Proof.
  intros H Hm.
  destruct (vmem (VObj x) (vals s k)) eqn:E.
  - apply (shape_ext m (set_vals s k (raw_remove (VObj x) (vals s k)))).
    + intros k'. rewrite (vals_coll_remove_raw m Hnc). rewrite E. reflexivity.
    + apply shape_set_vals; [exact H | intros C; congruence|].
      intros Ho. apply nodup_raw_remove. destruct k as [a f]. exact (proj2 (H a f) Ho).
  - apply (shape_ext m s); [|exact H]. intros k'. rewrite (vals_coll_remove_raw m Hnc). rewrite E. reflexivity.
Qed.

Lemma shape_coll_append_raw s k x :
  shape m s -> f_many (fd m (snd k)) = true -> shape m (coll_append_raw m s k x).
Proof.
  intros H Hm.
  apply (shape_ext m (set_vals s k (raw_append (f_unique (fd m (snd k))) (VObj x) (vals s k)))).
  - intros k'. rewrite (vals_coll_append_raw m Hnc). reflexivity.
  - apply shape_set_vals; [exact H | intros C; congruence|].
    intros Ho. rewrite (wf_unique _ Ho Hm). apply nodup_raw_append. destruct k as [a f]. exact (proj2 (H a f) Ho).
Qed.

Lemma shape_inv_add s o c : shape m s -> shape m (inv_add s o c).
Proof. intros H. unfold inv_add. destruct (cmem c (inv s o)); exact H. Qed.

Lemma shape_update_opposite_remove s x f y :
  shape m s -> shape m (update_opposite_remove m s x f y).
Proof.
  intros H. unfold update_opposite_remove. destruct (f_opp (fd m f)) as [g|].
  - destruct (f_many (fd m g)) eqn:Hg.
    + destruct (cell_eqb (y, g) (x, f)); [exact H | apply shape_coll_remove_raw; assumption].
    + apply shape_set_none_raw; exact H.
  - destruct (cmem (x, f) (inv s y)); [exact H | apply shape_inv_add; exact H].
Qed.

Lemma shape_unlink_elem s x f v : shape m s -> shape m (unlink_elem m s x f v).
Proof.
  intros H. unfold unlink_elem. destruct (f_isref (fd m f)); [|exact H].
  destruct (obj_of v); [|exact H]. rewrite (uc_clear_id m Hnc). apply shape_update_opposite_remove; exact H.
Qed.

Lemma shape_coll_remove_full s x f v :
  shape m s -> f_many (fd m f) = true -> shape m (coll_remove_full m s (x, f) v).
Proof.
  intros H Hm. unfold coll_remove_full. fold (unlink_elem m s x f v).
  set (s1 := unlink_elem m s x f v).
  assert (H1 : shape m s1) by (apply shape_unlink_elem; exact H).
  apply (shape_ext m (set_vals s1 (x, f) (raw_remove v (vals s1 (x, f))))); [reflexivity|].
  apply shape_set_vals; [exact H1 | intros C; cbn [snd] in C; congruence|].
  intros Ho. apply nodup_raw_remove. exact (proj2 (H1 x f) Ho).
Qed.

Lemma shape_set_full s x f v :
  shape m s -> f_many (fd m f) = false -> shape m (snd (set_full m s (x, f) v)).
Proof.
  intros H Hs. unfold set_full.
  destruct (check_single m f v); cbn [negb]; [|exact H].
  assert (H1 : shape m (set_store m s (x, f) v)) by (apply shape_set_store; exact H).
  destruct (f_isref (fd m f)); cbn [negb]; [|exact H1].
  rewrite (update_container_id m Hnc).
  destruct (f_opp (fd m f)) as [g|] eqn:Eg.
  - set (s3 := match obj_of (single s (x, f)) with
               | Some q =>
                 if match obj_of v with Some y => y =? q | None => false end then set_store m s (x, f) v
                 else if f_many (fd m g) then coll_remove_raw m (set_store m s (x, f) v) (q, g) x
                 else if cell_eqb (q, g) (x, f) then set_store m s (x, f) v
                      else set_none_raw m (set_store m s (x, f) v) (q, g)
               | None => set_store m s (x, f) v end).
    assert (H3 : shape m s3).
    { unfold s3. destruct (obj_of (single s (x, f))) as [q|]; [|exact H1].
      destruct (match obj_of v with Some y => y =? q | None => false end); [exact H1|].
      destruct (f_many (fd m g)) eqn:Hg; [apply shape_coll_remove_raw; assumption|].
      destruct (cell_eqb (q, g) (x, f)); [exact H1 | apply shape_set_none_raw; exact H1]. }
    destruct (obj_of v) as [y|]; [|exact H3].
    destruct (f_many (fd m g)) eqn:Hg; cbn [snd].
    + apply shape_coll_append_raw; assumption.
    + apply shape_set_obj_raw.
      destruct (obj_of (single s3 (y, g))) as [c|]; [|exact H3].
      destruct (c =? x); [exact H3 | apply shape_set_none_raw; exact H3].
  - cbn [snd]. destruct (obj_of v) as [y|].
    + apply shape_inv_add. destruct (obj_of (single s (x, f))); exact H1.
    + destruct (obj_of (single s (x, f))); exact H1.
Qed.

Lemma shape_update_opposite_add s x f y :
  shape m s -> f_many (fd m f) = true -> shape m (update_opposite_add m s x f y).
Proof.
  intros H Hm. unfold update_opposite_add. destruct (f_opp (fd m f)) as [g|].
  - destruct (f_many (fd m g)) eqn:Hg.
    + destruct (cell_eqb (y, g) (x, f)); [exact H | apply shape_coll_append_raw; assumption].
    + apply shape_set_obj_raw.
      destruct (obj_of (single s (y, g))) as [c|]; [|exact H].
      destruct (c =? x); [exact H | apply shape_coll_remove_raw; assumption].
  - apply shape_inv_add; exact H.
Qed.

Lemma shape_link_elem s x f v :
  shape m s -> f_many (fd m f) = true -> shape m (link_elem m s x f v).
Proof.
  intros H Hm. unfold link_elem. destruct (f_isref (fd m f)); [|exact H].
  destruct (obj_of v); [|exact H]. rewrite (update_container_id m Hnc).
  apply shape_update_opposite_add; assumption.
Qed.

Lemma shape_coll_add_full s x f pos v :
  shape m s -> f_many (fd m f) = true -> shape m (snd (coll_add_full m s (x, f) pos v)).
Proof.
  intros H Hm. unfold coll_add_full.
  destruct (check_elem m f v); cbn [negb]; [|exact H].
  set (s1 := link_elem m s x f v).
  assert (H1 : shape m s1) by (apply shape_link_elem; assumption).
  cbn [snd].
  apply (shape_ext m (set_vals s1 (x, f)
     match pos with
     | Some i => raw_insert (f_unique (fd m f)) i v (vals s1 (x, f))
     | None => raw_append (f_unique (fd m f)) v (vals s1 (x, f)) end)); [reflexivity|].
  apply shape_set_vals; [exact H1 | intros C; cbn [snd] in C; congruence|].
  cbn [snd]. intros Ho. rewrite (wf_unique f Ho Hm).
  destruct pos; [apply nodup_raw_insert | apply nodup_raw_append]; exact (proj2 (H1 x f) Ho).
Qed.

End Shape.

(* ---------- value store after unlink_elem / link_elem (no containment) ---------- *)
Section Stores.
Variable m : mm.
Hypothesis Hnc : no_containment m.
Hypothesis Hwf : wf_opp m.

Definition Uval (V : cell -> list value) (x : oid) (f : fid) (v : value) : cell -> list value :=
  if f_isref (fd m f) then
    match obj_of v with
    | Some y =>
      match f_opp (fd m f) with
      | None => V
      | Some g =>
        if f_many (fd m g) then
          if cell_eqb (y, g) (x, f) then V
          else if vmem (VObj x) (V (y, g)) then upd V (y, g) (raw_remove (VObj x) (V (y, g))) else V
        else upd V (y, g) [VNone]
      end
    | None => V
    end
  else V.

Lemma vals_unlink s x f v : vals (unlink_elem m s x f v) = Uval (vals s) x f v.
Proof.
  unfold unlink_elem, Uval. destruct (f_isref (fd m f)); [|reflexivity].
  destruct (obj_of v) as [y|]; [|reflexivity]. rewrite (uc_clear_id m Hnc).
  unfold update_opposite_remove. destruct (f_opp (fd m f)) as [g|].
  - destruct (f_many (fd m g)).
    + destruct (cell_eqb (y, g) (x, f)); [reflexivity|].
      rewrite (vals_coll_remove_raw m Hnc). destruct (vmem (VObj x) (vals s (y, g))); reflexivity.
    + rewrite (vals_set_none_raw m Hnc). reflexivity.
  - destruct (cmem (x, f) (inv s y)); [reflexivity|]. unfold inv_add.
    destruct (cmem (x, f) (inv s y)); reflexivity.
Qed.

Lemma Uval_comm V x f v L :
  f_many (fd m f) = true ->
  forall k, Uval (upd V (x, f) L) x f v k = upd (Uval V x f v) (x, f) L k.
Proof.
  intros Hm k. unfold Uval. destruct (f_isref (fd m f)); [|reflexivity].
  destruct (obj_of v) as [y|]; [|reflexivity].
  destruct (f_opp (fd m f)) as [g|]; [|reflexivity].
  destruct (f_many (fd m g)) eqn:Hg.
  - destruct (cell_eqb_spec (y, g) (x, f)) as [E|N]; [reflexivity|].
    rewrite (upd_other V (x, f) (y, g)) by (intros E; apply N; symmetry; exact E).
    destruct (vmem (VObj x) (V (y, g))); [|reflexivity].
    apply upd_comm. intros E; apply N; symmetry; exact E.
  - apply upd_comm. intros E; inversion E; congruence.
Qed.

Lemma Uval_own V x f v : f_many (fd m f) = true -> Uval V x f v (x, f) = V (x, f).
Proof.
  intros Hm. unfold Uval. destruct (f_isref (fd m f)); [|reflexivity].
  destruct (obj_of v) as [y|]; [|reflexivity].
  destruct (f_opp (fd m f)) as [g|]; [|reflexivity].
  destruct (f_many (fd m g)) eqn:Hg.
  - destruct (cell_eqb_spec (y, g) (x, f)) as [E|N]; [reflexivity|].
    destruct (vmem (VObj x) (V (y, g))); [|reflexivity]. apply upd_other. exact N.
  - apply upd_other. intros E; inversion E; congruence.
Qed.

Definition Lval (V : cell -> list value) (x : oid) (f : fid) (v : value) : cell -> list value :=
  if f_isref (fd m f) then
    match obj_of v with
    | Some y =>
      match f_opp (fd m f) with
      | None => V
      | Some g =>
        if f_many (fd m g) then
          if cell_eqb (y, g) (x, f) then V
          else upd V (y, g) (raw_append (f_unique (fd m g)) (VObj x) (V (y, g)))
        else
          let V1 := match obj_of (hdv (V (y, g))) with
                    | Some c => if c =? x then V
                                else if vmem (VObj y) (V (c, f)) then upd V (c, f) (raw_remove (VObj y) (V (c, f)))
                                else V
                    | None => V
                    end in
          upd V1 (y, g) [VObj x]
      end
    | None => V
    end
  else V.

Lemma vals_link s x f v : vals (link_elem m s x f v) = Lval (vals s) x f v.
Proof.
  unfold link_elem, Lval. destruct (f_isref (fd m f)); [|reflexivity].
  destruct (obj_of v) as [y|]; [|reflexivity]. rewrite (update_container_id m Hnc).
  unfold update_opposite_add. destruct (f_opp (fd m f)) as [g|].
  - destruct (f_many (fd m g)).
    + destruct (cell_eqb (y, g) (x, f)); [reflexivity|].
      rewrite (vals_coll_append_raw m Hnc). reflexivity.
    + rewrite (vals_set_obj_raw m Hnc). change (single s (y, g)) with (hdv (vals s (y, g))).
      destruct (obj_of (hdv (vals s (y, g)))) as [c|]; [|reflexivity].
      destruct (c =? x); [reflexivity|]. rewrite (vals_coll_remove_raw m Hnc).
      destruct (vmem (VObj y) (vals s (c, f))); reflexivity.
  - unfold inv_add. destruct (cmem (x, f) (inv s y)); reflexivity.
Qed.

Lemma Lval_comm V x f v L :
  f_many (fd m f) = true ->
  forall k, Lval (upd V (x, f) L) x f v k = upd (Lval V x f v) (x, f) L k.
Proof.
  intros Hm k. unfold Lval. destruct (f_isref (fd m f)); [|reflexivity].
  destruct (obj_of v) as [y|]; [|reflexivity].
  destruct (f_opp (fd m f)) as [g|]; [|reflexivity].
  destruct (f_many (fd m g)) eqn:Hg.
  - destruct (cell_eqb_spec (y, g) (x, f)) as [E|N]; [reflexivity|].
    rewrite (upd_other V (x, f) (y, g)) by (intros E; apply N; symmetry; exact E).
    apply upd_comm. intros E; apply N; symmetry; exact E.
  - assert (Ng : (x, f) <> (y, g)) by (intros E; inversion E; congruence).
    rewrite (upd_other V (x, f) (y, g)) by exact Ng. cbv zeta.
    destruct (obj_of (hdv (V (y, g)))) as [c|].
    + destruct (Nat.eqb_spec c x) as [Ec|Nc]; [apply upd_comm; exact Ng|].
      assert (Ncf : (x, f) <> (c, f)) by (intros E; inversion E; congruence).
      rewrite (upd_other V (x, f) (c, f)) by exact Ncf.
      destruct (vmem (VObj y) (V (c, f))); [|apply upd_comm; exact Ng].
      unfold upd.
      destruct (cell_eqb_spec (y, g) k), (cell_eqb_spec (c, f) k), (cell_eqb_spec (x, f) k);
        try reflexivity; congruence.
    + apply upd_comm. exact Ng.
Qed.

Lemma Lval_own V x f v : f_many (fd m f) = true -> Lval V x f v (x, f) = V (x, f).
Proof.
  intros Hm. unfold Lval. destruct (f_isref (fd m f)); [|reflexivity].
  destruct (obj_of v) as [y|]; [|reflexivity].
  destruct (f_opp (fd m f)) as [g|]; [|reflexivity].
  destruct (f_many (fd m g)) eqn:Hg.
  - destruct (cell_eqb_spec (y, g) (x, f)) as [E|N]; [reflexivity|]. apply upd_other. exact N.
  - cbv zeta. rewrite upd_other by (intros E; inversion E; congruence).
    destruct (obj_of (hdv (V (y, g)))) as [c|]; [|reflexivity].
    destruct (Nat.eqb_spec c x) as [Ec|Nc]; [reflexivity|].
    destruct (vmem (VObj y) (V (c, f))); [|reflexivity].
    apply upd_other. intros E; inversion E; congruence.
Qed.
End Stores.

(* ---------- self-opposite features: symmetric change of ONE edge relation ---------- *)
Lemma sym_by_delta_self m s s' f (Dl Ad : oid -> oid -> Prop) :
  wf_opp m -> sym m s -> f_opp (fd m f) = Some f ->
  (forall a b, Dl a b -> Dl b a) -> (forall a b, Ad a b -> Ad b a) ->
  (forall a b, R s' f a b <-> (R s f a b /\ ~ Dl a b) \/ Ad a b) ->
  (forall h a, h <> f -> vals s' (a, h) = vals s (a, h)) ->
  sym m s'.
Proof.
  intros Hwf Hsym Hff HDl HAd HR Hother f' g' Hfg' a b.
  destruct (Nat.eq_dec f' f) as [Ef|Nf].
  - subst f'. rewrite Hff in Hfg'. inversion Hfg'; subst g'.
    rewrite !HR. pose proof (Hsym f f Hff a b) as S1.
    pose proof (HDl a b). pose proof (HDl b a). pose proof (HAd a b). pose proof (HAd b a). tauto.
  - assert (Ng : g' <> f).
    { destruct (Hwf f' g' Hfg') as [Hg'f' _]. intros E; subst g'. congruence. }
    unfold R. rewrite (Hother f' a Nf), (Hother g' b Ng). exact (Hsym f' g' Hfg' a b).
Qed.

(* the store after x.f = y for a single-valued self-opposite f *)
Definition WS (V : cell -> list value) (x y : oid) (f : fid) : cell -> list value :=
  let V1 := upd V (x, f) [VObj y] in
  let V3 := match obj_of (hdv (V (x, f))) with
            | Some q => if y =? q then V1 else if cell_eqb (q, f) (x, f) then V1 else upd V1 (q, f) [VNone]
            | None => V1
            end in
  let V4 := match obj_of (hdv (V3 (y, f))) with
            | Some c => if c =? x then V3 else upd V3 (c, f) [VNone]
            | None => V3
            end in
  upd V4 (y, f) [VObj x].

Lemma WS_V3_at_y (V : cell -> list value) (x y : oid) (f : fid) :
  (match obj_of (hdv (V (x, f))) with
   | Some q => if y =? q then upd V (x, f) [VObj y]
               else if cell_eqb (q, f) (x, f) then upd V (x, f) [VObj y]
               else upd (upd V (x, f) [VObj y]) (q, f) [VNone]
   | None => upd V (x, f) [VObj y]
   end) (y, f) = if y =? x then [VObj y] else V (y, f).
Proof.
  destruct (Nat.eqb_spec y x) as [E|N].
  - subst y. destruct (obj_of (hdv (V (x, f)))) as [q|]; [|apply upd_same].
    destruct (x =? q); [apply upd_same|].
    destruct (cell_eqb_spec (q, f) (x, f)) as [E|N]; [apply upd_same|].
    rewrite upd_other by exact N. apply upd_same.
  - assert (Nc : (x, f) <> (y, f)) by (intros E; inversion E; congruence).
    destruct (obj_of (hdv (V (x, f)))) as [q|]; [|apply upd_other; exact Nc].
    destruct (Nat.eqb_spec y q) as [E|Nq]; [apply upd_other; exact Nc|].
    destruct (cell_eqb_spec (q, f) (x, f)) as [E|N2]; [apply upd_other; exact Nc|].
    rewrite upd_other by (intros E; inversion E; congruence). apply upd_other. exact Nc.
Qed.

Ltac fin0 := upd_cases; cbn [hdv] in *; intuition congruence.
Ltac finb b x y :=
  destruct (Nat.eq_dec b x) as [?|?];
  [subst b; fin0 | destruct (Nat.eq_dec b y) as [?|?]; [subst b; fin0 | fin0]].
Lemma self_store (V : cell -> list value) (x y : oid) (f : fid) :
  (forall a b : oid, hdv (V (a, f)) = VObj b <-> hdv (V (b, f)) = VObj a) ->
  forall a b : oid,
    hdv (WS V x y f (a, f)) = VObj b <->
    (hdv (V (a, f)) = VObj b /\ a <> x /\ b <> x /\ a <> y /\ b <> y) \/ (a = x /\ b = y) \/ (a = y /\ b = x).
Proof.
  intros HsymV a b. unfold WS. cbv zeta. rewrite WS_V3_at_y.
  pose proof (HsymV a x) as S1. pose proof (HsymV a y) as S2.
  destruct (Nat.eqb_spec y x) as [Eyx|Nyx].
  - subst y. cbn [hdv obj_of]. rewrite Nat.eqb_refl.
    destruct (obj_of (hdv (V (x, f)))) as [q|] eqn:Eq.
    + apply obj_of_Some' in Eq. pose proof (HsymV x q) as S3.
      destruct (Nat.eqb_spec x q) as [Exq|Nxq].
      * finb b x x.
      * destruct (cell_eqb_spec (q, f) (x, f)) as [E|N]; [inversion E; congruence|].
        finb b x x.
    + assert (Hn : forall q, hdv (V (x, f)) <> VObj q) by (intros q E; rewrite E in Eq; discriminate).
      pose proof (Hn a) as Hna.
      finb b x x.
  - destruct (obj_of (hdv (V (y, f)))) as [c|] eqn:Ec.
    + apply obj_of_Some' in Ec. pose proof (HsymV y c) as S4.
      destruct (obj_of (hdv (V (x, f)))) as [q|] eqn:Eq.
      * apply obj_of_Some' in Eq. pose proof (HsymV x q) as S3.
        destruct (Nat.eqb_spec y q) as [Eyq|Nyq]; destruct (Nat.eqb_spec c x) as [Ecx|Ncx];
          try destruct (cell_eqb_spec (q, f) (x, f)) as [E|N]; try (inversion E; subst q);
          finb b x y.
      * assert (Hn : forall q, hdv (V (x, f)) <> VObj q) by (intros q E; rewrite E in Eq; discriminate).
        pose proof (Hn a) as Hna. pose proof (Hn y) as Hny.
        destruct (Nat.eqb_spec c x) as [Ecx|Ncx];
          finb b x y.
    + assert (Hm : forall c, hdv (V (y, f)) <> VObj c) by (intros c E; rewrite E in Ec; discriminate).
      pose proof (Hm a) as Hma. pose proof (Hm x) as Hmx.
      destruct (obj_of (hdv (V (x, f)))) as [q|] eqn:Eq.
      * apply obj_of_Some' in Eq. pose proof (HsymV x q) as S3.
        destruct (Nat.eqb_spec y q) as [Eyq|Nyq];
          try destruct (cell_eqb_spec (q, f) (x, f)) as [E|N]; try (inversion E; subst q);
          finb b x y.
      * assert (Hn : forall q, hdv (V (x, f)) <> VObj q) by (intros q E; rewrite E in Eq; discriminate).
        pose proof (Hn a) as Hna. pose proof (Hn y) as Hny.
        finb b x y.
Qed.

Section SelfOpp.
Variable m : mm.
Hypothesis Hnc : no_containment m.
Hypothesis Hwf : wf_opp m.

Lemma set_self_vals s x f y :
  f_opp (fd m f) = Some f -> f_many (fd m f) = false ->
  check_single m f (VObj y) = true ->
  forall k, vals (snd (set_full m s (x, f) (VObj y))) k = WS (vals s) x y f k.
Proof.
  intros Hff Hsf Hchk k. destruct (Hwf f f Hff) as [_ [Href _]].
  unfold set_full, WS. rewrite Hchk, Href. cbn [negb]. rewrite (update_container_id m Hnc). rewrite Hff.
  cbn [obj_of]. rewrite Hsf. cbv beta iota zeta.
  change (single s (x, f)) with (hdv (vals s (x, f))).
  assert (T : forall s3 V3, vals s3 = V3 ->
     vals (set_obj_raw m (match obj_of (single s3 (y, f)) with
                          | Some c => if c =? x then s3 else set_none_raw m s3 (c, f)
                          | None => s3 end) (y, f) x) k =
     upd (match obj_of (hdv (V3 (y, f))) with
          | Some c => if c =? x then V3 else upd V3 (c, f) [VNone]
          | None => V3 end) (y, f) [VObj x] k).
  { intros s3 V3 E. subst V3. rewrite (vals_set_obj_raw m Hnc).
    change (single s3 (y, f)) with (hdv (vals s3 (y, f))).
    destruct (obj_of (hdv (vals s3 (y, f)))) as [c|]; [|reflexivity].
    destruct (c =? x); [reflexivity|]. rewrite (vals_set_none_raw m Hnc). reflexivity. }
  destruct (obj_of (hdv (vals s (x, f)))) as [q|].
  - destruct (y =? q); [apply T; reflexivity|].
    destruct (cell_eqb (q, f) (x, f)); [apply T; reflexivity|].
    apply T. rewrite (vals_set_none_raw m Hnc). reflexivity.
  - apply T; reflexivity.
Qed.

Theorem set_self_preserves_sym s x f y :
  sym m s -> shape m s ->
  f_opp (fd m f) = Some f -> f_many (fd m f) = false ->
  check_single m f (VObj y) = true ->
  sym m (snd (set_full m s (x, f) (VObj y))).
Proof.
  intros Hsym Hsh Hff Hsf Hchk.
  pose proof (set_self_vals s x f y Hff Hsf Hchk) as HV.
  pose proof (shape_set_full m Hnc Hwf s x f (VObj y) Hsh Hsf) as Hsh'.
  set (s' := snd (set_full m s (x, f) (VObj y))) in *.
  assert (HsymV : forall a b : oid, hdv (vals s (a, f)) = VObj b <-> hdv (vals s (b, f)) = VObj a).
  { intros a b. rewrite <- (R_hdv s a f b) by (apply (proj1 (Hsh a f)); exact Hsf).
    rewrite <- (R_hdv s b f a) by (apply (proj1 (Hsh b f)); exact Hsf). apply Hsym. exact Hff. }
  apply (sym_by_delta_self m s s' f
           (fun a b => a = x \/ b = x \/ a = y \/ b = y)
           (fun a b => (a = x /\ b = y) \/ (a = y /\ b = x)) Hwf Hsym Hff).
  - intros a b. tauto.
  - intros a b. tauto.
  - intros a b.
    rewrite (R_hdv s' a f b) by (apply (proj1 (Hsh' a f)); exact Hsf).
    rewrite (R_hdv s a f b) by (apply (proj1 (Hsh a f)); exact Hsf).
    rewrite HV. rewrite (self_store (vals s) x y f HsymV a b). tauto.
  - intros h a Hh. rewrite HV. unfold WS. cbv zeta.
    rewrite upd_other by (intros E; inversion E; congruence).
    assert (H3 : forall V3 : cell -> list value,
              V3 (a, h) = vals s (a, h) ->
              (match obj_of (hdv (V3 (y, f))) with
               | Some c => if c =? x then V3 else upd V3 (c, f) [VNone]
               | None => V3 end) (a, h) = vals s (a, h)).
    { intros V3 E. destruct (obj_of (hdv (V3 (y, f)))) as [c|]; [|exact E].
      destruct (c =? x); [exact E|]. rewrite upd_other by (intros E2; inversion E2; congruence). exact E. }
    apply H3.
    assert (H1 : upd (vals s) (x, f) [VObj y] (a, h) = vals s (a, h))
      by (apply upd_other; intros E; inversion E; congruence).
    destruct (obj_of (hdv (vals s (x, f)))) as [q|]; [|exact H1].
    destruct (y =? q); [exact H1|]. destruct (cell_eqb (q, f) (x, f)); [exact H1|].
    rewrite upd_other by (intros E; inversion E; congruence). exact H1.
Qed.

(* x.f.append(y) / insert for a many-valued self-opposite f (x.f.append(x) included) *)
Theorem add_self_preserves_sym s x f pos y :
  sym m s ->
  f_opp (fd m f) = Some f -> f_many (fd m f) = true ->
  check_elem m f (VObj y) = true ->
  sym m (snd (coll_add_full m s (x, f) pos (VObj y))).
Proof.
  intros Hsym Hff Hmf Hchk. destruct (Hwf f f Hff) as [_ [Href Huf]]. specialize (Huf Hmf).
  assert (HV : forall k, vals (snd (coll_add_full m s (x, f) pos (VObj y))) k =
     let V1 := if cell_eqb (y, f) (x, f) then vals s
               else upd (vals s) (y, f) (raw_append true (VObj x) (vals s (y, f))) in
     upd V1 (x, f) (match pos with Some i => raw_insert true i (VObj y) (vals s (x, f))
                                 | None => raw_append true (VObj y) (vals s (x, f)) end) k).
  { intros k. unfold coll_add_full. rewrite Hchk. cbn [negb snd].
    cbn [vals set_isset notify push_log set_vals]. rewrite (vals_link m Hnc).
    rewrite (Lval_own m (vals s) x f (VObj y) Hmf). rewrite Huf.
    unfold Lval. rewrite Href. cbn [obj_of]. rewrite Hff, Hmf, Huf. reflexivity. }
  set (s' := snd (coll_add_full m s (x, f) pos (VObj y))) in *.
  apply (sym_by_delta_self m s s' f (fun _ _ => False)
           (fun a b => (a = x /\ b = y) \/ (a = y /\ b = x)) Hwf Hsym Hff).
  - tauto.
  - intros a b. tauto.
  - intros a b. unfold R. rewrite HV. cbv zeta.
    destruct (cell_eqb_spec (x, f) (a, f)) as [E|N].
    + inversion E; subst a. rewrite upd_same.
      destruct pos as [i|]; [rewrite In_raw_insert_obj | rewrite raw_append_obj_In]; intuition congruence.
    + rewrite upd_other by exact N.
      destruct (cell_eqb_spec (y, f) (x, f)) as [E1|N1].
      * inversion E1; subst y. intuition congruence.
      * destruct (cell_eqb_spec (y, f) (a, f)) as [E2|N2].
        -- inversion E2; subst a. rewrite upd_same. rewrite raw_append_obj_In. intuition congruence.
        -- rewrite upd_other by exact N2. intuition congruence.
  - intros h a Hh. rewrite HV. cbv zeta.
    rewrite upd_other by (intros E; inversion E; congruence).
    destruct (cell_eqb (y, f) (x, f)); [reflexivity|].
    apply upd_other. intros E; inversion E; congruence.
Qed.
End SelfOpp.

(* ---------- the three elementary operations, for EVERY feature and value ---------- *)
Section Gen.
Variable m : mm.
Hypothesis Hnc : no_containment m.
Hypothesis Hwf : wf_opp m.

Lemma Uval_nonobj V x f v : obj_of v = None -> Uval m V x f v = V.
Proof. intros H. unfold Uval. rewrite H. destruct (f_isref (fd m f)); reflexivity. Qed.

Lemma Uval_noopp V x f v : f_opp (fd m f) = None -> Uval m V x f v = V.
Proof. intros H. unfold Uval. rewrite H. destruct (f_isref (fd m f)); [destruct (obj_of v)|]; reflexivity. Qed.

Lemma Lval_nonobj V x f v : obj_of v = None -> Lval m V x f v = V.
Proof. intros H. unfold Lval. rewrite H. destruct (f_isref (fd m f)); reflexivity. Qed.

Lemma Lval_noopp V x f v : f_opp (fd m f) = None -> Lval m V x f v = V.
Proof. intros H. unfold Lval. rewrite H. destruct (f_isref (fd m f)); [destruct (obj_of v)|]; reflexivity. Qed.

Lemma vals_remove_full s x f v :
  f_many (fd m f) = true ->
  forall k, vals (coll_remove_full m s (x, f) v) k =
            upd (Uval m (vals s) x f v) (x, f) (raw_remove v (vals s (x, f))) k.
Proof.
  intros Hm k.
  change (vals (coll_remove_full m s (x, f) v))
    with (upd (vals (unlink_elem m s x f v)) (x, f) (raw_remove v (vals (unlink_elem m s x f v) (x, f)))).
  rewrite (vals_unlink m Hnc). rewrite (Uval_own m _ x f v Hm). reflexivity.
Qed.

Theorem remove_gen s x f v :
  Inv m s -> f_many (fd m f) = true -> vmem v (vals s (x, f)) = true ->
  Inv m (coll_remove_full m s (x, f) v).
Proof.
  intros [Hsym Hsh] Hm Hin. pose proof (vals_remove_full s x f v Hm) as HV.
  destruct (obj_of v) as [y|] eqn:Ev.
  - apply obj_of_Some' in Ev. subst v. apply vmem_obj in Hin. destruct (f_opp (fd m f)) as [g|] eqn:Hfg.
    + split; [apply (remove_preserves_sym m Hnc Hwf s x f g y); assumption
             | apply shape_coll_remove_full; assumption].
    + apply (Inv_frame_noopp m s _ x f Hwf Hfg); [| intros C; congruence | split; assumption].
      intros k Nk. rewrite HV. rewrite upd_other by (intros E; apply Nk; symmetry; exact E).
      rewrite Uval_noopp by exact Hfg. reflexivity.
  - apply (Inv_objs_ext_cell m s _ x f Hm); [| | split; assumption].
    + intros k Nk. rewrite HV. rewrite upd_other by (intros E; apply Nk; symmetry; exact E).
      rewrite Uval_nonobj by exact Ev. reflexivity.
    + rewrite HV, upd_same. apply raw_remove_objs_nonobj. exact Ev.
Qed.

Lemma vals_add_full s x f pos v :
  f_many (fd m f) = true -> check_elem m f v = true ->
  forall k, vals (snd (coll_add_full m s (x, f) pos v)) k =
            upd (Lval m (vals s) x f v) (x, f)
                (match pos with
                 | Some i => raw_insert (f_unique (fd m f)) i v (vals s (x, f))
                 | None => raw_append (f_unique (fd m f)) v (vals s (x, f)) end) k.
Proof.
  intros Hm Hc k. unfold coll_add_full. rewrite Hc. cbn [negb snd].
  cbn [vals set_isset notify push_log set_vals]. rewrite (vals_link m Hnc).
  rewrite (Lval_own m (vals s) x f v Hm). reflexivity.
Qed.

Theorem add_gen s x f pos v :
  Inv m s -> f_many (fd m f) = true -> Inv m (snd (coll_add_full m s (x, f) pos v)).
Proof.
  intros [Hsym Hsh] Hm.
  destruct (check_elem m f v) eqn:Hc.
  2:{ unfold coll_add_full. rewrite Hc. cbn [negb snd]. split; assumption. }
  pose proof (vals_add_full s x f pos v Hm Hc) as HV.
  destruct (obj_of v) as [y|] eqn:Ev.
  - apply obj_of_Some' in Ev. subst v. destruct (f_opp (fd m f)) as [g|] eqn:Hfg.
    + split; [|apply shape_coll_add_full; assumption].
      destruct (Nat.eq_dec f g) as [E|N].
      * subst g. apply (add_self_preserves_sym m Hnc Hwf); assumption.
      * destruct (f_many (fd m g)) eqn:Hg.
        -- apply (add_nn_preserves_sym m Hnc Hwf s x f g pos y); assumption.
        -- apply (add_n1_preserves_sym m Hnc Hwf s x f g pos y); assumption.
    + apply (Inv_frame_noopp m s _ x f Hwf Hfg); [| intros C; congruence | split; assumption].
      intros k Nk. rewrite HV. rewrite upd_other by (intros E; apply Nk; symmetry; exact E).
      rewrite Lval_noopp by exact Hfg. reflexivity.
  - apply (Inv_objs_ext_cell m s _ x f Hm); [| | split; assumption].
    + intros k Nk. rewrite HV. rewrite upd_other by (intros E; apply Nk; symmetry; exact E).
      rewrite Lval_nonobj by exact Ev. reflexivity.
    + rewrite HV, upd_same. destruct pos; [apply raw_insert_objs_nonobj | apply raw_append_objs_nonobj]; exact Ev.
Qed.

Lemma vals_set_full_noopp s x f v :
  f_opp (fd m f) = None ->
  forall k, k <> (x, f) -> vals (snd (set_full m s (x, f) v)) k = vals s k.
Proof.
  intros Hfg k Nk. unfold set_full.
  destruct (check_single m f v); cbn [negb]; [|reflexivity].
  assert (H1 : vals (set_store m s (x, f) v) k = vals s k).
  { rewrite (vals_set_store m). apply upd_other. intros E; apply Nk; symmetry; exact E. }
  destruct (f_isref (fd m f)); cbn [negb snd]; [|exact H1].
  rewrite (update_container_id m Hnc). rewrite Hfg. cbn [snd].
  destruct (obj_of v); destruct (obj_of (single s (x, f))); unfold inv_add;
    try (match goal with |- context [cmem ?c ?l] => destruct (cmem c l) end); exact H1.
Qed.

Lemma objs_upd_ext (A B : cell -> list value) c r :
  (forall k, objs_of (A k) = objs_of (B k)) -> forall k, objs_of (upd A c r k) = objs_of (upd B c r k).
Proof. intros E k. unfold upd. destruct (cell_eqb c k); [reflexivity | apply E]. Qed.

(* storing a non-object in a bidirectional slot releases the partner exactly like None *)
Lemma set_nonobj_objs s x f g v :
  f_opp (fd m f) = Some g -> f_many (fd m f) = false ->
  obj_of v = None -> check_single m f v = true ->
  forall k, objs_of (vals (snd (set_full m s (x, f) v)) k) =
            objs_of (vals (snd (set_full m s (x, f) VNone)) k).
Proof.
  intros Hfg Hs Hv Hc. destruct (Hwf f g Hfg) as [Hgf [Href _]].
  assert (HA : forall k, objs_of (upd (vals s) (x, f) [v] k) = objs_of (upd (vals s) (x, f) [VNone] k)).
  { intros k. unfold upd. destruct (cell_eqb (x, f) k); [|reflexivity].
    rewrite (objs_of_cons_nonobj v [] Hv). reflexivity. }
  unfold set_full. rewrite Hc. cbn [check_single conforms negb]. rewrite Href. cbn [negb].
  rewrite !(update_container_id m Hnc). rewrite Hfg. rewrite Hv. cbn [obj_of snd]. cbv beta iota.
  destruct (obj_of (single s (x, f))) as [q|]; [|exact HA].
  destruct (f_many (fd m g)) eqn:Hg.
  - rewrite !(vals_coll_remove_raw m Hnc). cbn [vals set_store notify push_log set_isset set_vals].
    rewrite !(upd_other (vals s) (x, f) (q, g)) by (intros E; inversion E; congruence).
    destruct (vmem (VObj x) (vals s (q, g))); [apply objs_upd_ext|]; exact HA.
  - destruct (cell_eqb (q, g) (x, f)); [exact HA|].
    rewrite !(vals_set_none_raw m Hnc). apply objs_upd_ext. exact HA.
Qed.

Theorem set_gen s x f v :
  Inv m s -> f_many (fd m f) = false -> Inv m (snd (set_full m s (x, f) v)).
Proof.
  intros [Hsym Hsh] Hs.
  pose proof (shape_set_full m Hnc Hwf s x f v Hsh Hs) as Hsh'.
  split; [|exact Hsh'].
  destruct (check_single m f v) eqn:Hc.
  2:{ unfold set_full. rewrite Hc. cbn [negb snd]. exact Hsym. }
  destruct (f_opp (fd m f)) as [g|] eqn:Hfg.
  - destruct (obj_of v) as [y|] eqn:Ev.
    + apply obj_of_Some' in Ev. subst v.
      destruct (Nat.eq_dec f g) as [E|N].
      * subst g. apply (set_self_preserves_sym m Hnc Hwf); assumption.
      * destruct (f_many (fd m g)) eqn:Hg.
        -- apply (set_1n_preserves_sym m Hnc Hwf s x f g y); assumption.
        -- apply (set11_preserves_sym m Hnc Hwf s x f g y); assumption.
    + apply (sym_objs_ext m (snd (set_full m s (x, f) VNone))).
      * exact (set_nonobj_objs s x f g v Hfg Hs Ev Hc).
      * apply (unset_preserves_sym m Hnc Hwf s x f g); assumption.
  - apply (Inv_frame_noopp m s _ x f Hwf Hfg).
    + exact (vals_set_full_noopp s x f v Hfg).
    + intros _. exact (proj1 (Hsh' x f) Hs).
    + split; assumption.
Qed.
End Gen.

(* ---------- the composite operations of `step` ---------- *)
Section Composite.
Variable m : mm.
Hypothesis Hnc : no_containment m.
Hypothesis Hwf : wf_opp m.

Lemma noopp_of_nonunique f :
  f_many (fd m f) = true -> f_unique (fd m f) = false -> f_opp (fd m f) = None.
Proof.
  intros Hm Hu. destruct (f_opp (fd m f)) as [g|] eqn:E; [|reflexivity].
  destruct (Hwf f g E) as [_ [_ H]]. specialize (H Hm). congruence.
Qed.

Lemma econtents_nil s o : econtents m s o = [].
Proof.
  unfold econtents. induction (ref_feats m o) as [|f l IH]; simpl; [reflexivity|].
  rewrite Hnc. exact IH.
Qed.

(* pop / unique del c[i] *)
Theorem pop_gen s x f i :
  Inv m s -> f_many (fd m f) = true -> Inv m (snd (fst (coll_pop_full m s (x, f) i))).
Proof.
  intros HI Hm. unfold coll_pop_full.
  destruct (vals s (x, f)) as [|a0 l0] eqn:El; [exact HI|]. rewrite <- El.
  destruct (py_pop i (vals s (x, f))) as [[v l']|] eqn:Ep; [|exact HI]. cbn [fst snd].
  destruct (py_pop_nth i _ _ _ Ep) as [n [Hn Hl']].
  assert (Hin : vmem v (vals s (x, f)) = true) by (apply In_vmem; eapply nth_error_In; exact Hn).
  assert (HV : forall k, vals (notify m (unlink_elem m (set_vals s (x, f) l') x f v) x f KRemove (POne v) (POne VNone)) k
                         = upd (Uval m (vals s) x f v) (x, f) l' k).
  { intros k. cbn [vals notify push_log]. rewrite (vals_unlink m Hnc). cbn [vals set_vals].
    apply Uval_comm. exact Hm. }
  destruct (f_opp (fd m f)) as [g|] eqn:Hfg.
  - pose proof (remove_gen m Hnc Hwf s x f v HI Hm Hin) as HR.
    pose proof (vals_remove_full m Hnc s x f v Hm) as HVR.
    apply (Inv_objs_ext_cell m (coll_remove_full m s (x, f) v) _ x f Hm); [| |exact HR].
    + intros k Nk. rewrite HV, HVR. rewrite !upd_other by (intros E; apply Nk; symmetry; exact E). reflexivity.
    + rewrite HV, HVR, !upd_same. subst l'.
      destruct (obj_of v) as [y|] eqn:Ev.
      * apply obj_of_Some' in Ev. subst v.
        assert (ND : nodup_objs (vals s (x, f))) by (apply (proj2 (proj2 HI x f)); congruence).
        unfold raw_remove. rewrite (remove_first_is_remove_at y _ n ND Hn). reflexivity.
      * rewrite (raw_remove_objs_nonobj v _ Ev). exact (remove_at_objs_nonobj _ n Hn Ev).
  - apply (Inv_frame_noopp m s _ x f Hwf Hfg); [| intros C; congruence | exact HI].
    intros k Nk. rewrite HV. rewrite upd_other by (intros E; apply Nk; symmetry; exact E).
    rewrite (Uval_noopp m) by exact Hfg. reflexivity.
Qed.

(* clear *)
Lemma clear_loop x f :
  f_many (fd m f) = true ->
  forall rest s0, Inv m (set_vals s0 (x, f) rest) ->
  Inv m (set_vals (fold_left (fun acc v => unlink_elem m acc x f v) rest s0) (x, f) []).
Proof.
  intros Hm. induction rest as [|v rest IH]; intros s0 HI; [exact HI|].
  cbn [fold_left]. apply IH.
  set (t := set_vals s0 (x, f) (v :: rest)) in *.
  assert (Hin : vmem v (vals t (x, f)) = true).
  { apply In_vmem. unfold t. cbn [vals set_vals]. rewrite upd_same. left; reflexivity. }
  pose proof (remove_gen m Hnc Hwf t x f v HI Hm Hin) as HR.
  apply (Inv_ext m (coll_remove_full m t (x, f) v)); [|exact HR].
  intros k. rewrite (vals_remove_full m Hnc t x f v Hm).
  cbn [vals set_vals]. unfold t. cbn [vals set_vals]. rewrite upd_same.
  rewrite (vals_unlink m Hnc).
  rewrite (upd_ext _ _ (x, f) (raw_remove v (v :: rest)) (Uval_comm m (vals s0) x f v (v :: rest) Hm)).
  rewrite upd_upd. unfold raw_remove. cbn [remove_first]. rewrite veqb_refl. reflexivity.
Qed.

Theorem clear_gen s x f :
  Inv m s -> f_many (fd m f) = true -> Inv m (coll_clear_full m s (x, f)).
Proof.
  intros HI Hm. unfold coll_clear_full.
  destruct (vals s (x, f)) as [|a0 l0] eqn:El; [exact HI|]. rewrite <- El.
  apply (Inv_ext m (set_vals (fold_left (fun acc v => unlink_elem m acc x f v) (vals s (x, f)) s) (x, f) []));
    [reflexivity|].
  apply clear_loop; [exact Hm|].
  apply (Inv_ext m s); [|exact HI]. intros k. cbn [vals set_vals]. unfold upd.
  destruct (cell_eqb_spec (x, f) k) as [E|N]; [subst k; reflexivity | reflexivity].
Qed.

(* extend / update / += *)
Lemma extend_loop x f :
  f_many (fd m f) = true -> f_unique (fd m f) = true ->
  forall vs s0, Inv m s0 -> (forall v, In v vs -> check_elem m f v = true) ->
  Inv m (fold_left (fun acc v => link_elem m (set_vals acc (x, f) (raw_append true v (vals acc (x, f)))) x f v) vs s0).
Proof.
  intros Hm Hu. induction vs as [|v vs IH]; intros s0 HI Hchk; [exact HI|].
  cbn [fold_left]. apply IH; [|intros w Hw; apply Hchk; right; exact Hw].
  assert (Hc : check_elem m f v = true) by (apply Hchk; left; reflexivity).
  apply (Inv_ext m (snd (coll_add_full m s0 (x, f) None v))); [|apply (add_gen m Hnc Hwf); assumption].
  intros k. rewrite (vals_add_full m Hnc s0 x f None v Hm Hc). rewrite Hu.
  rewrite (vals_link m Hnc). cbn [vals set_vals]. apply Lval_comm. exact Hm.
Qed.

Lemma fold_link_noopp x f vs :
  f_opp (fd m f) = None ->
  forall s0, vals (fold_left (fun acc v => link_elem m acc x f v) vs s0) = vals s0.
Proof.
  intros Hfg. induction vs as [|v vs IH]; intros s0; [reflexivity|].
  cbn [fold_left]. rewrite IH. rewrite (vals_link m Hnc). apply Lval_noopp. exact Hfg.
Qed.

Theorem extend_gen s x f vs :
  Inv m s -> f_many (fd m f) = true -> Inv m (snd (coll_extend_full m s (x, f) vs)).
Proof.
  intros HI Hm. unfold coll_extend_full.
  destruct (forallb (check_elem m f) vs) eqn:Ec; cbn [negb snd]; [|exact HI].
  assert (Hvs : forall v, In v vs -> check_elem m f v = true).
  { intros v Hv. rewrite forallb_forall in Ec. apply Ec. exact Hv. }
  destruct (f_unique (fd m f)) eqn:Hu.
  - apply (Inv_ext m (fold_left (fun acc v => link_elem m (set_vals acc (x, f) (raw_append true v (vals acc (x, f)))) x f v) vs s));
      [reflexivity|].
    apply extend_loop; assumption.
  - pose proof (noopp_of_nonunique f Hm Hu) as Hfg.
    apply (Inv_frame_noopp m s _ x f Hwf Hfg); [| intros C; congruence | exact HI].
    intros k Nk. cbn [vals set_isset notify push_log set_vals].
    rewrite upd_other by (intros E; apply Nk; symmetry; exact E).
    rewrite (fold_link_noopp x f vs Hfg). reflexivity.
Qed.

(* c[i] = v *)
Theorem setitem_gen s x f i v :
  Inv m s -> f_many (fd m f) = true -> Inv m (snd (coll_setitem_full m s (x, f) i v)).
Proof.
  intros HI Hm. unfold coll_setitem_full.
  destruct (check_elem m f v) eqn:Ec; cbn [negb]; [|exact HI].
  destruct (f_unique (fd m f)) eqn:Hu.
  - destruct ((i <? 0)%Z && ((if (i <? 0)%Z then (zlen (vals s (x, f)) + i)%Z else i) <? 0)%Z); [exact HI|].
    unfold seq_outcome.
    pose proof (pop_gen s x f (if (i <? 0)%Z then (zlen (vals s (x, f)) + i)%Z else i) HI Hm) as Hp.
    destruct (fst (coll_pop_full m s (x, f) (if (i <? 0)%Z then (zlen (vals s (x, f)) + i)%Z else i))) as [[e|] s1];
      cbn [snd] in *; [exact Hp|].
    apply (add_gen m Hnc Hwf); assumption.
  - pose proof (noopp_of_nonunique f Hm Hu) as Hfg.
    assert (H1 : vals (link_elem m s x f v) = vals s).
    { rewrite (vals_link m Hnc). apply Lval_noopp. exact Hfg. }
    destruct (norm_index (zlen (vals (link_elem m s x f v) (x, f))) i) as [n|]; cbn [snd].
    + apply (Inv_frame_noopp m s _ x f Hwf Hfg); [| intros C; congruence | exact HI].
      intros k Nk. cbn [vals set_isset notify push_log set_vals].
      rewrite upd_other by (intros E; apply Nk; symmetry; exact E). rewrite H1. reflexivity.
    + apply (Inv_ext m s); [|exact HI]. intros k. rewrite H1. reflexivity.
Qed.

(* del c[i] *)
Theorem delitem_gen s x f i :
  Inv m s -> f_many (fd m f) = true -> Inv m (snd (coll_delitem_full m s (x, f) i)).
Proof.
  intros HI Hm. unfold coll_delitem_full. cbn [snd].
  destruct (f_unique (fd m f)) eqn:Hu; [apply pop_gen; assumption|].
  pose proof (noopp_of_nonunique f Hm Hu) as Hfg.
  destruct (py_pop i (vals s (x, f))) as [[w l']|]; cbn [snd]; [|exact HI].
  apply (Inv_frame_noopp m s _ x f Hwf Hfg); [| intros C; congruence | exact HI].
  intros k Nk. cbn [vals set_vals]. apply upd_other. intros E; apply Nk; symmetry; exact E.
Qed.

(* x.f = [...] *)
Theorem assign_gen s x f vs :
  Inv m s -> f_many (fd m f) = true -> Inv m (snd (assign_full m s (x, f) vs)).
Proof.
  intros HI Hm. unfold assign_full. cbn [snd].
  destruct (forallb (check_elem m f) vs); cbn [negb snd]; [|exact HI].
  apply extend_gen; [apply clear_gen; assumption | exact Hm].
Qed.

(* del x.f *)
Theorem del_gen s x f : Inv m s -> Inv m (snd (del_full m s (x, f))).
Proof.
  intros HI. unfold del_full. cbn [snd]. destruct (f_many (fd m f)) eqn:Hm; cbn [snd].
  - apply clear_gen; assumption.
  - apply (set_gen m Hnc Hwf); assumption.
Qed.

(* x.delete() *)
Lemma delete_step_gen x s k : Inv m s -> Inv m (delete_step m x s k).
Proof.
  intros HI. destruct k as [owner f]. unfold delete_step.
  destruct (f_many (fd m f)) eqn:Hm.
  - destruct (owner =? x); [apply clear_gen; assumption|].
    destruct (vmem (VObj x) (vals s (owner, f))) eqn:E; [|exact HI].
    apply (remove_gen m Hnc Hwf); assumption.
  - destruct ((match single s (owner, f) with VObj y => y =? x | _ => false end) || (owner =? x)); [|exact HI].
    apply (set_gen m Hnc Hwf); assumption.
Qed.

Lemma fold_delete_step_gen x l s : Inv m s -> Inv m (fold_left (delete_step m x) l s).
Proof.
  revert s; induction l as [|k l IH]; intros s HI; simpl; [exact HI|].
  apply IH. apply delete_step_gen. exact HI.
Qed.

Theorem delete_obj_gen fuel s x r : Inv m s -> Inv m (delete_obj fuel m s x r).
Proof.
  destruct fuel as [|fu]; intros HI; [exact HI|]. cbn [delete_obj].
  rewrite econtents_nil. cbn [fold_left].
  apply fold_delete_step_gen. destruct r; exact HI.
Qed.

(* resources: Resource.append / remove / extend *)
Theorem res_append_gen s r o : Inv m s -> Inv m (res_append m s r o).
Proof.
  intros HI. unfold res_append.
  assert (G : forall s0, Inv m s0 ->
     Inv m (let s1 := set_eres (set_rcont s0 r (rcont s0 r ++ [o])) o (Some r) in
            match cont s1 o with
            | Some (p, pf) =>
              if f_many (fd m pf)
              then (if vmem (VObj o) (vals s1 (p, pf)) then coll_remove_full m s1 (p, pf) (VObj o) else s1)
              else snd (set_full m s1 (p, pf) VNone)
            | None => s1 end)).
  { intros s0 H0. cbv zeta.
    set (s1 := set_eres (set_rcont s0 r (rcont s0 r ++ [o])) o (Some r)).
    assert (H1 : Inv m s1) by (apply (Inv_ext m s0); [reflexivity | exact H0]).
    destruct (cont s1 o) as [[p pf]|]; [|exact H1].
    destruct (f_many (fd m pf)) eqn:Hm.
    - destruct (vmem (VObj o) (vals s1 (p, pf))) eqn:E; [|exact H1].
      apply (remove_gen m Hnc Hwf); assumption.
    - apply (set_gen m Hnc Hwf); assumption. }
  assert (HR : forall p, Inv m (res_remove_raw s p o)) by (intros p; apply (Inv_ext m s); [reflexivity | exact HI]).
  destruct (eres s o) as [p|]; [|apply G; exact HI].
  destruct (nmem o (rcont s p)); [|apply G; exact HI].
  destruct (p =? r); [exact HI | apply G; apply HR].
Qed.

Theorem res_remove_gen s r o : Inv m s -> Inv m (snd (res_remove s r o)).
Proof.
  intros HI. unfold res_remove. destruct (nmem o (rcont s r)); cbn [snd]; [|exact HI].
  apply (Inv_ext m s); [reflexivity | exact HI].
Qed.

(* ---------- the assembled theorems ---------- *)
Definition op_fits (o : op) : Prop :=
  match o with
  | OAppend x f _ | OInsert x f _ _ | ORemove x f _ | OPop x f _ | OClear x f
  | OExtend x f _ | OSetItem x f _ _ | ODelItem x f _ => f_many (fd m f) = true
  | _ => True
  end.

Theorem sym_step s o : Inv m s -> op_fits o -> Inv m (next m s o).
Proof.
  intros HI Ho. unfold next, step.
  destruct o as [x f v|x f|x f|x f vs|x f v|x f i v|x f v|x f i|x f|x f vs|x f i v|x f i|x r|r o|r o|r os|x f];
    cbn [fst snd]; cbn [op_fits] in Ho.
  - destruct (f_many (fd m f)) eqn:Hm; [exact HI | apply (set_gen m Hnc Hwf); assumption].
  - destruct (f_many (fd m f)) eqn:Hm; [exact HI | apply (set_gen m Hnc Hwf); assumption].
  - apply del_gen; exact HI.
  - destruct (f_many (fd m f)) eqn:Hm; [apply assign_gen; assumption | exact HI].
  - apply (add_gen m Hnc Hwf); assumption.
  - apply (add_gen m Hnc Hwf); assumption.
  - unfold coll_remove_top. destruct (vmem v (vals s (x, f))) eqn:E; cbn [snd]; [|exact HI].
    apply (remove_gen m Hnc Hwf); assumption.
  - apply pop_gen; assumption.
  - apply clear_gen; assumption.
  - apply extend_gen; assumption.
  - apply setitem_gen; assumption.
  - apply delitem_gen; assumption.
  - apply delete_obj_gen; exact HI.
  - apply res_append_gen; exact HI.
  - apply res_remove_gen; exact HI.
  - generalize dependent s. induction os as [|o os IH]; intros s HI; simpl; [exact HI|].
    apply IH. apply res_append_gen. exact HI.
  - exact HI.
Qed.

Theorem sym_history_from ops s :
  Inv m s -> Forall op_fits ops -> Inv m (fold_left (next m) ops s).
Proof.
  revert s; induction ops as [|o ops IH]; intros s HI Hok; simpl; [exact HI|].
  inversion Hok; subst. apply IH; [apply sym_step; assumption | assumption].
Qed.

(* the initial state: every bidirectional slot is empty when reference defaults are None *)
Definition ref_defaults_none : Prop :=
  forall f, f_isref (fd m f) = true -> f_many (fd m f) = false -> f_default (fd m f) = VNone.

Lemma Inv_init : ref_defaults_none -> Inv m (init_state m).
Proof.
  intros Hd. split.
  - assert (Hno : forall f g a b, f_opp (fd m f) = Some g -> ~ R (init_state m) f a b).
    { intros f g a b Hfg. destruct (Hwf f g Hfg) as [_ [Href _]]. unfold R. cbn [vals init_state snd].
      destruct (f_many (fd m f)) eqn:Hm; [intros []|].
      rewrite (Hd f Href Hm). intros [H|[]]. discriminate. }
    intros f g Hfg a b. destruct (Hwf f g Hfg) as [Hgf _].
    split; intros H; exfalso; [exact (Hno f g a b Hfg H) | exact (Hno g f b a Hgf H)].
  - intros a f. cbn [vals init_state snd]. split.
    + intros Hm. rewrite Hm. eexists; reflexivity.
    + intros _. destruct (f_many (fd m f)); [constructor | apply nodup_single].
Qed.

Theorem sym_history ops :
  ref_defaults_none -> Forall op_fits ops -> Inv m (fold_left (next m) ops (init_state m)).
Proof. intros Hd Hok. apply sym_history_from; [apply Inv_init; exact Hd | exact Hok]. Qed.
End Composite.

(* ---------- without containment no object ever gets a container ---------- *)
Section Cont.
Variable m : mm.
Hypothesis Hnc : no_containment m.

Definition uncontained (s : state) : Prop := forall o, cont s o = None.

Lemma cont_set_none_raw s k : cont (set_none_raw m s k) = cont s.
Proof. unfold set_none_raw. destruct (f_isref (fd m (snd k))); rewrite ?(uc_clear_id m Hnc); reflexivity. Qed.

Lemma cont_set_obj_raw s k x : cont (set_obj_raw m s k x) = cont s.
Proof. unfold set_obj_raw. destruct (f_isref (fd m (snd k))); rewrite ?(update_container_id m Hnc); reflexivity. Qed.

Lemma cont_coll_remove_raw s k x : cont (coll_remove_raw m s k x) = cont s.
Proof. unfold coll_remove_raw. destruct (vmem (VObj x) (vals s k)); rewrite ?(uc_clear_id m Hnc); reflexivity. Qed.

Lemma cont_coll_append_raw s k x : cont (coll_append_raw m s k x) = cont s.
Proof. unfold coll_append_raw. rewrite (update_container_id m Hnc). reflexivity. Qed.

Lemma cont_inv_add s o c : cont (inv_add s o c) = cont s.
Proof. unfold inv_add. destruct (cmem c (inv s o)); reflexivity. Qed.

Lemma cont_update_opposite_remove s x f y : cont (update_opposite_remove m s x f y) = cont s.
Proof.
  unfold update_opposite_remove. destruct (f_opp (fd m f)) as [g|].
  - destruct (f_many (fd m g)); [destruct (cell_eqb (y, g) (x, f)); [reflexivity | apply cont_coll_remove_raw]
                                | apply cont_set_none_raw].
  - destruct (cmem (x, f) (inv s y)); [reflexivity | apply cont_inv_add].
Qed.

Lemma cont_unlink_elem s x f v : cont (unlink_elem m s x f v) = cont s.
Proof.
  unfold unlink_elem. destruct (f_isref (fd m f)); [|reflexivity]. destruct (obj_of v); [|reflexivity].
  rewrite (uc_clear_id m Hnc). apply cont_update_opposite_remove.
Qed.

Lemma cont_coll_remove_full s x f v : cont (coll_remove_full m s (x, f) v) = cont s.
Proof. exact (cont_unlink_elem s x f v). Qed.

Lemma cont_update_opposite_add s x f y : cont (update_opposite_add m s x f y) = cont s.
Proof.
  unfold update_opposite_add. destruct (f_opp (fd m f)) as [g|]; [|apply cont_inv_add].
  destruct (f_many (fd m g)).
  - destruct (cell_eqb (y, g) (x, f)); [reflexivity | apply cont_coll_append_raw].
  - rewrite cont_set_obj_raw. destruct (obj_of (single s (y, g))) as [c|]; [|reflexivity].
    destruct (c =? x); [reflexivity | apply cont_coll_remove_raw].
Qed.

Lemma cont_link_elem s x f v : cont (link_elem m s x f v) = cont s.
Proof.
  unfold link_elem. destruct (f_isref (fd m f)); [|reflexivity]. destruct (obj_of v); [|reflexivity].
  rewrite (update_container_id m Hnc). apply cont_update_opposite_add.
Qed.

Lemma cont_set_full s x f v : cont (snd (set_full m s (x, f) v)) = cont s.
Proof.
  unfold set_full. destruct (check_single m f v); cbn [negb]; [|reflexivity].
  destruct (f_isref (fd m f)); cbn [negb]; [|reflexivity].
  rewrite (update_container_id m Hnc).
  destruct (f_opp (fd m f)) as [g|].
  - set (s3 := match obj_of (single s (x, f)) with
               | Some q =>
                 if match obj_of v with Some y => y =? q | None => false end then set_store m s (x, f) v
                 else if f_many (fd m g) then coll_remove_raw m (set_store m s (x, f) v) (q, g) x
                 else if cell_eqb (q, g) (x, f) then set_store m s (x, f) v
                      else set_none_raw m (set_store m s (x, f) v) (q, g)
               | None => set_store m s (x, f) v end).
    assert (H3 : cont s3 = cont s).
    { unfold s3. destruct (obj_of (single s (x, f))) as [q|]; [|reflexivity].
      destruct (match obj_of v with Some y => y =? q | None => false end); [reflexivity|].
      destruct (f_many (fd m g)); [rewrite cont_coll_remove_raw; reflexivity|].
      destruct (cell_eqb (q, g) (x, f)); [reflexivity | rewrite cont_set_none_raw; reflexivity]. }
    destruct (obj_of v) as [y|]; [|exact H3].
    destruct (f_many (fd m g)); cbn [snd].
    + rewrite cont_coll_append_raw. exact H3.
    + rewrite cont_set_obj_raw.
      destruct (obj_of (single s3 (y, g))) as [c|]; [|exact H3].
      destruct (c =? x); [exact H3 | rewrite cont_set_none_raw; exact H3].
  - cbn [snd]. destruct (obj_of v); destruct (obj_of (single s (x, f))); rewrite ?cont_inv_add; reflexivity.
Qed.

Lemma cont_coll_add_full s x f pos v : cont (snd (coll_add_full m s (x, f) pos v)) = cont s.
Proof.
  unfold coll_add_full. destruct (check_elem m f v); cbn [negb snd]; [|reflexivity].
  exact (cont_link_elem s x f v).
Qed.

Lemma cont_coll_pop_full s x f i : cont (snd (fst (coll_pop_full m s (x, f) i))) = cont s.
Proof.
  unfold coll_pop_full. destruct (vals s (x, f)) as [|a l] eqn:El; [reflexivity|]. rewrite <- El.
  destruct (py_pop i (vals s (x, f))) as [[v l']|]; [|reflexivity]. cbn [fst snd].
  exact (cont_unlink_elem (set_vals s (x, f) l') x f v).
Qed.

Lemma cont_fold_unlink x f l s : cont (fold_left (fun acc v => unlink_elem m acc x f v) l s) = cont s.
Proof.
  revert s; induction l as [|v l IH]; intros s; [reflexivity|]. cbn [fold_left]. rewrite IH. apply cont_unlink_elem.
Qed.

Lemma cont_coll_clear_full s x f : cont (coll_clear_full m s (x, f)) = cont s.
Proof.
  unfold coll_clear_full. destruct (vals s (x, f)) as [|a l]; [reflexivity|].
  exact (cont_fold_unlink x f (a :: l) s).
Qed.

Lemma cont_coll_extend_full s x f vs : cont (snd (coll_extend_full m s (x, f) vs)) = cont s.
Proof.
  unfold coll_extend_full. destruct (forallb (check_elem m f) vs); cbn [negb snd]; [|reflexivity].
  cbn [cont set_isset notify push_log].
  destruct (f_unique (fd m f)).
  - generalize s. induction vs as [|v vs IH]; intros s0; [reflexivity|].
    cbn [fold_left]. rewrite IH. rewrite cont_link_elem. reflexivity.
  - cbn [cont set_vals]. generalize s. induction vs as [|v vs IH]; intros s0; [reflexivity|].
    cbn [fold_left]. rewrite IH. apply cont_link_elem.
Qed.

Lemma cont_coll_setitem_full s x f i v : cont (snd (coll_setitem_full m s (x, f) i v)) = cont s.
Proof.
  unfold coll_setitem_full. destruct (check_elem m f v); cbn [negb]; [|reflexivity].
  destruct (f_unique (fd m f)).
  - destruct ((i <? 0)%Z && ((if (i <? 0)%Z then (zlen (vals s (x, f)) + i)%Z else i) <? 0)%Z); [reflexivity|].
    unfold seq_outcome.
    pose proof (cont_coll_pop_full s x f (if (i <? 0)%Z then (zlen (vals s (x, f)) + i)%Z else i)) as Hp.
    destruct (fst (coll_pop_full m s (x, f) (if (i <? 0)%Z then (zlen (vals s (x, f)) + i)%Z else i))) as [[e|] s1];
      cbn [snd] in *; [exact Hp|].
    rewrite cont_coll_add_full. exact Hp.
  - destruct (norm_index (zlen (vals (link_elem m s x f v) (x, f))) i); cbn [snd];
      [cbn [cont set_isset notify push_log set_vals]|]; apply cont_link_elem.
Qed.

Lemma cont_coll_delitem_full s x f i : cont (snd (coll_delitem_full m s (x, f) i)) = cont s.
Proof.
  unfold coll_delitem_full. cbn [snd]. destruct (f_unique (fd m f)); [apply cont_coll_pop_full|].
  destruct (py_pop i (vals s (x, f))) as [[w l']|]; reflexivity.
Qed.

Lemma cont_delete_step x s k : cont (delete_step m x s k) = cont s.
Proof.
  destruct k as [owner f]. unfold delete_step. destruct (f_many (fd m f)).
  - destruct (owner =? x); [apply cont_coll_clear_full|].
    destruct (vmem (VObj x) (vals s (owner, f))); [apply cont_coll_remove_full | reflexivity].
  - destruct ((match single s (owner, f) with VObj y => y =? x | _ => false end) || (owner =? x));
      [apply cont_set_full | reflexivity].
Qed.

Lemma cont_fold_delete_step x l s : cont (fold_left (delete_step m x) l s) = cont s.
Proof.
  revert s; induction l as [|k l IH]; intros s; [reflexivity|]. cbn [fold_left]. rewrite IH. apply cont_delete_step.
Qed.

Lemma cont_delete_obj fuel s x r : cont (delete_obj fuel m s x r) = cont s.
Proof.
  revert s x r; induction fuel as [|fu IH]; intros s x r; [reflexivity|]. cbn [delete_obj].
  set (s1 := if r then fold_left (fun acc c => delete_obj fu m acc c true) (econtents m s x) s else s).
  assert (H1 : cont s1 = cont s).
  { unfold s1. destruct r; [|reflexivity]. generalize (econtents m s x). intros l. generalize s.
    induction l as [|c l IHl]; intros s0; [reflexivity|]. cbn [fold_left]. rewrite IHl. apply IH. }
  rewrite cont_fold_delete_step. exact H1.
Qed.

Lemma cont_res_append s r o : cont (res_append m s r o) = cont s.
Proof.
  unfold res_append.
  assert (G : forall s0,
     cont (let s1 := set_eres (set_rcont s0 r (rcont s0 r ++ [o])) o (Some r) in
           match cont s1 o with
           | Some (p, pf) =>
             if f_many (fd m pf)
             then (if vmem (VObj o) (vals s1 (p, pf)) then coll_remove_full m s1 (p, pf) (VObj o) else s1)
             else snd (set_full m s1 (p, pf) VNone)
           | None => s1 end) = cont s0).
  { intros s0. cbv zeta. set (s1 := set_eres (set_rcont s0 r (rcont s0 r ++ [o])) o (Some r)).
    change (cont s0) with (cont s1).
    destruct (cont s1 o) as [[p pf]|]; [|reflexivity].
    destruct (f_many (fd m pf)).
    - destruct (vmem (VObj o) (vals s1 (p, pf))); [apply cont_coll_remove_full | reflexivity].
    - apply cont_set_full. }
  destruct (eres s o) as [p|]; [|apply G].
  destruct (nmem o (rcont s p)); [|apply G].
  destruct (p =? r); [reflexivity | rewrite G; reflexivity].
Qed.

Theorem cont_step s o : cont (next m s o) = cont s.
Proof.
  unfold next, step.
  destruct o as [x f v|x f|x f|x f vs|x f v|x f i v|x f v|x f i|x f|x f vs|x f i v|x f i|x r|r o|r o|r os|x f];
    cbn [fst snd].
  - destruct (f_many (fd m f)); [reflexivity | apply cont_set_full].
  - destruct (f_many (fd m f)); [reflexivity | apply cont_set_full].
  - unfold del_full. cbn [snd]. destruct (f_many (fd m f)); [apply cont_coll_clear_full | apply cont_set_full].
  - destruct (f_many (fd m f)); [|reflexivity]. unfold assign_full. cbn [snd].
    destruct (forallb (check_elem m f) vs); cbn [negb snd]; [|reflexivity].
    rewrite cont_coll_extend_full. apply cont_coll_clear_full.
  - apply cont_coll_add_full.
  - apply cont_coll_add_full.
  - unfold coll_remove_top. destruct (vmem v (vals s (x, f))); cbn [snd]; [apply cont_coll_remove_full | reflexivity].
  - apply cont_coll_pop_full.
  - apply cont_coll_clear_full.
  - apply cont_coll_extend_full.
  - apply cont_coll_setitem_full.
  - apply cont_coll_delitem_full.
  - apply cont_delete_obj.
  - apply cont_res_append.
  - unfold res_remove. destruct (nmem o (rcont s r)); reflexivity.
  - generalize s. induction os as [|o os IH]; intros s0; [reflexivity|]. cbn [fold_left]. rewrite IH. apply cont_res_append.
  - reflexivity.
Qed.

Theorem uncontained_history ops : uncontained (fold_left (next m) ops (init_state m)).
Proof.
  assert (G : forall s, uncontained s -> uncontained (fold_left (next m) ops s)).
  { induction ops as [|o ops' IH]; intros s H; [exact H|]. cbn [fold_left]. apply IH.
    intros c. rewrite cont_step. apply H. }
  apply G. intros c. reflexivity.
Qed.
End Cont.

(* ---------- a metamodel meeting every premise: a single-valued and a many-valued self-opposite feature ---------- *)
Definition ex_mm_self : mm :=
  {| feats := [ {| f_owner := 0; f_isref := true; f_many := false; f_unique := true; f_cont := false;
                   f_opp := Some 0; f_type := TClass 0; f_default := VNone |};
                {| f_owner := 0; f_isref := true; f_many := true; f_unique := true; f_cont := false;
                   f_opp := Some 1; f_type := TClass 0; f_default := VNone |} ];
     conf := [(0, 0)]; ocls := [0; 0; 0; 0]; enames := []; nres := 0 |}.

Lemma ex_mm_self_ok : no_containment ex_mm_self /\ wf_opp ex_mm_self /\ ref_defaults_none ex_mm_self.
Proof.
  split; [|split].
  - intros f. destruct f as [|[|[|f]]]; reflexivity.
  - intros f g. destruct f as [|[|[|f]]]; cbn; intros H; inversion H; subst; cbn; repeat split; congruence.
  - intros f. destruct f as [|[|[|f]]]; cbn; congruence.
Qed.
