(* C16: lemmas about Model/SaveFs.v. *)
From Coq Require Import ZArith List Bool Lia PeanoNat.
From PyecoreV Require Import Model.SaveFs.
Import ListNotations.
Open Scope Z_scope.

(* ---------- Part 1: complete behaviour of the two repaired shapes of order ---------- *)

(* kind 1: build, encode, text to bytes, then open/write/flush/close (JsonResource.save) *)
Lemma kind1_behaviour j order fault old :
  order_kind order = 1%nat ->
  run_save j order fault old =
    if hits_build j fault || hits_encode j fault || hits_bytes j fault then (Raised, old)
    else (Done, Some (j_new j)).
Proof.
  unfold order_kind.
  repeat (destruct order as [|[] order]; try discriminate).
  intros _. unfold run_save. simpl.
  destruct (hits_build j fault); simpl; [reflexivity|].
  destruct (hits_encode j fault); simpl; [reflexivity|].
  destruct (hits_bytes j fault); simpl; [reflexivity|].
  destruct (j_own j); reflexivity.
Qed.

(* kind 2: traversal, namespace step, assembly, open, write (serialising), flush, close
   (XMIResource.save) *)
Lemma kind2_behaviour j order fault old :
  order_kind order = 2%nat ->
  run_save j order fault old =
    if hits_build j fault then (Raised, old)
    else if hits_ns j fault then (Raised, old)
    else if hits_encode j fault then (Raised, Some [])
    else (Done, Some (j_new j)).
Proof.
  unfold order_kind.
  repeat (destruct order as [|[] order]; try discriminate).
  intros _. unfold run_save. simpl.
  destruct (hits_build j fault); simpl; [reflexivity|].
  destruct (hits_ns j fault); simpl; [reflexivity|].
  destruct (hits_encode j fault); simpl; [reflexivity|].
  destruct (j_own j); reflexivity.
Qed.

Lemma hits_encode_nenc0 j fault : j_nenc j = 0%nat -> hits_encode j fault = false.
Proof.
  intros H. unfold hits_encode. destruct fault as [p|]; [|reflexivity].
  rewrite H, Nat.add_0_r.
  destruct (Nat.leb_spec (j_nbuild j) p); destruct (Nat.ltb_spec p (j_nbuild j)); simpl; try reflexivity; lia.
Qed.

Lemma kind1_failsafe j order fault old c :
  order_kind order = 1%nat -> run_save j order fault old = (Raised, c) -> c = old.
Proof.
  intros K. rewrite (kind1_behaviour j order fault old K).
  destruct (hits_build j fault || hits_encode j fault || hits_bytes j fault); intros H; inversion H; reflexivity.
Qed.

Lemma kind2_failsafe j order fault old c :
  order_kind order = 2%nat -> j_nenc j = 0%nat -> run_save j order fault old = (Raised, c) -> c = old.
Proof.
  intros K N. rewrite (kind2_behaviour j order fault old K), (hits_encode_nenc0 j fault N).
  destruct (hits_build j fault); [intros H; inversion H; reflexivity|].
  destruct (hits_ns j fault); intros H; inversion H; reflexivity.
Qed.

(* ---------- Part 2: ids and bytes ---------- *)

Definition all_have_id (os : list sobj) : Prop := forall o, In o os -> so_id o <> None.

Lemma assign_ids_obs uu os : forall n, map so_obs (fst (assign_ids uu n os)) = map so_obs os.
Proof.
  induction os as [|o rest IH]; intros n; simpl; [reflexivity|].
  destruct (so_id o).
  - specialize (IH n). destruct (assign_ids uu n rest) as [r n']. simpl in *. now rewrite IH.
  - specialize (IH (S n)). destruct (assign_ids uu (S n) rest) as [r n']. simpl in *. now rewrite IH.
Qed.

Lemma assign_ids_length uu os : forall n, length (fst (assign_ids uu n os)) = length os.
Proof.
  intros n. rewrite <- (map_length so_obs), assign_ids_obs, map_length. reflexivity.
Qed.

(* an id that exists is kept, position by position *)
Lemma assign_ids_keeps uu os : forall n k o i,
  nth_error os k = Some o -> so_id o = Some i ->
  nth_error (fst (assign_ids uu n os)) k = Some o.
Proof.
  induction os as [|o' rest IH]; intros n k o i Hn Hi; [destruct k; discriminate|].
  simpl. destruct k as [|k]; simpl in Hn.
  - inversion Hn; subst. rewrite Hi. destruct (assign_ids uu n rest). reflexivity.
  - destruct (so_id o').
    + specialize (IH n k o i Hn Hi). destruct (assign_ids uu n rest). exact IH.
    + specialize (IH (S n) k o i Hn Hi). destruct (assign_ids uu (S n) rest). exact IH.
Qed.

Lemma assign_ids_all uu os : forall n, all_have_id (fst (assign_ids uu n os)).
Proof.
  induction os as [|o rest IH]; intros n; simpl.
  - intros o []. 
  - destruct (so_id o) eqn:E.
    + specialize (IH n). destruct (assign_ids uu n rest) as [r n']. simpl in *.
      intros x [Hx|Hx]; [subst; congruence | exact (IH x Hx)].
    + specialize (IH (S n)). destruct (assign_ids uu (S n) rest) as [r n']. simpl in *.
      intros x [Hx|Hx]; [subst; simpl; congruence | exact (IH x Hx)].
Qed.

(* the stream is not read when every object has an id *)
Lemma assign_ids_fix uu os : forall n, all_have_id os -> assign_ids uu n os = (os, n).
Proof.
  induction os as [|o rest IH]; intros n H; simpl; [reflexivity|].
  destruct (so_id o) eqn:E.
  - rewrite IH; [reflexivity|]. intros x Hx. apply H. right. exact Hx.
  - exfalso. apply (H o); [left; reflexivity | exact E].
Qed.

Lemma save_pure b uu n os :
  let '(os', _, _) := save_model b uu n os in
  observation os' = observation os /\
  (b = false -> os' = os) /\
  (forall k o i, nth_error os k = Some o -> so_id o = Some i -> nth_error os' k = Some o).
Proof.
  unfold save_model, observation. destruct b.
  - pose proof (assign_ids_obs uu os n) as H1.
    pose proof (assign_ids_keeps uu os n) as H2.
    destruct (assign_ids uu n os) as [os' n']. simpl in *.
    split; [exact H1|]. split; [discriminate|]. exact H2.
  - split; [reflexivity|]. split; [reflexivity|]. intros k o i H _. exact H.
Qed.

Lemma save_idempotent b uu n os :
  let '(os1, n1, bytes1) := save_model b uu n os in
  let '(os2, n2, bytes2) := save_model b uu n1 os1 in
  bytes2 = bytes1 /\ os2 = os1 /\ n2 = n1.
Proof.
  unfold save_model. destruct b.
  - pose proof (assign_ids_all uu os n) as H.
    destruct (assign_ids uu n os) as [os1 n1]. simpl in H.
    rewrite (assign_ids_fix uu os1 n1 H). auto.
  - auto.
Qed.

(* the bytes depend on the state only (not on the stream position) once ids exist *)
Lemma save_bytes_function_of_state b uu uu' n n' os :
  all_have_id os ->
  snd (save_model b uu n os) = snd (save_model b uu' n' os).
Proof.
  intros H. unfold save_model. destruct b; [|reflexivity].
  rewrite (assign_ids_fix uu os n H), (assign_ids_fix uu' os n' H). reflexivity.
Qed.
