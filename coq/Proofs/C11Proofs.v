(* C11: a fragment always resolves back to its object. *)
From Coq Require Import ZArith List Bool Arith Lia.
From PyecoreV Require Import Lib.PyBase Lib.PyList Model.Kernel Model.Fragment Proofs.KernelFacts.
Import ListNotations.
Open Scope nat_scope.

Lemma index_of_veqb_nth o l i :
  index_of veqb (VObj o) l = Some i -> nth_error l i = Some (VObj o).
Proof.
  revert i; induction l as [|y ys IH]; simpl; intros i H; [discriminate|].
  destruct (veqb y (VObj o)) eqn:E.
  - inversion H; subst. apply veqb_obj_r in E. subst y. reflexivity.
  - destruct (index_of veqb (VObj o) ys); [|discriminate]. inversion H; subst. simpl. apply IH. reflexivity.
Qed.

Lemma index_of_nat_nth (o : nat) l i :
  index_of Nat.eqb o l = Some i -> nth_error l i = Some o.
Proof.
  revert i; induction l as [|y ys IH]; simpl; intros i H; [discriminate|].
  destruct (Nat.eqb_spec y o).
  - inversion H; subst. reflexivity.
  - destruct (index_of Nat.eqb o ys); [|discriminate]. inversion H; subst. simpl. apply IH. reflexivity.
Qed.

Lemma navigate_app s o segs1 segs2 p :
  navigate s o segs1 = Some p -> navigate s o (segs1 ++ segs2) = navigate s p segs2.
Proof.
  revert o; induction segs1 as [|g segs IH]; intros o H; simpl in *.
  - inversion H; subst. reflexivity.
  - destruct g as [f i|f].
    + destruct (nth_error (vals s (o, f)) i) as [[]|]; try discriminate. apply IH. exact H.
    + destruct (single s (o, f)); try discriminate. apply IH. exact H.
Qed.

(* single-valued containment slots hold exactly their child (back-pointer consistency, the part used here) *)
Definition single_slots_ok (m : mm) (s : state) : Prop :=
  forall c p f, cont s c = Some (p, f) -> f_many (fd m f) = false -> single s (p, f) = VObj c.

(* navigating an object's segments from its root comes back to the object *)
Theorem navigate_frag m s fuel o root segs :
  single_slots_ok m s ->
  frag_segs fuel m s o = Some (root, segs) -> navigate s root segs = Some o.
Proof.
  intros Hok. revert o root segs. induction fuel as [|fu IH]; intros o root segs H; simpl in H; [discriminate|].
  destruct (cont s o) as [[p f]|] eqn:Hc.
  - destruct (frag_segs fu m s p) as [[r sg]|] eqn:Hp; [|discriminate].
    pose proof (IH p r sg Hp) as Hn.
    destruct (f_many (fd m f)) eqn:Hm.
    + destruct (index_of veqb (VObj o) (vals s (p, f))) as [i|] eqn:Ei; [|discriminate].
      inversion H; subst. rewrite (navigate_app s root sg _ p Hn). simpl.
      rewrite (index_of_veqb_nth o _ i Ei). reflexivity.
    + inversion H; subst. rewrite (navigate_app s root sg _ p Hn). simpl.
      rewrite (Hok o p f Hc Hm). reflexivity.
  - inversion H; subst. reflexivity.
Qed.

(* the whole round trip through the resource *)
Theorem resolve_fragment m s fuel o root segs r pre :
  single_slots_ok m s ->
  frag_segs fuel m s o = Some (root, segs) ->
  root_prefix s (Some r) root = Some pre ->
  In root (rcont s r) ->
  resolve s r pre segs = Some o.
Proof.
  intros Hok Hf Hp Hin. unfold resolve, root_prefix in *.
  destruct (Nat.eqb_spec (length (rcont s r)) 1) as [E1|N1].
  - inversion Hp; subst pre.
    destruct (rcont s r) as [|a [|b l]]; simpl in E1; try discriminate.
    destruct Hin as [Ha|[]]. subst a. simpl. eapply navigate_frag; eauto.
  - destruct (index_of Nat.eqb root (rcont s r)) as [i|] eqn:Ei; [|discriminate].
    inversion Hp; subst pre. pose proof (index_of_nat_nth root _ i Ei) as Hn. unfold oid in *. rewrite Hn. eapply navigate_frag; eauto.
Qed.

(* two different objects of one resource never have the same fragment *)
Theorem fragments_distinct m s fuel o1 o2 root1 root2 segs r pre :
  single_slots_ok m s ->
  frag_segs fuel m s o1 = Some (root1, segs) -> frag_segs fuel m s o2 = Some (root2, segs) ->
  root_prefix s (Some r) root1 = Some pre -> root_prefix s (Some r) root2 = Some pre ->
  In root1 (rcont s r) -> In root2 (rcont s r) ->
  o1 = o2.
Proof.
  intros Hok H1 H2 P1 P2 I1 I2.
  pose proof (resolve_fragment m s fuel o1 root1 segs r pre Hok H1 P1 I1) as R1.
  pose proof (resolve_fragment m s fuel o2 root2 segs r pre Hok H2 P2 I2) as R2.
  congruence.
Qed.
