"""C07 — kernel property: see DESIGN.md section 5 and harness/kprop.py."""
from harness import kgen, kprop

PID = 'C07'


def run(ctx, out):
    deep = [kgen.gen_delete_case(ctx.rng, nres=ctx.rng.choice([0, 1])) for _ in range(400 if ctx.tier != 'thorough' else 5000)]
    kprop.run(ctx, out, PID, ['C07'], {'outcome','values','ownership'}, 2000, 30000, pool=kgen.REF_TEMPLATES, weights={'delete':0.12,'res':0.06}, p_wrong=0.03, extra_cases=deep)


def replay(ctx, rep):
    from harness import krun, common
    case = rep['case']
    if case.get('scenario'):
        return common.scenario_replay(ctx, rep, {'proxy': proxy_scenarios, 'evolving': evolving_scenarios,
                                                   'oppfilled': opposite_filled_scenarios,
                                                   'slicedel': slice_then_delete_scenarios,
                                                   'inherited': inherited_reference_scenarios})
    r = krun.Run(case, ['C07']).run()
    for s in r.steps:
        print(s['op'], '->', s['outcome'])
    if r.failure:
        print('REPRODUCED', r.failure['property'], r.failure['clause'], r.failure['detail'])
        return 1
    print('not reproduced')
    return 0


# ---------------------------------------------------------------------------
# referrers in another resource that reached the deleted object through a (resolved) proxy
# (oracle on the implementation only; the kernel model has no proxies)

def proxy_scenarios(ctx, out):
    """Two XMI files; a.xmi holds single-valued references (with and without opposite) into b.xmi.  a.xmi is
    loaded alone, every proxy is resolved in one of the public ways, the roots are then possibly moved into the
    other resource / out of their resources (holder and target in the same resource or in none), then an object of
    b.xmi is deleted.
    Many-valued cross-resource references are left out: membership of a resolved proxy in a unique collection
    is C14's known finding (stale hash) and non-unique collections are F-C07-nonunique-duplicate-target."""
    import os
    import tempfile
    from harness import common
    common.use_repo()
    from pyecore.ecore import EClass, EAttribute, EReference, EString, EPackage, EProxy
    from pyecore.resources import ResourceSet, URI
    rng = common.rng_for(ctx.seed, 'C07:proxy')
    rng_m = common.rng_for(ctx.seed, 'C07:proxy-merge')
    n = 70 if ctx.tier != 'thorough' else 900
    cnt = proxies = merged = 0
    for it in range(n):
        Node = EClass('Node')
        Node.eStructuralFeatures.append(EAttribute('name', EString))
        Node.eStructuralFeatures.append(EReference('friend', Node))
        Node.eStructuralFeatures.append(EReference('second', Node))
        mate = EReference('mate', Node)
        mateof = EReference('mateOf', Node, eOpposite=mate)
        Node.eStructuralFeatures.extend([mate, mateof])
        owner = EReference('owner', Node)
        items = EReference('items', Node, upper=-1, eOpposite=owner)
        Node.eStructuralFeatures.extend([owner, items])
        Node.eStructuralFeatures.append(EReference('local', Node, upper=-1))
        Node.eStructuralFeatures.append(EReference('kids', Node, upper=-1, containment=True))
        pkg = EPackage('demo', nsURI=f'http://verif/c07/{it}', nsPrefix='demo')
        pkg.eClassifiers.append(Node)
        na, nb = rng.randrange(2, 5), rng.randrange(2, 6)
        plan = {'a': [], 'b': [], 'links': [], 'resolve': [], 'delete': None}
        with tempfile.TemporaryDirectory() as tmp:
            pa, pb = os.path.join(tmp, 'a.xmi'), os.path.join(tmp, 'b.xmi')
            rset = ResourceSet()
            ra, rb = rset.create_resource(URI(pa)), rset.create_resource(URI(pb))
            nodes = {}
            for side, k, res in (('a', na, ra), ('b', nb, rb)):
                for i in range(k):
                    nm = f'{side}{i}'
                    nodes[nm] = Node(name=nm)
                    parent = rng.choice([None] + [f'{side}{j}' for j in range(i)])
                    plan[side].append([nm, parent])
                    if parent is None:
                        res.append(nodes[nm])
                    else:
                        nodes[parent].kids.append(nodes[nm])
            anames, bnames = [x[0] for x in plan['a']], [x[0] for x in plan['b']]
            used_mate = set()
            for nm in anames:
                if rng.random() < 0.6:      # single end here, many-valued end (items) in the other resource
                    t = rng.choice(bnames)
                    nodes[nm].owner = nodes[t]
                    plan['links'].append([nm, 'owner', t])
                for f in ('friend', 'second', 'mate'):
                    if rng.random() < 0.6:
                        t = rng.choice(bnames if rng.random() < 0.8 else anames)
                        if f == 'mate':
                            if t in used_mate or t == nm:
                                continue
                            used_mate.add(t)
                        setattr(nodes[nm], f, nodes[t])
                        plan['links'].append([nm, f, t])
                for t in rng.sample(anames, rng.randrange(0, len(anames))):
                    nodes[nm].local.append(nodes[t])
                    plan['links'].append([nm, 'local', t])
            try:
                rb.save()
                ra.save()
                rset2 = ResourceSet()
                rset2.metamodel_registry[pkg.nsURI] = pkg
                la = rset2.get_resource(URI(pa))
            except Exception as e:  # noqa  (saving/loading is C08/C14's subject)
                out.notes.append(f'C07 proxy scenario skipped: {type(e).__name__}')
                continue
            loaded = {}
            for root in la.contents:
                for o in [root] + list(root.eAllContents()):
                    loaded[o.name] = o
            # resolve every proxy in some public way
            for nm in anames:
                for f in ('friend', 'second', 'mate', 'owner'):
                    v = loaded[nm].eGet(f)
                    if isinstance(v, EProxy) and not v.resolved:
                        how = rng.choice(['read', 'force', 'eget', 'write', 'econtainer'])
                        plan['resolve'].append([nm, f, how])
                        proxies += 1
                        if how == 'read':
                            v.name
                        elif how == 'force':
                            v.force_resolve()
                        elif how == 'eget':
                            v.eGet('name')
                        elif how == 'write':
                            v.name = v.name
                        else:
                            v.eContainer()
            for res in list(rset2.resources.values()):
                for root in res.contents:
                    for o in [root] + list(root.eAllContents()):
                        loaded.setdefault(o.name, o)
            if not all(b in loaded for b in bnames):
                continue          # nothing of b.xmi was referenced: no proxy, nothing to test
            unwrap = lambda v: getattr(v, '_wrapped', None) if isinstance(v, EProxy) else v   # noqa
            # the two documents are then possibly MERGED (or taken out of their resources): the holder of a resolved
            # proxy and its target may lie in the same resource, or in none, when delete() is called
            lb = next((r for r in rset2.resources.values() if r is not la), None)
            merge = rng_m.choice(['none', 'none', 'a-into-b', 'b-into-a', 'one-a-into-b', 'both-out', 'a-out', 'b-out'])
            if lb is None:
                merge = 'none'
            plan['merge'] = merge
            if merge == 'a-into-b':
                for root in list(la.contents):
                    lb.append(root)
            elif merge == 'one-a-into-b':
                lb.append(rng_m.choice(list(la.contents)))
            elif merge == 'b-into-a':
                for root in list(lb.contents):
                    la.append(root)
            if merge in ('both-out', 'a-out'):
                for root in list(la.contents):
                    la.remove(root)
            if merge in ('both-out', 'b-out'):
                for root in list(lb.contents):
                    lb.remove(root)
            merged += merge != 'none'

            def snapshot():
                d = {}
                for nm, o in loaded.items():
                    for f in ('friend', 'second', 'mate', 'mateOf', 'owner'):
                        v = unwrap(o.eGet(f))
                        d[(nm, f)] = None if v is None else v.name
                    for f in ('local', 'kids', 'items'):
                        d[(nm, f)] = [unwrap(v).name for v in o.eGet(f)]
                    c = o.eContainer()
                    d[(nm, 'container')] = None if c is None else c.name
                return d
            victim = rng.choice(bnames)
            recursive = rng.random() < 0.6
            # the call is made on the object itself, or THROUGH a reference that holds it as a resolved proxy
            through = None
            holders = [(nm, f) for nm in anames for f in ('friend', 'second', 'mate', 'owner')
                       if isinstance(loaded[nm].eGet(f), EProxy) and loaded[nm].eGet(f).resolved
                       and unwrap(loaded[nm].eGet(f)).name in bnames]
            if holders and rng.random() < 0.5:
                # (prefer a target that has contents: recursive=False must leave them alone)
                with_kids = [h for h in holders if len(unwrap(loaded[h[0]].eGet(h[1])).kids)]
                through = rng.choice(with_kids or holders)
                victim = unwrap(loaded[through[0]].eGet(through[1])).name
                recursive = rng.random() < 0.35
            plan['delete'] = [victim, recursive, through]
            pre = snapshot()
            dead = {victim}
            if recursive:
                dead |= {o.name for o in loaded[victim].eAllContents()}
            try:
                target = loaded[victim] if through is None else loaded[through[0]].eGet(through[1])
                target.delete(recursive=recursive)
                raised = None
            except Exception as e:  # noqa
                raised = type(e).__name__
            post = snapshot()
            cnt += 1
            case = {'scenario': 'proxy', 'seed': ctx.seed, 'tier': ctx.tier, 'history': plan}
            sig = {'property': 'C07', 'clause': None, 'through': 'resolved-proxy'}
            if raised:
                sig['clause'] = 'delete-raised'
                out.fail(sig, f'delete of {victim} raised {raised}', case)
                continue
            bad = []
            for (nm, f), v in post.items():
                if f == 'container':
                    if nm in dead and v is not None and (recursive or nm == victim):
                        bad.append(('deleted-has-container', f'{nm} is deleted but still has container {v}'))
                    continue
                vs = v if isinstance(v, list) else ([v] if v is not None else [])
                if nm not in dead and any(x in dead for x in vs) and f != 'kids':
                    bad.append(('dangling', f'{nm}.{f} still refers to deleted {[x for x in vs if x in dead]}'))
                if nm in dead and f != 'kids' and vs:
                    bad.append(('deleted-holds-reference', f'deleted {nm}.{f} still holds {vs}'))
                if nm not in dead:
                    old = pre[(nm, f)]
                    exp = [x for x in old if x not in dead] if isinstance(old, list) else (None if old in dead else old)
                    if f == 'kids' and not recursive:
                        exp = [x for x in old if x != victim]
                    if exp != v and not any(x in dead for x in vs):
                        bad.append(('survivor-changed', f'{nm}.{f} was {old}, is {v}'))
            if bad:
                sig['clause'] = bad[0][0]
                out.fail(sig, f'after {victim}.delete(recursive={recursive}): {bad[0][1]}', case)
    out.coverage['proxy_delete_cases'] = cnt
    out.coverage['proxy_delete_proxies_resolved'] = proxies
    out.coverage['proxy_delete_merged_resources'] = merged


_kernel_run = run


def run(ctx, out):   # noqa: F811
    _kernel_run(ctx, out)
    proxy_scenarios(ctx, out)


# ---------------------------------------------------------------------------
# a dynamic metamodel that grows after its classes have been used: references added to SUPER classes (plain,
# bidirectional, containment) after instances of the subclasses were deleted / inspected once
# (oracle on the implementation only; the kernel model has a fixed metamodel per case)

def evolving_scenarios(ctx, out):
    from harness import common
    common.use_repo()
    from pyecore import ecore as E
    rng = common.rng_for(ctx.seed, 'C07:evolving')
    n = 40 if ctx.tier != 'thorough' else 800
    cnt = 0

    for it in range(n):
        Base, Mid, Leaf, Side = E.EClass('Base'), E.EClass('Mid'), E.EClass('Leaf'), E.EClass('Side')
        Mid.eSuperTypes.append(Base)
        Leaf.eSuperTypes.append(Mid)
        for c in (Base, Mid, Leaf, Side):
            c.eStructuralFeatures.append(E.EAttribute('name', E.EString))
        Base.eStructuralFeatures.append(E.EReference('link', Base, upper=-1))
        Side.eStructuralFeatures.append(E.EReference('target', Base))
        Base.eStructuralFeatures.append(E.EReference('kids', Base, upper=-1, containment=True))
        objs = []

        def new(cls, nm):
            o = cls(name=nm)
            objs.append(o)
            return o
        hist = []

        def populate(k):
            live = [o for o in objs if o not in dead]
            if not live:
                return
            for _ in range(k):
                o = rng.choice(live)
                feats = [f for f in o.eClass.eAllStructuralFeatures() if isinstance(f, E.EReference)]
                f = rng.choice(feats)
                cands = [x for x in live if f.eType.python_class and isinstance(x, f.eType.python_class)]
                if not cands:
                    continue
                v = rng.choice(cands)
                if f.containment:
                    # keep the containment forest: no cycles, v not an ancestor of o
                    a, cyc = o, False
                    while a is not None:
                        if a is v:
                            cyc = True
                        a = a.eContainer()
                    if cyc:
                        continue
                try:
                    if f.many:
                        o.eGet(f.name).append(v)
                    else:
                        o.eSet(f.name, v)
                    hist.append(['link', o.name, f.name, v.name])
                except Exception as e:  # noqa
                    hist.append(['link', o.name, f.name, v.name, type(e).__name__])

        def snap():
            s = {}
            for o in objs:
                d = {}
                for f in o.eClass.eAllStructuralFeatures():
                    if not isinstance(f, E.EReference):
                        continue
                    v = o.eGet(f.name)
                    d[f.name] = [x.name for x in v] if f.many else (v.name if v is not None else None)
                c = o.eContainer()
                s[o.name] = (d, c.name if c is not None else None)
            return s

        def subtree(o):
            r = [o]
            for f in o.eClass.eAllStructuralFeatures():
                if isinstance(f, E.EReference) and f.containment:
                    v = o.eGet(f.name)
                    for x in (list(v) if f.many else ([v] if v is not None else [])):
                        r += subtree(x)
            return r

        dead = set()
        for i in range(2):
            new(Base, f'b{i}'); new(Mid, f'm{i}'); new(Leaf, f'l{i}'); new(Side, f's{i}')
        new(Leaf, 'l2'); new(Mid, 'm2')
        populate(rng.randrange(3, 9))
        # use the classes once: inspections and possibly one delete
        for o in objs:
            list(o.eContents)
        if rng.random() < 0.7:
            v0 = rng.choice([o for o in objs if isinstance(o, Base.python_class)])
            for x in subtree(v0):
                dead.add(x)
            v0.delete()
            hist.append(['delete', v0.name, True])
        failed = False
        for phase in range(rng.randrange(1, 4)):
            # grow a SUPER class
            host = rng.choice([Base, Mid])
            shape = rng.choice(['plain', 'bidir', 'containment', 'bidir-single', 'flagged-single'])
            nm = f'x{phase}'
            if shape == 'plain':
                host.eStructuralFeatures.append(E.EReference(nm, Side, upper=rng.choice([1, -1])))
            elif shape == 'flagged-single':
                # a single-valued reference carrying one of the flags that do not change how it is stored
                # (derived / transient / volatile / not changeable ... are kept in an ordinary slot when single-valued)
                flag = rng.choice(['derived', 'transient', 'volatile', 'unsettable'])
                host.eStructuralFeatures.append(E.EReference(nm, rng.choice([Side, Base]), **{flag: True}))
                hist.append(['flag', nm, flag])
            elif shape == 'containment':
                # (a containment carrying a flag that does not change ownership: transient / volatile / unsettable)
                kw = {rng.choice(['transient', 'transient', 'volatile', 'unsettable']): True} if rng.random() < 0.5 else {}
                host.eStructuralFeatures.append(E.EReference(nm, rng.choice([Side, Base]), upper=rng.choice([1, -1]),
                                                             containment=True, **kw))
                if kw:
                    hist.append(['flag', nm, list(kw)[0]])
            else:
                r1 = E.EReference(nm, Side, upper=-1 if shape == 'bidir' else 1)
                r2 = E.EReference(nm + 'Of', host, upper=rng.choice([1, -1]))
                host.eStructuralFeatures.append(r1)
                Side.eStructuralFeatures.append(r2)
                r1.eOpposite = r2
            hist.append(['grow', host.name, shape, nm])
            populate(rng.randrange(6, 16))
            live = [o for o in objs if o not in dead]
            if len(live) < 3:
                break
            # the NEW feature is used for sure: a few links through it, and often its holder is the one deleted
            newf = host.findEStructuralFeature(nm)
            holders = []
            for _ in range(4):
                hs = [o for o in live if isinstance(o, host.python_class)]
                cs = [x for x in live if isinstance(x, newf.eType.python_class)]
                if not hs or not cs:
                    break
                o, v = rng.choice(hs), rng.choice(cs)
                if newf.containment:
                    a, cyc = o, False
                    while a is not None:
                        cyc = cyc or a is v
                        a = a.eContainer()
                    if cyc:
                        continue
                try:
                    if newf.many:
                        o.eGet(nm).append(v)
                    else:
                        o.eSet(nm, v)
                    hist.append(['link', o.name, nm, v.name])
                    holders.append(o)
                except Exception as e:  # noqa
                    hist.append(['link', o.name, nm, v.name, type(e).__name__])
            victim = rng.choice(holders) if holders and rng.random() < 0.5 else rng.choice(live)
            recursive = rng.random() < 0.7
            before = snap()
            D = set(subtree(victim)) if recursive else {victim}
            Dn = {x.name for x in D}
            try:
                victim.delete(recursive=recursive)
            except Exception as e:  # noqa
                out.fail({'property': 'C07', 'clause': 'delete-raised', 'scenario': 'evolving', 'shape': shape},
                         f'{victim.name}.delete(recursive={recursive}) raised {type(e).__name__}: {e}',
                         {'scenario': 'evolving', 'seed': ctx.seed, 'tier': ctx.tier, 'history': hist + [['delete', victim.name, recursive]]})
                failed = True
                break
            hist.append(['delete', victim.name, recursive])
            dead |= D
            cnt += 1
            after = snap()
            bad = []
            for o in objs:
                (bd, bc), (ad, ac) = before[o.name], after[o.name]
                if o in D:
                    if ac is not None:
                        bad.append(('deleted-keeps-container', f'{o.name} still has the container {ac}'))
                    for f, v in ad.items():
                        if v not in (None, []):
                            bad.append(('deleted-holds-references', f'{o.name}.{f} still holds {v}'))
                else:
                    for f, v in ad.items():
                        old = bd.get(f)
                        exp = [x for x in old if x not in Dn] if isinstance(old, list) else (None if old in Dn else old)
                        hold = [x for x in (v if isinstance(v, list) else [v]) if x in Dn]
                        if hold:
                            bad.append(('dangling', f'{o.name}.{f} still holds the deleted {hold}'))
                        elif v != exp:
                            bad.append(('survivor-changed', f'{o.name}.{f} was {old}, is {v}'))
                    if ac in Dn and not (not recursive and bc == victim.name):
                        bad.append(('dangling', f'{o.name} is still contained in the deleted {ac}'))
                    elif recursive and ac != bc:
                        bad.append(('survivor-changed', f'container of {o.name} was {bc}, is {ac}'))
            if bad:
                out.fail({'property': 'C07', 'clause': bad[0][0], 'scenario': 'evolving', 'shape': shape,
                          'recursive': recursive},
                         f'after {victim.name}.delete(recursive={recursive}) (reference {nm} added to {host.name} after first use): {bad[0][1]}',
                         {'scenario': 'evolving', 'seed': ctx.seed, 'tier': ctx.tier, 'history': hist})
                failed = True
                break
        if failed:
            continue
    out.coverage['evolving_metamodel_delete_cases'] = cnt


_run_p = run


def run(ctx, out):   # noqa: F811
    _run_p(ctx, out)
    evolving_scenarios(ctx, out)


# ---------------------------------------------------------------------------
# bidirectional references of every collection kind (ordered set / list / bag / unordered set ends, single ends)
# whose ends are filled from ONE side only, from the other side only, or from both: the value of an end that was
# never written directly exists only through the opposite bookkeeping; delete() must empty it all the same
# (oracle on the implementation only: a plain before/after comparison of every reference of every object)

def opposite_filled_scenarios(ctx, out):
    from harness import common
    common.use_repo()
    from pyecore import ecore as E
    rng = common.rng_for(ctx.seed, 'C07:oppfilled')
    n = 150 if ctx.tier != 'thorough' else 2500
    cnt = far_only = 0
    for it in range(n):
        A, B = E.EClass('A'), E.EClass('B')
        for c in (A, B):
            c.eStructuralFeatures.append(E.EAttribute('name', E.EString))
        A.eStructuralFeatures.append(E.EReference('kids', A, upper=-1, containment=True))
        A.eStructuralFeatures.append(E.EReference('plain', B, upper=-1, unique=rng.random() < 0.5))
        B.eStructuralFeatures.append(E.EReference('back', A))
        pairs = []
        for k in range(rng.randrange(1, 4)):
            host, other = rng.choice([(A, B), (B, A), (A, A)])
            kw1 = {'upper': -1, 'unique': rng.random() < 0.4, 'ordered': rng.random() < 0.7}
            kw2 = rng.choice([{}, {}, {'upper': -1, 'unique': rng.random() < 0.5, 'ordered': rng.random() < 0.7}])
            r1 = E.EReference(f'p{k}', other, **kw1)
            r2 = E.EReference(f'q{k}', host, **kw2)
            host.eStructuralFeatures.append(r1)
            other.eStructuralFeatures.append(r2)
            r1.eOpposite = r2
            policy = rng.choice(['far', 'far', 'near', 'mixed'])
            pairs.append((host, other, r1, r2, policy))
        hist = [['pair', h.name, r1.name, {k: v for k, v in (('unique', r1.unique), ('ordered', r1.ordered))},
                 o.name, r2.name, {'many': r2.many, 'unique': r2.unique, 'ordered': r2.ordered}, pol]
                for h, o, r1, r2, pol in pairs]
        objs = [A(name=f'a{i}') for i in range(rng.randrange(2, 5))] + [B(name=f'b{i}') for i in range(rng.randrange(2, 4))]
        As = [o for o in objs if isinstance(o, A.python_class)]
        Bs = [o for o in objs if isinstance(o, B.python_class)]
        inst = {A: As, B: Bs}
        # a containment forest over the A's
        for i, o in enumerate(As[1:], 1):
            if rng.random() < 0.5:
                par = rng.choice(As[:i])
                par.kids.append(o)
                hist.append(['link', par.name, 'kids', o.name])
        for o in As:
            for t in rng.sample(Bs, rng.randrange(0, len(Bs))):
                o.plain.append(t)
                hist.append(['link', o.name, 'plain', t.name])
        for o in Bs:
            if rng.random() < 0.5:
                o.back = rng.choice(As)
                hist.append(['link', o.name, 'back', o.back.name])
        written = set()       # (object name, feature name) ever written directly
        for host, other, r1, r2, policy in pairs:
            for _ in range(rng.randrange(2, 7)):
                side = {'far': 'far', 'near': 'near'}.get(policy) or rng.choice(['far', 'near'])
                h, o = rng.choice(inst[host]), rng.choice(inst[other])
                if side == 'near':
                    src, f, dst = h, r1, o
                else:
                    src, f, dst = o, r2, h
                if f.many:
                    col = src.eGet(f.name)
                    if any(x is dst for x in col):
                        continue       # (twice the same partner in a non-unique end: not generated)
                    col.append(dst)
                else:
                    if src.eGet(f.name) is dst:
                        continue       # (x.q = a; x.q = a puts x twice into a non-unique a.p: reported, not generated)
                    src.eSet(f.name, dst)
                written.add((src.name, f.name))
                hist.append(['link', src.name, f.name, dst.name])

        def snap():
            s = {}
            for o in objs:
                d = {}
                for f in o.eClass.eAllReferences():
                    v = o.eGet(f.name)
                    d[f.name] = [x.name for x in v] if f.many else (v.name if v is not None else None)
                c = o.eContainer()
                s[o.name] = (d, c.name if c is not None else None)
            return s

        def subtree(o):
            r = [o]
            for x in o.eGet('kids') if isinstance(o, A.python_class) else []:
                r += subtree(x)
            return r
        # the deleted object: often one that holds something in an end it never wrote itself
        cands = [o for o in objs for f in o.eClass.eAllReferences()
                 if f.eOpposite is not None and (o.name, f.name) not in written
                 and (len(o.eGet(f.name)) if f.many else o.eGet(f.name) is not None)]
        victim = rng.choice(cands) if cands and rng.random() < 0.7 else rng.choice(objs)
        far_only += any(victim is c for c in cands)
        recursive = rng.random() < 0.7
        D = subtree(victim) if recursive else [victim]
        Dn = {x.name for x in D}
        before = snap()
        case = {'scenario': 'oppfilled', 'seed': ctx.seed, 'tier': ctx.tier,
                'history': hist + [['delete', victim.name, recursive]]}
        sig = {'property': 'C07', 'clause': None, 'scenario': 'oppfilled', 'recursive': recursive}
        try:
            victim.delete(recursive=recursive)
        except Exception as e:  # noqa
            sig['clause'] = 'delete-raised'
            out.fail(sig, f'{victim.name}.delete(recursive={recursive}) raised {type(e).__name__}: {e}', case)
            continue
        cnt += 1
        after = snap()
        bad = []
        unordered = {f.name for c in (A, B) for f in c.eAllReferences() if f.many and not f.ordered}
        for o in objs:
            (bd, bc), (ad, ac) = before[o.name], after[o.name]
            if o.name in Dn:
                if ac is not None:
                    bad.append(('deleted-keeps-container', f'{o.name} still has the container {ac}'))
                for f, v in ad.items():
                    if v not in (None, []) and not (f == 'kids' and not recursive):
                        bad.append(('deleted-holds-references', f'{o.name}.{f} still holds {v}'))
            else:
                for f, v in ad.items():
                    old = bd.get(f)
                    exp = [x for x in old if x not in Dn] if isinstance(old, list) else (None if old in Dn else old)
                    hold = [x for x in (v if isinstance(v, list) else [v]) if x in Dn]
                    if hold:
                        bad.append(('dangling', f'{o.name}.{f} still holds the deleted {hold}'))
                    elif v != exp and not (f in unordered and sorted(v) == sorted(exp)):
                        bad.append(('survivor-changed', f'{o.name}.{f} was {old}, is {v}'))
                if ac in Dn and not (not recursive and bc == victim.name):
                    bad.append(('dangling', f'{o.name} is still contained in the deleted {ac}'))
                elif recursive and ac != bc:
                    bad.append(('survivor-changed', f'container of {o.name} was {bc}, is {ac}'))
        if bad:
            sig['clause'] = bad[0][0]
            out.fail(sig, f'after {victim.name}.delete(recursive={recursive}): {bad[0][1]}', case)
    out.coverage['opposite_filled_delete_cases'] = cnt
    out.coverage['opposite_filled_victim_holds_unwritten_end'] = far_only


_run_e = run


def run(ctx, out):   # noqa: F811
    _run_e(ctx, out)
    opposite_filled_scenarios(ctx, out)


# ---------------------------------------------------------------------------
# models reached through SLICE assignments on list-based (non-unique) plain references whose new values overlap the
# replaced ones, then delete(): the inverse bookkeeping of an element that is replaced and assigned again must
# survive the call (defect repaired by the 'fix:' commit recorded in known_findings.json; oracle on the implementation)
# ---------------------------------------------------------------------------
def slice_then_delete_scenarios(ctx, out):
    from harness import common
    common.use_repo()
    from pyecore import ecore as E
    rng = common.rng_for(ctx.seed, 'C07:slicedel')
    n = 150 if ctx.tier != 'thorough' else 3000
    cnt = overl = tied = 0
    model = common.Model()
    for it in range(n):
        A = E.EClass('A')
        B = E.EClass('B')
        A.eStructuralFeatures.append(E.EReference('refs', B, upper=-1, unique=False))
        A.eStructuralFeatures.append(E.EReference('one', B))
        B.eStructuralFeatures.append(E.EReference('peers', B, upper=-1, unique=False))
        holders = [A() for _ in range(2)]
        pool = [B() for _ in range(5)]
        name = {id(o): 'a%d' % i for i, o in enumerate(holders)}
        name.update({id(o): 'b%d' % i for i, o in enumerate(pool)})
        everything = holders + pool
        hist = []

        def lists():
            return [(h, 'refs') for h in holders] + [(b, 'peers') for b in pool]
        for step in range(rng.randrange(2, 9)):
            owner, f = rng.choice(lists())
            L = owner.eGet(f)
            k = rng.choice(['slice', 'slice', 'append', 'one'])
            if k == 'one':
                h = rng.choice(holders)
                h.one = rng.choice(pool)
                hist.append([name[id(h)], 'one =', name[id(h.one)]])
                continue
            if k == 'append':
                cand = [b for b in pool if all(b is not x for x in L) and b is not owner]
                if cand:
                    b = rng.choice(cand)
                    L.append(b)
                    hist.append([name[id(owner)], f + '.append', name[id(b)]])
                continue
            i = rng.randrange(0, len(L) + 1)
            j = rng.randrange(i, len(L) + 1)
            rest = list(L[:i]) + list(L[j:])
            # the resulting list stays duplicate-free (the same target twice in one list is a listed finding of its own)
            cand = [b for b in pool if all(b is not x for x in rest) and b is not owner]
            rng.shuffle(cand)
            if rng.random() < 0.6:
                cand.sort(key=lambda b: 0 if any(b is x for x in L[i:j]) else 1)   # replaced elements assigned again
            vals = cand[:rng.randrange(0, min(3, len(cand)) + 1)]
            rng.shuffle(vals)
            if not vals:
                continue                                       # an empty right-hand side is not this family's subject
            if any(v is x for v in vals for x in L[i:j]):
                overl += 1
            ptok = {id(b): k2 for k2, b in enumerate(pool)}
            before = [ptok[id(x)] for x in L]
            L[i:j] = vals
            hist.append([name[id(owner)], f + '[%d:%d] =' % (i, j), [name[id(v)] for v in vals]])
            # tie to the Coq model (Model/Slice.v release_then_link, extracted run_sliceinv; theorems
            # C07_slice_assignment_keeps_the_inverse_bookkeeping / C07_link_then_release_refuted): the new list and, for
            # every object involved, whether it records "(owner, feature) refers to me" afterwards
            vt = [ptok[id(v)] for v in vals]
            mo = model.ask('sliceinv', [0, 1, i, 1, j, len(vt)] + vt + [len(before)] + before)
            feat = owner.eClass.findEStructuralFeature(f)
            got = [len(L)] + [ptok[id(x)] for x in L] + \
                [1 if (owner, feat) in pool[t]._inverse_rels else 0 for t in before + vt]
            tied += 1
            if mo != got:
                out.diff(f'slice inverse-bookkeeping model vs impl after {hist[-1]} on {before}: model {mo} impl {got}',
                         {'scenario': 'slicedel', 'seed': ctx.seed, 'tier': ctx.tier, 'history': list(hist)})

        def snap():
            d = {}
            for o in everything:
                e = {}
                for ft in o.eClass.eAllReferences():
                    v = o.eGet(ft)
                    e[ft.name] = [name[id(x)] for x in v] if ft.many else (None if v is None else name[id(v)])
                d[name[id(o)]] = e
            return d
        before = snap()
        victim = rng.choice(pool)
        vn = name[id(victim)]
        hist.append([vn, 'delete'])
        case = {'scenario': 'slicedel', 'seed': ctx.seed, 'tier': ctx.tier, 'history': hist}
        sig = {'property': 'C07', 'scenario': 'slicedel', 'clause': 'raised'}
        try:
            victim.delete()
        except Exception as e:  # noqa
            out.fail(sig, f'{vn}.delete() raised {type(e).__name__}: {e} after {hist}', case)
            continue
        cnt += 1
        after = snap()
        bad = None
        for on, feats in after.items():
            for ft, v in feats.items():
                old = before[on][ft]
                if on == vn:
                    if v not in (None, []):
                        bad = ('deleted-holds-references', f'{on}.{ft} still holds {v}')
                    continue
                exp = [x for x in old if x != vn] if isinstance(old, list) else (None if old == vn else old)
                if (isinstance(v, list) and vn in v) or v == vn:
                    bad = ('dangling', f'{on}.{ft} still holds the deleted {vn}: {v}')
                elif v != exp:
                    bad = ('survivor-changed', f'{on}.{ft} was {old}, is {v}')
                if bad:
                    break
            if bad:
                break
        if bad:
            sig['clause'] = bad[0]
            out.fail(sig, f'after {hist}: {bad[1]}', case)
    model.close()
    out.coverage['slice_then_delete_cases'] = cnt
    out.coverage['slice_inverse_bookkeeping_compared_with_model'] = tied
    out.coverage['slice_then_delete_overlapping_assignments'] = overl


_run_o = run


def run(ctx, out):   # noqa: F811
    _run_o(ctx, out)
    slice_then_delete_scenarios(ctx, out)


# ---------------------------------------------------------------------------
# references INHERITED by the deleted object's class: through eSuperTypes, through a chain of them, or through a
# generic super type alone (eGenericSuperTypes) - delete() must clean them like the class's own (implementation oracle)
# ---------------------------------------------------------------------------
def inherited_reference_scenarios(ctx, out):
    from harness import common
    common.use_repo()
    from pyecore import ecore as E
    rng = common.rng_for(ctx.seed, 'C07:inherited')
    n = 80 if ctx.tier != 'thorough' else 2000
    cnt = 0
    ways = {}
    for it in range(n):
        Node = E.EClass('Node')
        Node.eStructuralFeatures.append(E.EReference('friend', Node))
        Node.eStructuralFeatures.append(E.EReference('friends', Node, upper=-1))
        Base = E.EClass('Base', superclass=(Node,)) if rng.random() < 0.5 else E.EClass('Base')
        Base.eStructuralFeatures.append(E.EReference('target', Node))
        Base.eStructuralFeatures.append(E.EReference('targets', Node, upper=-1))
        Base.eStructuralFeatures.append(E.EReference('kids', Node, upper=-1, containment=True))
        Base.eStructuralFeatures.append(E.EReference('kid', Node, containment=True))
        way = rng.choice(['super', 'chain', 'generic', 'generic-chain', 'own'])
        ways[way] = ways.get(way, 0) + 1
        if way == 'own':
            D = Base
        elif way == 'super':
            D = E.EClass('Derived', superclass=(Base,))
        elif way == 'chain':
            Mid = E.EClass('Mid', superclass=(Base,))
            D = E.EClass('Derived', superclass=(Mid,))
        elif way == 'generic':
            D = E.EClass('Derived')
            D.eGenericSuperTypes.append(E.EGenericType(eClassifier=Base))
        else:
            Mid = E.EClass('Mid')
            Mid.eGenericSuperTypes.append(E.EGenericType(eClassifier=Base))
            D = E.EClass('Derived', superclass=(Mid,))
        if sorted(f.name for f in D.eAllStructuralFeatures() if f.name in ('target', 'targets', 'kids', 'kid')) != \
                ['kid', 'kids', 'target', 'targets']:
            continue                                           # the features are not inherited this way: nothing to delete
        x = D()
        nodes = [Node() for _ in range(5)]
        name = {id(x): 'x'}
        name.update({id(o): 'n%d' % i for i, o in enumerate(nodes)})
        hist = [['inherit', way]]
        free = list(nodes)
        rng.shuffle(free)
        kids = [free.pop() for _ in range(rng.randrange(0, 3))]
        for k in kids:
            x.kids.append(k)
        if free and rng.random() < 0.5:
            k1 = free.pop()
            x.kid = k1
            kids.append(k1)
        hist.append(['kids', [name[id(k)] for k in kids]])
        if rng.random() < 0.7:
            x.target = rng.choice(nodes)
            hist.append(['target', name[id(x.target)]])
        for t in rng.sample(nodes, rng.randrange(0, 4)):
            x.targets.append(t)
            hist.append(['targets.append', name[id(t)]])
        for o in nodes:
            if rng.random() < 0.6:
                o.friend = rng.choice(nodes)
                hist.append([name[id(o)], 'friend', name[id(o.friend)]])
            for t in rng.sample(nodes, rng.randrange(0, 3)):
                o.friends.append(t)
                hist.append([name[id(o)], 'friends.append', name[id(t)]])

        def snap():
            d = {}
            for o in [x] + nodes:
                e = {}
                for ft in o.eClass.eAllStructuralFeatures():
                    if not isinstance(ft, E.EReference):
                        continue
                    v = o.eGet(ft)
                    e[ft.name] = [name[id(y)] for y in v] if ft.many else (None if v is None else name[id(v)])
                c = o.eContainer()
                d[name[id(o)]] = (e, None if c is None else name[id(c)])
            return d
        before = snap()
        recursive = rng.random() < 0.7
        hist.append(['x.delete', recursive])
        case = {'scenario': 'inherited', 'seed': ctx.seed, 'tier': ctx.tier, 'history': hist}
        sig = {'property': 'C07', 'scenario': 'inherited', 'clause': 'raised', 'way': way}
        try:
            x.delete(recursive=recursive)
        except Exception as e:  # noqa
            out.fail(sig, f'x.delete(recursive={recursive}) raised {type(e).__name__}: {e} after {hist}', case)
            continue
        cnt += 1
        after = snap()
        dead = {'x'} | ({name[id(k)] for k in kids} if recursive else set())
        bad = None
        for on, (feats, cont) in after.items():
            for ft, v in feats.items():
                old = before[on][0][ft]
                if on in dead:
                    if v not in (None, []) and not (on == 'x' and ft in ('kids', 'kid') and not recursive):
                        bad = ('deleted-holds-references', f'{on}.{ft} still holds {v}')
                else:
                    exp = [y for y in old if y not in dead] if isinstance(old, list) else (None if old in dead else old)
                    if (isinstance(v, list) and set(v) & dead) or (not isinstance(v, list) and v in dead):
                        bad = ('dangling', f'{on}.{ft} still holds deleted objects: {v}')
                    elif v != exp:
                        bad = ('survivor-changed', f'{on}.{ft} was {old}, is {v}')
                if bad:
                    break
            if not bad and on in dead and cont is not None and recursive:
                bad = ('deleted-keeps-container', f'{on} still has the container {cont}')
            if bad:
                break
        if bad:
            sig['clause'] = bad[0]
            out.fail(sig, f'after {hist}: {bad[1]}', case)
    out.coverage['inherited_reference_delete_cases'] = cnt
    out.coverage['inherited_reference_ways'] = ways


_run_s = run


def run(ctx, out):   # noqa: F811
    _run_s(ctx, out)
    inherited_reference_scenarios(ctx, out)
