(* C14: the lookup order of ResourceSet.resolve.  With the relative-first order a relative href written by save
   reaches the resource registered under the target's normalised path WHATEVER aliases the registry also holds;
   with the raw-first order (before fix 6d0de70) an alias equal to the relative string wins. *)
From Coq Require Import ZArith List Bool.
From PyecoreV Require Import Lib.PyBase Model.Paths Model.PathsIO Model.Href Proofs.PathsProofs.
Import ListNotations.
Local Open Scope Z_scope.

Lemma str_eqb_refl a : str_eqb a a = true.
Proof. induction a as [|x a IH]; simpl; [reflexivity|]. rewrite Z.eqb_refl. exact IH. Qed.

Lemma str_eqb_eq a b : str_eqb a b = true -> a = b.
Proof.
  revert b; induction a as [|x a IH]; intros [|y b] H; simpl in H; try discriminate; [reflexivity|].
  apply andb_prop in H. destruct H as [H1 H2]. apply Z.eqb_eq in H1. subst y. rewrite (IH b H2). reflexivity.
Qed.

(* what save writes for a target b from a resource a comes back to b's key *)
Lemma target_key_of_written a b :
  pabs a = true -> pabs b = true -> plain_all (psegs a) -> plain_all (psegs b) ->
  target_key a (uri_relative_from_me a b) = render_norm b.
Proof.
  intros Ha Hb Pa Pb. unfold target_key. rewrite (relative_roundtrip a b Ha Hb Pa Pb). reflexivity.
Qed.

Theorem relfirst_reaches_the_registered_target (r : registry) a b (id : Z) :
  pabs a = true -> pabs b = true -> plain_all (psegs a) -> plain_all (psegs b) ->
  lookup (render_norm b) r = Some id ->
  resolve_relfirst r a (uri_relative_from_me a b) = Some id.
Proof.
  intros Ha Hb Pa Pb Hl. unfold resolve_relfirst.
  rewrite (target_key_of_written a b Ha Hb Pa Pb). rewrite Hl. reflexivity.
Qed.

(* the fallback is only used when the relative reading names no registered resource *)
Theorem relfirst_fallback (r : registry) from href :
  lookup (target_key from href) r = None ->
  resolve_relfirst r from href = lookup (render href) r.
Proof. intros H. unfold resolve_relfirst. rewrite H. reflexivity. Qed.

(* two referrers in different directories using the SAME relative string: /d1/a -> b.xmi, /d2/c -> b.xmi;
   the registry holds both targets and the alias "b.xmi" left by the first on-demand load (before the fix) *)
Definition s (l : list Z) := l.
Definition P_d1a : path := parse [47; 100; 49; 47; 97].          (* /d1/a *)
Definition P_d2c : path := parse [47; 100; 50; 47; 99].          (* /d2/c *)
Definition P_d1b : path := parse [47; 100; 49; 47; 98].          (* /d1/b *)
Definition P_d2b : path := parse [47; 100; 50; 47; 98].          (* /d2/b *)
Definition REG : registry :=
  [ (render P_d1a, 1); (render P_d1b, 2); ([98], 2) (* alias "b" -> /d1/b *); (render P_d2c, 3); (render P_d2b, 4) ].

Example same_relative_string_relfirst :
  uri_relative_from_me P_d1a P_d1b = uri_relative_from_me P_d2c P_d2b /\
  resolve_relfirst REG P_d1a (uri_relative_from_me P_d1a P_d1b) = Some 2 /\
  resolve_relfirst REG P_d2c (uri_relative_from_me P_d2c P_d2b) = Some 4.
Proof. vm_compute. repeat split; reflexivity. Qed.

Example same_relative_string_rawfirst_refuted :
  resolve_rawfirst REG P_d2c (uri_relative_from_me P_d2c P_d2b) = Some 2.
Proof. vm_compute. reflexivity. Qed.
