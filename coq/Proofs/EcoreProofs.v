(* Well-formedness of the generated Ecore table: every statement is decided by
   a boolean check of Model/EcoreTable.v evaluated by vm_compute on the finite
   generated table (Gen/EcoreMM.v) and lifted with forallb_forall.  A change of
   the self-description in pyecore/ecore.py regenerates the table and re-checks
   (or breaks) these lemmas. *)
From Coq Require Import String List Bool ZArith Lia.
From PyecoreV Require Import Model.EcoreTable Gen.EcoreMM.
Import ListNotations.
Open Scope string_scope.

Lemma key_eqb_eq a b : key_eqb a b = true -> a = b.
Proof.
  destruct a as [a1 a2], b as [b1 b2]. unfold key_eqb. simpl.
  intros H. apply andb_true_iff in H. destruct H as [H1 H2].
  apply String.eqb_eq in H1. apply String.eqb_eq in H2. subst. reflexivity.
Qed.

Lemma key_eqb_refl a : key_eqb a a = true.
Proof. destruct a. unfold key_eqb. simpl. rewrite !String.eqb_refl. reflexivity. Qed.

(* the translator recognised every statement of the self-description *)
Lemma table_complete : ecore_unrecognised = [] /\ ecore_subclass_shadows = [].
Proof. split; reflexivity. Qed.

Lemma chk_involutive_ok : chk_involutive ecore_features = true.
Proof. vm_compute. reflexivity. Qed.
Lemma chk_claims_ok : chk_claims_functional ecore_features = true.
Proof. vm_compute. reflexivity. Qed.
Lemma chk_types_ok : chk_opposite_types ecore_features = true.
Proof. vm_compute. reflexivity. Qed.
Lemma chk_container_ok : chk_container_single ecore_features = true.
Proof. vm_compute. reflexivity. Qed.
Lemma chk_many_ok : chk_many_bidir_unique ecore_features = true.
Proof. vm_compute. reflexivity. Qed.
Lemma chk_typed_ok : chk_typed ecore_classes ecore_datatypes ecore_features = true.
Proof. vm_compute. reflexivity. Qed.
Lemma chk_names_ok : chk_own_names_unique ecore_features = true.
Proof. vm_compute. reflexivity. Qed.

(* generic statements about any table passing the checks *)
Section Lift.
Variable tbl : list mfeature.

Lemma involutive_of_chk :
  chk_involutive tbl = true ->
  forall f, In f tbl ->
    (forall k, f_opposite f = Some k -> exists g, eff_opp tbl f = Some g) /\
    (forall g, eff_opp tbl f = Some g ->
       is_ref f = true /\ is_ref g = true /\
       exists f', eff_opp tbl g = Some f' /\ key f' = key f).
Proof.
  intros H f Hin. unfold chk_involutive in H. rewrite forallb_forall in H.
  specialize (H f Hin). split.
  - intros k Hk. destruct (eff_opp tbl f) as [g|] eqn:E; [eauto|].
    rewrite Hk in H. discriminate.
  - intros g Hg. rewrite Hg in H.
    apply andb_true_iff in H. destruct H as [H H3].
    apply andb_true_iff in H. destruct H as [H1 H2].
    repeat split; try assumption.
    destruct (eff_opp tbl g) as [f'|] eqn:E; [|discriminate].
    exists f'. split; [reflexivity|]. unfold same_feature in H3. apply key_eqb_eq. exact H3.
Qed.

Lemma types_of_chk :
  chk_opposite_types tbl = true ->
  forall f g, In f tbl -> eff_opp tbl f = Some g ->
    f_type f = f_owner g /\ f_type g = f_owner f.
Proof.
  intros H f g Hin Hg. unfold chk_opposite_types in H. rewrite forallb_forall in H.
  specialize (H f Hin). rewrite Hg in H. apply andb_true_iff in H. destruct H as [H1 H2].
  apply String.eqb_eq in H1. apply String.eqb_eq in H2. split; assumption.
Qed.

Lemma container_of_chk :
  chk_container_single tbl = true ->
  forall f g, In f tbl -> eff_opp tbl f = Some g -> f_containment g = true ->
    f_many f = false /\ f_containment f = false.
Proof.
  intros H f g Hin Hg Hc. unfold chk_container_single in H. rewrite forallb_forall in H.
  specialize (H f Hin). rewrite Hg, Hc in H. apply andb_true_iff in H. destruct H as [H1 H2].
  apply negb_true_iff in H1. apply negb_true_iff in H2. split; assumption.
Qed.

Lemma many_unique_of_chk :
  chk_many_bidir_unique tbl = true ->
  forall f g, In f tbl -> eff_opp tbl f = Some g -> f_many f = true -> f_unique f = true.
Proof.
  intros H f g Hin Hg Hm. unfold chk_many_bidir_unique in H. rewrite forallb_forall in H.
  specialize (H f Hin). rewrite Hg, Hm in H. exact H.
Qed.

Lemma written_of_chk classes except need :
  chk_written classes tbl except need = true ->
  forall c n, In (c, n) need -> ~ In (c, n) except ->
    exists f, lookup_feature classes tbl c n = Some f /\
              reaches_isset f = true /\ f_derived f = false /\ f_transient f = false.
Proof.
  intros H c n Hin Hex. unfold chk_written in H. rewrite forallb_forall in H.
  specialize (H (c, n) Hin). apply orb_true_iff in H. destruct H as [H|H].
  - exfalso. apply Hex. apply existsb_exists in H. destruct H as [x [Hx Hk]].
    apply key_eqb_eq in Hk. subst x. exact Hx.
  - simpl in H. destruct (lookup_feature classes tbl c n) as [f|]; [|discriminate].
    exists f. split; [reflexivity|]. unfold written in H.
    apply andb_true_iff in H. destruct H as [H H3].
    apply andb_true_iff in H. destruct H as [H1 H2].
    apply negb_true_iff in H2. apply negb_true_iff in H3. repeat split; assumption.
Qed.
End Lift.

(* a found feature is a feature of the table, declared by the class or one of its supertypes, under that name *)
Lemma lookup_feature_sound classes tbl c n f :
  lookup_feature classes tbl c n = Some f ->
  In f tbl /\ In (f_owner f) (all_supers classes c) /\ f_name f = n.
Proof.
  unfold lookup_feature. intros H. apply find_some in H. destruct H as [Hin Hp].
  apply in_flat_map in Hin. destruct Hin as [s [Hs Hf]].
  apply filter_In in Hf. destruct Hf as [Hf Ho]. apply String.eqb_eq in Ho.
  apply andb_true_iff in Hp. destruct Hp as [_ Hn]. apply String.eqb_eq in Hn.
  repeat split; try assumption. rewrite Ho. exact Hs.
Qed.

Lemma chk_written_ok : chk_written ecore_classes ecore_features [] signature_features = true.
Proof. vm_compute. reflexivity. Qed.

Lemma C10_written_proof :
  forall c n, In (c, n) signature_features ->
    exists f, lookup_feature ecore_classes ecore_features c n = Some f /\
              In f ecore_features /\ f_name f = n /\
              reaches_isset f = true /\ f_derived f = false /\ f_transient f = false.
Proof.
  intros c n Hin.
  destruct (written_of_chk ecore_features ecore_classes [] signature_features chk_written_ok c n Hin (fun x => x))
    as [f [Hl [H1 [H2 H3]]]].
  destruct (lookup_feature_sound _ _ _ _ _ Hl) as [Hi [_ Hn]].
  exists f. repeat split; assumption.
Qed.
