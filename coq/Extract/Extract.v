(* Extraction of the executable models (trusted base: ExtrOcamlBasic only;
   Z, positive and nat stay extracted inductive datatypes). *)
From Coq Require Import ExtrOcamlBasic.
From PyecoreV Require Import Model.Coll Model.KernelIO Model.Premises Model.Fragment Model.Defaults Model.MetaViews Model.Commands Model.SaveFsIO Model.ResourceSet Model.DataConv Model.C3 Model.Operations Model.MetaEdit Model.EcoreIO Model.XmiAttr Model.JsonVal Model.RefLoad Model.PathsIO.
Extraction "modelgen.ml" run_coll run_kernel run_premises run_frag run_defaults run_metaviews run_commands run_savefs run_rset run_dataconv run_c3 run_sig run_promote run_iskw run_metaedit run_ecoremm run_xmiattr run_jsonval run_refload run_paths run_proxy.
