"""C03 — kernel property: see DESIGN.md section 5 and harness/kprop.py."""
from harness import kgen, kprop

PID = 'C03'


def run(ctx, out):
    kprop.run(ctx, out, PID, ['C03'], {'outcome','values','isset'}, 2000, 40000, pool=None, weights={'res':0.02,'delete':0.02}, p_wrong=0.3)


def replay(ctx, rep):
    from harness import krun
    case = rep['case']
    r = krun.Run(case, ['C03']).run()
    for s in r.steps:
        print(s['op'], '->', s['outcome'])
    if r.failure:
        print('REPRODUCED', r.failure['property'], r.failure['clause'], r.failure['detail'])
        return 1
    print('not reproduced')
    return 0
