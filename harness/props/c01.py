"""C01 — kernel property: see DESIGN.md section 5 and harness/kprop.py."""
from harness import kgen, kprop

PID = 'C01'


def run(ctx, out):
    kprop.run(ctx, out, PID, ['C01'], {'outcome','refs-as-sets','values'}, 2000, 40000, pool=kgen.REF_TEMPLATES, weights=None, p_wrong=0.05)
    # bidirectional references whose ends are typed asymmetrically (far end typed by a subclass): the ends must
    # agree after every call, accepted or refused (oracle on the implementation only; shared with C03)
    from harness.props import c03
    c03.asym_scenarios(ctx, out, pid=PID)


def replay(ctx, rep):
    from harness import krun, common
    case = rep['case']
    if case.get('scenario') == 'asym':
        from harness.props import c03
        return common.scenario_replay(ctx, rep, {'asym': lambda c, o: c03.asym_scenarios(c, o, pid=PID)})
    r = krun.Run(case, ['C01']).run()
    for s in r.steps:
        print(s['op'], '->', s['outcome'])
    if r.failure:
        print('REPRODUCED', r.failure['property'], r.failure['clause'], r.failure['detail'])
        return 1
    print('not reproduced')
    return 0


# ---------------------------------------------------------------------------
# "... or load": a loaded model has symmetric opposites too — also when the document carries only ONE end of a
# pair (the other end declared transient, which save skips)  (oracle on the implementation only)

def load_scenarios(ctx, out):
    import os
    import tempfile
    from harness import common
    common.use_repo()
    from pyecore.ecore import EClass, EAttribute, EReference, EString, EPackage
    from pyecore.resources import ResourceSet, URI
    from pyecore.resources.json import JsonResource
    rng = common.rng_for(ctx.seed, 'C01:load')
    n = 30 if ctx.tier != 'thorough' else 600
    cnt = pairs_checked = 0
    for it in range(n):
        fmt = 'xmi' if it % 2 == 0 else 'json'
        pkg = EPackage('p', nsURI=f'http://verif/c01/load/{it}', nsPrefix='p')
        A, B = EClass('A'), EClass('B')
        for c in (A, B):
            c.eStructuralFeatures.append(EAttribute('name', EString))
        A.eStructuralFeatures.append(EReference('kids', A, upper=-1, containment=True))
        A.eStructuralFeatures.append(EReference('bs', B, upper=-1, containment=True))
        pairs = []
        for k, (m1, m2) in enumerate([(False, False), (False, True), (True, False), (True, True)]):
            if rng.random() < 0.7:
                f = EReference(f'f{k}', B, upper=-1 if m1 else 1)
                g = EReference(f'g{k}', A, upper=-1 if m2 else 1, eOpposite=f)
                tr = rng.choice([None, None, 'f', 'g'])          # one end transient: only the other is written
                if tr == 'f':
                    f.transient = True
                if tr == 'g':
                    g.transient = True
                A.eStructuralFeatures.append(f)
                B.eStructuralFeatures.append(g)
                pairs.append((f'f{k}', m1, f'g{k}', m2, tr))
        if not pairs:
            continue
        pkg.eClassifiers.extend([A, B])
        root = A(name='r')
        as_ = [root] + [A(name=f'a{i}') for i in range(rng.randrange(1, 4))]
        bs = [B(name=f'b{i}') for i in range(rng.randrange(2, 5))]
        for a in as_[1:]:
            root.kids.append(a)
        for b in bs:
            rng.choice(as_).bs.append(b)
        links = []
        for (f, m1, g, m2, tr) in pairs:
            for _ in range(rng.randrange(1, 5)):
                a, b = rng.choice(as_), rng.choice(bs)
                try:
                    if m1:
                        getattr(a, f).append(b)
                    else:
                        setattr(a, f, b)
                    links.append([a.name, f, b.name])
                except Exception:  # noqa
                    pass
        hist = {'format': fmt, 'pairs': [list(p) for p in pairs], 'links': links, 'as': len(as_), 'bs': len(bs)}
        case = {'scenario': 'load', 'seed': ctx.seed, 'tier': ctx.tier, 'history': hist}
        with tempfile.TemporaryDirectory() as tmp:
            try:
                rs = ResourceSet()
                rs.resource_factory['json'] = lambda uri: JsonResource(uri)
                rs.metamodel_registry[pkg.nsURI] = pkg
                res = rs.create_resource(URI(os.path.join(tmp, f'm.{fmt}')))
                res.append(root)
                res.save()
                rs2 = ResourceSet()
                rs2.resource_factory['json'] = lambda uri: JsonResource(uri)
                rs2.metamodel_registry[pkg.nsURI] = pkg
                lroot = rs2.get_resource(URI(os.path.join(tmp, f'm.{fmt}'))).contents[0]
            except Exception as e:  # noqa  (save/load failures are C08/C09's subject)
                out.notes.append(f'C01 load scenario skipped: {type(e).__name__}: {e}'[:200])
                continue
            cnt += 1
            objs = [lroot] + list(lroot.eAllContents())
            la = [o for o in objs if o.eClass.name == 'A']
            lb = [o for o in objs if o.eClass.name == 'B']
            bad = None
            for (f, m1, g, m2, tr) in pairs:
                for a in la:
                    fa = list(getattr(a, f)) if m1 else ([getattr(a, f)] if getattr(a, f) is not None else [])
                    for b in lb:
                        gb = list(getattr(b, g)) if m2 else ([getattr(b, g)] if getattr(b, g) is not None else [])
                        pairs_checked += 1
                        if (b in fa) != (a in gb):
                            bad = (f, g, a.name, b.name, b in fa, a in gb, tr)
            if bad:
                f, g, an, bn, x, y, tr = bad
                out.fail({'property': 'C01', 'clause': 'asymmetric-after-load', 'format': fmt, 'transient_end': tr is not None},
                         f'after loading the {fmt} document: {bn} in {an}.{f} is {x} but {an} in {bn}.{g} is {y} '
                         f'(transient end: {tr})', case)
    out.coverage['load_scenarios'] = cnt
    out.coverage['load_pairs_checked'] = pairs_checked


_run_k = run


def run(ctx, out):   # noqa: F811
    _run_k(ctx, out)
    load_scenarios(ctx, out)


_replay_k = replay


def replay(ctx, rep):   # noqa: F811
    if rep.get('case', {}).get('scenario') == 'load':
        from harness import common
        return common.scenario_replay(ctx, rep, {'load': load_scenarios})
    return _replay_k(ctx, rep)


# ---------------------------------------------------------------------------
# opposite ends living in two resources: after a load (either file first) one end may hold its partner through a
# resolved proxy; every mutation on either end keeps the ends symmetric all the same  (implementation only)

DANGLING = object()


def cross_resource_scenarios(ctx, out):
    import os
    import tempfile
    from harness import common
    common.use_repo()
    from pyecore.ecore import EClass, EAttribute, EReference, EString, EPackage, EProxy
    from pyecore.resources import ResourceSet, URI
    from pyecore.resources.json import JsonResource
    rng = common.rng_for(ctx.seed, 'C01:cross')
    n = 30 if ctx.tier != 'thorough' else 500
    cnt = ops = 0
    for it in range(n):
        fmt = 'xmi' if it % 2 == 0 else 'json'
        pkg = EPackage('p', nsURI=f'http://verif/c01/cross/{it}', nsPrefix='p')
        Team, Person = EClass('Team'), EClass('Person')
        for c in (Team, Person):
            c.eStructuralFeatures.append(EAttribute('name', EString))
        members = EReference('members', Person, upper=-1)
        team = EReference('team', Team, eOpposite=members)
        fans = EReference('fans', Person, upper=-1)
        likes = EReference('likes', Team, upper=-1, eOpposite=fans)
        captain = EReference('captain', Person)
        captain_of = EReference('captainOf', Team, eOpposite=captain)
        Team.eStructuralFeatures.extend([members, fans, captain])
        Person.eStructuralFeatures.extend([team, likes, captain_of])
        pkg.eClassifiers.extend([Team, Person])
        pairs = [('members', True, 'team', False), ('fans', True, 'likes', True), ('captain', False, 'captainOf', False)]

        def new_rset():
            rs = ResourceSet()
            rs.metamodel_registry[pkg.nsURI] = pkg
            rs.resource_factory['json'] = lambda uri: JsonResource(uri)
            return rs
        with tempfile.TemporaryDirectory() as tmp:
            pt, pp = os.path.join(tmp, f'teams.{fmt}'), os.path.join(tmp, f'people.{fmt}')
            rs = new_rset()
            rt, rp = rs.create_resource(URI(pt)), rs.create_resource(URI(pp))
            teams = [Team(name=f't{i}') for i in range(2)]
            people = [Person(name=f'p{i}') for i in range(rng.randrange(2, 5))]
            for t in teams:
                rt.append(t)
            for p in people:
                rp.append(p)
            for p in people:
                if rng.random() < 0.8:
                    p.team = rng.choice(teams)
                for t in teams:
                    if rng.random() < 0.4:
                        p.likes.append(t)
            for t in teams:
                free = [p for p in people if p.captainOf is None]
                if free and rng.random() < 0.7:
                    t.captain = rng.choice(free)
            first = rng.choice(['teams', 'people'])
            hist = {'format': fmt, 'first': first, 'people': len(people), 'ops': []}
            case = {'scenario': 'cross', 'seed': ctx.seed, 'tier': ctx.tier, 'history': hist}
            try:
                rt.save()
                rp.save()
                rs2 = new_rset()
                la = rs2.get_resource(URI(pt if first == 'teams' else pp))
                lb = rs2.get_resource(URI(pp if first == 'teams' else pt))
                lt = list((la if first == 'teams' else lb).contents)
                lp = list((lb if first == 'teams' else la).contents)
            except Exception as e:  # noqa  (C08/C09/C14's subject)
                out.notes.append(f'C01 cross scenario skipped: {type(e).__name__}: {e}'[:160])
                continue
            cnt += 1

            def un(v):
                if not isinstance(v, EProxy):
                    return v
                try:
                    return v.force_resolve()
                except Exception:  # noqa  (a dangling proxy: stands for no object of the model)
                    return DANGLING

            def vals(o, f, many):
                v = o.eGet(f)
                return [un(x) for x in v] if many else ([] if v is None else [un(v)])

            def asym():
                for f, m1, g, m2 in pairs:
                    for t in lt:
                        for p in lp:
                            a, b = any(x is p for x in vals(t, f, m1)), any(x is t for x in vals(p, g, m2))
                            if a != b:
                                return f'{p.name} in {t.name}.{f} is {a} but {t.name} in {p.name}.{g} is {b}'
                return None
            bad = asym()
            if bad:
                out.fail({'property': 'C01', 'clause': 'asymmetric-after-cross-resource-load', 'format': fmt}, bad, case)
                continue
            for step in range(rng.randrange(2, 7)):
                f, m1, g, m2 = rng.choice(pairs)
                t, p = rng.choice(lt), rng.choice(lp)
                side = rng.choice(['team-end', 'person-end'])
                o, feat, many, other = (t, f, m1, p) if side == 'team-end' else (p, g, m2, t)
                k = rng.choice(['remove', 'pop', 'clear', 'append', 'del']) if many else rng.choice(['set', 'unset', 'del', 'set-dangling'])
                hist['ops'].append([side, feat, k, o.name, other.name])
                ops += 1
                try:
                    coll = o.eGet(feat)
                    if k == 'remove':
                        held = [x for x in coll if un(x) is other]
                        if held:
                            coll.remove(held[0])
                    elif k == 'pop':
                        if len(coll):
                            coll.pop(rng.randrange(len(coll)))
                    elif k == 'clear':
                        coll.clear()
                    elif k == 'append':
                        if not any(un(x) is other for x in coll):
                            coll.append(other)
                    elif k == 'set':
                        o.eSet(feat, other)
                    elif k == 'unset':
                        o.eSet(feat, None)
                    elif k == 'set-dangling':
                        # a proxy whose fragment names nothing: the call may raise; whatever it leaves behind, the
                        # objects of the model still agree (the previous partner was released, or nothing changed)
                        try:
                            o.eSet(feat, EProxy(path='//@nowhere.99', resource=o.eResource))
                        except Exception as e:  # noqa
                            hist['ops'][-1].append(type(e).__name__)
                    else:
                        delattr(o, feat)
                except (KeyError, RuntimeError):
                    # removal of a proxy held under a stale hash in a unique collection: C14's known finding
                    hist['ops'][-1].append('stale-hash')
                    break
                except Exception as e:  # noqa
                    out.fail({'property': 'C01', 'clause': 'cross-resource-operation-raised', 'format': fmt},
                             f'{hist["ops"][-1]} raised {type(e).__name__}: {e}', case)
                    break
                bad = asym()
                if bad:
                    out.fail({'property': 'C01', 'clause': 'asymmetric-across-resources', 'format': fmt},
                             f'after {hist["ops"][-1]} (loaded {first} first): {bad}', case)
                    break
                if k == 'set-dangling':
                    break         # the slot may now hold a proxy that names nothing: later calls on it are not C01's subject
    out.coverage['cross_resource_models'] = cnt
    out.coverage['cross_resource_operations'] = ops


_run_k2 = run


def run(ctx, out):   # noqa: F811
    _run_k2(ctx, out)
    cross_resource_scenarios(ctx, out)


_replay_k2 = replay


def replay(ctx, rep):   # noqa: F811
    if rep.get('case', {}).get('scenario') == 'cross':
        from harness import common
        return common.scenario_replay(ctx, rep, {'cross': cross_resource_scenarios})
    return _replay_k2(ctx, rep)
