(* The global well-formedness WF (symmetry of opposites, shape of slots,
   ownership, resources, roots without container) is preserved by EVERY public
   operation of the kernel model, for every well-formed metamodel; hence it
   holds along every history from the initial state.
   Pieces: Proofs/WFRemove.v (remove / unset units), Proofs/SymLink.v (symmetry
   of the linking direction), Proofs/OwnPrim.v, OwnAdd.v, OwnSet.v (ownership of
   the linking direction), Proofs/OwnColl.v (composite collection operations). *)
From Coq Require Import ZArith List Bool Arith Lia.
From PyecoreV Require Import Lib.PyBase Lib.PyList Model.Kernel Proofs.PyListFacts Proofs.KernelFacts Proofs.C01Proofs Proofs.C01Full Proofs.C02Proofs Proofs.WFBase Proofs.WFRemove Proofs.SymLink Proofs.OwnPrim Proofs.OwnAdd Proofs.OwnSet Proofs.OwnColl.
Import ListNotations.
Open Scope nat_scope.

Section Delete.
Variable m : mm.
Hypothesis W : wf_mm m.

Lemma WF_delete_step x s k : WF m s -> WF m (delete_step m x s k).
Proof.
  intros H. destruct k as [owner f]. unfold delete_step.
  destruct (f_many (fd m f)) eqn:Hm.
  - destruct (owner =? x); [apply (WF_clear m W); assumption|].
    destruct (vmem (VObj x) (vals s (owner, f))) eqn:E; [|exact H].
    apply (WF_remove_any m W); assumption.
  - destruct ((match single s (owner, f) with VObj y => y =? x | _ => false end) || (owner =? x)); [|exact H].
    apply (WF_set_full m W); assumption.
Qed.

Lemma WF_fold_delete_step x l s : WF m s -> WF m (fold_left (delete_step m x) l s).
Proof.
  revert s; induction l as [|k l IH]; intros s H; simpl; [exact H|].
  apply IH. apply WF_delete_step. exact H.
Qed.

(* EObject.delete, recursive or not, whatever the inverse-reference bookkeeping lists *)
Theorem WF_delete_obj fuel s x r : WF m s -> WF m (delete_obj fuel m s x r).
Proof.
  revert s x r; induction fuel as [|fu IH]; intros s x r H; simpl; [exact H|].
  apply WF_fold_delete_step. destruct r; [|exact H].
  generalize (econtents m s x). intros l. revert s H.
  induction l as [|c l IHl]; intros s H; simpl; [exact H|]. apply IHl. apply IH. exact H.
Qed.

End Delete.

(* Resource.remove of a present root *)
Lemma WF_res_remove_raw m s r o : WF m s -> In o (rcont s r) -> WF m (res_remove_raw s r o).
Proof.
  intros [H1 H2 H3 H4 H5] Hin. constructor.
  - apply (sym_ext m s); [intros k; reflexivity | exact H1].
  - exact H2.
  - exact H3.
  - apply res_ok_remove_raw; assumption.
  - intros c r'. cbn [rcont cont res_remove_raw set_eres set_rcont]. unfold updn.
    destruct (r =? r'); [|apply H5]. intros Hc.
    apply (remove_nat_In o c _ (proj1 H4 r)) in Hc. apply (H5 c r). tauto.
Qed.

Section ResAppend.
Variable m : mm.
Hypothesis W : wf_mm m.

(* appending o, which is a root of no resource, and taking it out of its container *)
Lemma res_append_go s0 r o :
  WF m s0 -> (forall r', ~ In o (rcont s0 r')) ->
  let s' :=
    (let s1 := set_eres (set_rcont s0 r (rcont s0 r ++ [o])) o (Some r) in
     match cont s1 o with
     | Some (p, pf) =>
       if f_many (fd m pf)
       then (if vmem (VObj o) (vals s1 (p, pf)) then coll_remove_full m s1 (p, pf) (VObj o) else s1)
       else snd (set_full m s1 (p, pf) VNone)
     | None => s1 end) in
  sym m s' /\ shape2 m s' /\ own_ok m s' /\ roots_free s'.
Proof.
  intros H Hno. cbv zeta.
  set (s1 := set_eres (set_rcont s0 r (rcont s0 r ++ [o])) o (Some r)).
  assert (Hroot1 : forall c r', In c (rcont s1 r') -> In c (rcont s0 r') \/ c = o).
  { intros c r'. unfold s1. cbn [rcont set_eres set_rcont]. unfold updn. destruct (Nat.eqb_spec r r') as [E|N]; [|tauto].
    subst r'. rewrite in_app_iff. simpl. intros [Hc|[Hc|[]]]; [left; exact Hc | right; congruence]. }
  change (cont s1 o) with (cont s0 o).
  destruct (cont s0 o) as [[p pf]|] eqn:Ec.
  - destruct (WF_child_slot m s0 o p pf H Ec) as [Hc [Hin Hone]].
    pose proof (wf_cont_ref m W pf Hc) as Hr.
    assert (E : (if f_many (fd m pf)
                 then (if vmem (VObj o) (vals s1 (p, pf)) then coll_remove_full m s1 (p, pf) (VObj o) else s1)
                 else snd (set_full m s1 (p, pf) VNone)) = remove_or_unset m s1 (p, pf) o).
    { unfold remove_or_unset. cbn [snd]. rewrite set_full_none_is_set_none_full. reflexivity. }
    rewrite E. clear E.
    pose proof (remove_or_unset_WF m W s0 (p, pf) o H Hr) as H0'.
    set (s0' := remove_or_unset m s0 (p, pf) o) in *. set (s' := remove_or_unset m s1 (p, pf) o).
    assert (EV : forall k, vals s' k = vals s0' k).
    { intros k. unfold s', s0'. rewrite (RU_vals m W s1 p pf o Hc Hin Hone k).
      rewrite (RU_vals m W s0 p pf o Hc Hin Hone k). reflexivity. }
    assert (EC : forall c, cont s' c = cont s0' c).
    { intros c. unfold s', s0'. rewrite (cont_remove_or_unset m W s1 p pf o Hc Hin Hone c).
      rewrite (cont_remove_or_unset m W s0 p pf o Hc Hin Hone c). reflexivity. }
    split; [|split; [|split]].
    + apply (sym_ext m s0'); [exact EV | exact (wf_sym m _ H0')].
    + intros a h. rewrite EV. exact (wf_shape m _ H0' a h).
    + intros c p0 h. rewrite EC, EV. exact (wf_own m _ H0' c p0 h).
    + intros c r' Hcr. destruct (rframe_remove_or_unset m s1 (p, pf) o) as [R1 _]. fold s' in R1. rewrite R1 in Hcr.
      unfold s'. rewrite (cont_remove_or_unset m W s1 p pf o Hc Hin Hone c).
      destruct (Nat.eqb_spec o c) as [Eo|No]; [reflexivity|].
      destruct (Hroot1 c r' Hcr) as [Hc0|Hc0]; [exact (wf_roots m s0 H c r' Hc0) | congruence].
  - split; [|split; [|split]].
    + apply (sym_ext m s0); [intros k; reflexivity | exact (wf_sym m _ H)].
    + exact (wf_shape m _ H).
    + exact (wf_own m _ H).
    + intros c r' Hcr. change (cont s1 c) with (cont s0 c).
      destruct (Hroot1 c r' Hcr) as [Hc0|Hc0]; [exact (wf_roots m s0 H c r' Hc0) | subst c; exact Ec].
Qed.

(* Resource.append *)
Theorem WF_res_append s r o : WF m s -> WF m (res_append m s r o).
Proof.
  intros H. pose proof (res_ok_res_append m s r o (wf_res m s H)) as Hres. revert Hres.
  unfold res_append. pose proof (wf_res m s H) as [A B].
  destruct (eres s o) as [p|] eqn:Ep.
  - destruct (nmem o (rcont s p)) eqn:En.
    + destruct (p =? r); [intros _; exact H|]. intros Hres.
      assert (Hin : In o (rcont s p)) by (apply nmem_In; exact En).
      pose proof (WF_res_remove_raw m s p o H Hin) as H1.
      destruct (res_append_go (res_remove_raw s p o) r o H1) as [S1 [S2 [S3 S4]]].
      * intros r' Hr'. apply (proj2 (wf_res m _ H1)) in Hr'.
        cbn [eres res_remove_raw set_eres set_rcont] in Hr'. unfold updn in Hr'. rewrite Nat.eqb_refl in Hr'. discriminate.
      * constructor; assumption.
    + exfalso. apply (proj2 (B o p)) in Ep. apply nmem_In in Ep. congruence.
  - intros Hres. destruct (res_append_go s r o H) as [S1 [S2 [S3 S4]]].
    + intros r' Hr'. apply B in Hr'. congruence.
    + constructor; assumption.
Qed.

Lemma WF_res_extend s r os : WF m s -> WF m (fold_left (fun acc o => res_append m acc r o) os s).
Proof.
  revert s; induction os as [|o os IH]; intros s H; simpl; [exact H|]. apply IH. apply WF_res_append. exact H.
Qed.

End ResAppend.

(* ---------- every operation ---------- *)
(* The only premise about a call: the collection operations address a many-valued
   feature (Python reaches them through an ECollection, which only many-valued
   features have).  Nothing is asked of the state beyond WF: re-parenting, stealing
   a child from another container or from a resource, x.kids.append(x) and longer
   containment cycles included. *)
Definition op_many (m : mm) (o : op) : Prop :=
  match o with
  | OAppend x f _ | OInsert x f _ _ | ORemove x f _ | OPop x f _ | OClear x f
  | OExtend x f _ | OSetItem x f _ _ | ODelItem x f _ => f_many (fd m f) = true
  | _ => True
  end.

Definition op_fits (m : mm) (s : state) (o : op) : Prop := op_many m o.

Theorem WF_step m : wf_mm m -> forall s o, WF m s -> op_fits m s o -> WF m (next m s o).
Proof.
  intros W s o H Ho. unfold op_fits in Ho. unfold next, step.
  destruct o as [x f v|x f|x f|x f vs|x f v|x f i v|x f v|x f i|x f|x f vs|x f i v|x f i|x r|r o|r o|r os|x f];
    cbn [fst snd]; cbn [op_many] in Ho.
  - destruct (f_many (fd m f)) eqn:Hm; [exact H | apply (WF_set_full m W); assumption].
  - destruct (f_many (fd m f)) eqn:Hm; [exact H | apply (WF_set_full m W); assumption].
  - apply (WF_del m W); exact H.
  - destruct (f_many (fd m f)) eqn:Hm; [apply (WF_assign m W); assumption | exact H].
  - apply (WF_coll_add_full m W); assumption.
  - apply (WF_coll_add_full m W); assumption.
  - unfold coll_remove_top. destruct (vmem v (vals s (x, f))) eqn:E; cbn [snd]; [|exact H].
    apply (WF_remove_any m W); assumption.
  - apply (WF_pop m W); assumption.
  - apply (WF_clear m W); assumption.
  - apply (WF_extend m W); assumption.
  - apply (WF_setitem m W); assumption.
  - apply (WF_delitem m W); assumption.
  - apply (WF_delete_obj m W); exact H.
  - apply (WF_res_append m W); exact H.
  - unfold res_remove. destruct (nmem o (rcont s r)) eqn:En; cbn [snd]; [|exact H].
    apply WF_res_remove_raw; [exact H | apply nmem_In; exact En].
  - apply (WF_res_extend m W); exact H.
  - exact H.
Qed.

Theorem WF_history_from m : wf_mm m -> forall ops s,
  WF m s -> Forall (op_many m) ops -> WF m (fold_left (next m) ops s).
Proof.
  intros W ops. induction ops as [|o ops IH]; intros s H Hok; simpl; [exact H|].
  inversion Hok; subst. apply IH; [apply (WF_step m W); assumption | assumption].
Qed.

Theorem WF_history m : wf_mm m -> ref_defaults_none m -> forall ops,
  Forall (op_many m) ops -> WF m (fold_left (next m) ops (init_state m)).
Proof. intros W Hd ops Hok. apply (WF_history_from m W); [apply WF_init; assumption | exact Hok]. Qed.

(* the ownership part alone, as first asked *)
Theorem own_step m : wf_mm m -> forall s o, WF m s -> op_fits m s o ->
  own_ok m (next m s o) /\ roots_free (next m s o) /\ shape2 m (next m s o).
Proof.
  intros W s o H Ho. pose proof (WF_step m W s o H Ho) as [_ H2 H3 _ H5]. split; [exact H3 | split; [exact H5 | exact H2]].
Qed.

Print Assumptions WF_step.
Print Assumptions WF_history.
Print Assumptions own_step.

(* ---------- non-vacuity: self-containment and a containment cycle are covered ---------- *)
Example WF_covers_cycles :
  let ops := [OSet 2 3 (VObj 2); OSet 2 3 (VObj 3); OSet 3 3 (VObj 2); ORAppend 0 3; OAppend 0 0 (VObj 2)] in
  let s := fold_left (next ex_mm_link) ops (init_state ex_mm_link) in
  WF ex_mm_link s /\
  (* after x.twin = x *)
  cont (next ex_mm_link (init_state ex_mm_link) (OSet 2 3 (VObj 2))) 2 = Some (2, 3) /\
  (* after 2.twin = 3; 3.twin = 2 : a cycle of length two *)
  (let c := fold_left (next ex_mm_link) [OSet 2 3 (VObj 2); OSet 2 3 (VObj 3); OSet 3 3 (VObj 2)] (init_state ex_mm_link) in
   cont c 3 = Some (2, 3) /\ cont c 2 = Some (3, 3)) /\
  (* 3 becomes a root (leaves 2.twin), then 2 moves under 0.kids (leaves 3.twin) *)
  cont s 3 = None /\ rcont s 0 = [3] /\ cont s 2 = Some (0, 0) /\ vals s (3, 3) = [VNone] /\ vals s (0, 0) = [VObj 2].
Proof.
  cbv zeta. split.
  - destruct ex_mm_link_wf as [W D]. apply (WF_history ex_mm_link W D).
    repeat constructor.
  - vm_compute. repeat split; reflexivity.
Qed.
