(* Facts about Model/Text.v: str(int)/int(str) round trip on Z (through
   DecimalZ.of_to), fixed-width fields, digit spans. *)
From Coq Require Import ZArith List Bool Lia String Ascii Decimal DecimalZ DecimalPos.
From PyecoreV Require Import Model.Text.
Import ListNotations.
Open Scope Z_scope.

(* ---------- digits ---------- *)
Lemma uint_of_list_of : forall u, uint_of_digits (list_of_uint u) = u.
Proof. induction u; simpl; try rewrite IHu; reflexivity. Qed.

Lemma all_digits_list_of : forall u, all_digits (list_of_uint u) = true.
Proof. induction u; simpl; try rewrite IHu; reflexivity. Qed.

Lemma list_of_uint_nonempty : forall u, u <> Nil -> nonempty (list_of_uint u) = true.
Proof. destruct u; simpl; intros H; try reflexivity. contradiction. Qed.

Lemma is_digit_range : forall c, is_digit c = true <-> 48 <= c <= 57.
Proof. intros c. unfold is_digit. rewrite andb_true_iff, !Z.leb_le. tauto. Qed.

Lemma all_digits_app : forall a b, all_digits (a ++ b) = all_digits a && all_digits b.
Proof. intros a b. unfold all_digits. apply forallb_app. Qed.

Lemma to_int_nonnil : forall z, match Z.to_int z with Pos u | Neg u => u <> Nil end.
Proof.
  destruct z as [|p|p]; simpl.
  - discriminate.
  - apply Unsigned.to_uint_nonnil.
  - apply Unsigned.to_uint_nonnil.
Qed.

Lemma to_int_nonneg : forall z, 0 <= z -> exists u, Z.to_int z = Pos u /\ u <> Nil.
Proof.
  intros z Hz. destruct z as [|p|p]; simpl.
  - exists (D0 Nil). split; [reflexivity|discriminate].
  - exists (Pos.to_uint p). split; [reflexivity|apply Unsigned.to_uint_nonnil].
  - lia.
Qed.

Lemma to_int_neg : forall z, z < 0 -> exists u, Z.to_int z = Neg u /\ u <> Nil.
Proof.
  intros z Hz. destruct z as [|p|p]; simpl; try lia.
  exists (Pos.to_uint p). split; [reflexivity|apply Unsigned.to_uint_nonnil].
Qed.

Lemma nat_of_digits_list_of : forall u, u <> Nil ->
  nat_of_digits (list_of_uint u) = Some (Z.of_int (Pos u)).
Proof.
  intros u Hu. unfold nat_of_digits.
  rewrite (list_of_uint_nonempty u Hu), all_digits_list_of, uint_of_list_of. reflexivity.
Qed.

(* a non-empty digit string does not start with '-' or '+' *)
Lemma digits_head : forall u, u <> Nil ->
  exists c r, list_of_uint u = c :: r /\ is_digit c = true.
Proof.
  intros u Hu. destruct u; try contradiction; simpl; eexists; eexists; split; reflexivity.
Qed.

Lemma digit_not_sign : forall c, is_digit c = true -> (c =? 45) = false /\ (c =? 43) = false /\ (c =? 46) = false.
Proof. intros c H. apply is_digit_range in H. repeat split; apply Z.eqb_neq; lia. Qed.

(* ---------- int(str(z)) = z ---------- *)
Theorem int_of_str_of_Z : forall z, int_of_text (str_of_Z z) = Some z.
Proof.
  intros z. unfold str_of_Z.
  pose proof (to_int_nonnil z) as Hn. pose proof (of_to z) as Hz.
  destruct (Z.to_int z) as [u|u] eqn:E.
  - destruct (digits_head u Hn) as (c & r & Hl & Hc).
    unfold int_of_text. rewrite Hl. destruct (digit_not_sign c Hc) as (H45 & _). rewrite H45.
    rewrite <- Hl, nat_of_digits_list_of by exact Hn. rewrite Hz. reflexivity.
  - unfold int_of_text. rewrite Z.eqb_refl.
    rewrite (list_of_uint_nonempty u Hn), all_digits_list_of, uint_of_list_of. cbn [andb]. rewrite Hz. reflexivity.
Qed.

Lemma str_of_Z_nonneg : forall z, 0 <= z ->
  exists u, u <> Nil /\ str_of_Z z = list_of_uint u /\ Z.of_int (Pos u) = z.
Proof.
  intros z Hz. destruct (to_int_nonneg z Hz) as (u & E & Hu). exists u.
  unfold str_of_Z. rewrite E. repeat split; try assumption.
  rewrite <- E. apply of_to.
Qed.

Theorem signed_int_of_signed_str : forall z, signed_int_of_text (signed_str z) = Some z.
Proof.
  intros z. unfold signed_str. destruct (z <? 0) eqn:E.
  - apply Z.ltb_lt in E. destruct (to_int_neg z E) as (u & Eu & Hu).
    unfold signed_int_of_text. pose proof (int_of_str_of_Z z) as H.
    unfold str_of_Z in *. rewrite Eu in *. change (45 =? 43) with false. cbv iota. exact H.
  - apply Z.ltb_ge in E. destruct (str_of_Z_nonneg z E) as (u & Hu & Hs & Hv).
    unfold signed_int_of_text. rewrite Z.eqb_refl, Hs, nat_of_digits_list_of by exact Hu.
    rewrite Hv. reflexivity.
Qed.

(* first character of a signed exponent is '+' or '-' : never a digit *)
Lemma signed_str_head : forall z, exists c r, signed_str z = c :: r /\ is_digit c = false.
Proof.
  intros z. unfold signed_str. destruct (z <? 0) eqn:E.
  - apply Z.ltb_lt in E. destruct (to_int_neg z E) as (u & Eu & Hu).
    unfold str_of_Z. rewrite Eu. eexists; eexists; split; reflexivity.
  - eexists; eexists; split; reflexivity.
Qed.

(* ---------- fixed-width fields ---------- *)
Lemma pow10_succ : forall k : nat, 10 ^ Z.of_nat (S k) = 10 * 10 ^ Z.of_nat k.
Proof. intros k. rewrite Nat2Z.inj_succ, Z.pow_succ_r by lia. reflexivity. Qed.

Lemma pow10_pos : forall k : nat, 0 < 10 ^ Z.of_nat k.
Proof. intros k. apply Z.pow_pos_nonneg; lia. Qed.

Lemma take_digits_padn : forall n v rest acc,
  0 <= v < 10 ^ Z.of_nat n ->
  take_digits n (padn n v ++ rest) acc = Some (acc * 10 ^ Z.of_nat n + v, rest).
Proof.
  induction n as [|k IH]; intros v rest acc Hv.
  - simpl in *. f_equal. f_equal. lia.
  - rewrite pow10_succ in Hv. pose proof (pow10_pos k) as Hp.
    assert (Hq : 0 <= v / 10 ^ Z.of_nat k <= 9).
    { split. apply Z.div_pos; lia. apply Z.lt_succ_r. apply Z.div_lt_upper_bound; lia. }
    assert (Hr : 0 <= v mod 10 ^ Z.of_nat k < 10 ^ Z.of_nat k) by (apply Z.mod_pos_bound; lia).
    cbn [padn take_digits List.app].
    assert (Hd : is_digit (48 + v / 10 ^ Z.of_nat k) = true) by (apply is_digit_range; lia).
    rewrite Hd. rewrite IH by exact Hr. f_equal. f_equal.
    rewrite pow10_succ.
    pose proof (Z.div_mod v (10 ^ Z.of_nat k)) as Hdm. nia.
Qed.

Lemma take_digits_padn0 : forall n v rest,
  0 <= v < 10 ^ Z.of_nat n ->
  take_digits n (padn n v ++ rest) 0 = Some (v, rest).
Proof. intros. rewrite take_digits_padn by assumption. reflexivity. Qed.

Lemma take_digits_nil : forall n acc, n <> O -> take_digits n [] acc = None.
Proof. destruct n; intros; [contradiction|reflexivity]. Qed.

(* ---------- digit spans ---------- *)
Lemma span_digits_app : forall a b,
  all_digits a = true ->
  match b with [] => True | c :: _ => is_digit c = false end ->
  span_digits (a ++ b) = (a, b).
Proof.
  induction a as [|x a IH]; intros b Ha Hb.
  - simpl. destruct b as [|c r]; [reflexivity|]. simpl. rewrite Hb. reflexivity.
  - simpl in Ha. apply andb_true_iff in Ha. destruct Ha as [Hx Ha].
    simpl. rewrite Hx, (IH b Ha Hb). reflexivity.
Qed.

Lemma all_digits_zeros : forall k, all_digits (zeros k) = true.
Proof. intros k. unfold zeros. induction (Z.to_nat k); simpl; auto. Qed.

Lemma of_uint_zeros : forall k l,
  Z.of_uint (uint_of_digits (zeros k ++ l)) = Z.of_uint (uint_of_digits l).
Proof.
  intros k l. unfold zeros. induction (Z.to_nat k) as [|n IH]; simpl.
  - reflexivity.
  - exact IH.
Qed.

Lemma all_digits_firstn : forall n l, all_digits l = true -> all_digits (firstn n l) = true.
Proof.
  induction n; intros l H; simpl; [reflexivity|]. destruct l as [|x l]; [reflexivity|].
  simpl in *. apply andb_true_iff in H. destruct H as [Hx H]. rewrite Hx, IHn by exact H. reflexivity.
Qed.

Lemma all_digits_skipn : forall n l, all_digits l = true -> all_digits (skipn n l) = true.
Proof.
  induction n; intros l H; simpl; [exact H|]. destruct l as [|x l]; [reflexivity|].
  simpl in H. apply andb_true_iff in H. destruct H as [Hx H]. apply IHn. exact H.
Qed.

Lemma text_eqb_refl : forall a, text_eqb a a = true.
Proof. induction a; simpl; [reflexivity|]. rewrite Z.eqb_refl, IHa. reflexivity. Qed.

Lemma text_eqb_eq : forall a b, text_eqb a b = true <-> a = b.
Proof.
  induction a as [|x a IH]; intros [|y b]; simpl; split; intros H; try reflexivity; try discriminate.
  - apply andb_true_iff in H. destruct H as [H1 H2]. apply Z.eqb_eq in H1. apply IH in H2. subst. reflexivity.
  - inversion H; subst. rewrite Z.eqb_refl, text_eqb_refl. reflexivity.
Qed.
