"""C01 — kernel property: see DESIGN.md section 5 and harness/kprop.py."""
from harness import kgen, kprop

PID = 'C01'


def run(ctx, out):
    kprop.run(ctx, out, PID, ['C01'], {'outcome','refs-as-sets','values'}, 2000, 40000, pool=kgen.REF_TEMPLATES, weights=None, p_wrong=0.05)


def replay(ctx, rep):
    from harness import krun
    case = rep['case']
    r = krun.Run(case, ['C01']).run()
    for s in r.steps:
        print(s['op'], '->', s['outcome'])
    if r.failure:
        print('REPRODUCED', r.failure['property'], r.failure['clause'], r.failure['detail'])
        return 1
    print('not reproduced')
    return 0
