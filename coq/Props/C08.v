(* C08 -- XMI save then load reproduces the model.   Statements only.

   What is proved here: the SYNTACTIC cores of the round trip, at full strength
   (every list of values, every string over every code point):
     * many-valued attributes: the attribute-vs-elements decision of
       _go_across (space-joined XML attribute unless some value is None, '' or
       contains a character with str.isspace(); then one element per value,
       xsi:nil for None; nothing for an empty collection) against
       _decode_eattribute_value / _decode_node (value.split(); node.text or '');
     * single-valued attributes: absent / attribute / xsi:nil against the
       default value and SERIALIZE_DEFAULT_VALUES;
     * lists of reference fragments (join, split, type-qualifier dropping, skip-empty, normalize) and
       the choice id-value-or-URI-fragment of _build_path_from;
     * one end of a many-valued bidirectional reference during load: no
       element twice, and the order of the end's own list.
   Proofs: Proofs/XmiAttrProofs.v, Proofs/RefLoadProofs.v.

   What is NOT proved (hence `_partial`): the semantic round trip
   dump (load (save r)) = dump r  over whole models (DESIGN C08 (b)): object
   creation, xsi:type, containment nesting, resolution of fragments (C11),
   uuid assignment, and from_string . to_string = id on the data types (C17).
   lxml (serialisation and parsing of the infoset) is assumed (A-lxml).
   Those parts rest on the correspondence and the oracle of harness/props/c08.py. *)
From Coq Require Import ZArith List Bool.
From PyecoreV Require Import Lib.PyBase Lib.PyList Model.OSet Model.XmiAttr Model.RefLoad Proofs.OSetProofs Proofs.XmiAttrProofs Proofs.RefLoadProofs.
Import ListNotations.
Open Scope Z_scope.

(* every list of to_string'ed values (None allowed, any length, any content) is read back as written *)
Theorem C08_many_attribute_partial :
  forall vs : list ostr, decode_many (encode_many vs) = vs.
Proof. exact many_roundtrip. Qed.
Print Assumptions C08_many_attribute_partial.

(* the form chosen: nothing for [], one attribute iff no value is None, '' or holds whitespace *)
Theorem C08_many_attribute_form :
  forall vs : list ostr,
  match encode_many vs with
  | EAbsent => vs = []
  | EAttr t => vs <> [] /\ Forall (fun o => exists s, o = Some s /\ good s) vs
               /\ t = join_sp (map unsome vs)
  | EElems l => l = vs /\ exists o, In o vs /\ special o = true
  end.
Proof. exact many_form. Qed.
Print Assumptions C08_many_attribute_form.

(* Python's  ' '.join(l).split() == l  exactly when no element is empty or holds whitespace *)
Theorem C08_split_join :
  forall l : list str, Forall good l -> split_ws (join_sp l) = l.
Proof. exact split_join. Qed.
Print Assumptions C08_split_join.

(* a single-valued attribute that was set: value (or None) read back, whatever the default and the option *)
Theorem C08_single_attribute_partial :
  forall (sd : bool) (dflt v : ostr), decode_single dflt (encode_single sd dflt v) = v.
Proof. exact single_roundtrip. Qed.
Print Assumptions C08_single_attribute_partial.

(* ... the default being the one the attribute declares (defaultValueLiteral over default_value over the type's) *)
Theorem C08_single_attribute_declared_default_partial :
  forall (sd : bool) (literal explicit type_default v : ostr),
  let d := effective_default literal explicit type_default in
  decode_single d (encode_single sd d v) = v.
Proof. exact single_roundtrip_declared. Qed.
Print Assumptions C08_single_attribute_declared_default_partial.

(* reference lists: fragments that hold no blank and no '#' (what stays inside the resource) come
   back, in order, duplicates included, whatever prefixes are registered *)
Theorem C08_reference_list_partial :
  forall (known : str -> bool) (frags : list str),
  Forall local frags -> decode_refs known (encode_refs frags) = frags.
Proof. exact refs_roundtrip. Qed.
Print Assumptions C08_reference_list_partial.

(* ... and _build_path_from only hands out such fragments (id values that would not read back are not used) *)
Theorem C08_reference_fragment_fit :
  forall (id : option str) (uri_fragment : str), local uri_fragment -> local (ref_fragment id uri_fragment).
Proof. exact ref_fragment_local. Qed.
Print Assumptions C08_reference_fragment_fit.

(* a many-valued end of a bidirectional reference: whatever the other end linked before and
   after, the end holds its own list, in the order of the document *)
Theorem C08_reference_order_partial :
  forall pre own post : list Z,
  NoDup own -> incl pre own -> incl post own ->
  os_inv (load_end pre own post) /\ items (load_end pre own post) = own.
Proof. exact load_end_order. Qed.
Print Assumptions C08_reference_order_partial.

(* non-vacuity and witnesses *)
Example C08_witness_forms :
  encode_many [Some [97]; Some [98; 99]] = EAttr [97; 32; 98; 99] /\
  encode_many [Some [97]; Some [160]] = EElems [Some [97]; Some [160]] /\       (* no-break space *)
  encode_many [Some [97]; None; Some []] = EElems [Some [97]; None; Some []] /\
  encode_many [] = EAbsent /\
  decode_many (EAttr [97; 32; 32; 98; 9; 99]) = [Some [97]; Some [98]; Some [99]].
Proof. vm_compute. repeat split; reflexivity. Qed.

(* why the whitespace test is needed: without it the value 'a<nbsp>b' would come back as two values *)
Example C08_join_needs_the_space_test :
  split_ws (join_sp [[97; 160; 98]]) = [[97]; [98]].
Proof. vm_compute. reflexivity. Qed.

(* the defect fixed in /repo (363962f): an empty-but-touched collection used to be written as the text "[]" *)
Example C08_empty_collection_text_would_not_read_back :
  decode_many (EAttr [91; 93]) = [Some [91; 93]] /\ decode_many (encode_many []) = [].
Proof. vm_compute. split; reflexivity. Qed.

(* the defect fixed in /repo (46038aa): appending only, the order of the end decoded second is lost *)
Example C08_append_only_loses_order :
  items (load_end_append_only [0; 1] [1; 0] []) = [0; 1] /\ items (load_end [0; 1] [1; 0] []) = [1; 0].
Proof. exact append_only_loses_order. Qed.
