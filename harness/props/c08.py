"""C08 -- XMI save then load reproduces the model.

Three corners:
  Coq (Props/C08.v): round trips of the attribute-value encodings, of the reference-fragment
      lists and of the loading of one end of a bidirectional reference (Model/XmiAttr.v, RefLoad.v)
  correspondence: the extracted models against the real writer/reader -- the XML infoset pyecore
      wrote (re-parsed with lxml: one attribute / one element per value / xsi:nil / nothing) and
      the values pyecore loads; str.isspace over every code point; str.split; fragments; the
      order in which a many-valued bidirectional end is filled from edited (one-sided) documents
  whole documents (harness/xmidoc.py, Model/XmiDoc.v, theorem C08_document_round_trip): on generated
      metamodels / models restricted to the modelled fragment (one package, positional fragments, no uuid)
      (a) the infoset of the bytes the real save wrote = run_xmidoc_enc on the abstract forest read from
      the real objects, (b) the observation of the real load of those bytes = run_xmidoc_dec on that
      infoset, and every generated state satisfies the premise wf_forest of the theorem
  oracle: generated metamodels x models x options, save, load in a fresh ResourceSet, equal
      canonical dumps (harness/ser_gen.dump) and the C01-C03 statements on the loaded model.
"""
import os
import random
import tempfile
import time

from harness import common
from harness import ser_gen as G
from harness import ser_rt as R
from harness import xmidoc as XD

PROP = 'C08'
XSI_NIL = '{http://www.w3.org/2001/XMLSchema-instance}nil'


# ---------------------------------------------------------------- token helpers
def put_ostr(s):
    if s is None:
        return [-1]
    return [len(s)] + [ord(c) for c in s]


class Toks:
    def __init__(self, t):
        self.t, self.i = t, 0

    def z(self):
        v = self.t[self.i]
        self.i += 1
        return v

    def ostr(self):
        n = self.z()
        if n < 0:
            return None
        s = ''.join(chr(c) for c in self.t[self.i:self.i + n])
        self.i += n
        return s

    def ostrs(self):
        return [self.ostr() for _ in range(self.z())]

    def enc(self):
        k = self.z()
        if k == 0:
            return ('absent',)
        if k == 1:
            return ('attr', self.ostr())
        return ('elems', self.ostrs())


# ---------------------------------------------------------------- the metamodel of the correspondence
# declared defaults of the correspondence metamodel: (value denoted by the defaultValueLiteral, explicit default_value)
DECLARED = {
    'EString': (['s', 'none'], ['s', 'dflt']), 'EChar': (['s', 'x'], ['s', ' ']),
    'EInt': (['i', 3], ['i', 5]), 'ELong': (['i', -3], ['i', 2 ** 40]), 'EBigInteger': (['i', 3], ['i', 10 ** 20]),
    'EBoolean': (['b', True], ['b', True]), 'EDouble': (['f', '0.5'], ['f', '1.5']), 'EFloat': (['f', '-2.5'], ['f', 'inf']),
    'EBigDecimal': (['D', '1.10'], ['D', '2.5']), 'EDate': (['d', '2020-01-02T03:04:05'], ['d', '2021-06-15T12:00:00+02:00']),
    'Color': (['e', 'GREEN'], ['e', 'BLUE']),
}
SINGLE_KINDS = ['s', 'l', 'x', 'b']      # no declared default / literal / explicit value / both (the literal wins)


def corr_mm():
    feats = []
    for t in G.DATATYPES + [G.ENUM['name']]:
        feats.append({'kind': 'attr', 'name': f'm_{t}', 'type': t, 'many': True, 'unique': False, 'iD': False})
        feats.append({'kind': 'attr', 'name': f'u_{t}', 'type': t, 'many': True, 'unique': True, 'iD': False})
        feats.append({'kind': 'attr', 'name': f's_{t}', 'type': t, 'many': False, 'unique': True, 'iD': False})
        lit, exp = DECLARED[t]
        feats.append({'kind': 'attr', 'name': f'l_{t}', 'type': t, 'many': False, 'unique': True, 'iD': False,
                      'default_literal': G.literal_of(lit), 'default_literal_value': lit})
        feats.append({'kind': 'attr', 'name': f'x_{t}', 'type': t, 'many': False, 'unique': True, 'iD': False, 'default': exp})
        feats.append({'kind': 'attr', 'name': f'b_{t}', 'type': t, 'many': False, 'unique': True, 'iD': False, 'default': exp,
                      'default_literal': G.literal_of(lit), 'default_literal_value': lit})
    feats.append({'kind': 'ref', 'name': 'kids', 'type': 'N', 'many': True, 'unique': True, 'containment': True, 'opposite': None})
    feats.append({'kind': 'ref', 'name': 'refs', 'type': 'N', 'many': True, 'unique': False, 'containment': False, 'opposite': None})
    feats.append({'kind': 'ref', 'name': 'one', 'type': 'N', 'many': False, 'unique': True, 'containment': False, 'opposite': None})
    return {'name': 'corr', 'nsURI': 'http://verif.example/ser/corr', 'nsPrefix': 'corr', 'enums': [dict(G.ENUM)],
            'classes': [
                {'name': 'A', 'abstract': False, 'supers': [], 'features': feats},
                {'name': 'N', 'abstract': True, 'supers': [], 'features': [
                    {'kind': 'attr', 'name': 'nid', 'type': 'EString', 'many': False, 'unique': True, 'iD': True}]},
                {'name': 'B', 'abstract': False, 'supers': ['N'], 'features': [
                    {'kind': 'ref', 'name': 'q', 'type': 'X', 'many': True, 'unique': True, 'containment': False, 'opposite': 'r'}]},
                {'name': 'X', 'abstract': False, 'supers': ['N'], 'features': [
                    {'kind': 'ref', 'name': 'r', 'type': 'B', 'many': True, 'unique': True, 'containment': False, 'opposite': 'q'}]},
            ]}


def model_root(root):
    """the element of the (single) root object: the document element, or the only child of an xmi:XMI wrapper"""
    from lxml import etree
    if etree.QName(root).localname == 'XMI' and len(root) == 1:
        return root[0]
    return root


def infoset_of(data, fname):
    """what the writer added to the root node for feature fname, from the bytes"""
    from lxml import etree
    root = model_root(etree.fromstring(data))
    if fname in root.attrib:
        return ('attr', root.attrib[fname])
    kids = [c for c in root if etree.QName(c).localname == fname]
    if kids:
        return ('elems', [None if c.get(XSI_NIL) == 'true' else (c.text or '') for c in kids])
    return ('absent',)


# ---------------------------------------------------------------- correspondences
def corr_isspace(out, model, st, thorough):
    step = 1 << 15
    bad = 0
    for lo in range(0, 0x110000, step):
        cps = list(range(lo, lo + step))
        got = model.ask('xmiattr', [0] + cps)
        want = [1 if chr(c).isspace() else 0 for c in cps]
        st['isspace_code_points'] += len(cps)
        if got != want and not bad:
            bad = 1
            c = next(c for c, a, b in zip(cps, got, want) if a != b)
            out.diff(f'isspace({c:#x}): model {got[c - lo]} CPython {want[c - lo]}', {'code_point': c})


def corr_split(out, model, st, rng, n):
    ws = [9, 10, 11, 12, 13, 28, 29, 30, 31, 32, 133, 160, 5760, 8192, 8202, 8232, 8233, 8239, 8287, 12288]
    other = [97, 98, 0x200b, 0xfeff, 0x180e, 33, 0x1f600, 0]
    for _ in range(n):
        s = ''.join(chr(rng.choice(ws) if rng.random() < 0.4 else rng.choice(other)) for _ in range(rng.randrange(0, 9)))
        got = Toks(model.ask('xmiattr', [1] + put_ostr(s))).ostrs()
        st['split_strings'] += 1
        if got != s.split():
            out.diff(f'split({s!r}): model {got} CPython {s.split()}', {'string': [ord(c) for c in s]})


def gen_single_value(rng, typ, mm, fd):
    """a value for a single-valued attribute, biased to the values the skip-the-default decision turns on"""
    r = rng.random()
    if r < 0.5:
        pool = [['n'], G.type_default(typ, mm)]
        if fd.get('default') is not None:
            pool.append(list(fd['default']))
        if fd.get('default_literal') is not None:
            pool.append(list(fd['default_literal_value']))
        if typ == 'EFloat':
            pool.append(['f', '-0.0'])
        return rng.choice(pool)
    return G.gen_value(rng, typ, mm)


def corr_attributes(out, model, st, rng, built, mm, t_end):
    """one object, one attribute feature set: infoset written and values loaded vs the model"""
    types = G.DATATYPES + [G.ENUM['name']]
    forms = st['forms']
    while time.time() < t_end:
        typ = rng.choice(types)
        kind = rng.choice(['m', 'm', 'u', 's', 'l', 'x', 'b'])
        fname = f'{kind}_{typ}'
        opts = {'uuid': rng.random() < 0.2, 'serialize_default': rng.random() < 0.4, 'xmi_type': rng.random() < 0.15}
        feat = built.features[fname]
        et = feat.eType
        fd = G.find_feature(mm, 'A', fname)
        single = kind in SINGLE_KINDS
        if single:
            sets = [[fname, gen_single_value(rng, typ, mm, fd)]]
        else:
            k = rng.choice([0, 1, 1, 2, 2, 3, 4, 6])
            vals = []
            for _ in range(k):
                r = rng.random()
                if r < 0.1:
                    vals.append(['n'])
                elif r < 0.25 and vals:
                    vals.append(list(rng.choice(vals)))
                else:
                    vals.append(G.gen_value(rng, typ, mm))
            sets = [[fname, vals]]
        md = {'roots': [0], 'objs': {'0': {'cls': 'A', 'sets': sets}}}
        rt = R.RoundTrip(mm, md, 'xmi', opts, built=built, keep_loaded=True)
        case = {'mm': 'corr_mm', 'md': md, 'format': 'xmi', 'options': opts}
        if rt.stage is not None:
            out.diff(f'{rt.stage} raised {type(rt.exc).__name__}: {rt.exc} (the model predicts a document)', case)
            continue
        src = rt.inst[0]
        real = infoset_of(rt.data, fname)
        if single:
            val = src.eGet(fname)
            dflt = feat.get_default_value()
            # which default: literal over explicit value over the data type's (Model/XmiAttr.effective_default)
            lit = None if fd.get('default_literal') is None else et.to_string(et.from_string(fd['default_literal']))
            exp = None if fd.get('default') is None else et.to_string(built.pyvalue(fd['default'], typ))
            tdv = built.pyvalue(G.type_default(typ, mm), typ)
            td = None if tdv is None else et.to_string(tdv)
            md_ = Toks(model.ask('xmiattr', [6, 0] + put_ostr(lit) + put_ostr(exp) + put_ostr(td) + put_ostr(None))).ostr()
            want_d = None if dflt is None else et.to_string(dflt)
            st['declared_defaults'] = st.get('declared_defaults', 0) + 1
            if md_ != want_d:
                out.diff(f'default of {fname}: model {md_!r} get_default_value() {want_d!r}', case)
                continue
            sv = None if val is None else et.to_string(val)
            # the writer compares values; the model compares texts: values equal under == carry one text
            sd = None if dflt is None else (sv if (val is not None and val == dflt) else et.to_string(dflt))
            t = Toks(model.ask('xmiattr', [3, 1 if opts['serialize_default'] else 0] + put_ostr(sd) + put_ostr(sv)))
            enc = t.enc()
            dec = t.ostr()
            lv = rt.loaded.contents[0].eGet(fname)
            want_loaded = G.tag_value(None if dec is None else et.from_string(dec))
            got_loaded = G.tag_value(lv)
        else:
            vals = list(src.eGet(fname))
            strs = [None if x is None else et.to_string(x) for x in vals]
            toks = [2, len(strs)]
            for s in strs:
                toks += put_ostr(s)
            t = Toks(model.ask('xmiattr', toks))
            enc = t.enc()
            dec = t.ostrs()
            want_loaded = [G.tag_value(None if s is None else et.from_string(s)) for s in dec]
            got_loaded = [G.tag_value(x) for x in rt.loaded.contents[0].eGet(fname)]
        st['attr_documents'] += 1
        fk = f'{"single" if single else "many"}:{enc[0]}'
        forms[fk] = forms.get(fk, 0) + 1
        if enc != real:
            out.diff(f'infoset of {fname}: model {enc!r} pyecore wrote {real!r}', case)
        elif want_loaded != got_loaded:
            out.diff(f'loaded value of {fname}: model {want_loaded!r} pyecore {got_loaded!r}', case)


def corr_refs(out, model, st, rng, built, mm, n):
    ids = G.ID_VALUES[:8] + G.ODD_ID_VALUES
    for _ in range(n):
        k = rng.randrange(1, 5)
        objs = {'0': {'cls': 'A', 'sets': []}}
        used = set()
        for i in range(1, k + 1):
            sets = []
            r = rng.random()
            if r < 0.7:
                v = rng.choice(ids)
                if v in used:
                    v = v + str(i)
                used.add(v)
                sets.append(['nid', ['s', v]])
            objs[str(i)] = {'cls': rng.choice(['B', 'X']), 'sets': sets}
        targets = [rng.randrange(1, k + 1) for _ in range(rng.choice([0, 1, 2, 3, 5]))]
        objs['0']['sets'] = [['kids', list(range(1, k + 1))], ['refs', targets]]
        if rng.random() < 0.5:
            objs['0']['sets'].append(['one', rng.randrange(1, k + 1)])
        md = {'roots': [0], 'objs': objs}
        opts = {'uuid': False, 'serialize_default': rng.random() < 0.3, 'xmi_type': False}
        rt = R.RoundTrip(mm, md, 'xmi', opts, built=built)
        case = {'mm': 'corr_mm', 'md': md, 'format': 'xmi', 'options': opts}
        if rt.stage is not None:
            out.diff(f'{rt.stage} raised {type(rt.exc).__name__}: {rt.exc}', case)
            continue
        frags = []
        for tgt in targets:
            o = rt.inst[tgt]
            got = Toks(model.ask('xmiattr', [5] + put_ostr(o.eGet('nid')) + put_ostr(o.eURIFragment()))).ostr()
            frags.append(got)
        toks = [4, len(frags)]
        for f in frags:
            toks += put_ostr(f)
        t = Toks(model.ask('xmiattr', toks))
        enc = t.enc()
        dec = t.ostrs()
        real = infoset_of(rt.data, 'refs')
        st['ref_documents'] += 1
        if enc != real:
            out.diff(f'reference list: model {enc!r} pyecore wrote {real!r}', case)
        elif dec != frags:
            out.diff(f'reference list read back by the model: {dec!r} from {frags!r}', case)
        if any(s[0] == 'one' for s in objs['0']['sets']):
            tgt = next(s[1] for s in objs['0']['sets'] if s[0] == 'one')
            o = rt.inst[tgt]
            want = Toks(model.ask('xmiattr', [5] + put_ostr(o.eGet('nid')) + put_ostr(o.eURIFragment()))).ostr()
            real1 = infoset_of(rt.data, 'one')
            if real1 != ('attr', want):
                out.diff(f'single reference: model fragment {want!r} pyecore wrote {real1!r}', case)


def corr_refload(out, model, st, rng, built, mm, n, fmt='xmi'):
    """documents in which one end of a bidirectional reference lists fewer elements than the other end
    links (the saved file is edited): the order pyecore loads vs Model/RefLoad.load_end"""
    from lxml import etree
    import json as _json
    URI = R._resource_classes()[0]
    for _ in range(n):
        nb = rng.randrange(1, 6)
        pos = rng.randrange(0, nb + 1)                  # X sits after `pos` B's
        order = ['B'] * pos + ['X'] + ['B'] * (nb - pos)
        objs = {'0': {'cls': 'A', 'sets': [['kids', list(range(1, nb + 2))]]}}
        xid = pos + 1
        bids = [i + 1 for i, c in enumerate(order) if c == 'B']
        own = rng.sample(bids, rng.randrange(0, nb + 1))
        for i, c in enumerate(order):
            objs[str(i + 1)] = {'cls': c, 'sets': []}
        objs[str(xid)]['sets'] = [['r', own]]
        md = {'roots': [0], 'objs': objs}
        opts = {'uuid': rng.random() < 0.3, 'serialize_default': False, 'xmi_type': False}
        built_ = built
        with tempfile.TemporaryDirectory(prefix='verif_ser_') as d:
            path = os.path.join(d, 'm.' + ('xmi' if fmt == 'xmi' else 'json'))
            rset = R.new_rset(built_, fmt)
            res = rset.create_resource(URI(path), use_uuid=opts['uuid'])
            G.build_model(built_, md, res)
            res.save(options=R.save_options(fmt, opts))
            keep = [x for x in own if rng.random() < 0.6]            # what X's own list still names
            idx = [own.index(x) for x in keep]
            if fmt == 'xmi':
                tree = etree.parse(path)
                xel = [c for c in model_root(tree.getroot()) if etree.QName(c).localname == 'kids'][xid - 1]
                if 'r' in xel.attrib:
                    toks = xel.attrib['r'].split()
                    new = [toks[i] for i in idx]
                    if new:
                        xel.attrib['r'] = ' '.join(new)
                    else:
                        del xel.attrib['r']
                tree.write(path, xml_declaration=True, encoding='UTF-8')
            else:
                doc = _json.load(open(path))
                xd = (doc[0] if isinstance(doc, list) else doc)['kids'][xid - 1]
                if 'r' in xd:
                    xd['r'] = [xd['r'][i] for i in idx]
                    if not xd['r']:
                        del xd['r']
                _json.dump(doc, open(path, 'w'))
            rset2 = R.new_rset(built_, fmt)
            case = {'mm': 'corr_mm', 'md': md, 'format': fmt, 'options': opts, 'own_kept': keep}
            try:
                res2 = rset2.get_resource(URI(path))
            except Exception as e:          # noqa
                out.diff(f'load of the edited document raised {type(e).__name__}: {e}', case)
                continue
            kids = list(res2.contents[0].eGet('kids'))
            xs = [k for k in kids if k.eClass.name == 'X']
            if len(xs) != 1 or len(kids) != nb + 1:
                out.diff(f'edited document loaded with {len(kids)} children, {len(xs)} of class X', case)
                continue
            got = [kids.index(b) + 1 for b in xs[0].eGet('r')]
        pre = [b for b in own if b < xid]
        pre.sort()
        post = sorted(b for b in own if b > xid)
        want = model.ask('refload', [len(pre)] + pre + [len(keep)] + keep + [len(post)] + post)
        st['refload_documents'] += 1
        if got != want:
            out.diff(f'bidirectional end after load: model {want} pyecore {got} (pre={pre} own={keep} post={post})', case)


# ---------------------------------------------------------------- regression cases: witnesses of repaired defects
def regression_cases():
    mm = {'name': 'reg', 'nsURI': 'http://verif.example/ser/reg', 'nsPrefix': 'reg', 'enums': [dict(G.ENUM)],
          'classes': [
              {'name': 'A', 'abstract': False, 'supers': [], 'features': [
                  {'kind': 'attr', 'name': 'ints', 'type': 'EInt', 'many': True, 'unique': False, 'iD': False},
                  {'kind': 'attr', 'name': 'strs', 'type': 'EString', 'many': True, 'unique': True, 'iD': False},
                  {'kind': 'attr', 'name': 'n', 'type': 'EInt', 'many': False, 'unique': True, 'iD': False},
                  {'kind': 'attr', 'name': 'flag', 'type': 'EBoolean', 'many': False, 'unique': True, 'iD': False},
                  {'kind': 'attr', 'name': 'col', 'type': 'Color', 'many': False, 'unique': True, 'iD': False},
                  {'kind': 'attr', 'name': 'when', 'type': 'EDate', 'many': False, 'unique': True, 'iD': False},
                  {'kind': 'attr', 'name': 'dec', 'type': 'EBigDecimal', 'many': True, 'unique': False, 'iD': False},
                  {'kind': 'attr', 'name': 'ident', 'type': 'EString', 'many': False, 'unique': True, 'iD': True},
                  {'kind': 'ref', 'name': 'kids', 'type': 'A', 'many': True, 'unique': True, 'containment': True, 'opposite': 'up'},
                  {'kind': 'ref', 'name': 'up', 'type': 'A', 'many': False, 'unique': True, 'containment': False, 'opposite': 'kids'},
                  {'kind': 'ref', 'name': 'abs', 'type': 'Z', 'many': False, 'unique': True, 'containment': True, 'opposite': None},
                  {'kind': 'ref', 'name': 'r', 'type': 'A', 'many': True, 'unique': True, 'containment': False, 'opposite': 'q'},
                  {'kind': 'ref', 'name': 'q', 'type': 'A', 'many': True, 'unique': True, 'containment': False, 'opposite': 'r'},
                  {'kind': 'ref', 'name': 's1', 'type': 'A', 'many': False, 'unique': True, 'containment': False, 'opposite': 't1'},
                  {'kind': 'ref', 'name': 't1', 'type': 'A', 'many': False, 'unique': True, 'containment': False, 'opposite': 's1'},
                  {'kind': 'ref', 'name': 'plain', 'type': 'A', 'many': True, 'unique': False, 'containment': False, 'opposite': None},
              ]},
              {'name': 'Z', 'abstract': True, 'supers': [], 'features': []},
              {'name': 'Z1', 'abstract': False, 'supers': ['Z'], 'features': []},
          ]}
    no = {'uuid': False, 'serialize_default': False, 'xmi_type': False}

    def one(sets):
        return {'roots': [0], 'objs': {'0': {'cls': 'A', 'sets': sets}}}
    cases = [
        ('empty-touched-collection', mm, one([['ints', []], ['strs', []]]), no),
        ('none-vs-default', mm, one([['n', ['n']], ['flag', ['n']], ['col', ['n']]]), no),
        ('none-in-collection-xmi-type', mm, one([['ints', [['i', 1], ['n']]], ['abs', None]]), dict(no, xmi_type=True, serialize_default=True)),
        ('none-everywhere', mm, one([['when', ['n']], ['dec', [['D', '1.10'], ['n']]], ['n', ['n']], ['abs', None]]),
         dict(no, serialize_default=True)),
        ('order-of-bidirectional-end', mm,
         {'roots': [0], 'objs': {'0': {'cls': 'A', 'sets': [['kids', [1, 2, 3]]]},
                                 '1': {'cls': 'A', 'sets': []}, '2': {'cls': 'A', 'sets': []},
                                 '3': {'cls': 'A', 'sets': [['r', [2, 1]]]}}}, no),
        ('bidirectional-between-roots', mm,
         {'roots': [0, 1], 'objs': {'0': {'cls': 'A', 'sets': [['s1', 1], ['r', [1, 0]]]}, '1': {'cls': 'A', 'sets': []}}}, no),
        ('uuid-object-without-features', mm,
         {'roots': [0], 'objs': {'0': {'cls': 'A', 'sets': [['kids', [1]]]}, '1': {'cls': 'A', 'sets': []}}},
         dict(no, uuid=True)),
        ('subclass-instance-needs-xsi-type', mm,
         {'roots': [0], 'objs': {'0': {'cls': 'A', 'sets': [['abs', 1]]}, '1': {'cls': 'Z1', 'sets': []}}}, no),
    ]
    for bad in ['', ' ', 'a\tb', '/0', '#x', 'a#b', ' ', 'good']:
        cases.append((f'id-{bad!r}', mm,
                      {'roots': [0], 'objs': {'0': {'cls': 'A', 'sets': [['kids', [1, 2]], ['plain', [2, 1, 2]], ['s1', 2]]},
                                              '1': {'cls': 'A', 'sets': [['ident', ['s', 'k1']]]},
                                              '2': {'cls': 'A', 'sets': [['ident', ['s', bad]]]}}}, no))
    return cases


def corr_xmidoc(out, model, st, rng, n_cases, t_end, oracle_stats):
    """whole documents: real save vs encode_doc, real load vs decode_doc (harness/xmidoc.py).  A case on which the
    tie breaks is also handed to the oracle, so that a regression of save/load comes with a failing input."""
    serial = 0
    tried = 0
    seen = {}
    while tried < n_cases and time.time() < t_end:
        mm = XD.gen_case(rng, 1000 + serial)
        serial += 1
        st['metamodels'] = st.get('metamodels', 0) + 1
        built = G.Built(mm)
        for _ in range(4):
            if tried >= n_cases or time.time() > t_end:
                break
            md = XD.restrict_md(mm, G.gen_model(rng, mm, 'xmi', odd_ids=False))
            opts = XD.gen_options(rng)
            tried += 1
            before = len(out.corr_diffs)
            try:
                XD.run_case(out, model.ask, st, mm, md, opts, built)
            except Exception as e:          # noqa
                import traceback
                out.diff(f'xmidoc: the case could not be carried out: {type(e).__name__}: {e}',
                         {'mm': mm, 'md': md, 'format': 'xmi', 'options': opts, 'traceback': traceback.format_exc()[-800:]})
            if len(out.corr_diffs) > before and st.get('handed_to_oracle', 0) < 6:
                st['handed_to_oracle'] = st.get('handed_to_oracle', 0) + 1
                R.run_case(PROP, 'xmi', out, oracle_stats, mm, md, opts, lambda: time.time() + 6, seen)
            if len(st.setdefault('samples', [])) < 2 and len(md['objs']) >= 3:
                st['samples'].append({'options': opts, 'model': md, 'classes': [c['name'] for c in mm['classes']]})
    st['tried'] = tried


def guarded(out, name, f, *args, **kw):
    """a correspondence section that cannot even observe the implementation is a difference, and the run goes on"""
    try:
        f(*args, **kw)
    except Exception as e:          # noqa
        import traceback
        out.diff(f'correspondence section "{name}" could not be carried out: {type(e).__name__}: {e}',
                 {'section': name, 'traceback': traceback.format_exc()[-800:]})


# ---------------------------------------------------------------- entry points
def run(ctx, out):
    common.use_repo()
    thorough = ctx.tier == 'thorough'
    t0 = time.time()
    budget = 480 if thorough else 26
    model = common.Model()
    mm = corr_mm()
    built = G.Built(mm)
    st = {'isspace_code_points': 0, 'split_strings': 0, 'attr_documents': 0, 'ref_documents': 0,
          'refload_documents': 0, 'forms': {}}
    rng = ctx.rng
    guarded(out, 'isspace', corr_isspace, out, model, st, thorough)
    guarded(out, 'split', corr_split, out, model, st, rng, 4000 if thorough else 600)
    guarded(out, 'reference lists', corr_refs, out, model, st, rng, built, mm, 1500 if thorough else 150)
    guarded(out, 'bidirectional ends', corr_refload, out, model, st, rng, built, mm, 1500 if thorough else 150)
    guarded(out, 'attribute values', corr_attributes, out, model, st, rng, built, mm, t0 + budget * 0.45)
    stats = R.new_stats()
    # whole documents: extra time on top of the budget of the other sections (quick: <= 20 s)
    tx = time.time()
    xst = {}
    # (its own generator, derived from the seed: the case stream of the oracle below stays what it was)
    xrng = random.Random(f'xmidoc-{ctx.seed}')
    guarded(out, 'whole documents', corr_xmidoc, out, model, xst, xrng, 6000 if thorough else 400,
            tx + (150 if thorough else 18), stats)
    budget += time.time() - tx
    model.close()
    R.oracle_loop(PROP, 'xmi', ctx, out, max(5, t0 + budget - time.time()), stats, regression_cases())
    traces = st['attr_documents'] + st['ref_documents'] + st['refload_documents'] + st['split_strings'] + 1 \
        + 2 * xst.get('cases', 0)
    out.coverage.update({
        'evaluations': stats['cases'] + traces,
        'oracle_cases': stats['cases'],
        'distinct_nontrivial': len(stats['distinct_dumps']),
        'rule': 'oracle: a case = (generated metamodel, generated model, save options) saved as XMI and loaded in a fresh '
                'ResourceSet; distinct_nontrivial = number of distinct canonical dumps among them. correspondence: a trace = '
                'one document written by pyecore whose infoset (attribute / elements / nil / absent) and loaded values are '
                'compared with the extracted Coq model, plus isspace over all 0x110000 code points and split() samples; '
                'xmidoc_cases = whole documents (generated metamodel + model + options) whose infoset written by the real '
                'save equals encode_doc AND whose real load equals decode_doc (two traces each)',
        'traces_validated_against_impl': traces,
        'correspondence': st,
        'xmidoc_cases': xst.get('cases', 0),
        'xmidoc': {k: v for k, v in xst.items() if k != 'samples'},
        'xmidoc_samples': xst.get('samples', []),
        'metamodels': stats['metamodels'], 'regression_cases': stats['regression_cases'],
        'failing_cases': stats['failing_cases'], 'shrink_steps': stats['shrink_steps'],
        'distribution': {'options': stats['options'], 'roots': stats['roots'], 'objects': stats['objects'],
                         'feature_shapes': stats['feature_shapes'], 'value_classes': stats['value_classes']},
        'samples': stats['samples'],
    })
    out.assumptions += [
        'A-lxml: lxml serialises and parses XML-legal strings faithfully (attribute values, element texts; '' is read as no text)',
        'isomorphism = equality of harness/ser_gen.dump: floats/decimals/dates compared by value (-0.0 = 0.0, 1.10 = 1.1, '
        'aware dates by instant), NaN not generated, an enumeration value given by name equals the literal of that name',
        'id attribute values are unique inside a resource; references stay inside the resource (cross-resource: C14)',
        'whole-document theorem (C08_document_round_trip): names are numbers, the infoset is taken after namespace '
        'processing (the root binds xsi and the package prefix whenever a type attribute occurs: checked on every '
        'document), child elements of different features are compared up to their order (insertion order of _isset), '
        'values equal under == carry one text, enumeration values are literals; uuid mode, id attributes as fragments, '
        'several packages, proxies and the opposite handshakes of load are outside Model/XmiDoc.v and rest on the '
        'oracle (Props/C08.v header)',
    ]


def replay(ctx, rep):
    common.use_repo()
    case = rep['case']
    if case.get('mm') == 'corr_mm':
        case = dict(case, mm=corr_mm())
        rep = dict(rep, case=case, signature=None)
    return R.replay(PROP, rep)


# ---------------------------------------------------------------------------
# feature names that collide with the XMI syntax (oracle on the implementation only)

SYNTAX_NAMES = ['href', 'type', 'id', 'version', 'nil', 'idref', 'xmi', 'xsi', 'schemaLocation', 'value', 'name']


def syntax_name_scenarios(ctx, out):
    import os
    import tempfile
    from pyecore.ecore import EClass, EAttribute, EReference, EString, EPackage
    from pyecore.resources import ResourceSet, URI
    cnt = 0
    for name in SYNTAX_NAMES:
        for value in ('x', 'http://example.org/page', 'a#b'):
            p = EPackage('p', nsURI=f'http://verif/c08/names/{name}', nsPrefix='p')
            A = EClass('A')
            p.eClassifiers.append(A)
            A.eStructuralFeatures.append(EAttribute(name, EString))
            A.eStructuralFeatures.append(EAttribute('label', EString))
            A.eStructuralFeatures.append(EReference('kids', A, upper=-1, containment=True))
            r, k = A(), A()
            r.label, k.label = 'root', 'kid'
            setattr(r, name, 'r-' + value)
            setattr(k, name, value)
            r.kids.append(k)
            case = {'scenario': 'syntax-names', 'seed': ctx.seed, 'tier': ctx.tier, 'history': [name, value]}
            sig = {'property': 'C08', 'clause': 'feature-named-like-xmi-syntax', 'name': name}
            cnt += 1
            with tempfile.TemporaryDirectory() as d:
                try:
                    rs = ResourceSet()
                    rs.metamodel_registry[p.nsURI] = p
                    res = rs.create_resource(URI(os.path.join(d, 'm.xmi')))
                    res.append(r)
                    res.save()
                    rs2 = ResourceSet()
                    rs2.metamodel_registry[p.nsURI] = p
                    r2 = rs2.get_resource(URI(os.path.join(d, 'm.xmi'))).contents[0]
                    got = [getattr(r2, name), [(x.label, getattr(x, name)) for x in r2.kids]]
                    want = ['r-' + value, [('kid', value)]]
                    if got != want:
                        out.fail(sig, f'attribute named {name!r}: saved {want}, loaded {got}', case)
                except Exception as e:  # noqa
                    out.fail(sig, f'attribute named {name!r} with value {value!r}: {type(e).__name__}: {e}', case)
    out.coverage['syntax_named_features_checked'] = cnt


_run0 = run


def run(ctx, out):   # noqa: F811
    _run0(ctx, out)
    syntax_name_scenarios(ctx, out)


_replay0 = replay


def replay(ctx, rep):   # noqa: F811
    if rep.get('case', {}).get('scenario') == 'syntax-names':
        common.use_repo()
        return common.scenario_replay(ctx, rep, {'syntax-names': syntax_name_scenarios})
    return _replay0(ctx, rep)


# ---------------------------------------------------------------------------
# the SAME resource saved again after edits that shift positions, with NO load in between (whatever save caches
# must not outlive the save): the second document must load into the edited model (oracle on the implementation)

def resave_scenarios(ctx, out):
    import os
    import tempfile
    from pyecore.ecore import EClass, EAttribute, EReference, EString, EPackage
    from pyecore.resources import ResourceSet, URI
    rng = common.rng_for(ctx.seed, 'C08:resave')
    n = 40 if ctx.tier != 'thorough' else 800
    cnt = saves = 0
    pkg = EPackage('rs', nsURI='http://verif/c08/resave', nsPrefix='rs')
    Node = EClass('Node')
    Node.eStructuralFeatures.append(EAttribute('name', EString))
    Node.eStructuralFeatures.append(EReference('kids', Node, upper=-1, containment=True))
    Node.eStructuralFeatures.append(EReference('slot', Node, containment=True))
    Node.eStructuralFeatures.append(EReference('fav', Node))
    Node.eStructuralFeatures.append(EReference('featured', Node, upper=-1))
    pkg.eClassifiers.append(Node)

    def dump(roots):
        """positional description: every object by its path, references by target NAME (names are unique)"""
        d = {}

        def walk(o):
            d[o.name] = {'kids': [k.name for k in o.kids], 'slot': o.slot.name if o.slot is not None else None,
                         'fav': o.fav.name if o.fav is not None else None, 'featured': [x.name for x in o.featured]}
            for k in o.kids:
                walk(k)
            if o.slot is not None:
                walk(o.slot)
        for r in roots:
            walk(r)
        return {'roots': [r.name for r in roots], 'objs': d}

    for it in range(n):
        serial = [0]

        def new():
            serial[0] += 1
            return Node(name=f'n{serial[0]}')
        with tempfile.TemporaryDirectory() as tmp:
            rs = ResourceSet()
            rs.metamodel_registry[pkg.nsURI] = pkg
            res = rs.create_resource(URI(os.path.join(tmp, 'm.xmi')))
            roots = [new() for _ in range(rng.choice([1, 1, 2]))]
            for r in roots:
                res.append(r)
            alln = list(roots)
            hist = []

            def edit():
                k = rng.choice(['add', 'add', 'front', 'front', 'neg', 'neg', 'remove', 'move', 'link', 'link', 'slot', 'root-front'])
                live = [o for r in res.contents for o in [r] + list(r.eAllContents())]
                p = rng.choice(live)
                if k == 'add':
                    p.kids.append(new())
                elif k == 'front':
                    p.kids.insert(0, new())
                elif k == 'neg':
                    # a NEGATIVE position (counted from the end, clamped like list.insert)
                    p.kids.insert(-rng.randrange(1, len(p.kids) + 3), new())
                    if len(p.kids) > 1 and rng.random() < 0.7:
                        # ... and somebody refers to a sibling (written as a position in p.kids)
                        t = rng.choice(list(p.kids))
                        rng.choice(live).fav = t
                        if t not in p.featured:
                            p.featured.append(t)
                elif k == 'remove' and len(p.kids):
                    victim = rng.choice(list(p.kids))
                    gone = [victim] + list(victim.eAllContents())
                    p.kids.remove(victim)
                    for o in live:
                        if o.fav in gone:
                            o.fav = None
                        for g in gone:
                            if g in o.featured:
                                o.featured.remove(g)
                elif k == 'move' and len(p.kids):
                    c = rng.choice(list(p.kids))
                    q = rng.choice([o for o in live if o is not c and o not in list(c.eAllContents())])
                    q.kids.insert(rng.randrange(0, len(q.kids) + 1), c)
                elif k == 'link':
                    t = rng.choice(live)
                    if rng.random() < 0.5:
                        p.fav = t
                    elif t not in p.featured:
                        p.featured.append(t)
                elif k == 'slot' and p.slot is None:
                    p.slot = new()
                elif k == 'root-front':
                    res.contents.insert(0, new()) if False else res.append(new())
                hist.append(k)
            for _ in range(rng.randrange(3, 9)):
                edit()
            ok = True
            for trip in range(rng.choice([2, 2, 3])):
                target = os.path.join(tmp, 'm.xmi') if rng.random() < 0.5 else os.path.join(tmp, f'copy{trip}.xmi')
                try:
                    res.save(output=URI(target)) if target != res.uri.plain else res.save()
                    saves += 1
                except Exception as e:  # noqa
                    out.fail({'property': 'C08', 'clause': 'resave-raised', 'trip': min(trip, 1)}, f'save {trip} raised {type(e).__name__}: {e}',
                             {'scenario': 'resave', 'seed': ctx.seed, 'tier': ctx.tier, 'history': hist + [f'save{trip}']})
                    ok = False
                    break
                want = dump(list(res.contents))
                hist.append(f'save{trip}')
                if trip >= 1 or rng.random() < 0.3:
                    # only now a load (in a fresh resource set): it must give the model as it is NOW
                    try:
                        rs2 = ResourceSet()
                        rs2.metamodel_registry[pkg.nsURI] = pkg
                        got = dump(list(rs2.get_resource(URI(target)).contents))
                    except Exception as e:  # noqa
                        got = {'load-raised': f'{type(e).__name__}: {e}'}
                    cnt += 1
                    if got != want:
                        diff = [k for k in want['objs'] if got.get('objs', {}).get(k) != want['objs'][k]][:3]
                        out.fail({'property': 'C08', 'clause': 'resaved-document-differs', 'trip': min(trip, 1)},
                                 f'after {hist[-8:]} the document of save {trip} loads into a different model: '
                                 f'{[(k, want["objs"][k], got.get("objs", {}).get(k)) for k in diff] or got}',
                                 {'scenario': 'resave', 'seed': ctx.seed, 'tier': ctx.tier, 'history': list(hist)})
                        ok = False
                        break
                    hist.append('load')
                for _ in range(rng.randrange(1, 5)):
                    edit()
            if not ok:
                continue
    out.coverage['resave_documents_loaded_and_compared'] = cnt
    out.coverage['resave_saves'] = saves


_run1 = run


def run(ctx, out):   # noqa: F811
    _run1(ctx, out)
    resave_scenarios(ctx, out)


_replay1 = replay


def replay(ctx, rep):   # noqa: F811
    if rep.get('case', {}).get('scenario') == 'resave':
        common.use_repo()
        return common.scenario_replay(ctx, rep, {'resave': resave_scenarios})
    return _replay1(ctx, rep)


# ---------------------------------------------------------------------------
# the scenario families of harness/jsonscen.py in their XMI form (own PRNG streams 'C08:save-history' / 'C08:subpackages'):
# save histories with FAILING saves in between, and same-named classes in nested sub-packages compared exactly

def _xmi_scenarios():
    import functools
    from harness import jsonscen as JS
    return {'save-history': functools.partial(JS.save_history_scenarios, fmt='xmi', prop='C08'),
            'subpackages': functools.partial(JS.subpackage_scenarios, fmt='xmi', prop='C08'),
            'two-files': functools.partial(JS.two_file_scenarios, fmt='xmi', prop='C08', scale=0.5),
            'datatypes': functools.partial(JS.datatype_scenarios, fmt='xmi', prop='C08'),
            'feature-flags': functools.partial(JS.feature_flag_scenarios, fmt='xmi', prop='C08', scale=0.5)}


_run2 = run


def run(ctx, out):   # noqa: F811
    _run2(ctx, out)
    for name, f in _xmi_scenarios().items():
        guarded(out, f'scenario family {name} (xmi)', f, ctx, out)


_replay2 = replay


def replay(ctx, rep):   # noqa: F811
    if rep.get('case', {}).get('scenario') in ('save-history', 'subpackages', 'two-files', 'datatypes', 'feature-flags'):
        common.use_repo()
        return common.scenario_replay(ctx, rep, _xmi_scenarios())
    return _replay2(ctx, rep)


# ---------------------------------------------------------------------------
# containments whose declared type says little about the class of what they hold: typed by EObject ('anything'), by an
# abstract or concrete super class (direct or indirect), or by the very class of the content.  Every contained object
# must come back as an instance of ITS OWN class with its own attribute values, in order, and references to such objects
# (typed by EObject as well) must find them again (own PRNG stream 'C08:open-containment'; oracle: the dump before the save)

def open_containment_scenarios(ctx, out):
    import os
    import tempfile
    from pyecore.ecore import EClass, EAttribute, EReference, EString, EInt, EPackage, EObject
    from pyecore.resources import ResourceSet, URI
    rng = common.rng_for(ctx.seed, 'C08:open-containment')
    n = 60 if ctx.tier != 'thorough' else 1500
    cnt = objs = anyheld = 0
    for it in range(n):
        pkg = EPackage('oc', nsURI=f'http://verif/c08/open/{it}', nsPrefix='oc')
        # a small inheritance forest: Base (abstract or not) <- Mid* <- Leaf*, plus a holder class
        Base = EClass('Base', abstract=rng.random() < 0.5)
        Base.eStructuralFeatures.append(EAttribute('name', EString))
        classes = [Base]
        for i in range(rng.randrange(2, 6)):
            sup = rng.choice(classes)
            c = EClass(f'K{i}', superclass=(sup,), abstract=False)
            if rng.random() < 0.6:
                c.eStructuralFeatures.append(EAttribute(f'n{i}', EInt))
            classes.append(c)
        pkg.eClassifiers.extend(classes)
        concrete = [c for c in classes if not c.abstract]
        # containment features, declared on Base (so that every object can hold things)
        kinds = ['any-many', rng.choice(['any-one', 'any-many2']), 'base-many']
        feats = {}
        Base.eStructuralFeatures.append(EReference('anyMany', EObject, upper=-1, containment=True))
        feats['anyMany'] = (None, True)
        if kinds[1] == 'any-one':
            Base.eStructuralFeatures.append(EReference('anyOne', EObject, containment=True))
            feats['anyOne'] = (None, False)
        else:
            Base.eStructuralFeatures.append(EReference('anyMore', EObject, upper=-1, containment=True))
            feats['anyMore'] = (None, True)
        Base.eStructuralFeatures.append(EReference('baseMany', Base, upper=-1, containment=True))
        feats['baseMany'] = (Base, True)
        typed = rng.choice(classes[1:])
        Base.eStructuralFeatures.append(EReference('typedMany', typed, upper=-1, containment=True))
        feats['typedMany'] = (typed, True)
        Base.eStructuralFeatures.append(EReference('typedOne', typed, containment=True))
        feats['typedOne'] = (typed, False)
        # references typed by EObject / Base
        Base.eStructuralFeatures.append(EReference('anyRef', EObject))
        Base.eStructuralFeatures.append(EReference('anyRefs', EObject, upper=-1))
        Base.eStructuralFeatures.append(EReference('baseRef', Base))
        attrs = {c: sorted(a.name for a in c.eAllAttributes()) for c in classes}
        serial = [0]
        hist = []

        def new(among):
            c = rng.choice(among)
            serial[0] += 1
            o = c()
            o.name = f'o{serial[0]}'
            for a in attrs[c]:
                if a != 'name' and rng.random() < 0.7:
                    setattr(o, a, rng.randrange(-5, 100))
            return o

        def conforming(t):
            return concrete if t is None else [c for c in concrete if c is t or t in c.eAllSuperTypes()]

        roots = [new(concrete) for _ in range(rng.choice([1, 1, 2]))]
        live = list(roots)
        for _ in range(rng.randrange(3, 14)):
            p = rng.choice(live)
            f = rng.choice(sorted(feats))
            t, many = feats[f]
            among = conforming(t)
            if not among:
                continue
            k = new(among)
            if many:
                getattr(p, f).append(k)
            else:
                if getattr(p, f) is not None:
                    continue
                setattr(p, f, k)
            if t is None:
                anyheld += 1
            hist.append((p.name, f, k.eClass.name, k.name))
            live.append(k)
        for o in live:
            if rng.random() < 0.4:
                o.anyRef = rng.choice(live)
            if rng.random() < 0.4:
                o.baseRef = rng.choice(live)
            for t in rng.sample(live, rng.randrange(0, min(3, len(live)) + 1)):
                o.anyRefs.append(t)

        def dump(rs_):
            d = {}

            def walk(o):
                cn = o.eClass.name
                c = next((x for x in classes if x.name == cn), None)
                rec = {'class': cn, 'attrs': [(a, o.eGet(a)) for a in attrs.get(c, [])]}
                for f_, (_, many_) in sorted(feats.items()):
                    v = getattr(o, f_)
                    rec[f_] = [x.name for x in v] if many_ else (v.name if v is not None else None)
                rec['anyRef'] = o.anyRef.name if o.anyRef is not None else None
                rec['baseRef'] = o.baseRef.name if o.baseRef is not None else None
                rec['anyRefs'] = [x.name for x in o.anyRefs]
                d[o.name] = rec
                for f_, (_, many_) in sorted(feats.items()):
                    v = getattr(o, f_)
                    for x in (v if many_ else ([v] if v is not None else [])):
                        walk(x)
            for r in rs_:
                walk(r)
            return {'roots': [r.name for r in rs_], 'objs': d}

        use_uuid = rng.random() < 0.3
        opts = {}
        if rng.random() < 0.3:
            from pyecore.resources.xmi import XMIOptions
            opts[XMIOptions.SERIALIZE_DEFAULT_VALUES] = True
        case = {'scenario': 'open-containment', 'seed': ctx.seed, 'tier': ctx.tier,
                'history': [it, 'uuid' if use_uuid else 'fragment', sorted(str(k) for k in opts)] + hist}
        want = dump(roots)
        cnt += 1
        objs += len(live)
        with tempfile.TemporaryDirectory() as tmp:
            path = os.path.join(tmp, 'm.xmi')
            try:
                rs = ResourceSet()
                rs.metamodel_registry[pkg.nsURI] = pkg
                res = rs.create_resource(URI(path))
                res.use_uuid = use_uuid
                for r in roots:
                    res.append(r)
                res.save(options=opts)
            except Exception as e:  # noqa
                out.fail({'property': 'C08', 'clause': 'open-containment-save-raised'},
                         f'save raised {type(e).__name__}: {e} for {hist}', case)
                continue
            try:
                rs2 = ResourceSet()
                rs2.metamodel_registry[pkg.nsURI] = pkg
                got = dump(list(rs2.get_resource(URI(path)).contents))
            except Exception as e:  # noqa
                got = {'load-raised': f'{type(e).__name__}: {e}'}
        if got != want:
            diff = [k for k in want['objs'] if got.get('objs', {}).get(k) != want['objs'][k]][:3]
            out.fail({'property': 'C08', 'clause': 'open-containment-differs'},
                     f'containments typed by EObject / a super class: the document loads into a different model: '
                     f'{[(k, want["objs"][k], got.get("objs", {}).get(k)) for k in diff] or got}', case)
    out.coverage['open_containment_models_compared'] = cnt
    out.coverage['open_containment_objects'] = objs
    out.coverage['open_containment_objects_held_by_EObject_typed_feature'] = anyheld


_run3 = run


def run(ctx, out):   # noqa: F811
    _run3(ctx, out)
    guarded(out, 'scenario family open-containment', open_containment_scenarios, ctx, out)


_replay3 = replay


def replay(ctx, rep):   # noqa: F811
    if rep.get('case', {}).get('scenario') == 'open-containment':
        common.use_repo()
        return common.scenario_replay(ctx, rep, {'open-containment': open_containment_scenarios})
    return _replay3(ctx, rep)
