(* Whole JSON documents: the writer JsonResource.save / to_dict / DefaultObjectMapper.to_dict_from_obj /
   _to_ref_from_obj and the reader JsonResource.load / to_obj / process_inst / _local_target
   (pyecore/resources/json.py) together with Resource.resolve / _navigate_from and EObject.eURIFragment
   (resource.py, ecore.py), as two total functions

       encode_jdoc : mmodel -> bool (SERIALIZE_DEFAULT_VALUES) -> forest -> json
       decode_jdoc : mmodel -> json -> option forest          (None = the load raises, or the
                                                                document is outside the modelled fragment)

   over the SAME abstract metamodels and forests as Model/XmiDoc.v (mmodel, tree, path, skel, forget,
   wf_mm, wf_forest, the text of fragments render_path / resolve_frag / resolve_one are imported from
   there, nothing is duplicated).  The data type of an attribute travels in the field f_type of its
   feature (unused by XmiDoc for attributes): JsonVal.tag_of (f_type d) is int / float / bool / str / other.

   MODELLED
     * the writer: a resource with exactly one root is written as the object of that root, any other
       number of roots (0 included, after the fix 3dec3c1) as the array of the root objects; an object is
       a JSON object with the entry "eClass" iff it is a root or its class is not the declared type of its
       containment feature; only features in `_isset` are visited; a single-valued attribute is left out
       when SERIALIZE_DEFAULT_VALUES is off and its value equals get_default_value(), else it is written
       through JsonVal.to_json (None -> null, int/float/bool/str typed values as JSON-native values,
       every other type as the string to_string(v)); a many-valued attribute that is set is always
       written, as the array of its values (null for None); a non-containment reference as
       {"eClass": class of the target, "$ref": eURIFragment of the target} (many: the array of those;
       single and None: null under SERIALIZE_DEFAULT_VALUES, else left out); a containment as the nested
       object (many: the array of the nested objects, [] when set and empty; single and None: as above);
     * the reader, in its two phases: (1) to_obj builds the tree -- class from "eClass", else the declared
       type of the owning feature (a root needs "eClass"); abstract classes cannot be instantiated; an
       unknown key raises; attributes through JsonVal.from_json (an absent single attribute reads as its
       default, an absent many attribute as []); children are type checked; the JSON values of the
       non-containment references are kept aside (`_load_href`); (2) process_inst(resolve_local=True):
       every {"$ref": f} is resolved on the tree built in phase 1 (XmiDoc.resolve_one: parse, navigate,
       type check) and assigned / appended (unique collections: once).

   ABSTRACTIONS (validated by the correspondence in harness/jsondoc.py)
     * names are numbers as in XmiDoc.v (a feature named 'eClass', '$ref' or 'uuid' is not such a name);
       the key "eClass" is -1, "$ref" is -2; the value of "eClass" (nsURI#//Name) is the class id as a
       JSON number; inside a fragment a feature name is one symbol (code point 0x110000 + id);
     * an attribute value is named by a text (XmiDoc's `ostr` slots): int -> str(v); float -> the decimal
       of a number that names the float (the harness keeps the table; JsonVal names floats by numbers as
       well); bool -> 'true' / 'false'; str -> itself; any other type -> to_string(v).  pyv_of_text /
       text_of_pyv translate between these names and JsonVal.pyv; `canon` says that a text is the name of
       a value of the type (the C03 premise "values are well typed");
     * json.dumps / json.loads are outside (A-json); a JSON object is the list of its entries in the order
       of the document and its keys are distinct (decode_jdoc: None otherwise);
     * the order in which to_dict_from_obj visits `_isset` (insertion order) is not modelled: the model
       emits "eClass", the attributes, the references, the containments (each in the order of the class);
       the reader model is insensitive to the order of the entries of DIFFERENT features except for the
       order of the children of different containment features in the tree it builds, which is therefore
       normalised: children grouped by feature in the order of the class (premise `jwf_forest`, and the
       harness sorts the entries of the real document in the model's order -- it says so).

   OUT OF SCOPE (decode_jdoc answers None on such documents, encode_jdoc never produces them)
     uuid mode, id attributes used as "$ref" (iD), references into other resources and dangling
     references (pyecore keeps a proxy), derived / transient features, EClass instances and
     EStringToStringMapEntry special cases, custom mappers / encoders / decoders, an object given where a
     "$ref" is expected (and conversely), JSON values of the wrong JSON type for the data type (a string
     for an int ...).  The container end of a containment pair is a function of the nesting.  Opposite
     handshakes are not part of the reader model (Props/C09.v: C09_no_dup, C09_reference_order_partial;
     the document lists both ends of a symmetric state and each end reads back its own list); a unique
     many-valued attribute that holds equal values twice in the document is read as written (pyecore
     keeps one; no state holds such a value).

   No proofs here. *)
From Coq Require Import ZArith List Bool.
From PyecoreV Require Import Model.XmiAttr Model.Text Model.JsonVal Model.XmiDoc.
Import ListNotations.
Open Scope Z_scope.

(* ---------------------------------------------------------------- JSON values *)
(* atoms are JsonVal.jv: JNull | JInt z | JFloat name | JBool b | JStr s (| JBad: not serialisable) *)
Inductive json : Type :=
| JAtom (a : jv)
| JArr (l : list json)
| JObj (l : list (Z * json)).

Definition K_CLASS : Z := -1.     (* "eClass" *)
Definition K_REF : Z := -2.       (* "$ref"  *)

Definition jfind (key : Z) (l : list (Z * json)) : option json :=
  match find (fun p => fst p =? key) l with Some p => Some (snd p) | None => None end.

(* ---------------------------------------------------------------- attribute values and their names *)
Definition str_false : str := [102; 97; 108; 115; 101].

Definition pyv_of_text (t : etag) (v : ostr) : pyv str :=
  match v with
  | None => PNone
  | Some s =>
    match t with
    | TInt => match int_of_text s with Some z => PInt z | None => PRaise end
    | TFloat => match int_of_text s with Some z => PFloat z | None => PRaise end
    | TBool => if str_eqb s str_true then PBool true
               else if str_eqb s str_false then PBool false else PRaise
    | TStr => PStr s
    | TOther => PObj s
    end
  end.

(* None: the value is not one of the type (outside the model) *)
Definition text_of_pyv (t : etag) (v : pyv str) : option ostr :=
  match v, t with
  | PNone, _ => Some None
  | PInt z, TInt => Some (Some (str_of_Z z))
  | PFloat z, TFloat => Some (Some (str_of_Z z))
  | PBool b, TBool => Some (Some (if b then str_true else str_false))
  | PStr s, TStr => Some (Some s)
  | PObj s, TOther => Some (Some s)
  | _, _ => None
  end.

(* the text names a value of the type (None always does) *)
Definition canon (t : etag) (v : ostr) : bool :=
  match text_of_pyv t (pyv_of_text t v) with Some w => ostr_eqb w v | None => false end.

Definition atag (d : feat) : etag := tag_of (f_type d).

(* to_dict / process_inst on one attribute value: JsonVal's mapping, objects named by their text *)
Definition enc_val (t : etag) (v : ostr) : json :=
  JAtom (to_json (fun s : str => s) t (pyv_of_text t v)).
Definition dec_val (t : etag) (j : json) : option ostr :=
  match j with
  | JAtom a => text_of_pyv t (from_json (fun s : str => Some s) t a)
  | _ => None
  end.

(* ---------------------------------------------------------------- generic helpers *)
(* f x = None: failure; Some l: the items x contributes *)
Section Gather.
  Context {A B : Type} (f : A -> option (list B)).
  Fixpoint gather (l : list A) : option (list B) :=
    match l with
    | [] => Some []
    | x :: r =>
      match f x with
      | None => None
      | Some ys => match gather r with Some zs => Some (ys ++ zs) | None => None end
      end
    end.
End Gather.

(* `d[name] = value` for the features that are written *)
Definition opt_entries (l : list (Z * option json)) : list (Z * json) :=
  flat_map (fun p => match snd p with Some j => [(fst p, j)] | None => [] end) l.

Definition hd_none (vs : list ostr) : ostr := match vs with v :: _ => v | [] => None end.

(* ---------------------------------------------------------------- the writer *)
Section JEnc.
  Variable mm : mmodel.
  Variable sd : bool.            (* JsonOptions.SERIALIZE_DEFAULT_VALUES *)
  Variable S : list sk.          (* the nesting of the whole resource *)

  (* to_dict_from_obj on an attribute of `_isset` *)
  Definition jenc_attr (d : feat) (set : bool) (vs : list ostr) : option json :=
    if negb set then None
    else if f_many d then Some (JArr (map (enc_val (atag d)) vs))
    else if negb sd && ostr_eqb (hd_none vs) (f_dflt d) then None
         else Some (enc_val (atag d) (hd_none vs)).

  (* obj.eClass of the target of a reference *)
  Definition target_cls (p : path) : cid :=
    match nth_error S (fst p) with
    | Some n => match abs_steps mm n (snd p) with Some (_, c) => c | None => -1 end
    | None => -1
    end.

  (* _to_ref_from_obj *)
  Definition ref_obj (p : path) : json :=
    JObj [(K_CLASS, JAtom (JInt (target_cls p))); (K_REF, JAtom (JStr (frag_of mm S p)))].

  (* a non-containment reference of `_isset` (every target inside the resource) *)
  Definition jenc_ref (d : feat) (set : bool) (ps : list path) : option json :=
    if negb set then None
    else if f_many d then Some (JArr (map ref_obj ps))
    else match ps with
         | [] => if sd then Some (JAtom JNull) else None
         | p :: _ => Some (ref_obj p)
         end.

  (* a containment reference of `_isset`, its children already written *)
  Definition jenc_cont (d : feat) (set : bool) (ch : list json) : option json :=
    if negb set then None
    else if f_many d then Some (JArr ch)
    else match ch with
         | [] => if sd then Some (JAtom JNull) else None
         | j :: _ => Some j
         end.

  (* "eClass": a root, or `obj.eClass is not containingFeature._eType` *)
  Definition class_entry (decl : option cid) (c : cid) : option json :=
    match decl with
    | Some t => if t =? c then None else Some (JAtom (JInt c))
    | None => Some (JAtom (JInt c))
    end.

  Fixpoint jenc_tree (decl : option cid) (t : obj) : json :=
    match t with
    | Node c iss attrs refs kids =>
      match find_class mm c with
      | None => JObj []
      | Some k =>
        let ek := map (fun p => (fst p, jenc_tree (Some (f_type (feat_in (c_conts k) (fst p)))) (snd p))) kids in
        JObj (opt_entries
          ((K_CLASS, class_entry decl c)
           :: map (fun p => (fst p, jenc_attr (feat_in (c_attrs k) (fst p)) (isset iss (fst p)) (snd p))) attrs
           ++ map (fun p => (fst p, jenc_ref (feat_in (c_refs k) (fst p)) (isset iss (fst p)) (snd p))) refs
           ++ map (fun d => (f_id d, jenc_cont d (isset iss (f_id d)) (kids_of (f_id d) ek))) (c_conts k)))
      end
    end.
End JEnc.

(* JsonResource.save: `if len(dict_list) == 1: dict_list = dict_list[0]` *)
Definition encode_jdoc (mm : mmodel) (sd : bool) (F : forest) : json :=
  let S := map skel F in
  match F with
  | [t] => jenc_tree mm sd S None t
  | _ => JArr (map (jenc_tree mm sd S None) F)
  end.

(* the code as found (before 3dec3c1): `if len(dict_list) <= 1: dict_list = dict_list[0]` -- IndexError
   on a resource without root *)
Definition encode_jdoc_as_found (mm : mmodel) (sd : bool) (F : forest) : option json :=
  match F with
  | [] => None
  | _ => Some (encode_jdoc mm sd F)
  end.

(* ---------------------------------------------------------------- the reader *)
Definition is_some {A} (o : option A) : bool := match o with Some _ => true | None => false end.

(* to_obj: `eclass = resolve_eclass(d['eClass'])` if 'eClass' in d else `owning_feature._eType`; a dict that
   holds '$ref' is not an object *)
Definition obj_class (decl : option cid) (x : json) : option cid :=
  match x with
  | JObj es =>
    if is_some (jfind K_REF es) then None
    else match jfind K_CLASS es with
         | Some (JAtom (JInt c)) => Some c
         | Some _ => None
         | None => decl
         end
  | _ => None
  end.

Section JDec.
  Variable mm : mmodel.

  (* process_inst(inst, eattributes), one attribute: a key that is absent leaves the feature untouched *)
  Definition jrd_attr (es : list (Z * json)) (d : feat) : option (fid * list ostr) :=
    match jfind (f_id d) es with
    | None => Some (f_id d, if f_many d then [] else [f_dflt d])
    | Some j =>
      if f_many d then
        match j with
        | JArr l => match traverse (dec_val (atag d)) l with
                    | Some vs => Some (f_id d, vs)
                    | None => None
                    end
        | _ => None
        end
      else match dec_val (atag d) j with
           | Some v => Some (f_id d, [v])
           | None => None
           end
    end.

  (* `for key, value in d.items()`: 'eClass' is skipped, any other key names a feature of the class *)
  Definition key_ok (k : class) (e : Z * json) : bool :=
    (fst e =? K_CLASS) || is_some (find_feat (all_feats k) (fst e)).

  Section Kid.
    Variable dec : cid -> json -> option (tree (option json)).
    (* to_obj(value, owning_feature=feature) then the type check of eSet / extend *)
    Definition jdec_kid (d : feat) (x : json) : option (fid * tree (option json)) :=
      match obj_class (Some (f_type d)) x with
      | None => None
      | Some c' =>
        if conforms mm c' (f_type d) then
          match dec c' x with
          | Some t => Some (f_id d, t)
          | None => None
          end
        else None
      end.

    (* process_inst(inst, containments), one entry of the object *)
    Definition jdec_entry (k : class) (e : Z * json) : option (list (fid * tree (option json))) :=
      match find_feat (c_conts k) (fst e) with
      | None => Some []
      | Some d =>
        match snd e with
        | JAtom JNull => if f_many d then None else Some []
        | JAtom _ => None
        | JObj _ => if f_many d then None
                    else match jdec_kid d (snd e) with Some q => Some [q] | None => None end
        | JArr l => if f_many d then traverse (jdec_kid d) l else None
        end
      end.
  End Kid.

  (* phase 1: to_obj, the values of the non-containment references kept as they are *)
  Fixpoint jdec_obj (c : cid) (x : json) {struct x} : option (tree (option json)) :=
    match x with
    | JObj es =>
      match find_class mm c with
      | None => None
      | Some k =>
        if c_abstract k then None
        else if nodup_z (map fst es) && forallb (key_ok k) es then
          match traverse (jrd_attr es) (c_attrs k) with
          | None => None
          | Some attrs =>
            match gather (jdec_entry jdec_obj k) es with
            | Some ks => Some (Node c [] attrs (map (fun d => (f_id d, jfind (f_id d) es)) (c_refs k)) ks)
            | None => None
            end
          end
        else None
      end
    | _ => None
    end.

  (* to_obj on {"$ref": f} + _local_target + the type check of the feature *)
  Definition ref_target (S : list sk) (d : feat) (x : json) : option path :=
    match x with
    | JObj es =>
      match jfind K_REF es with
      | Some (JAtom (JStr frag)) => resolve_one mm S d frag
      | _ => None
      end
    | _ => None
    end.

  (* process_inst(inst, refs, resolve_local=True) for one (reference, value) of `_load_href` *)
  Definition jlink_ref (S : list sk) (d : feat) (ov : option json) : option (list path) :=
    match ov with
    | None => Some []
    | Some (JAtom JNull) => if f_many d then None else Some []
    | Some (JAtom _) => None
    | Some (JObj es) =>
      if f_many d then None
      else match ref_target S d (JObj es) with Some p => Some [p] | None => None end
    | Some (JArr l) =>
      if f_many d then
        match traverse (ref_target S d) l with
        | Some ps => Some (if f_unique d then dedup ps else ps)
        | None => None
        end
      else None
    end.

  (* phase 2 over one tree *)
  Fixpoint jlink_tree (S : list sk) (t : tree (option json)) : option obj :=
    match t with
    | Node c iss attrs refs kids =>
      match find_class mm c with
      | None => None
      | Some k =>
        match traverse (fun p => match find_feat (c_refs k) (fst p) with
                                 | Some d => match jlink_ref S d (snd p) with
                                             | Some ps => Some (fst p, ps)
                                             | None => None
                                             end
                                 | None => None
                                 end) refs with
        | None => None
        | Some refs' =>
          match traverse (fun p => match jlink_tree S (snd p) with
                                   | Some t' => Some (fst p, t')
                                   | None => None
                                   end) kids with
          | Some kids' => Some (Node c iss attrs refs' kids')
          | None => None
          end
        end
      end
    end.

  Definition jroots (x : json) : list json := match x with JArr l => l | _ => [x] end.
  Definition jdec_root (x : json) : option (tree (option json)) :=
    match obj_class None x with Some c => jdec_obj c x | None => None end.

  (* JsonResource.load *)
  Definition decode_jdoc (x : json) : option forest :=
    match traverse jdec_root (jroots x) with
    | None => None
    | Some G => traverse (jlink_tree (map skel G)) G
    end.
End JDec.

(* ---------------------------------------------------------------- the JSON-specific premises *)
(* children grouped by containment feature, the features in the order of the class (keys only) *)
Definition grouped_b (k : class) {A} (kids : list (fid * A)) : bool :=
  str_eqb (map fst kids)
          (flat_map (fun d => map fst (filter (fun p => fst p =? f_id d) kids)) (c_conts k)).

Section JWf.
  Variable mm : mmodel.
  (* on top of XmiDoc.wf_tree: every attribute value is (the name of) a value of the data type of its
     feature, and the children are listed in the normal form of an observation *)
  Fixpoint jwf_tree (t : obj) : bool :=
    match t with
    | Node c iss attrs refs kids =>
      match find_class mm c with
      | None => false
      | Some k =>
        forallb (fun p => forallb (canon (atag (feat_in (c_attrs k) (fst p)))) (snd p)) attrs
        && grouped_b k kids
        && forallb (fun p => jwf_tree (snd p)) kids
      end
    end.
End JWf.

Definition jwf_forest (mm : mmodel) (F : forest) : bool := forallb (jwf_tree mm) F.

(* ---------------------------------------------------------------- token codec for the extracted driver *)
(* json: 0 | 1 <str decimal digits> | 2 name | 3 b | 4 <str> | 9 | 5 n item*n | 6 n (key item)*n
   (integers travel as their decimal text: the protocol carries machine integers only) *)
Fixpoint rd_json (fuel : nat) : rd json :=
  match fuel with
  | O => fun _ => None
  | S fu =>
    fun t =>
      match t with
      | 0 :: r => Some (JAtom JNull, r)
      | 1 :: r => match rd_str r with
                  | Some (s, r') => match int_of_text s with Some z => Some (JAtom (JInt z), r') | None => None end
                  | None => None
                  end
      | 2 :: n :: r => Some (JAtom (JFloat n), r)
      | 3 :: b :: r => Some (JAtom (JBool (b =? 1)), r)
      | 4 :: r => rd_map (fun s => JAtom (JStr s)) rd_str r
      | 9 :: r => Some (JAtom JBad, r)
      | 5 :: r => rd_map JArr (rd_list (rd_json fu)) r
      | 6 :: r => rd_map JObj (rd_list (rd_pair rd_z (rd_json fu))) r
      | _ => None
      end
  end.

Fixpoint wr_json (x : json) : list Z :=
  match x with
  | JAtom JNull => [0]
  | JAtom (JInt z) => 1 :: put_ostr (Some (str_of_Z z))
  | JAtom (JFloat n) => [2; n]
  | JAtom (JBool b) => [3; if b then 1 else 0]
  | JAtom (JStr s) => 4 :: put_ostr (Some s)
  | JAtom JBad => [9]
  | JArr l => 5 :: zlen l :: flat_map wr_json l
  | JObj l => 6 :: zlen l :: flat_map (fun p => fst p :: wr_json (snd p)) l
  end.

(* request: <mm> sd <forest>      answer: 1 <wf_mm> <wf_forest> <jwf_forest> <json>  |  0 (unreadable request) *)
Definition run_jsondoc_enc (t : list Z) : list Z :=
  match rd_pair (rd_pair rd_mm rd_bool) (rd_list (rd_tree (length t))) t with
  | Some (((mm, sd), F), _) =>
    1 :: wr_bool (wf_mm mm) ++ wr_bool (wf_forest mm F) ++ wr_bool (jwf_forest mm F)
      ++ wr_json (encode_jdoc mm sd F)
  | None => [0]
  end.

(* request: <mm> <json>           answer: 1 1 <forest> | 1 0 (decode_jdoc = None) | 0 *)
Definition run_jsondoc_dec (t : list Z) : list Z :=
  match rd_pair rd_mm (rd_json (length t)) t with
  | Some ((mm, x), _) =>
    match decode_jdoc mm x with
    | Some F => [1; 1] ++ wr_list wr_tree F
    | None => [1; 0]
    end
  | None => [0]
  end.
