#!/venv/bin/python
"""usage: tools_seedtask.py <round-tag> <PID> [<PID> ...]
Creates, for each property, a scratch git worktree /tmp/seed<round-tag>_<PID> of /repo's current HEAD (outside /repo
and /verif; remove it with `git -C /repo worktree remove --force <dir>` when done) and writes the task text for a
FRESH sub-agent into <worktree>/_TASK.txt.  The task gives the agent only the property text, the list of summaries of
the earlier seeded changes (so that it does something different) and its worktree: nothing from /verif."""
import glob
import json
import os
import subprocess
import sys

TEMPLATE = """You are helping to evaluate a test/verification suite for the Python library pyecore (a pure-Python implementation of Eclipse EMF/Ecore). Your job: SEED A REALISTIC BUG.

You have your own scratch git worktree of the repository at {wt} (branch-less checkout of the current HEAD). Work ONLY inside {wt}. Never touch /repo or /verif, never read anything under /verif. When you run Python, run it from the worktree root (cd {wt}) or with PYTHONPATH={wt} so that `import pyecore` is the worktree's copy, never the installed one. Do NOT use `git stash` (the stash is shared between all worktrees of the repository and other people work in sibling worktrees right now): to go back to pristine source use `git diff > /tmp/<your own file>; git checkout -- pyecore`, and `git apply` to come back.

The semantic property that your change must break:

  Title: {title}
  Statement: {statement}
  Quantified over: {quant}
  Relevant source files: {files}

Task: produce TWO different, independent changes to the library source under {wt}/pyecore (each a small edit of 1-15 lines, such as a realistic regression a maintainer could introduce: a reordered statement, a dropped branch, a wrong condition, a missing update on one path, an off-by-one, a cache not refreshed, an optimisation that is wrong in a corner...) such that, for EACH change separately:
  1. the library still imports and the existing test-suite still passes completely:  cd {wt} && /venv/bin/python -m pytest -q -p no:cacheprovider -x 2>&1 | tail -2   (it must report 429 passed);
  2. the property above is violated, but NOT in a way that any ordinary use would expose at once: the violation should need something specific to manifest - a particular multi-step sequence of operations, an unusual but legal input, a particular prior state, a fault at a particular point, a second call, or two cooperating sites that each look fine alone. Be inventive: subtle is better than blunt;
  3. you have a small stand-alone demonstration program demo.py that uses only pyecore's public API (plus the standard library). It is run as  `cp <your demo.py> {wt}/demo.py && cd {wt} && /venv/bin/python demo.py`  (from the repository root, so that `import pyecore` picks the worktree's copy). It must exit with status 1 and print what is wrong WITH your change applied, and exit with status 0 WITHOUT it (on the pristine HEAD). Verify both directions yourself.

Earlier seeded changes for this property (do something DIFFERENT in mechanism and location from each of these; prefer code paths, public entry points and scenarios none of them touches):
{earlier}

Note: the current HEAD already contains a number of recent 'fix:' commits (see `git log`); do NOT merely revert one of them - write a new regression. Do not rely on behaviour that is already broken on pristine HEAD (your demo must exit 0 there); if you notice something already broken on pristine HEAD, mention it in your final reply.

Deliver, for change k in (1, 2), a directory {wt}/_seed/{pid}_k/ containing patch.diff (output of `git diff` for that change alone, applicable with `git apply` at the repository root), demo.py, and meta.json : {{"property": "{pid}", "summary": "<one sentence: what was changed>", "needs": "<what it takes to manifest>", "ran": ["<commands you ran and their outcome>"]}}.
At the end leave the worktree source clean (git checkout -- pyecore) so that only _seed/ is left untracked. Reply with a short summary of the two changes. Do not weaken or delete tests. Do not make the change depend on environment variables or randomness.
"""


def main():
    tag, pids = sys.argv[1], sys.argv[2:]
    props = {}
    for line in open('/verif/properties.jsonl'):
        d = json.loads(line)
        props[d['id']] = d
    for pid in pids:
        wt = f'/tmp/seed{tag}_{pid}'
        if not os.path.exists(wt):
            subprocess.check_call(['git', '-C', '/repo', 'worktree', 'add', '-q', '--detach', wt, 'main'])
        d = props[pid]
        earlier = []
        for mp in sorted(glob.glob(f'/verif/seeded/{pid}_*/meta.json')):
            earlier.append('   - ' + str(json.load(open(mp)).get('summary', '')))
        open(os.path.join(wt, '_TASK.txt'), 'w').write(TEMPLATE.format(
            wt=wt, pid=pid, title=d['title'], statement=d['statement'], quant=d['quantifier']['text'],
            files=', '.join(d['anchors']['files']), earlier='\n'.join(earlier)))
        print(wt)


if __name__ == '__main__':
    main()
