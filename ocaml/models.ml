(* name -> extracted function table; extend when a model is added to Extract.v *)
open Modelgen
let table : (Stdlib.String.t * (z list -> z list)) list = [   (* Stdlib.: the extracted code may define its own type `string` *)
  ("coll", run_coll);
  ("kernel", run_kernel);
  ("premises", run_premises);
  ("fits", run_fits);
  ("frag", run_frag);
  ("defaults", run_defaults);
  ("metaviews", run_metaviews);
  ("commands", run_commands);
  ("savefs", run_savefs);
  ("rset", run_rset);
  ("dataconv", run_dataconv);
  ("c3", run_c3);
  ("sig", run_sig);
  ("promote", run_promote);
  ("iskw", run_iskw);
  ("metaedit", run_metaedit);
  ("ecoremm", run_ecoremm);
  ("namefrag", run_namefrag);
  ("xmiattr", run_xmiattr);
  ("jsonval", run_jsonval);
  ("refload", run_refload);
  ("paths", run_paths);
  ("href", run_href);
  ("idfrag", run_idfrag);
  ("idfrag_premises", run_idfrag_premises);
  ("enum", run_enum);
  ("slice", run_slice);
  ("slicenotif", run_slicenotif);
  ("proxy", run_proxy);
  ("staticdecl", run_staticdecl);
  ("xmidoc_enc", run_xmidoc_enc);
  ("xmidoc_dec", run_xmidoc_dec);
  ("jsondoc_enc", run_jsondoc_enc);
  ("jsondoc_dec", run_jsondoc_dec);
]
