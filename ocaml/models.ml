(* name -> extracted function table; extend when a model is added to Extract.v *)
open Modelgen
let table : (string * (z list -> z list)) list = [
  ("coll", run_coll);
  ("kernel", run_kernel);
]
