(* The value mapping of the JSON resource for attributes
   (pyecore/resources/json.py: JsonResource.to_dict, the last three branches
   and the `obj is None` test; JsonResource.process_inst, attribute cases).

   save:  None -> null ; a type whose Python type is int/float/bool/str -> the
          value itself (JSON number / boolean / string) ; any other type ->
          the JSON string eType.to_string(value)
   load:  null -> None ; anything else -> eType.from_string(x), x being the
          JSON value (for lists: element-wise)

   json.dumps / json.loads are outside (assumption A-json: they map int,
   float, bool, str, None, list to themselves).  Floats are named by their
   IEEE-754 bit pattern.  Values of the non-native types (Decimal, datetime,
   enumeration literals ...) are abstract: a type O with its to_string and
   from_string; the extracted instance takes O := the canonical text.

   No proofs here. *)
From Coq Require Import ZArith List Bool.
From PyecoreV Require Import Model.XmiAttr.
Import ListNotations.
Open Scope Z_scope.

(* feature._eType.eType in (int, float, bool, str), or something else *)
Inductive etag : Type := TInt | TFloat | TBool | TStr | TOther.

Inductive pyv (O : Type) : Type :=
| PNone
| PInt (z : Z)
| PFloat (bits : Z)
| PBool (b : bool)
| PStr (s : str)
| PObj (o : O)
| PRaise.          (* the conversion raises / is outside the model *)
Arguments PNone {O}.
Arguments PInt {O} z.
Arguments PFloat {O} bits.
Arguments PBool {O} b.
Arguments PStr {O} s.
Arguments PObj {O} o.
Arguments PRaise {O}.

Inductive jv : Type :=
| JNull
| JInt (z : Z)
| JFloat (bits : Z)
| JBool (b : bool)
| JStr (s : str)
| JBad.            (* not JSON-serialisable by the default encoder *)

Definition native (t : etag) : bool :=
  match t with TOther => false | _ => true end.

Section Conv.
  Variable O : Type.
  Variable to_string : O -> str.            (* eType.to_string on the type's own values *)
  Variable from_string : str -> option O.   (* eType.from_string on a text; None = raises *)

  (* to_dict for one attribute value *)
  Definition to_json (t : etag) (v : pyv O) : jv :=
    match v with
    | PNone => JNull
    | PRaise => JBad
    | _ =>
      if native t then
        match v with
        | PInt z => JInt z | PFloat f => JFloat f | PBool b => JBool b | PStr s => JStr s
        | _ => JBad
        end
      else
        match v with
        | PObj o => JStr (to_string o)
        | PStr s => JStr s                 (* an enumeration literal given by name: str(name) *)
        | _ => JBad
        end
    end.

  Definition str_True : str := [84; 114; 117; 101].
  Definition str_true : str := [116; 114; 117; 101].

  (* eType.from_string applied to a JSON value, per Python type of the data type:
       int   -> int(x)          float -> float(x)
       bool  -> x in ['True','true'] or x is True
       str   -> x (EDataType.from_string is the identity)
       other -> the type's from_string *)
  Definition conv (t : etag) (j : jv) : pyv O :=
    match t, j with
    | TInt, JInt z => PInt z
    | TInt, JBool b => PInt (if b then 1 else 0)
    | TFloat, JFloat f => PFloat f
    | TBool, JBool b => PBool b
    | TBool, JStr s => PBool (str_eqb s str_True || str_eqb s str_true)
    | TBool, (JInt _ | JFloat _) => PBool false
    | TStr, JInt z => PInt z
    | TStr, JFloat f => PFloat f
    | TStr, JBool b => PBool b
    | TStr, JStr s => PStr s
    | TOther, JStr s => match from_string s with Some o => PObj o | None => PRaise end
    | _, _ => PRaise
    end.

  (* process_inst for one attribute value *)
  Definition from_json (t : etag) (j : jv) : pyv O :=
    match j with
    | JNull => PNone
    | _ => conv t j
    end.

  (* ---- a single-valued attribute as an entry of the object's dict ----
     DefaultObjectMapper.to_dict_from_obj: a set feature is left out when
     SERIALIZE_DEFAULT_VALUES is off and `value == attr.get_default_value()`;
     load: a key that is absent leaves the feature untouched, it reads as
     get_default_value().  `veq` is Python's == on the values of the type. *)
  Variable veq : pyv O -> pyv O -> bool.

  Definition write_entry (sd : bool) (t : etag) (dflt v : pyv O) : option jv :=
    if negb sd && veq v dflt then None else Some (to_json t v).

  Definition read_entry (t : etag) (dflt : pyv O) (e : option jv) : pyv O :=
    match e with
    | None => dflt
    | Some j => from_json t j
    end.

  (* the value belongs to the data type (None is always accepted) *)
  Definition well_typed (t : etag) (v : pyv O) : Prop :=
    match v, t with
    | PNone, _ => True
    | PInt _, TInt | PFloat _, TFloat | PBool _, TBool | PStr _, TStr | PObj _, TOther => True
    | _, _ => False
    end.

  (* JSON type of a value *)
  Inductive jkind : Type := KNull | KNumberInt | KNumberFloat | KBoolean | KString | KBad.
  Definition kind_of (j : jv) : jkind :=
    match j with
    | JNull => KNull | JInt _ => KNumberInt | JFloat _ => KNumberFloat
    | JBool _ => KBoolean | JStr _ => KString | JBad => KBad
    end.
  Definition kind_of_tag (t : etag) : jkind :=
    match t with
    | TInt => KNumberInt | TFloat => KNumberFloat | TBool => KBoolean | TStr => KString
    | TOther => KString
    end.
End Conv.
Arguments to_json {O} to_string t v.
Arguments conv {O} from_string t j.
Arguments from_json {O} from_string t j.
Arguments well_typed {O} t v.
Arguments write_entry {O} to_string veq sd t dflt v.
Arguments read_entry {O} from_string t dflt e.

(* ---------- token codec (O := canonical text) ---------- *)
Definition tag_of (c : Z) : etag :=
  if c =? 0 then TInt else if c =? 1 then TFloat else if c =? 2 then TBool
  else if c =? 3 then TStr else TOther.

(* value: 0 | 1 z | 2 bits | 3 b | 4 <str> | 5 <str> (object named by its text) | 9 *)
Definition get_pyv (t : list Z) : pyv str :=
  match t with
  | 1 :: z :: _ => PInt z
  | 2 :: f :: _ => PFloat f
  | 3 :: b :: _ => PBool (b =? 1)
  | 4 :: r => PStr (unsome (fst (get_ostr r)))
  | 5 :: r => PObj (unsome (fst (get_ostr r)))
  | 0 :: _ => PNone
  | _ => PRaise
  end.
Definition put_pyv (v : pyv str) : list Z :=
  match v with
  | PNone => [0]
  | PInt z => [1; z]
  | PFloat f => [2; f]
  | PBool b => [3; if b then 1 else 0]
  | PStr s => 4 :: put_ostr (Some s)
  | PObj s => 5 :: put_ostr (Some s)
  | PRaise => [9]
  end.
Definition put_jv (j : jv) : list Z :=
  match j with
  | JNull => [0]
  | JInt z => [1; z]
  | JFloat f => [2; f]
  | JBool b => [3; if b then 1 else 0]
  | JStr s => 4 :: put_ostr (Some s)
  | JBad => [9]
  end.

(* == on the values the codec carries (same type on both sides; an object by its text) *)
Definition veq_text (a b : pyv str) : bool :=
  match a, b with
  | PNone, PNone => true
  | PInt x, PInt y => x =? y
  | PFloat x, PFloat y => x =? y
  | PBool x, PBool y => Bool.eqb x y
  | PStr x, PStr y => str_eqb x y
  | PObj x, PObj y => str_eqb x y
  | _, _ => false
  end.

(* a value and the rest of the tokens *)
Definition get_pyv_rest (t : list Z) : pyv str * list Z :=
  match t with
  | 1 :: z :: r => (PInt z, r)
  | 2 :: f :: r => (PFloat f, r)
  | 3 :: b :: r => (PBool (b =? 1), r)
  | 4 :: r => let (o, r') := get_ostr r in (PStr (unsome o), r')
  | 5 :: r => let (o, r') := get_ostr r in (PObj (unsome o), r')
  | 0 :: r => (PNone, r)
  | _ => (PRaise, [])
  end.

(* requests:
     tag value                  (tag 0..4) -> the JSON value written, then the value read back from it
     10 tag sd <default> <value>           -> 0 (entry left out) | 1 <json value> ; then the value read back *)
Definition run_jsonval (t : list Z) : list Z :=
  match t with
  | 10 :: c :: sd :: r =>
    let tg := tag_of c in
    let (d, r1) := get_pyv_rest r in
    let (v, _) := get_pyv_rest r1 in
    let e := write_entry (fun s : str => s) veq_text (sd =? 1) tg d v in
    (match e with None => [0] | Some j => 1 :: put_jv j end)
    ++ put_pyv (read_entry (fun s : str => Some s) tg d e)
  | c :: r =>
    let tg := tag_of c in
    let j := to_json (fun s : str => s) tg (get_pyv r) in
    put_jv j ++ put_pyv (from_json (fun s : str => Some s) tg j)
  | [] => []
  end.
