(* Symmetry of opposites for the LINKING direction when containment is present:
   x.f = v (set_full) and x.f.append/add/insert(v) (coll_add_full), for every
   well-formed metamodel and every multiplicity pairing.

   Method (pre-unlink reduction): the only thing the real procedures do to the
   value store beyond their containment-free twins (the same procedures run on
   `erase m`) is the re-parenting step of `update_container`, which takes the
   new child out of its previous containment slot with `remove_or_unset`.
   That step commutes with the few cells written before it, so the final value
   store is the one the containment-free twin computes from the state s_pre in
   which the child has already been taken out (`set_full_reduce`,
   `coll_add_full_reduce`).  s_pre is well formed (WFRemove.v), the twin keeps
   opposites symmetric (C01Full.v), and symmetry only reads the value store. *)
From Coq Require Import ZArith List Bool Arith Lia.
From PyecoreV Require Import Lib.PyBase Lib.PyList Model.Kernel Proofs.PyListFacts Proofs.KernelFacts Proofs.C01Proofs Proofs.C01Full Proofs.C02Proofs Proofs.WFBase Proofs.WFRemove.
Import ListNotations.
Open Scope nat_scope.

(* two states with the same value store *)
Definition veq (s s' : state) : Prop := forall k, vals s k = vals s' k.

Lemma veq_refl s : veq s s.
Proof. intros k. reflexivity. Qed.

Lemma veq_trans s1 s2 s3 : veq s1 s2 -> veq s2 s3 -> veq s1 s3.
Proof. intros A B k. rewrite (A k). apply B. Qed.

Lemma veq_single s s' k : veq s s' -> single s k = single s' k.
Proof. intros E. unfold single. rewrite (E k). reflexivity. Qed.

Ltac er := rewrite ?fd_erase; cbn [erase_fd f_owner f_isref f_many f_unique f_cont f_opp f_type f_default].

Lemma check_single_erase m f v : check_single (erase m) f v = check_single m f v.
Proof. unfold check_single. er. reflexivity. Qed.

Lemma check_elem_erase m f v : check_elem (erase m) f v = check_elem m f v.
Proof. unfold check_elem. er. reflexivity. Qed.

(* ---------- the primitives compute the same value store on m and on erase m ---------- *)
Section Sim.
Variable m : mm.
Let m0 := erase m.

Lemma uc_erase s x f v p : update_container m0 s x f v p = s.
Proof. apply (update_container_id (erase m) (erase_no_containment m)). Qed.

Lemma uc_noncont s x f v p : f_cont (fd m f) = false -> update_container m s x f v p = s.
Proof. intros H. unfold update_container. rewrite H. reflexivity. Qed.

(* without a new child, the container update only rewrites back-pointers *)
Lemma uc_none_vals s x f p : vals (update_container m s x f None p) = vals s.
Proof.
  unfold update_container. destruct (f_cont (fd m f)); cbn [negb]; [|reflexivity].
  destruct p; reflexivity.
Qed.

Lemma sim_set_store s s' k v : veq s s' -> veq (set_store m s k v) (set_store m0 s' k v).
Proof.
  intros E k'. change (upd (vals s) k [v] k' = upd (vals s') k [v] k'). apply upd_ext. exact E.
Qed.

Lemma sim_set_none_raw s s' k : veq s s' -> veq (set_none_raw m s k) (set_none_raw m0 s' k).
Proof.
  intros E k'. unfold set_none_raw. unfold m0. er.
  destruct (f_isref (fd m (snd k))); rewrite ?vals_uc_clear; apply sim_set_store; exact E.
Qed.

Lemma sim_coll_remove_raw s s' k x : veq s s' -> veq (coll_remove_raw m s k x) (coll_remove_raw m0 s' k x).
Proof.
  intros E k'. destruct (coll_remove_raw_fields m s k x) as [A _].
  destruct (coll_remove_raw_fields m0 s' k x) as [B _]. rewrite A, B, (E k).
  destruct (vmem (VObj x) (vals s' k)); [apply upd_ext; exact E | apply E].
Qed.

Lemma veq_inv_add s s' o c o' c' : veq s s' -> veq (inv_add s o c) (inv_add s' o' c').
Proof. intros E k. rewrite !vals_inv_add. apply E. Qed.

Lemma veq_inv_del s s' o c o' c' : veq s s' -> veq (inv_del s o c) (inv_del s' o' c').
Proof. intros E k. apply E. Qed.

Lemma sim_coll_append_raw s s' k x :
  f_cont (fd m (snd k)) = false -> veq s s' -> veq (coll_append_raw m s k x) (coll_append_raw m0 s' k x).
Proof.
  intros Hc E k'. unfold coll_append_raw. rewrite (uc_noncont _ _ _ _ _ Hc), uc_erase. unfold m0. er.
  cbn [vals set_isset notify push_log set_vals]. rewrite (E k). apply upd_ext. exact E.
Qed.

Lemma sim_set_obj_raw s s' k x :
  f_cont (fd m (snd k)) = false -> veq s s' -> veq (set_obj_raw m s k x) (set_obj_raw m0 s' k x).
Proof.
  intros Hc E k'. unfold set_obj_raw. unfold m0. er.
  destruct (f_isref (fd m (snd k))); [rewrite (uc_noncont _ _ _ _ _ Hc), uc_erase|];
    apply sim_set_store; exact E.
Qed.

End Sim.

(* ---------- x.f = v cut into its phases ---------- *)
(* release of the previous partner q of x *)
Definition sf_release (m : mm) (s2 : state) (x : oid) (f g : fid) (v pv : value) : state :=
  match obj_of pv with
  | Some q =>
    if (match obj_of v with Some y => y =? q | None => false end) then s2
    else if f_many (fd m g) then coll_remove_raw m s2 (q, g) x
    else if cell_eqb (q, g) (x, f) then s2 else set_none_raw m s2 (q, g)
  | None => s2
  end.

(* the back-reference from the new partner y *)
Definition sf_link (m : mm) (s3 : state) (x : oid) (f g : fid) (y : oid) : state :=
  if f_many (fd m g) then coll_append_raw m s3 (y, g) x
  else
    let s4 := match obj_of (single s3 (y, g)) with
              | Some c => if c =? x then s3 else set_none_raw m s3 (c, f)
              | None => s3
              end in
    set_obj_raw m s4 (y, g) x.

Definition sf_noopp (s2 : state) (x : oid) (f : fid) (v pv : value) : state :=
  match obj_of v with
  | Some y => inv_add (match obj_of pv with Some q => inv_del s2 q (x, f) | None => s2 end) y (x, f)
  | None => match obj_of pv with Some q => inv_del s2 q (x, f) | None => s2 end
  end.

Definition sf_tail (m : mm) (s2 : state) (x : oid) (f : fid) (v pv : value) : state :=
  match f_opp (fd m f) with
  | None => sf_noopp s2 x f v pv
  | Some g =>
    match obj_of v with
    | None => sf_release m s2 x f g v pv
    | Some y => sf_link m (sf_release m s2 x f g v pv) x f g y
    end
  end.

Lemma set_full_eq m s x f v :
  check_single m f v = true -> f_isref (fd m f) = true ->
  snd (set_full m s (x, f) v) =
  sf_tail m (update_container m (set_store m s (x, f) v) x f (obj_of v) (obj_of (single s (x, f)))) x f v (single s (x, f)).
Proof.
  intros Hc Hr. unfold set_full, sf_tail, sf_link, sf_release, sf_noopp. rewrite Hc, Hr. cbn [negb].
  destruct (f_opp (fd m f)) as [g|]; [|reflexivity].
  destruct (obj_of v) as [y|]; [|reflexivity].
  destruct (f_many (fd m g)); reflexivity.
Qed.

Lemma set_full_rejected m s x f v : check_single m f v = false -> snd (set_full m s (x, f) v) = s.
Proof. intros Hc. unfold set_full. rewrite Hc. reflexivity. Qed.

Lemma set_full_attr m s x f v :
  check_single m f v = true -> f_isref (fd m f) = false ->
  snd (set_full m s (x, f) v) = set_store m s (x, f) v.
Proof. intros Hc Hr. unfold set_full. rewrite Hc, Hr. reflexivity. Qed.

Section SimTail.
Variable m : mm.
Let m0 := erase m.

Lemma sim_release s2 s2' x f g v pv :
  veq s2 s2' -> veq (sf_release m s2 x f g v pv) (sf_release m0 s2' x f g v pv).
Proof.
  intros E. unfold sf_release. unfold m0. er.
  destruct (obj_of pv) as [q|]; [|exact E].
  destruct (match obj_of v with Some y => y =? q | None => false end); [exact E|].
  destruct (f_many (fd m g)); [apply sim_coll_remove_raw; exact E|].
  destruct (cell_eqb (q, g) (x, f)); [exact E | apply sim_set_none_raw; exact E].
Qed.

Lemma sim_link s3 s3' x f g y :
  f_cont (fd m g) = false -> veq s3 s3' -> veq (sf_link m s3 x f g y) (sf_link m0 s3' x f g y).
Proof.
  intros Hc E. unfold sf_link. unfold m0. er.
  destruct (f_many (fd m g)); [apply sim_coll_append_raw; assumption|].
  cbv zeta. apply sim_set_obj_raw; [exact Hc|]. rewrite (veq_single s3 s3' (y, g) E).
  destruct (obj_of (single s3' (y, g))) as [c|]; [|exact E].
  destruct (c =? x); [exact E | apply sim_set_none_raw; exact E].
Qed.

Lemma sim_noopp s2 s2' x f v pv : veq s2 s2' -> veq (sf_noopp s2 x f v pv) (sf_noopp s2' x f v pv).
Proof.
  intros E. unfold sf_noopp.
  destruct (obj_of v); [apply veq_inv_add|]; (destruct (obj_of pv); [apply veq_inv_del|]; exact E).
Qed.

(* no containment on the far side: the tail is the twin's tail *)
Lemma sim_tail s2 s2' x f v pv :
  (forall g, f_opp (fd m f) = Some g -> obj_of v <> None -> f_cont (fd m g) = false) ->
  veq s2 s2' -> veq (sf_tail m s2 x f v pv) (sf_tail m0 s2' x f v pv).
Proof.
  intros Hg E. unfold sf_tail. unfold m0. er.
  destruct (f_opp (fd m f)) as [g|]; [|apply sim_noopp; exact E].
  destruct (obj_of v) as [y|]; [|apply sim_release; exact E].
  apply sim_link; [apply (Hg g eq_refl); discriminate | apply sim_release; exact E].
Qed.

(* the twin's x.f = v *)
Lemma set_full_twin s x f v :
  check_single m f v = true -> f_isref (fd m f) = true ->
  snd (set_full m0 s (x, f) v) = sf_tail m0 (set_store m0 s (x, f) v) x f v (single s (x, f)).
Proof.
  intros Hc Hr. unfold m0. rewrite set_full_eq.
  - rewrite uc_erase. reflexivity.
  - rewrite check_single_erase. exact Hc.
  - er. exact Hr.
Qed.
End SimTail.

(* ---------- the value store after taking child y out of the containment slot kp ---------- *)
Definition RUv (m : mm) (V : cell -> list value) (kp : cell) (y : oid) : cell -> list value :=
  let V1 := match f_opp (fd m (snd kp)) with Some h => upd V (y, h) [VNone] | None => V end in
  upd V1 kp (if f_many (fd m (snd kp)) then raw_remove (VObj y) (V kp) else [VNone]).

Lemma RUv_ext m V V' kp y : (forall k, V k = V' k) -> forall k, RUv m V kp y k = RUv m V' kp y k.
Proof.
  intros E. unfold RUv. cbv zeta. rewrite (E kp).
  destruct (f_opp (fd m (snd kp))) as [h|]; intros k; apply upd_ext; [apply upd_ext|]; exact E.
Qed.

(* cells outside the footprint {kp, (y, opposite)} are untouched ... *)
Lemma RUv_other m V kp y k :
  k <> kp -> (forall h, f_opp (fd m (snd kp)) = Some h -> k <> (y, h)) -> RUv m V kp y k = V k.
Proof.
  intros N1 N2. unfold RUv. cbv zeta. rewrite upd_other by (intros E; apply N1; symmetry; exact E).
  destruct (f_opp (fd m (snd kp))) as [h|]; [|reflexivity].
  apply upd_other. intros E. apply (N2 h eq_refl). symmetry. exact E.
Qed.

(* ... and a write outside the footprint commutes with it *)
Lemma RUv_upd m V kp y k0 l :
  k0 <> kp -> (forall h, f_opp (fd m (snd kp)) = Some h -> k0 <> (y, h)) ->
  forall k, RUv m (upd V k0 l) kp y k = upd (RUv m V kp y) k0 l k.
Proof.
  intros N1 N2 k. unfold RUv. cbv zeta. rewrite (upd_other V k0 kp l N1).
  destruct (f_opp (fd m (snd kp))) as [h|].
  - pose proof (N2 h eq_refl) as N3. unfold upd.
    destruct (cell_eqb_spec kp k), (cell_eqb_spec (y, h) k), (cell_eqb_spec k0 k); try reflexivity; congruence.
  - unfold upd. destruct (cell_eqb_spec kp k), (cell_eqb_spec k0 k); try reflexivity; congruence.
Qed.

Section PreUnlink.
Variable m : mm.
Hypothesis W : wf_mm m.

Lemma vals_set_none_full_loc s x f g :
  f_isref (fd m f) = true -> f_opp (fd m f) = Some g -> f_isref (fd m g) = true -> f_many (fd m g) = false ->
  vals (set_none_full m s (x, f)) =
  match obj_of (single s (x, f)) with
  | Some q => if cell_eqb (q, g) (x, f) then upd (vals s) (x, f) [VNone]
              else upd (upd (vals s) (x, f) [VNone]) (q, g) [VNone]
  | None => upd (vals s) (x, f) [VNone]
  end.
Proof.
  intros Hr Hfg Hgr Hmg. unfold set_none_full. rewrite Hr. cbn [negb]. rewrite Hfg.
  destruct (obj_of (single s (x, f))) as [q|]; [|rewrite vals_uc_clear; reflexivity].
  rewrite Hmg. destruct (cell_eqb (q, g) (x, f)); [rewrite vals_uc_clear; reflexivity|].
  destruct (set_none_raw_fields m (uc_clear m (set_store m s (x, f) VNone) f (Some q)) (q, g) Hgr) as [A _].
  rewrite A, vals_uc_clear. reflexivity.
Qed.

(* the re-parenting unlink, on the value store *)
Lemma RU_vals t p pf y :
  f_cont (fd m pf) = true -> In (VObj y) (vals t (p, pf)) ->
  (f_many (fd m pf) = false -> vals t (p, pf) = [VObj y]) ->
  forall k, vals (remove_or_unset m t (p, pf) y) k = RUv m (vals t) (p, pf) y k.
Proof.
  intros Hc Hin Hone k. pose proof (wf_cont_ref m W pf Hc) as Hr.
  unfold remove_or_unset, RUv. cbn [snd]. cbv zeta.
  destruct (f_many (fd m pf)) eqn:Hm.
  - apply vmem_obj in Hin. rewrite Hin.
    destruct (f_opp (fd m pf)) as [h|] eqn:Eh.
    + destruct (wf_container_end m W pf h Eh Hc) as [Hhs _].
      rewrite (vals_coll_remove_full m t p pf h y Eh Hr). cbv zeta. rewrite Hhs.
      rewrite (upd_other (vals t) (y, h) (p, pf)) by (intros E; inversion E; congruence). reflexivity.
    + rewrite (vals_coll_remove_full_noopp m t p pf y Eh Hr). reflexivity.
  - specialize (Hone eq_refl).
    destruct (f_opp (fd m pf)) as [h|] eqn:Eh.
    + destruct (wf_container_end m W pf h Eh Hc) as [Hhs Hhc].
      pose proof (wf_opp_ref m W h pf (wf_opp_inv m W pf h Eh)) as Hhr.
      rewrite (vals_set_none_full_loc t p pf h Hr Eh Hhr Hhs).
      unfold single. rewrite Hone. cbn [obj_of].
      destruct (cell_eqb_spec (y, h) (p, pf)) as [E|N]; [inversion E; congruence|].
      apply upd_comm. intros E. apply N. symmetry. exact E.
    + rewrite (vals_set_none_full_noopp m t p pf Eh). reflexivity.
Qed.

(* what update_container does to the value store when it installs child y in (x, f) *)
Definition ucV (s : state) (x : oid) (f : fid) (y : oid) : cell -> list value :=
  match cont s y with
  | Some (p, pf) => if negb ((p =? x) && (pf =? f)) then RUv m (vals s) (p, pf) y else vals s
  | None => vals s
  end.

Lemma uc_vals s x f y prev :
  f_cont (fd m f) = true ->
  (forall p pf, cont s y = Some (p, pf) -> (p, pf) <> (x, f) ->
     f_cont (fd m pf) = true /\ In (VObj y) (vals s (p, pf)) /\
     (f_many (fd m pf) = false -> vals s (p, pf) = [VObj y])) ->
  forall k, vals (update_container m s x f (Some y) prev) k = ucV s x f y k.
Proof.
  intros Hc Hown k. unfold update_container, ucV. rewrite Hc. cbn [negb].
  set (sa := match eresource_of m s y with
             | Some r => if nmem y (rcont s r) then res_remove_raw s r y else s
             | None => s end).
  assert (Ea : vals sa = vals s /\ cont sa = cont s).
  { unfold sa. destruct (eresource_of m s y) as [r|]; [|split; reflexivity].
    destruct (nmem y (rcont s r)); split; reflexivity. }
  destruct Ea as [EaV EaC].
  set (sb := match cont sa y with
             | Some (p, pf) => if negb ((p =? x) && (pf =? f)) then remove_or_unset m sa (p, pf) y else sa
             | None => sa end).
  assert (Eb : vals sb k = match cont s y with
                           | Some (p, pf) => if negb ((p =? x) && (pf =? f)) then RUv m (vals s) (p, pf) y else vals s
                           | None => vals s end k).
  { unfold sb. rewrite EaC. destruct (cont s y) as [[p pf]|] eqn:Ec; [|rewrite EaV; reflexivity].
    destruct (negb ((p =? x) && (pf =? f))) eqn:Eg; [|rewrite EaV; reflexivity].
    assert (N : (p, pf) <> (x, f)).
    { intros E. inversion E; subst. rewrite !Nat.eqb_refl in Eg. discriminate. }
    destruct (Hown p pf eq_refl N) as [H1 [H2 H3]].
    rewrite (RU_vals sa p pf y H1); rewrite EaV; [reflexivity | exact H2 | exact H3]. }
  rewrite <- Eb.
  destruct prev as [q|]; [destruct (y =? q)|]; reflexivity.
Qed.

End PreUnlink.

(* ---------- the state in which child y has already left its previous container ---------- *)
Definition pre_unlink (m : mm) (s : state) (x : oid) (f : fid) (y : oid) : state :=
  match cont s y with
  | Some (p, pf) => if negb ((p =? x) && (pf =? f)) then remove_or_unset m s (p, pf) y else s
  | None => s
  end.

Section Pre.
Variable m : mm.
Hypothesis W : wf_mm m.

Lemma WF_child_slot s y p pf :
  WF m s -> cont s y = Some (p, pf) ->
  f_cont (fd m pf) = true /\ In (VObj y) (vals s (p, pf)) /\
  (f_many (fd m pf) = false -> vals s (p, pf) = [VObj y]).
Proof.
  intros H Hc. destruct (proj1 (wf_own m s H y p pf) Hc) as [H1 H2]. split; [exact H1|]. split; [exact H2|].
  intros Hs. destruct (proj1 (wf_shape m s H p pf) Hs) as [v Hv]. rewrite Hv in *.
  destruct H2 as [H2|[]]. congruence.
Qed.

Lemma pre_unlink_WF s x f y : WF m s -> WF m (pre_unlink m s x f y).
Proof.
  intros H. unfold pre_unlink. destruct (cont s y) as [[p pf]|] eqn:Ec; [|exact H].
  destruct (negb ((p =? x) && (pf =? f))); [|exact H].
  apply (remove_or_unset_WF m W); [exact H|]. cbn [snd].
  apply (wf_cont_ref m W). exact (proj1 (WF_child_slot s y p pf H Ec)).
Qed.

Lemma pre_unlink_vals s x f y : WF m s -> forall k, vals (pre_unlink m s x f y) k = ucV m s x f y k.
Proof.
  intros H k. unfold pre_unlink, ucV. destruct (cont s y) as [[p pf]|] eqn:Ec; [|reflexivity].
  destruct (negb ((p =? x) && (pf =? f))); [|reflexivity].
  destruct (WF_child_slot s y p pf H Ec) as [H1 [H2 H3]]. apply (RU_vals m W); assumption.
Qed.

(* the container update of a containment f = the pre-unlinked state, on the value store *)
Lemma uc_is_pre_unlink s x f y prev :
  WF m s -> f_cont (fd m f) = true ->
  veq (update_container m s x f (Some y) prev) (pre_unlink m s x f y).
Proof.
  intros H Hc k. rewrite (pre_unlink_vals s x f y H). apply (uc_vals m W); [exact Hc|].
  intros p pf Ec _. exact (WF_child_slot s y p pf H Ec).
Qed.

Lemma WF_Inv_erase s : WF m s -> Inv (erase m) s.
Proof.
  intros H. split; [apply erase_sym; exact (wf_sym m s H)|].
  apply erase_shape. apply shape2_shape. exact (wf_shape m s H).
Qed.

End Pre.

(* ---------- x.f.append(v) / add / insert ---------- *)
Section Add.
Variable m : mm.
Hypothesis W : wf_mm m.
Let m0 := erase m.

Lemma sim_update_opposite_add s s' x f y :
  (forall g, f_opp (fd m f) = Some g -> f_cont (fd m g) = false) ->
  veq s s' -> veq (update_opposite_add m s x f y) (update_opposite_add m0 s' x f y).
Proof.
  intros Hg E. unfold update_opposite_add. unfold m0. er.
  destruct (f_opp (fd m f)) as [g|]; [|apply veq_inv_add; exact E].
  specialize (Hg g eq_refl). er.
  destruct (f_many (fd m g)).
  - destruct (cell_eqb (y, g) (x, f)); [exact E | apply sim_coll_append_raw; assumption].
  - apply sim_set_obj_raw; [exact Hg|]. rewrite (veq_single s s' (y, g) E).
    destruct (obj_of (single s' (y, g))) as [c|]; [|exact E].
    destruct (c =? x); [exact E | apply sim_coll_remove_raw; exact E].
Qed.

Lemma add_final_sim s1 s1' x f pos v :
  veq s1 s1' ->
  veq (set_isset (notify m (set_vals s1 (x, f)
         (match pos with Some i => raw_insert (f_unique (fd m f)) i v (vals s1 (x, f))
                       | None => raw_append (f_unique (fd m f)) v (vals s1 (x, f)) end))
         x f KAdd (POne VNone) (POne v)) (x, f))
      (set_isset (notify m0 (set_vals s1' (x, f)
         (match pos with Some i => raw_insert (f_unique (fd m0 f)) i v (vals s1' (x, f))
                       | None => raw_append (f_unique (fd m0 f)) v (vals s1' (x, f)) end))
         x f KAdd (POne VNone) (POne v)) (x, f)).
Proof.
  intros E k. cbn [vals set_isset notify push_log set_vals]. unfold m0. er. rewrite (E (x, f)).
  apply upd_ext. exact E.
Qed.

Theorem coll_add_full_reduce s x f pos v :
  WF m s -> f_many (fd m f) = true ->
  exists s_pre, WF m s_pre /\
    veq (snd (coll_add_full m s (x, f) pos v)) (snd (coll_add_full m0 s_pre (x, f) pos v)).
Proof.
  intros H Hm. unfold coll_add_full. unfold m0. rewrite check_elem_erase.
  destruct (check_elem m f v); cbn [negb snd]; [|exists s; split; [exact H | apply veq_refl]].
  assert (Hg : forall g, f_opp (fd m f) = Some g -> f_cont (fd m g) = false).
  { intros g Eg. exact (many_opp_not_cont m f g W Eg Hm). }
  assert (K : exists s_pre, WF m s_pre /\ veq (link_elem m s x f v) (link_elem (erase m) s_pre x f v)).
  { assert (T : forall s', link_elem (erase m) s' x f v =
                  if f_isref (fd m f) then
                    match obj_of v with Some y => update_opposite_add (erase m) s' x f y | None => s' end
                  else s').
    { intros s'. unfold link_elem. er. destruct (f_isref (fd m f)); [|reflexivity].
      destruct (obj_of v); [rewrite (uc_erase m)|]; reflexivity. }
    unfold link_elem at 1.
    destruct (f_isref (fd m f)) eqn:Hr; [|exists s; split; [exact H | rewrite T; rewrite ?Hr; apply veq_refl]].
    destruct (obj_of v) as [y|] eqn:Ev; [|exists s; split; [exact H | rewrite T; rewrite ?Hr, ?Ev; apply veq_refl]].
    destruct (f_cont (fd m f)) eqn:Hc.
    - exists (pre_unlink m s x f y). split; [apply (pre_unlink_WF m W); exact H|]. rewrite T; rewrite ?Hr, ?Ev.
      apply sim_update_opposite_add; [exact Hg|]. apply (uc_is_pre_unlink m W); assumption.
    - exists s. split; [exact H|]. rewrite T; rewrite ?Hr, ?Ev. rewrite (uc_noncont m _ _ _ _ _ Hc).
      apply sim_update_opposite_add; [exact Hg | apply veq_refl]. }
  destruct K as [s_pre [Hpre E]]. exists s_pre. split; [exact Hpre|].
  apply add_final_sim. exact E.
Qed.

Theorem sym_coll_add_full_gen s x f pos v :
  WF m s -> f_many (fd m f) = true -> sym m (snd (coll_add_full m s (x, f) pos v)).
Proof.
  intros H Hm. destruct (coll_add_full_reduce s x f pos v H Hm) as [s_pre [Hpre E]].
  apply (sym_ext m (snd (coll_add_full m0 s_pre (x, f) pos v))); [exact E|].
  apply erase_sym.
  apply (add_gen (erase m) (erase_no_containment m) (erase_wf_opp m (wf_mm_wf_opp m W)) s_pre x f pos v).
  - apply (WF_Inv_erase m). exact Hpre.
  - er. exact Hm.
Qed.

End Add.

(* ---------- x.f = y where f is the container end of a containment g ---------- *)
Section ContainerEnd.
Variable m : mm.
Hypothesis W : wf_mm m.
Let m0 := erase m.

(* the back-reference phase installs x as a child of y: the nested container
   update takes x out of its previous container first *)
Lemma sf_link_cont s3 s3' x f g y :
  f_opp (fd m f) = Some g -> f_cont (fd m g) = true ->
  (forall p pf, cont s3 x = Some (p, pf) -> (p, pf) <> (y, g) ->
     f_cont (fd m pf) = true /\ In (VObj x) (vals s3 (p, pf)) /\
     (f_many (fd m pf) = false -> vals s3 (p, pf) = [VObj x]) /\ pf <> g) ->
  (forall k, vals s3' k = ucV m s3 y g x k) ->
  veq (sf_link m s3 x f g y) (sf_link m0 s3' x f g y).
Proof.
  intros Hfg Hcg HP HV.
  pose proof (wf_opp_inv m W f g Hfg) as Hgf.
  destruct (wf_container_end m W g f Hgf Hcg) as [Hsf Hcf].
  pose proof (wf_opp_ref m W f g Hfg) as Hrf. pose proof (wf_opp_ref m W g f Hgf) as Hrg.
  (* the footprint of the nested unlink avoids every f- and g-cell *)
  assert (Hfoot : forall p pf, cont s3 x = Some (p, pf) -> (p, pf) <> (y, g) ->
            forall a, ((a, f) <> (p, pf) /\ (forall h, f_opp (fd m pf) = Some h -> (a, f) <> (x, h))) /\
                      ((a, g) <> (p, pf) /\ (forall h, f_opp (fd m pf) = Some h -> (a, g) <> (x, h)))).
  { intros p pf Ec N a. destruct (HP p pf Ec N) as [A [_ [_ D]]].
    split; split.
    - intros E; inversion E; congruence.
    - intros h Eh E. inversion E; subst h. pose proof (wf_opp_inv m W pf f Eh). congruence.
    - intros E; inversion E; congruence.
    - intros h Eh E. inversion E; subst h. pose proof (wf_opp_inv m W pf g Eh). congruence. }
  unfold sf_link. unfold m0. er.
  destruct (f_many (fd m g)) eqn:Hmg.
  - (* g many-valued: the container update comes first *)
    assert (E : forall k, vals (update_container m s3 y g (Some x) None) k = vals s3' k).
    { intros k0. rewrite HV. apply (uc_vals m W); [exact Hcg|]. intros p pf Ec N.
      destruct (HP p pf Ec N) as [A [B [C _]]]. split; [exact A|]. split; [exact B | exact C]. }
    intros k. unfold coll_append_raw. cbn [fst snd]. rewrite (uc_erase m). er.
    cbn [vals set_isset notify push_log set_vals]. rewrite (E (y, g)). apply upd_ext. exact E.
  - (* g single-valued: two cells are written before the container update *)
    cbv zeta.
    assert (Hyg : vals s3' (y, g) = vals s3 (y, g)).
    { rewrite HV. unfold ucV. destruct (cont s3 x) as [[p pf]|] eqn:Ec; [|reflexivity].
      destruct (negb ((p =? y) && (pf =? g))) eqn:Eg; [|reflexivity].
      assert (N : (p, pf) <> (y, g)) by (intros E; inversion E; subst; rewrite !Nat.eqb_refl in Eg; discriminate).
      destruct (Hfoot p pf eq_refl N y) as [_ [F1 F2]]. apply RUv_other; assumption. }
    assert (Hsg : single s3' (y, g) = single s3 (y, g)) by (unfold single; rewrite Hyg; reflexivity).
    rewrite Hsg.
    set (W4 := fun V : cell -> list value =>
                 match obj_of (single s3 (y, g)) with
                 | Some c => if c =? x then V else upd V (c, f) [VNone]
                 | None => V end).
    set (s4 := match obj_of (single s3 (y, g)) with
               | Some c => if c =? x then s3 else set_none_raw m s3 (c, f)
               | None => s3 end).
    set (s4' := match obj_of (single s3 (y, g)) with
                | Some c => if c =? x then s3' else set_none_raw (erase m) s3' (c, f)
                | None => s3' end).
    assert (H4 : vals s4 = W4 (vals s3) /\ cont s4 = cont s3).
    { unfold s4, W4. destruct (obj_of (single s3 (y, g))) as [c|]; [|split; reflexivity].
      destruct (c =? x); [split; reflexivity|].
      destruct (set_none_raw_fields m s3 (c, f) Hrf) as [A [B _]]. cbn [snd] in B. rewrite Hcf in B.
      split; assumption. }
    assert (H4' : vals s4' = W4 (vals s3')).
    { unfold s4', W4. destruct (obj_of (single s3 (y, g))) as [c|]; [|reflexivity].
      destruct (c =? x); [reflexivity|].
      apply (vals_set_none_raw (erase m) (erase_no_containment m)). }
    destruct H4 as [H4v H4c].
    intros k. unfold set_obj_raw. cbn [fst snd]. er. rewrite Hrg. rewrite (uc_erase m).
    rewrite (uc_vals m W (set_store m s4 (y, g) (VObj x)) y g x _ Hcg).
    + unfold ucV.
      change (cont (set_store m s4 (y, g) (VObj x))) with (cont s4).
      change (vals (set_store m s4 (y, g) (VObj x))) with (upd (vals s4) (y, g) [VObj x]).
      change (vals (set_store (erase m) s4' (y, g) (VObj x))) with (upd (vals s4') (y, g) [VObj x]).
      rewrite H4c, H4v, H4'.
      destruct (cont s3 x) as [[p pf]|] eqn:Ec.
      * destruct (negb ((p =? y) && (pf =? g))) eqn:Eg.
        -- assert (N : (p, pf) <> (y, g)) by (intros E; inversion E; subst; rewrite !Nat.eqb_refl in Eg; discriminate).
           rewrite RUv_upd by (apply (Hfoot p pf eq_refl N y)).
           apply upd_ext. intros k0. unfold W4.
           assert (E0 : forall k1, RUv m (vals s3) (p, pf) x k1 = vals s3' k1).
           { intros k1. rewrite HV. unfold ucV. rewrite Ec, Eg. reflexivity. }
           destruct (obj_of (single s3 (y, g))) as [c|]; [|apply E0].
           destruct (c =? x); [apply E0|].
           rewrite RUv_upd by (apply (Hfoot p pf eq_refl N c)). apply upd_ext. exact E0.
        -- apply upd_ext. intros k0. unfold W4.
           assert (E0 : forall k1, vals s3 k1 = vals s3' k1).
           { intros k1. rewrite HV. unfold ucV. rewrite Ec, Eg. reflexivity. }
           destruct (obj_of (single s3 (y, g))) as [c|]; [|apply E0].
           destruct (c =? x); [apply E0 | apply upd_ext; exact E0].
      * apply upd_ext. intros k0. unfold W4.
        assert (E0 : forall k1, vals s3 k1 = vals s3' k1).
        { intros k1. rewrite HV. unfold ucV. rewrite Ec. reflexivity. }
        destruct (obj_of (single s3 (y, g))) as [c|]; [|apply E0].
        destruct (c =? x); [apply E0 | apply upd_ext; exact E0].
    + (* the slot x sits in is untouched by the two writes *)
      intros p pf Ec N. change (cont (set_store m s4 (y, g) (VObj x))) with (cont s4) in Ec.
      rewrite H4c in Ec. destruct (HP p pf Ec N) as [A [B [C D]]].
      assert (Ev : vals (set_store m s4 (y, g) (VObj x)) (p, pf) = vals s3 (p, pf)).
      { change (vals (set_store m s4 (y, g) (VObj x))) with (upd (vals s4) (y, g) [VObj x]).
        rewrite upd_other by (intros E; inversion E; congruence). rewrite H4v. unfold W4.
        destruct (obj_of (single s3 (y, g))) as [c|]; [|reflexivity].
        destruct (c =? x); [reflexivity|]. apply upd_other. intros E; inversion E; congruence. }
      rewrite Ev. split; [exact A|]. split; [exact B | exact C].
Qed.

End ContainerEnd.

(* a store outside the footprint of the pending unlink commutes with it *)
Lemma ucV_store m s x0 f0 y0 kx v :
  (forall p pf, cont s y0 = Some (p, pf) -> (p, pf) <> (x0, f0) ->
     kx <> (p, pf) /\ (forall h, f_opp (fd m pf) = Some h -> kx <> (y0, h))) ->
  (forall k, ucV m (set_store m s kx v) x0 f0 y0 k = upd (ucV m s x0 f0 y0) kx [v] k) /\
  ucV m s x0 f0 y0 kx = vals s kx.
Proof.
  intros HF. unfold ucV.
  change (cont (set_store m s kx v)) with (cont s).
  change (vals (set_store m s kx v)) with (upd (vals s) kx [v]).
  destruct (cont s y0) as [[p pf]|] eqn:Ec; [|split; reflexivity].
  destruct (negb ((p =? x0) && (pf =? f0))) eqn:Eg; [|split; reflexivity].
  assert (N : (p, pf) <> (x0, f0)) by (intros E; inversion E; subst; rewrite !Nat.eqb_refl in Eg; discriminate).
  destruct (HF p pf eq_refl N) as [F1 F2]. split.
  - intros k. apply RUv_upd; assumption.
  - apply RUv_other; assumption.
Qed.

Section SetFull.
Variable m : mm.
Hypothesis W : wf_mm m.
Let m0 := erase m.

Lemma WF_single_slot s x f : WF m s -> f_many (fd m f) = false -> vals s (x, f) = [single s (x, f)].
Proof.
  intros H Hs. destruct (proj1 (wf_shape m s H x f) Hs) as [v Hv]. unfold single. rewrite Hv. reflexivity.
Qed.

(* x.f = y for a single-valued containment f *)
Lemma set_full_cont s x f y :
  WF m s -> f_cont (fd m f) = true -> f_many (fd m f) = false -> check_single m f (VObj y) = true ->
  WF m (pre_unlink m s x f y) /\
  veq (snd (set_full m s (x, f) (VObj y))) (snd (set_full m0 (pre_unlink m s x f y) (x, f) (VObj y))).
Proof.
  intros H Hc Hs Hchk. pose proof (wf_cont_ref m W f Hc) as Hr.
  split; [apply (pre_unlink_WF m W); exact H|].
  set (s_pre := pre_unlink m s x f y).
  (* the footprint of the unlink of y avoids the own slot *)
  assert (HF : forall p pf, cont s y = Some (p, pf) -> (p, pf) <> (x, f) ->
             (x, f) <> (p, pf) /\ (forall h, f_opp (fd m pf) = Some h -> (x, f) <> (y, h))).
  { intros p pf Ec N. split; [intros E; apply N; symmetry; exact E|].
    intros h Eh E. inversion E; subst h.
    destruct (WF_child_slot m s y p pf H Ec) as [A _].
    pose proof (wf_opp_inv m W pf f Eh) as Hfp.
    destruct (wf_container_end m W f pf Hfp Hc) as [_ B]. congruence. }
  destruct (ucV_store m s x f y (x, f) (VObj y) HF) as [HU1 HU2].
  assert (Hpv : single s_pre (x, f) = single s (x, f)).
  { unfold single, s_pre. rewrite (pre_unlink_vals m W s x f y H), HU2. reflexivity. }
  rewrite (set_full_eq m s x f (VObj y) Hchk Hr).
  unfold m0. rewrite (set_full_twin m s_pre x f (VObj y) Hchk Hr). rewrite Hpv.
  apply sim_tail.
  - intros g Eg _. exact (proj2 (wf_container_end m W f g Eg Hc)).
  - intros k. cbn [obj_of].
    rewrite (uc_vals m W (set_store m s (x, f) (VObj y)) x f y _ Hc).
    + rewrite HU1. change (vals (set_store (erase m) s_pre (x, f) (VObj y))) with (upd (vals s_pre) (x, f) [VObj y]).
      apply upd_ext. intros k0. unfold s_pre. rewrite (pre_unlink_vals m W s x f y H). reflexivity.
    + intros p pf Ec N. change (cont (set_store m s (x, f) (VObj y))) with (cont s) in Ec.
      change (vals (set_store m s (x, f) (VObj y))) with (upd (vals s) (x, f) [VObj y]).
      rewrite upd_other by (intros E; apply N; symmetry; exact E).
      exact (WF_child_slot m s y p pf H Ec).
Qed.

(* the previous partner q of x through the container end f holds x in its containment slot *)
Lemma ce_partner s x f g q :
  WF m s -> f_opp (fd m f) = Some g -> f_many (fd m f) = false -> f_cont (fd m g) = true ->
  obj_of (single s (x, f)) = Some q ->
  In (VObj x) (vals s (q, g)) /\ cont s x = Some (q, g).
Proof.
  intros H Hfg Hs Hcg Eq. apply obj_of_Some' in Eq.
  assert (Hin : In (VObj x) (vals s (q, g))).
  { apply (wf_sym m s H f g Hfg x q). unfold R. rewrite (WF_single_slot s x f H Hs), Eq. left; reflexivity. }
  split; [exact Hin|]. apply (wf_own m s H x q g). split; assumption.
Qed.

Lemma ce_release_cont s x f g y q :
  WF m s -> f_opp (fd m f) = Some g -> f_cont (fd m g) = true ->
  obj_of (single s (x, f)) = Some q ->
  let s3 := sf_release m (set_store m s (x, f) (VObj y)) x f g (VObj y) (single s (x, f)) in
  cont s3 x = None \/ cont s3 x = Some (y, g).
Proof.
  intros H Hfg Hcg Eq.
  pose proof (wf_opp_inv m W f g Hfg) as Hgf.
  destruct (wf_container_end m W g f Hgf Hcg) as [Hsf Hcf].
  pose proof (wf_opp_ref m W g f Hgf) as Hrg.
  destruct (ce_partner s x f g q H Hfg Hsf Hcg Eq) as [Hin Hcx].
  assert (Nfg : f <> g) by (intros E; subst; congruence).
  cbv zeta. unfold sf_release. rewrite Eq. cbn [obj_of].
  destruct (Nat.eqb_spec y q) as [E|N].
  - subst q. right. exact Hcx.
  - left.
    assert (Hv : vals (set_store m s (x, f) (VObj y)) (q, g) = vals s (q, g)).
    { change (vals (set_store m s (x, f) (VObj y))) with (upd (vals s) (x, f) [VObj y]).
      apply upd_other. intros E; inversion E; congruence. }
    destruct (f_many (fd m g)) eqn:Hmg.
    + destruct (coll_remove_raw_fields m (set_store m s (x, f) (VObj y)) (q, g) x) as [_ [B _]].
      rewrite B. rewrite Hv. apply vmem_obj in Hin. rewrite Hin. cbn [snd]. rewrite Hcg.
      unfold updn. rewrite Nat.eqb_refl. reflexivity.
    + destruct (cell_eqb_spec (q, g) (x, f)) as [E|_]; [inversion E; congruence|].
      destruct (set_none_raw_fields m (set_store m s (x, f) (VObj y)) (q, g) Hrg) as [_ [B _]].
      rewrite B. cbn [snd]. rewrite Hcg. unfold single. rewrite Hv.
      destruct (proj1 (wf_shape m s H q g) Hmg) as [w Hw]. rewrite Hw in *.
      destruct Hin as [Hin|[]]. subst w. cbn [obj_of cont_clear]. unfold updn. rewrite Nat.eqb_refl. reflexivity.
Qed.

(* x.f = y for the (single-valued) container end f of a containment g *)
Lemma set_full_ce s x f g y :
  WF m s -> f_opp (fd m f) = Some g -> f_cont (fd m g) = true -> check_single m f (VObj y) = true ->
  exists s_pre, WF m s_pre /\
    veq (snd (set_full m s (x, f) (VObj y))) (snd (set_full m0 s_pre (x, f) (VObj y))).
Proof.
  intros H Hfg Hcg Hchk.
  pose proof (wf_opp_inv m W f g Hfg) as Hgf.
  destruct (wf_container_end m W g f Hgf Hcg) as [Hsf Hcf].
  pose proof (wf_opp_ref m W f g Hfg) as Hrf.
  assert (Nfg : f <> g) by (intros E; subst; congruence).
  rewrite (set_full_eq m s x f (VObj y) Hchk Hrf). cbn [obj_of].
  rewrite (uc_noncont m _ _ _ _ _ Hcf). unfold sf_tail at 1. rewrite Hfg. cbn [obj_of].
  destruct (obj_of (single s (x, f))) as [q|] eqn:Eq.
  - (* x had a partner: the release phase (or nothing, if it is y) clears x's container *)
    exists s. split; [exact H|].
    unfold m0. rewrite (set_full_twin m s x f (VObj y) Hchk Hrf).
    unfold sf_tail. er. rewrite Hfg. cbn [obj_of].
    pose proof (ce_release_cont s x f g y q H Hfg Hcg Eq) as Hc3. cbv zeta in Hc3.
    apply (sf_link_cont m W); [exact Hfg | exact Hcg | |].
    + intros p pf Ec N. exfalso. destruct Hc3 as [E|E]; rewrite E in Ec; [discriminate|].
      inversion Ec; subst. apply N; reflexivity.
    + intros k. unfold ucV.
      assert (E3 : veq (sf_release m (set_store m s (x, f) (VObj y)) x f g (VObj y) (single s (x, f)))
                       (sf_release (erase m) (set_store (erase m) s (x, f) (VObj y)) x f g (VObj y) (single s (x, f)))).
      { apply sim_release. apply sim_set_store. apply veq_refl. }
      destruct Hc3 as [E|E]; rewrite E; [|rewrite !Nat.eqb_refl; cbn [andb negb]]; symmetry; apply E3.
  - (* x had no partner: it may sit in a containment slot of another feature *)
    exists (pre_unlink m s y g x). split; [apply (pre_unlink_WF m W); exact H|].
    set (s_pre := pre_unlink m s y g x).
    assert (HP : forall p pf, cont s x = Some (p, pf) ->
               f_cont (fd m pf) = true /\ In (VObj x) (vals s (p, pf)) /\
               (f_many (fd m pf) = false -> vals s (p, pf) = [VObj x]) /\ pf <> g).
    { intros p pf Ec. destruct (WF_child_slot m s x p pf H Ec) as [A [B C]].
      split; [exact A|]. split; [exact B|]. split; [exact C|].
      intros E. subst pf. apply (wf_sym m s H g f Hgf p x) in B. unfold R in B.
      rewrite (WF_single_slot s x f H Hsf) in B. destruct B as [B|[]]. rewrite B in Eq. discriminate. }
    assert (HF : forall p pf, cont s x = Some (p, pf) -> (p, pf) <> (y, g) ->
               (x, f) <> (p, pf) /\ (forall h, f_opp (fd m pf) = Some h -> (x, f) <> (x, h))).
    { intros p pf Ec _. destruct (HP p pf Ec) as [A [_ [_ D]]]. split; [intros E; inversion E; congruence|].
      intros h Eh E. inversion E; subst h. pose proof (wf_opp_inv m W pf f Eh). congruence. }
    destruct (ucV_store m s y g x (x, f) (VObj y) HF) as [HU1 HU2].
    assert (Hpv : single s_pre (x, f) = single s (x, f)).
    { unfold single, s_pre. rewrite (pre_unlink_vals m W s y g x H), HU2. reflexivity. }
    unfold m0. rewrite (set_full_twin m s_pre x f (VObj y) Hchk Hrf). rewrite Hpv.
    unfold sf_tail. er. rewrite Hfg. cbn [obj_of].
    unfold sf_release. rewrite Eq.
    apply (sf_link_cont m W); [exact Hfg | exact Hcg | |].
    + intros p pf Ec N. change (cont (set_store m s (x, f) (VObj y))) with (cont s) in Ec.
      destruct (HP p pf Ec) as [A [B [C D]]].
      change (vals (set_store m s (x, f) (VObj y))) with (upd (vals s) (x, f) [VObj y]).
      rewrite upd_other by (intros E; inversion E; congruence).
      split; [exact A|]. split; [exact B|]. split; [exact C | exact D].
    + intros k. rewrite HU1.
      change (vals (set_store (erase m) s_pre (x, f) (VObj y))) with (upd (vals s_pre) (x, f) [VObj y]).
      apply upd_ext. intros k0. unfold s_pre. apply (pre_unlink_vals m W s y g x H).
Qed.

End SetFull.

(* ---------- the reduction and the symmetry theorems ---------- *)
(* No premise about the call is needed.  A rejected value leaves the state as
   it is.  For an accepted object y, the re-parenting unlink of the new child
   writes the cells (p, pf) [the previous containment slot, different from the
   new one by the code's guard] and (child, opposite of pf); the procedure
   itself writes only f- and g-cells (g the opposite of f), and a containment
   pf other than the one being written has an opposite different from f and g.
   So the two never meet, x.f = x (self-containment) included; acyclicity of
   the containment graph plays no part in the symmetry of opposites. *)
Definition set_fits (m : mm) (s : state) (x : oid) (f : fid) (v : value) : Prop := True.
Definition add_fits (m : mm) (s : state) (x : oid) (f : fid) (v : value) : Prop := True.

Section Main.
Variable m : mm.
Hypothesis W : wf_mm m.

Theorem set_full_reduce s x f v :
  WF m s -> f_many (fd m f) = false ->
  exists s_pre, WF m s_pre /\
    veq (snd (set_full m s (x, f) v)) (snd (set_full (erase m) s_pre (x, f) v)).
Proof.
  intros H Hs.
  destruct (check_single m f v) eqn:Hchk.
  2:{ exists s. split; [exact H|]. rewrite !set_full_rejected; [apply veq_refl | | exact Hchk].
      rewrite check_single_erase. exact Hchk. }
  destruct (f_isref (fd m f)) eqn:Hr.
  2:{ exists s. split; [exact H|]. rewrite !set_full_attr; [apply sim_set_store; apply veq_refl | | | exact Hchk | exact Hr].
      - rewrite check_single_erase. exact Hchk.
      - er. exact Hr. }
  destruct (obj_of v) as [y|] eqn:Ev.
  - apply obj_of_Some' in Ev. subst v.
    destruct (f_cont (fd m f)) eqn:Hc.
    + exists (pre_unlink m s x f y). apply (set_full_cont m W); assumption.
    + destruct (f_opp (fd m f)) as [g|] eqn:Hfg.
      * destruct (f_cont (fd m g)) eqn:Hcg; [apply (set_full_ce m W s x f g y); assumption|].
        exists s. split; [exact H|].
        rewrite (set_full_eq m s x f (VObj y) Hchk Hr), (set_full_twin m s x f (VObj y) Hchk Hr).
        rewrite (uc_noncont m _ _ _ _ _ Hc).
        apply sim_tail; [|apply sim_set_store; apply veq_refl].
        intros g' Eg' _. congruence.
      * exists s. split; [exact H|].
        rewrite (set_full_eq m s x f (VObj y) Hchk Hr), (set_full_twin m s x f (VObj y) Hchk Hr).
        rewrite (uc_noncont m _ _ _ _ _ Hc).
        apply sim_tail; [|apply sim_set_store; apply veq_refl].
        intros g' Eg' _. congruence.
  - (* a non-object value (None included): only back-pointers move *)
    exists s. split; [exact H|].
    rewrite (set_full_eq m s x f v Hchk Hr), (set_full_twin m s x f v Hchk Hr). rewrite Ev.
    apply sim_tail; [intros g _ C; congruence|].
    intros k. rewrite uc_none_vals. apply sim_set_store. apply veq_refl.
Qed.

Theorem sym_set_full_gen s x f v :
  WF m s -> f_many (fd m f) = false -> sym m (snd (set_full m s (x, f) v)).
Proof.
  intros H Hs. destruct (set_full_reduce s x f v H Hs) as [s_pre [Hpre E]].
  apply (sym_ext m (snd (set_full (erase m) s_pre (x, f) v))); [exact E|].
  apply erase_sym.
  apply (set_gen (erase m) (erase_no_containment m) (erase_wf_opp m (wf_mm_wf_opp m W)) s_pre x f v).
  - apply (WF_Inv_erase m). exact Hpre.
  - er. exact Hs.
Qed.

End Main.

Theorem sym_set_full :
  forall m, wf_mm m -> forall s x f v,
    WF m s -> f_many (fd m f) = false -> set_fits m s x f v ->
    sym m (snd (set_full m s (x, f) v)).
Proof. intros m W s x f v H Hs _. exact (sym_set_full_gen m W s x f v H Hs). Qed.

Theorem sym_coll_add_full :
  forall m, wf_mm m -> forall s x f pos v,
    WF m s -> f_many (fd m f) = true -> add_fits m s x f v ->
    sym m (snd (coll_add_full m s (x, f) pos v)).
Proof. intros m W s x f pos v H Hm _. exact (sym_coll_add_full_gen m W s x f pos v H Hm). Qed.

(* shape travels the same way *)
Theorem shape_set_full_wf m (W : wf_mm m) s x f v :
  WF m s -> f_many (fd m f) = false -> shape m (snd (set_full m s (x, f) v)).
Proof.
  intros H Hs. destruct (set_full_reduce m W s x f v H Hs) as [s_pre [Hpre E]].
  apply (shape_ext m (snd (set_full (erase m) s_pre (x, f) v))); [exact E|].
  apply erase_shape.
  apply (set_gen (erase m) (erase_no_containment m) (erase_wf_opp m (wf_mm_wf_opp m W)) s_pre x f v).
  - apply (WF_Inv_erase m). exact Hpre.
  - er. exact Hs.
Qed.

Theorem shape_coll_add_full_wf m (W : wf_mm m) s x f pos v :
  WF m s -> f_many (fd m f) = true -> shape m (snd (coll_add_full m s (x, f) pos v)).
Proof.
  intros H Hm. destruct (coll_add_full_reduce m W s x f pos v H Hm) as [s_pre [Hpre E]].
  apply (shape_ext m (snd (coll_add_full (erase m) s_pre (x, f) pos v))); [exact E|].
  apply erase_shape.
  apply (add_gen (erase m) (erase_no_containment m) (erase_wf_opp m (wf_mm_wf_opp m W)) s_pre x f pos v).
  - apply (WF_Inv_erase m). exact Hpre.
  - er. exact Hm.
Qed.

Print Assumptions sym_set_full.
Print Assumptions sym_coll_add_full.
Print Assumptions set_full_reduce.
Print Assumptions coll_add_full_reduce.

(* ---------- non-vacuity: the premises hold somewhere, and the unlink really happens ---------- *)
Lemma WF_init m : wf_mm m -> ref_defaults_none m -> WF m (init_state m).
Proof.
  intros W Hd.
  assert (Hno : forall a f b, f_isref (fd m f) = true -> ~ In (VObj b) (vals (init_state m) (a, f))).
  { intros a f b Hr. cbn [vals init_state snd]. destruct (f_many (fd m f)) eqn:Hm; [intros []|].
    rewrite (Hd f Hr Hm). intros [H|[]]. discriminate. }
  constructor.
  - intros f g Hfg a b. pose proof (wf_opp_inv m W f g Hfg) as Hgf. unfold R.
    split; intros H; exfalso;
      [exact (Hno a f b (wf_opp_ref m W f g Hfg) H) | exact (Hno b g a (wf_opp_ref m W g f Hgf) H)].
  - intros a f. cbn [vals init_state snd]. split.
    + intros Hm. rewrite Hm. eexists; reflexivity.
    + intros _. destruct (f_many (fd m f)); [constructor | apply nodup_single].
  - intros c p f. split; [discriminate|]. intros [Hc Hin]. exfalso.
    exact (Hno p f c (wf_cont_ref m W f Hc) Hin).
  - exact (res_ok_history m []).
  - intros c r [].
Qed.

(* class 0 "Node": kids (0, containment, many, opposite parent), pet (2, containment, single, no opposite);
   class 1 "Leaf": parent (1), twin (3, containment, single, opposite twinof 4), twinof (4) *)
Definition ex_mm_link : mm :=
  {| feats := [ {| f_owner := 0; f_isref := true; f_many := true; f_unique := true; f_cont := true;
                   f_opp := Some 1; f_type := TClass 1; f_default := VNone |};
                {| f_owner := 1; f_isref := true; f_many := false; f_unique := true; f_cont := false;
                   f_opp := Some 0; f_type := TClass 0; f_default := VNone |};
                {| f_owner := 0; f_isref := true; f_many := false; f_unique := true; f_cont := true;
                   f_opp := None; f_type := TClass 1; f_default := VNone |};
                {| f_owner := 1; f_isref := true; f_many := false; f_unique := true; f_cont := true;
                   f_opp := Some 4; f_type := TClass 1; f_default := VNone |};
                {| f_owner := 1; f_isref := true; f_many := false; f_unique := true; f_cont := false;
                   f_opp := Some 3; f_type := TClass 1; f_default := VNone |} ];
     conf := [(0, 0); (1, 1)]; ocls := [0; 0; 1; 1]; enames := []; nres := 1 |}.

Ltac fcase f := destruct f as [|[|[|[|[|f]]]]]; [| | | | |destruct f]; cbn.

Lemma ex_mm_link_wf : wf_mm ex_mm_link /\ ref_defaults_none ex_mm_link.
Proof.
  split; [constructor|].
  - intros f g. fcase f; intros H; inversion H; reflexivity.
  - intros f g. fcase f; intros H; try reflexivity; discriminate.
  - intros f. fcase f; intros H; try reflexivity; discriminate.
  - intros f. fcase f; intros H _; try reflexivity; discriminate.
  - intros f g. fcase f; intros H H2; try discriminate; inversion H; subst g; split; reflexivity.
  - intros f. fcase f; intros H H2; try reflexivity; discriminate.
Qed.

Example sym_link_applies_to_the_initial_state :
  WF ex_mm_link (init_state ex_mm_link).
Proof. destruct ex_mm_link_wf as [W D]. exact (WF_init ex_mm_link W D). Qed.

(* a child moves between two parents (append), out of a `pet` slot by setting its container end,
   out of `kids` by being stored in a `pet` slot, and an object may become its own twin *)
Example sym_link_witness :
  let s0 := init_state ex_mm_link in
  let a1 := next ex_mm_link s0 (OAppend 0 0 (VObj 2)) in
  let a2 := next ex_mm_link a1 (OAppend 1 0 (VObj 2)) in
  let b1 := next ex_mm_link s0 (OSet 0 2 (VObj 2)) in
  let b2 := next ex_mm_link b1 (OSet 2 1 (VObj 1)) in
  let c2 := next ex_mm_link a1 (OSet 1 2 (VObj 2)) in
  let d1 := next ex_mm_link s0 (OSet 2 3 (VObj 2)) in
  (vals a2 (0, 0) = [] /\ vals a2 (1, 0) = [VObj 2] /\ vals a2 (2, 1) = [VObj 1] /\ cont a2 2 = Some (1, 0)) /\
  (vals b2 (0, 2) = [VNone] /\ vals b2 (1, 0) = [VObj 2] /\ vals b2 (2, 1) = [VObj 1] /\ cont b2 2 = Some (1, 0)) /\
  (vals c2 (0, 0) = [] /\ vals c2 (2, 1) = [VNone] /\ vals c2 (1, 2) = [VObj 2] /\ cont c2 2 = Some (1, 2)) /\
  (vals d1 (2, 3) = [VObj 2] /\ vals d1 (2, 4) = [VObj 2] /\ cont d1 2 = Some (2, 3)).
Proof. vm_compute. repeat split; reflexivity. Qed.
