#!/bin/bash
# usage: tools_seedtest.sh <PID> <worktree> <seeddir> [build]
# applies the seeded patch IN THE WORKTREE, confirms the demo (exit 1 with, exit 0 without) and the
# test-suite, runs the check against the worktree (VERIF_REPO); with 'build' the translators and
# the Coq build also run against the worktree (and are restored for /repo afterwards)
PID=$1; WT=$2; SD=$3; MODE=${4:-nobuild}
cd "$WT" || exit 9
git checkout -q -- pyecore 2>/dev/null
cp "$SD/demo.py" "$WT/_demo_tmp.py"
/venv/bin/python _demo_tmp.py >/dev/null 2>&1; clean=$?
git apply "$SD/patch.diff" || { echo "PATCH DOES NOT APPLY"; exit 8; }
/venv/bin/python _demo_tmp.py >/dev/null 2>&1; mutated=$?
tests=$(/venv/bin/python -m pytest -q -p no:cacheprovider -x 2>&1 | tail -1)
cd /verif
if [ "$MODE" = build ]; then
  out=$(VERIF_REPO="$WT" ./check "$PID" 2>&1 | tail -3)
else
  out=$(VERIF_REPO="$WT" ./check "$PID" --no-build 2>&1 | tail -3)
fi
cd "$WT"; git checkout -q -- pyecore; rm -f _demo_tmp.py
if [ "$MODE" = build ]; then cd /verif && ./setup.sh >/dev/null 2>&1; fi
echo "demo clean=$clean mutated=$mutated | tests: $tests"
echo "$out" | grep -v "^KNOWN" | cut -c1-220
