(* ResourceSet.can_resolve / resolve (pyecore/resources/resource.py): which registered resource a cross-document
   href reaches.  The registry `rset.resources` maps key strings (normalised absolute paths of the resources,
   plus aliases: raw strings registered for mapped/converted URIs or by hand) to resources.
   relfirst = the code as it is now (fix 6d0de70): the href is first taken relatively to the referring
   resource, the raw string is only a fallback.  rawfirst = the code before that fix.  No proofs here. *)
From Coq Require Import ZArith List Bool.
From PyecoreV Require Import Lib.PyBase Model.Paths Model.PathsIO.
Import ListNotations.
Open Scope Z_scope.

Definition registry := list (list Z * Z).

Fixpoint str_eqb (a b : list Z) : bool :=
  match a, b with
  | [], [] => true
  | x :: a', y :: b' => (x =? y) && str_eqb a' b'
  | _, _ => false
  end.

(* dict lookup; keys of a dict are distinct, the first match is the entry *)
Fixpoint lookup (k : list Z) (r : registry) : option Z :=
  match r with
  | [] => None
  | (k', v) :: r' => if str_eqb k k' then Some v else lookup k r'
  end.

(* the key under which the file named by `href`, read from the resource at `from`, is registered *)
Definition target_key (from href : path) : list Z :=
  render_norm (uri_normalize (uri_apply_relative_from_me from href)).

Definition resolve_relfirst (r : registry) (from href : path) : option Z :=
  match lookup (target_key from href) r with
  | Some x => Some x
  | None => lookup (render href) r
  end.

Definition resolve_rawfirst (r : registry) (from href : path) : option Z :=
  match lookup (render href) r with
  | Some x => Some x
  | None => lookup (target_key from href) r
  end.

(* tokens: from, href (length-prefixed strings), n, then n entries (key string, value)  ->  [found?; value] *)
Fixpoint dec_registry (n : nat) (t : list Z) : registry :=
  match n with
  | O => []
  | S n' => let (k, r1) := get_str t in
            match r1 with
            | v :: r2 => (k, v) :: dec_registry n' r2
            | [] => []
            end
  end.

Definition run_href (t : list Z) : list Z :=
  let (a, r1) := get_str t in
  let (h, r2) := get_str r1 in
  match r2 with
  | n :: r3 =>
    match resolve_relfirst (dec_registry (Z.to_nat n) r3) (parse a) (parse h) with
    | Some v => [1; v]
    | None => [0; 0]
    end
  | [] => []
  end.
