(* Model of ordered_set.OrderedSet 4.1.0 as monkey-patched by
   pyecore/ordered_set_patch.py (insert, pop, __setitem__, __getitem__,
   __delitem__).  `items` and `map` are separate fields exactly as in the
   Python object; loops over map.items() become maps over the association
   list.  Elements are integers (any hashable with == embeds).  No proofs here. *)
From Coq Require Import ZArith List Bool.
From PyecoreV Require Import Lib.PyBase Lib.PyList.
Import ListNotations.
Open Scope Z_scope.

Record oset : Type := { items : list Z; omap : list (Z * Z) }.

Definition os_empty : oset := {| items := []; omap := [] |}.

Fixpoint lookup (k : Z) (m : list (Z * Z)) : option Z :=
  match m with
  | [] => None
  | (k', v) :: m' => if k' =? k then Some v else lookup k m'
  end.

(* del map[k] (a dict holds a key once; removing every entry keeps the
   lookup law unconditional) *)
Fixpoint mdel (k : Z) (m : list (Z * Z)) : list (Z * Z) :=
  match m with
  | [] => []
  | (k', v) :: m' => if k' =? k then mdel k m' else (k', v) :: mdel k m'
  end.

(* map[k] = v : in place when the key exists, appended otherwise *)
Fixpoint mset (k v : Z) (m : list (Z * Z)) : list (Z * Z) :=
  match m with
  | [] => [(k, v)]
  | (k', v') :: m' => if k' =? k then (k', v) :: m' else (k', v') :: mset k v m'
  end.

Definition map_vals (f : Z -> Z) (m : list (Z * Z)) : list (Z * Z) :=
  map (fun kv => (fst kv, f (snd kv))) m.

(* ordered_set_patch.insert *)
Definition os_insert (index key : Z) (o : oset) : oset :=
  match lookup key (omap o) with
  | Some _ => o
  | None =>
    let size := zlen (items o) in
    let idx := if index <? 0
               then (if 0 <? size + index then size + index else 0)
               else (if index <? size then index else size) in
    {| items := py_insert idx key (items o);
       omap := mset key idx (map_vals (fun v => if idx <=? v then v + 1 else v) (omap o)) |}
  end.

(* ordered_set_patch.pop *)
Definition os_pop (index : Z) (o : oset) : res (Z * oset) :=
  match items o with
  | [] => Err KeyErr
  | _ =>
    match py_get index (items o) with
    | None => Err IndexErr
    | Some elem =>
      let idx := if index <? 0 then index + zlen (items o) else index in
      match py_pop idx (items o) with
      | None => Err IndexErr
      | Some (_, its) =>
        Ok (elem, {| items := its;
                     omap := map_vals (fun v => if idx <? v then v - 1 else v)
                                      (mdel elem (omap o)) |})
      end
    end
  end.

(* OrderedSet.add *)
Definition os_add (key : Z) (o : oset) : oset :=
  match lookup key (omap o) with
  | Some _ => o
  | None => {| items := items o ++ [key]; omap := mset key (zlen (items o)) (omap o) |}
  end.

(* OrderedSet.discard *)
Definition os_discard (key : Z) (o : oset) : res oset :=
  match lookup key (omap o) with
  | None => Ok o
  | Some i =>
    match py_pop i (items o) with
    | None => Err IndexErr
    | Some (_, its) =>
      Ok {| items := its;
            omap := map_vals (fun v => if i <=? v then v - 1 else v) (mdel key (omap o)) |}
    end
  end.

(* MutableSet.remove *)
Definition os_remove (key : Z) (o : oset) : res oset :=
  match lookup key (omap o) with
  | None => Err KeyErr
  | Some _ => os_discard key o
  end.

Definition os_clear (o : oset) : oset := os_empty.

(* OrderedSet.index on an atomic key *)
Definition os_index (key : Z) (o : oset) : res Z :=
  match lookup key (omap o) with Some i => Ok i | None => Err KeyErr end.

Definition os_contains (key : Z) (o : oset) : bool :=
  match lookup key (omap o) with Some _ => true | None => false end.

Definition os_len (o : oset) : Z := zlen (items o).

(* ordered_set_patch.__getitem__ on an int *)
Definition os_getitem (index : Z) (o : oset) : res Z :=
  match py_get index (items o) with Some x => Ok x | None => Err IndexErr end.

(* ordered_set_patch.__setitem__ on an int *)
Definition os_setitem (index item : Z) (o : oset) : res oset :=
  let index' := if index <? 0 then zlen (items o) + index else index in
  if (index <? 0) && (index' <? 0) then Err IndexErr
  else match os_pop index' o with
       | Err e => Err e
       | Ok (_, o') => Ok (os_insert index' item o')
       end.

(* ordered_set_patch.__delitem__ on an int *)
Definition os_delitem (index : Z) (o : oset) : res oset :=
  match os_pop index o with Err e => Err e | Ok (_, o') => Ok o' end.

Definition os_update (keys : list Z) (o : oset) : oset :=
  fold_left (fun acc k => os_add k acc) keys o.

(* ---------- the abstract specification: a duplicate-free Python list ---------- *)

Definition sp_insert (i x : Z) (l : list Z) : list Z :=
  if memb Z.eqb x l then l else py_insert i x l.
Definition sp_add (x : Z) (l : list Z) : list Z :=
  if memb Z.eqb x l then l else l ++ [x].
Definition sp_pop (i : Z) (l : list Z) : res (Z * list Z) :=
  match l with
  | [] => Err KeyErr
  | _ => match py_pop i l with Some r => Ok r | None => Err IndexErr end
  end.
Definition sp_remove (x : Z) (l : list Z) : res (list Z) :=
  match remove_first Z.eqb x l with Some l' => Ok l' | None => Err KeyErr end.
Definition sp_discard (x : Z) (l : list Z) : list Z :=
  match remove_first Z.eqb x l with Some l' => l' | None => l end.
Definition sp_index (x : Z) (l : list Z) : res Z :=
  match index_of Z.eqb x l with Some n => Ok (Z.of_nat n) | None => Err KeyErr end.
Definition sp_getitem (i : Z) (l : list Z) : res Z :=
  match py_get i l with Some x => Ok x | None => Err IndexErr end.
Definition sp_setitem (i x : Z) (l : list Z) : res (list Z) :=
  let i' := if i <? 0 then zlen l + i else i in
  if (i <? 0) && (i' <? 0) then Err IndexErr
  else match sp_pop i' l with
       | Err e => Err e
       | Ok (_, l') => Ok (sp_insert i' x l')
       end.
