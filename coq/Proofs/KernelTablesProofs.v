(* The two decision tables TRANSLATED from the source on every run (Gen/KernelTables.v) against what the
   hand-written kernel model assumes. *)
From Coq Require Import ZArith List Bool.
From PyecoreV Require Import Lib.PyBase Model.Kernel Model.KernelIO Gen.KernelTables.
Import ListNotations.
Local Open Scope Z_scope.

(* the member of notification.Kind a model notification kind stands for *)
Definition kind_name (k : nkind) : list Z :=
  match k with
  | KAdd => [65; 68; 68]
  | KAddMany => [65; 68; 68; 95; 77; 65; 78; 89]
  | KMove => [77; 79; 86; 69]
  | KRemove => [82; 69; 77; 79; 86; 69]
  | KRemoveMany => [82; 69; 77; 79; 86; 69; 95; 77; 65; 78; 89]
  | KSet => [83; 69; 84]
  | KUnset => [85; 78; 83; 69; 84]
  end.

Definition all_kinds : list nkind := [KAdd; KAddMany; KMove; KRemove; KRemoveMany; KSet; KUnset].

(* the numbers the model writes into its log are the values of the enumeration, member by member,
   and the enumeration has no other member *)
Theorem kind_codes_are_the_enum :
  map (fun k => (kind_name k, kind_code k)) all_kinds = kind_values.
Proof. vm_compute. reflexivity. Qed.

Theorem kind_code_in_enum k : In (kind_name k, kind_code k) kind_values.
Proof.
  rewrite <- kind_codes_are_the_enum.
  apply (in_map (fun k0 => (kind_name k0, kind_code k0)) all_kinds k). destruct k; simpl; tauto.
Qed.

(* ECollection.create: a non-derived many-valued feature gets a set-like collection exactly when it is
   declared unique, a list-like one exactly when it is not — whatever `ordered` says: the model's dispatch
   on f_unique alone is what the code does *)
Theorem create_follows_unique ordered unique :
  set_like (create_kind false ordered unique) = unique /\
  list_like (create_kind false ordered unique) = negb unique.
Proof. destruct ordered, unique; vm_compute; split; reflexivity. Qed.

Theorem create_derived_is_neither ordered unique :
  set_like (create_kind true ordered unique) = false /\ list_like (create_kind true ordered unique) = false.
Proof. destruct ordered, unique; vm_compute; split; reflexivity. Qed.
