"""Render a metamodel description (harness/kgen.py) as a STATIC pyecore
metamodel: Python classes using MetaEClass or the @EMetaclass decorator, in a
freshly created module (what pyecoregen would write), and return the same
handles kimpl.World needs (classes, feature objects, package)."""
import sys
import types

from harness import common

_counter = [0]
DTYPES = ['EInt', 'EString', 'EBoolean', 'EDouble', 'EJavaObject']


def source(mm, style, modname, nsuri, falsy=False):
    L = ['from functools import partial',
         'import pyecore.ecore as Ecore',
         'from pyecore.ecore import *',
         f"name = 'p'", f"nsURI = {nsuri!r}", "nsPrefix = 'p'",
         'eClass = EPackage(name=name, nsURI=nsURI, nsPrefix=nsPrefix)',
         'eClassifiers = {}',
         'getEClassifier = partial(Ecore.getEClassifier, searchspace=eClassifiers)']
    for en in mm.get('enums', []):
        L.append(f"{en['name']} = EEnum({en['name']!r}, literals={list(en['literals'])!r})")
    # classes in an order that respects inheritance
    done = []
    pending = list(mm['classes'])
    while pending:
        for c in list(pending):
            if all(s in done for s in c.get('supers', [])):
                bases = ', '.join(c['supers'])
                if c.get('abstract'):
                    L.append('@abstract')          # outermost: abstract() needs the eClass the metaclass creates
                if style == 'meta':
                    head = f"class {c['name']}({bases or 'EObject'}" + (", metaclass=MetaEClass):" if not bases else "):")
                else:
                    if not bases:
                        L.append('@EMetaclass')
                    head = f"class {c['name']}({bases or 'object'}):"
                L.append(head)
                body = []
                for fd in c['features']:
                    upper = -1 if fd['many'] else 1
                    if fd['kind'] == 'attr':
                        t = fd['type']
                        body.append(f"    {fd['name']} = EAttribute(eType={t}, upper={upper}, ordered={fd.get('ordered', True)}, "
                                    f"unique={fd.get('unique', True)})")
                    else:
                        body.append(f"    {fd['name']} = EReference(upper={upper}, ordered={fd.get('ordered', True)}, "
                                    f"unique={fd.get('unique', True)}, containment={fd.get('containment', False)})")
                for opd in c.get('operations', []):
                    ps = ', '.join(['self'] + [p['name'] if p['required'] else p['name'] + '=None' for p in opd['params']])
                    body.append(f"    def {opd['name']}({ps}):")
                    body.append('        return None')
                if falsy:
                    # instances that are FALSE in a boolean context (a class defining __bool__/__len__): the library must
                    # test 'is None', never the truth value of a model object; dunder methods are not reflected
                    body.append('    def __bool__(self):')
                    body.append('        return False')
                if style == 'meta':
                    body.append('    def __init__(self, **kwargs):')
                    body.append('        super().__init__()')
                    body.append('        for k, v in kwargs.items():')
                    body.append('            setattr(self, k, v)')
                elif not body:
                    body.append('    pass')
                L += body
                done.append(c['name'])
                pending.remove(c)
    for c in mm['classes']:
        for fd in c['features']:
            if fd['kind'] == 'ref':
                L.append(f"{c['name']}.{fd['name']}.eType = {fd['type']}")
    seen = set()
    for c in mm['classes']:
        for fd in c['features']:
            if fd.get('opposite'):
                oc, on = fd['opposite']
                key = tuple(sorted([(c['name'], fd['name']), (oc, on)]))
                if key in seen:
                    continue
                seen.add(key)
                L.append(f"{c['name']}.{fd['name']}.eOpposite = {oc}.{on}")
    for en in mm.get('enums', []):
        L.append(f"eClass.eClassifiers.append({en['name']})")
    return '\n'.join(L) + '\n'


def render(mm, style, falsy=False):
    """-> (module, {class name: python class}, nsURI)"""
    common.use_repo()
    _counter[0] += 1
    modname = f'verif_static_{style}_{_counter[0]}'
    nsuri = 'http://p'
    mod = types.ModuleType(modname)
    sys.modules[modname] = mod
    src = source(mm, style, modname, nsuri, falsy=falsy)
    mod.__dict__['__source__'] = src
    exec(compile(src, modname, 'exec'), mod.__dict__)
    classes = {c['name']: mod.__dict__[c['name']] for c in mm['classes']}
    return mod, classes, nsuri


def forget(mod):
    sys.modules.pop(mod.__name__, None)


def static_over_dynamic(mm, dyn_classes):
    """for every class that has supertypes (and no own features): a static class
    `class X(<dynamic EClass>..., metaclass=MetaEClass)`; the others stay dynamic"""
    common.use_repo()
    _counter[0] += 1
    modname = f'verif_mixed_{_counter[0]}'
    mod = types.ModuleType(modname)
    sys.modules[modname] = mod
    ns = mod.__dict__
    exec('from pyecore.ecore import *', ns)
    out = dict(dyn_classes)
    done = set(c['name'] for c in mm['classes'] if not c.get('supers'))
    for c in mm['classes']:
        if not c.get('supers'):
            ns[c['name']] = dyn_classes[c['name']]
    pending = [c for c in mm['classes'] if c.get('supers')]
    while pending:
        for c in list(pending):
            if all(s in done for s in c['supers']):
                if c['features']:
                    ns[c['name']] = dyn_classes[c['name']]
                else:
                    body = []
                    for opd in c.get('operations', []):
                        ps = ', '.join(['self'] + [p['name'] if p['required'] else p['name'] + '=None' for p in opd['params']])
                        body += [f"    def {opd['name']}({ps}):", '        return None']
                    body += ['    def __init__(self, **kwargs):', '        super().__init__()']
                    src = f"class {c['name']}({', '.join(c['supers'])}, metaclass=MetaEClass):\n" + '\n'.join(body) + '\n'
                    exec(compile(src, modname, 'exec'), ns)
                    out[c['name']] = ns[c['name']]
                done.add(c['name'])
                pending.remove(c)
    return out
