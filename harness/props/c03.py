"""C03 — kernel property: see DESIGN.md section 5 and harness/kprop.py."""
from harness import kgen, kprop

PID = 'C03'


def run(ctx, out):
    kprop.run(ctx, out, PID, ['C03'], {'outcome','values','isset'}, 2000, 40000, pool=None, weights={'res':0.02,'delete':0.02}, p_wrong=0.3)


def replay(ctx, rep):
    from harness import krun
    case = rep['case']
    r = krun.Run(case, ['C03']).run()
    for s in r.steps:
        print(s['op'], '->', s['outcome'])
    if r.failure:
        print('REPRODUCED', r.failure['property'], r.failure['clause'], r.failure['detail'])
        return 1
    print('not reproduced')
    return 0


def retype_scenarios(ctx, out):
    """metamodel edits interleaved with stores: after `feature.eType = T2`, values are checked against T2
    on EVERY instance, also on slots that were already used (oracle on the implementation only)."""
    from harness import common
    common.use_repo()
    from pyecore import ecore as E
    rng = ctx.rng
    types = [('EInt', E.EInt, [3, -1], ['x']), ('EString', E.EString, ['a', ''], [4, 1.5]),
             ('EBoolean', E.EBoolean, [True], ['t', 7]), ('EDouble', E.EDouble, [1.5], [2, 'z'])]
    n = 60 if ctx.tier != 'thorough' else 1500
    cnt = 0
    for i in range(n):
        many = rng.random() < 0.4
        t1, t2 = rng.sample(types, 2)
        A = E.EClass('A')
        f = E.EAttribute('v', t1[1], upper=-1 if many else 1)
        A.eStructuralFeatures.append(f)
        used, fresh = A(), A()
        hist = []
        for _ in range(rng.randrange(0, 3)):          # the slot is used (type-checked) before the edit
            v = rng.choice(t1[2] + [None])
            try:
                if many:
                    if v is not None:
                        used.v.append(v)
                else:
                    used.v = v
                hist.append(['store', v])
            except Exception:   # noqa
                pass
        f.eType = t2[1]
        hist.append(['retype', t1[0], t2[0]])
        for obj, who in ((used, 'used-slot'), (fresh, 'fresh-instance')):
            for v, conforming in [(x, True) for x in t2[2]] + [(x, False) for x in t2[3] + t1[2] if not _conf(x, t2[0])]:
                cnt += 1
                try:
                    if many:
                        obj.v.append(v)
                    else:
                        obj.v = v
                    raised = None
                except E.BadValueError:
                    raised = 'BadValueError'
                except Exception as e:  # noqa
                    raised = type(e).__name__
                case = {'many': many, 'history': hist + [['store-on', who, repr(v)]]}
                if conforming and raised == 'BadValueError':
                    out.fail({'property': 'C03', 'clause': 'accept-after-retype', 'slot': who, 'many': many},
                             f'after retyping {t1[0]}->{t2[0]} the conforming value {v!r} is refused on a {who}', case)
                if not conforming and raised != 'BadValueError':
                    out.fail({'property': 'C03', 'clause': 'reject-after-retype', 'slot': who, 'many': many},
                             f'after retyping {t1[0]}->{t2[0]} the non-conforming value {v!r} gives {raised} on a {who}', case)
    out.coverage['retype_stores_checked'] = cnt


def _conf(v, tname):
    if tname == 'EInt':
        return isinstance(v, int)
    if tname == 'EString':
        return isinstance(v, str)
    if tname == 'EBoolean':
        return isinstance(v, bool)
    if tname == 'EDouble':
        return isinstance(v, float)
    return False


_kernel_run = run


def run(ctx, out):   # noqa: F811
    _kernel_run(ctx, out)
    retype_scenarios(ctx, out)
