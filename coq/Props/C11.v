(* C11 — an object's URI fragment always resolves back to that object.
   Statements only; proofs in Proofs/C11Proofs.v over Model/Fragment.v
   (eURIFragment / Resource.resolve / _navigate_from on the kernel state).
   For every state in which single-valued containment slots agree with the
   back-pointers (the relevant part of C02), every object, single- and
   multi-root resources: whenever the positional fragment can be computed
   (index() found the object in its container's collection), the resource
   resolves it to that very object; hence two different objects never share
   a fragment.  The position used is the one index() reports, which C04
   proves is the position of iteration for unique collections.
   That premise (`single_slots_ok`) holds in EVERY REACHABLE STATE of every
   well-formed metamodel (C11_…_in_every_reachable_state below, through the global
   ownership invariant of Proofs/OwnAll.v), so the two theorems hold at any
   point of any editing history.
   PARTIAL: name-based fragments of metamodel elements and ids after a load
   are decided by the implementation oracle only (harness/props/c11.py);
   the rendering of segments as text ('/@name.index') is compared with the
   implementation by the correspondence. *)
From Coq Require Import ZArith List Bool Arith.
From PyecoreV Require Import Lib.PyBase Lib.PyList Model.Kernel Model.Fragment Proofs.C01Full Proofs.C11Proofs Proofs.WFBase
  Proofs.OwnAll Proofs.WFCorollaries Proofs.C11Hist.
Import ListNotations.

Theorem C11_fragment_resolves_to_its_object :
  forall m s fuel o root segs r pre,
    single_slots_ok m s ->
    frag_segs fuel m s o = Some (root, segs) ->
    root_prefix s (Some r) root = Some pre ->
    In root (rcont s r) ->
    resolve s r pre segs = Some o.
Proof. exact resolve_fragment. Qed.
Print Assumptions C11_fragment_resolves_to_its_object.

Theorem C11_fragments_are_distinct :
  forall m s fuel o1 o2 root1 root2 segs r pre,
    single_slots_ok m s ->
    frag_segs fuel m s o1 = Some (root1, segs) -> frag_segs fuel m s o2 = Some (root2, segs) ->
    root_prefix s (Some r) root1 = Some pre -> root_prefix s (Some r) root2 = Some pre ->
    In root1 (rcont s r) -> In root2 (rcont s r) ->
    o1 = o2.
Proof. exact fragments_distinct. Qed.
Print Assumptions C11_fragments_are_distinct.

Definition ex_mm : mm :=
  {| feats := [ {| f_owner := 0; f_isref := true; f_many := true; f_unique := true; f_cont := true;
                   f_opp := None; f_type := TClass 0; f_default := VNone |} ];
     conf := [(0, 0)]; ocls := [0; 0; 0; 0]; enames := []; nres := 1 |}.

Example C11_witness :
  let s := fold_left (next ex_mm)
             [OAppend 0 0 (VObj 1); OAppend 0 0 (VObj 2); ORAppend 0 0; ORAppend 0 3; OPop 0 0 0] (init_state ex_mm) in
  frag_segs 5 ex_mm s 2 = Some (0, [SMany 0 0]) /\ root_prefix s (Some 0) 0 = Some (Some 0) /\
  resolve s 0 (Some 0) [SMany 0 0] = Some 2.
Proof. vm_compute. repeat split; reflexivity. Qed.

(* ---------- at any point of any editing history ---------- *)
Theorem C11_fragment_resolves_to_its_object_in_every_reachable_state :
  forall m, wf_mm m -> ref_defaults_none m -> forall ops, Forall (op_many m) ops ->
  forall fuel o root segs r pre,
    frag_segs fuel m (reach m ops) o = Some (root, segs) ->
    root_prefix (reach m ops) (Some r) root = Some pre ->
    In root (rcont (reach m ops) r) ->
    resolve (reach m ops) r pre segs = Some o.
Proof. exact reach_resolve_fragment. Qed.
Print Assumptions C11_fragment_resolves_to_its_object_in_every_reachable_state.

Theorem C11_fragments_are_distinct_in_every_reachable_state :
  forall m, wf_mm m -> ref_defaults_none m -> forall ops, Forall (op_many m) ops ->
  forall fuel o1 o2 root1 root2 segs r pre,
    frag_segs fuel m (reach m ops) o1 = Some (root1, segs) ->
    frag_segs fuel m (reach m ops) o2 = Some (root2, segs) ->
    root_prefix (reach m ops) (Some r) root1 = Some pre -> root_prefix (reach m ops) (Some r) root2 = Some pre ->
    In root1 (rcont (reach m ops) r) -> In root2 (rcont (reach m ops) r) ->
    o1 = o2.
Proof. exact reach_fragments_distinct. Qed.
Print Assumptions C11_fragments_are_distinct_in_every_reachable_state.
