"""C19 — kernel property: see DESIGN.md section 5 and harness/kprop.py."""
from harness import kgen, kprop

PID = 'C19'


def run(ctx, out):
    kprop.run(ctx, out, PID, ['C19'], {'outcome','values','ownership','views'}, 1500, 30000, pool=kgen.CONT_TEMPLATES+['p1n','rn','ai','snn'], weights={'res':0.1,'delete':0.05}, p_wrong=0.05)


def replay(ctx, rep):
    from harness import krun
    case = rep['case']
    r = krun.Run(case, ['C19']).run()
    for s in r.steps:
        print(s['op'], '->', s['outcome'])
    if r.failure:
        print('REPRODUCED', r.failure['property'], r.failure['clause'], r.failure['detail'])
        return 1
    print('not reproduced')
    return 0
